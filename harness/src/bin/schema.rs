//! `schema c18 <outdir> <n>`        generated syntactically valid schemas with arbitrary layout
//! `schema c18files <outdir> <list>` every schema file named in <list> (one path per line)
//! `schema c17 <outdir> <n> <list>`  token soups, mutations of the listed files and of generated
//!                                   schemas, valid schemas with adversarial doc comments
//! `schema one <c18|c17> <outdir> <file> [imports-spec]`  replay of a single source text
//! Output (like codec.rs): cases.txt (ops for extract/schema_driver.ml), impl.txt (what the real
//! code answered), monitor.txt (property violations seen on the real code alone), tie.txt
//! (correspondence breaks that are not property violations), stats.json.
#![allow(clippy::all)]
#[path = "../schema/ast.rs"]
mod ast;
#[path = "../schema/gen.rs"]
mod gen;
#[path = "../schema/layout.rs"]
mod layout;
#[path = "../schema/run.rs"]
mod run;

use run::{Imports, Out};
use std::fmt::Write as _;
use verif_harness::{catch, env_u64, hex, quiet_panics, unhex, Rng};

fn write_out(dir: &str, o: &Out, tie: &str, extra: &str) {
    std::fs::create_dir_all(dir).unwrap();
    std::fs::write(format!("{dir}/cases.txt"), &o.cases).unwrap();
    std::fs::write(format!("{dir}/impl.txt"), &o.imp).unwrap();
    std::fs::write(format!("{dir}/monitor.txt"), &o.monitor).unwrap();
    std::fs::write(format!("{dir}/tie.txt"), tie).unwrap();
    let mut s = String::from("{\n");
    writeln!(s, " \"seed\": {},", env_u64("VERIF_SEED", 1)).unwrap();
    writeln!(s, " \"distinct_nontrivial\": {},", o.distinct.len()).unwrap();
    s.push_str(" \"result_classes\": {");
    s.push_str(&o.counts.iter().map(|(k, v)| format!("\"{}\": {}", k, v)).collect::<Vec<_>>().join(", "));
    s.push_str("},\n \"diagnostic_kinds\": {");
    s.push_str(&o.kinds.iter().map(|(k, v)| format!("\"{}\": {}", k, v)).collect::<Vec<_>>().join(", "));
    s.push_str("},\n");
    s.push_str(extra);
    s.push_str(" \"samples\": [");
    s.push_str(&o.samples.iter().take(4).map(|x| format!("\"{}\"", hex(x.as_bytes()))).collect::<Vec<_>>().join(", "));
    s.push_str("]\n}\n");
    std::fs::write(format!("{dir}/stats.json"), s).unwrap();
}

fn read_list(path: &str) -> Vec<(String, String)> {
    let mut v = Vec::new();
    for l in std::fs::read_to_string(path).unwrap().lines() {
        if l.trim().is_empty() {
            continue;
        }
        if let Ok(s) = std::fs::read_to_string(l) {
            v.push((l.to_owned(), s));
        }
    }
    v
}

/// sibling schema files of `path` as resolvable imports
fn siblings(path: &str, all: &[(String, String)]) -> Imports {
    let dir = std::path::Path::new(path).parent().map(|p| p.to_owned());
    let mut v: Imports = Vec::new();
    for (p, s) in all {
        let pp = std::path::Path::new(p);
        if p != path && pp.parent().map(|x| x.to_owned()) == dir {
            if let Some(stem) = pp.file_stem().and_then(|s| s.to_str()) {
                v.push((stem.to_owned(), Some(s.clone())));
            }
        }
    }
    v
}

fn c18(dir: &str, n: u64) {
    let mut rng = Rng::new(env_u64("VERIF_SEED", 1));
    let mut o = Out::default();
    let imports = run::std_imports();
    let mut styles = [0u64; 3];
    let mut bytes = 0usize;
    for i in 0..n {
        let budget = *rng.pick(&[4i64, 10, 25, 60, 120]);
        let a = gen::Gen::new(&mut rng, budget).schema();
        let (src, style) = {
            let mut l = layout::Layout::new(&mut rng);
            l.schema(&a);
            (l.out, l.style)
        };
        styles[style as usize] += 1;
        bytes += src.len();
        if i < 4 {
            o.samples.push(src.clone());
        }
        run::check_c18(&src, &imports, Some(&a), &mut o);
    }
    let extra = format!(
        " \"inputs\": {},\n \"source_bytes\": {},\n \"streams\": {{\"layout_canonical\": {}, \"layout_compact\": {}, \"layout_chaotic\": {}}},\n",
        n, bytes, styles[0], styles[1], styles[2]
    );
    write_out(dir, &o, "", &extra);
}

fn c18files(dir: &str, list: &str) {
    let files = read_list(list);
    let mut o = Out::default();
    let mut valid = 0;
    for (p, s) in &files {
        let imps = siblings(p, &files);
        if run::check_c18(s, &imps, None, &mut o) {
            valid += 1;
        }
        if o.samples.len() < 2 {
            o.samples.push(p.clone());
        }
    }
    let extra = format!(" \"inputs\": {},\n \"streams\": {{\"repository_files\": {}, \"repository_files_syntactically_valid\": {}}},\n", files.len(), files.len(), valid);
    write_out(dir, &o, "", &extra);
}

// ------------------------------------------------------------------ C17

const SOUP: [&str; 70] = [
    "import", "struct", "enum", "service", "fn", "event", "const", "newtype", "required", "u8", "i64", "string",
    "uuid", "bool", "value", "box", "vec", "bytes", "map", "set", "option", "version", "args", "ok", "err", "sender",
    "receiver", "lifetime", "unit", "result", "fallback", "object_id", "service_id", "f32", ";", "=", "(", ")", "<", ">",
    "->", "::", "#", "[", "]", ",", "{", "}", "@", "!", "-", ":", "/", "x", "Foo", "_", "é", "1", "-1", "007",
    "6ac4a2ad-5b0a-4a5e-9a3c-0a1b2c3d4e5f", "\"s\"", "\"\\\"\"", "\"", "// c\n", "/// d\n", "//! i\n", "//", "€", "\u{301}",
];

fn soup(rng: &mut Rng) -> String {
    let n = rng.below(40);
    let mut s = String::new();
    for _ in 0..n {
        s.push_str(*rng.pick(&SOUP));
        match rng.below(10) {
            0 | 1 | 2 => {}
            3 => s.push('\n'),
            4 => s.push_str("\r\n"),
            5 => s.push('\t'),
            6 => s.push(*rng.pick(&['\u{a0}', '\u{2028}', '\r', '\u{3000}', '\u{b}'])),
            _ => s.push(' '),
        }
    }
    s
}

/// a grammar-shaped soup: mostly right token sequences with local damage
fn near_valid(rng: &mut Rng) -> String {
    let budget = *rng.pick(&[4i64, 10, 30]);
    let a = gen::Gen::new(rng, budget).schema();
    let s = layout::render(rng, &a);
    mutate(rng, &s)
}

fn char_starts(s: &str) -> Vec<usize> {
    let mut v: Vec<usize> = s.char_indices().map(|(i, _)| i).collect();
    v.push(s.len());
    v
}

fn mutate(rng: &mut Rng, s: &str) -> String {
    let mut cur = s.to_owned();
    for _ in 0..1 + rng.below(3) {
        let cs = char_starts(&cur);
        let at = cs[rng.below(cs.len() as u64) as usize];
        let at2 = cs[rng.below(cs.len() as u64) as usize];
        let (lo, hi) = (at.min(at2), at.max(at2));
        cur = match rng.below(9) {
            0 => format!("{}{}", &cur[..lo], &cur[hi..]),                              // delete a range
            1 => format!("{}{}{}", &cur[..at], rng.pick(&SOUP), &cur[at..]),             // insert a token
            2 => cur[..at].to_owned(),                                                   // truncate
            3 => format!("{}{}{}", &cur[..hi], &cur[lo..hi], &cur[hi..]),               // duplicate a range
            4 => {
                let c = *rng.pick(&['\r', '\n', '\t', '/', '!', '"', '\\', '{', '}', '\u{a0}', 'é', '中', '😀', '\u{301}', ' ', '@', '-']);
                let nxt = cs.iter().copied().find(|&x| x > at).unwrap_or(cur.len());
                format!("{}{}{}", &cur[..at], c, &cur[nxt..])                          // replace one char
            }
            5 => {
                // remove a whitespace run
                let b = cur.as_bytes();
                let mut e = at;
                while e < b.len() && (b[e] == b' ' || b[e] == b'\n') {
                    e += 1;
                }
                format!("{}{}", &cur[..at], &cur[e..])
            }
            6 => cur.replace('\n', "\r\n"),
            7 => cur.replacen(";", "", 1),
            _ => format!("{}{}{}", &cur[..at], rng.pick(&["/// [x](", "//! [`a`] é", "// \r", "#[a(b,)]", "required ", " = fallback;"]), &cur[at..]),
        };
        if cur.len() > 20000 {
            cur.truncate(char_starts(&cur).into_iter().filter(|&i| i <= 20000).last().unwrap_or(0));
        }
    }
    cur
}

const DOC_PIECES: [&str; 48] = [
    "[", "]", "(", ")", "`", "Foo", "self::", "::", "nope", " ", " ", "\t", "\r", "é", "中", "😀", "*", "_", "<", ">",
    "http://x.y", "!", "\\", "|", "-", "#", "&amp;", "\"", "'", "--", "...", "[^", "]:", "x", "X", "Bar", "dep_a::Foo",
    "[Foo]", "[x](Foo)", "[`Foo`]", "[a\rb]", "\u{a0}", "\u{301}", "a", "1.", "- ", "> ", "    ",
];

fn adversarial_doc(rng: &mut Rng) -> String {
    let mut s = String::new();
    for _ in 0..1 + rng.below(10) {
        s.push_str(*rng.pick(&DOC_PIECES));
    }
    s.trim_end().to_owned()
}

fn inject_docs(rng: &mut Rng, a: &mut ast::Schema) {
    let mk = |rng: &mut Rng| -> Vec<String> { (0..1 + rng.below(4)).map(|_| adversarial_doc(rng)).collect() };
    if rng.chance(1, 2) {
        a.doc = mk(rng);
    }
    for d in &mut a.defs {
        match d {
            ast::Def::Struct(s) => {
                s.doc = mk(rng);
                for f in &mut s.fields {
                    if rng.chance(1, 2) {
                        f.doc = mk(rng);
                    }
                }
            }
            ast::Def::Enum(s) => {
                s.doc = mk(rng);
                for f in &mut s.vars {
                    if rng.chance(1, 2) {
                        f.doc = mk(rng);
                    }
                }
            }
            ast::Def::Service(s) => {
                s.doc = mk(rng);
                for i in &mut s.items {
                    match i {
                        ast::Item::Fn(f) => f.doc = mk(rng),
                        ast::Item::Ev(e) => e.doc = mk(rng),
                    }
                }
            }
            ast::Def::Const(s) => s.doc = mk(rng),
            ast::Def::Newtype(s) => s.doc = mk(rng),
        }
    }
}

/// transcription of BrokenDocLink::linecol_to_index (mirrors coq/Schema/Span.v); Err = arithmetic underflow
fn linecol(docs: &[(usize, usize, String)], line: usize, col: usize, end: bool) -> Result<Option<usize>, ()> {
    let mut ln = 0usize;
    for (start, _, value) in docs {
        let mut offset = 0usize;
        for part in value.split('\r') {
            ln += 1;
            if ln == line {
                if col > part.len() {
                    return Ok(None);
                }
                let idx = (offset + col).checked_sub(1).ok_or(())? + end as usize;
                return Ok(if value.is_char_boundary(idx) { Some(start + idx) } else { None });
            }
            offset += part.len() + 1;
        }
    }
    Ok(None)
}

struct SpanCase {
    docs: Vec<(usize, usize, String)>,
    pos: (usize, usize, usize, usize),
    error: String,
}

/// replicate BrokenDocLink::validate on every doc list of the main schema with the same comrak
/// options, and collect the source positions of the links that do not resolve
fn expected_broken_links(p: &aldrin_parser::Parser) -> Vec<SpanCase> {
    use comrak::nodes::NodeValue;
    use comrak::options::BrokenLinkReference;
    use comrak::{Arena, Options, ResolvedReference};
    use std::sync::Arc;
    let schema = p.main_schema();
    let mut out = Vec::new();
    for docs in ast::doc_lists(schema) {
        if docs.is_empty() {
            continue;
        }
        let mut text = String::new();
        for d in docs {
            text.push_str(d.value_inner());
            text.push('\n');
        }
        let mut options = Options::default();
        options.extension.footnotes = true;
        options.extension.strikethrough = true;
        options.extension.table = true;
        options.extension.tasklist = true;
        options.parse.smart = true;
        options.parse.broken_link_callback = Some(Arc::new(|link: BrokenLinkReference| {
            aldrin_parser::LinkResolver::convert_broken_link(link.original).map(|link| ResolvedReference { url: link.to_owned(), title: String::new() })
        }));
        let arena = Arena::new();
        let root = comrak::parse_document(&arena, &text, &options);
        let lr = aldrin_parser::LinkResolver::new(p, schema);
        for node in root.descendants() {
            let data = node.data.borrow();
            let NodeValue::Link(ref link) = data.value else { continue };
            if let Err(e) = lr.resolve(&link.url) {
                let sp = data.sourcepos;
                out.push(SpanCase {
                    docs: docs.iter().map(|d| (d.span_inner().start, d.span_inner().end, d.value_inner().to_owned())).collect(),
                    pos: (sp.start.line, sp.start.column, sp.end.line, sp.end.column),
                    error: e.to_string(),
                });
            }
        }
    }
    out
}

fn span_of(c: &SpanCase) -> Result<(usize, usize), ()> {
    let s = linecol(&c.docs, c.pos.0, c.pos.1, false)?;
    let e = match s {
        Some(_) => linecol(&c.docs, c.pos.2, c.pos.3, true)?,
        None => None,
    };
    Ok(match (s, e) {
        (Some(s), Some(e)) => (s, e),
        _ => {
            let (fs, _, _) = &c.docs[0];
            let (_, le, _) = c.docs.last().unwrap();
            (*fs, *le)
        }
    })
}

fn parse_span_num(d: &str, key: &str) -> Option<usize> {
    let i = d.find(key)? + key.len();
    d[i..].chars().take_while(|c| c.is_ascii_digit()).collect::<String>().parse().ok()
}

fn c17_one(src: &Option<String>, imports: &Imports, variant: u64, stream: &str, o: &mut Out, tie: &mut String) {
    let s_for_mon = src.clone().unwrap_or_default();
    o.count(&format!("stream:{}", stream));
    let r1 = catch(|| run::front_end(src, imports, variant));
    let r2 = catch(|| run::front_end(src, imports, variant));
    let (a, b) = match (r1, r2) {
        (Ok(a), Ok(b)) => (a, b),
        (Err(m), _) | (_, Err(m)) => {
            o.mon(&format!("panic:{}", m.chars().take(60).collect::<String>().replace(' ', "_")), &s_for_mon, imports, &format!("variant {} {}", variant, m));
            if let Some(s) = src {
                o.case(&format!("parse {}", hex(s.as_bytes())), "-");
            }
            return;
        }
    };
    if a.sigs != b.sigs {
        let only1: Vec<_> = a.sigs.iter().filter(|s| !b.sigs.contains(s)).collect();
        let only2: Vec<_> = b.sigs.iter().filter(|s| !a.sigs.contains(s)).collect();
        let all_dup_uuid = only1.iter().chain(only2.iter()).all(|s| run::kind_of(s) == "DuplicateServiceUuid");
        let all_free_id = only1.iter().chain(only2.iter()).all(|s| {
            let k = run::kind_of(s);
            k == "DuplicateFunctionId" || k == "DuplicateEventId" || k == "DuplicateStructFieldId" || k == "DuplicateEnumVariantId"
        });
        let what = if all_dup_uuid {
            "diagnostics_not_repeatable:DuplicateServiceUuid_attribution"
        } else if all_free_id {
            "diagnostics_not_repeatable:free_id_suggestion"
        } else {
            "diagnostics_not_repeatable:other"
        };
        o.mon(what, &s_for_mon, imports, &format!("variant {}\nfirst only: {:?}\nsecond only: {:?}", variant, only1, only2));
    } else if a.rendered != b.rendered {
        o.mon("rendering_not_repeatable", &s_for_mon, imports, &format!("variant {}", variant));
    }
    if a.raw_order != b.raw_order {
        o.count("note:diagnostic_order_varies");
    }
    if a.formatted != b.formatted || a.generated != b.generated || a.ast != b.ast {
        o.mon("output_not_repeatable", &s_for_mon, imports, &format!("variant {}", variant));
    }
    if a.generated.is_some() && a.n_errors != 0 {
        o.mon("codegen_reached_with_errors", &s_for_mon, imports, "");
    }
    if let Some(g) = &a.generated {
        o.count(if g.starts_with("!ERR") { "class:codegen_err" } else { "class:codegen_ok" });
    }
    o.count(if a.syntax { "class:syntax_error" } else if a.n_errors > 0 { "class:semantic_errors" } else { "class:no_errors" });
    o.count(if a.formatted.is_some() { "class:formatted" } else { "class:formatter_refused" });
    for s in &a.sigs {
        *o.kinds.entry(run::kind_of(s)).or_insert(0) += 1;
    }
    if let Some(s) = src {
        if s.len() >= 2 {
            o.distinct.insert(run::fnv(s));
        }
        match &a.ast {
            Some(d) => o.case(&format!("parse {}", hex(s.as_bytes())), &format!("ok {}", d)),
            None => o.case(&format!("parse {}", hex(s.as_bytes())), "err"),
        }
        // span correspondence and span monitors (main schema only)
        if !a.syntax {
            let p = run::parse(run::MAIN, s, imports);
            let mut actual: Vec<(usize, usize, String)> = Vec::new();
            for w in p.warnings() {
                let d = format!("{:?}", w);
                if run::kind_of(&d) == "BrokenDocLink" {
                    let st = parse_span_num(&d, "start: ").unwrap_or(usize::MAX);
                    let en = parse_span_num(&d, "end: ").unwrap_or(usize::MAX);
                    let err = d.find("error: ").map(|i| d[i + 7..].to_owned()).unwrap_or_default();
                    if !(st <= en && en <= s.len() && s.is_char_boundary(st) && s.is_char_boundary(en)) {
                        o.mon("doc_link_span_out_of_bounds", s, imports, &d);
                    }
                    actual.push((st, en, err));
                    o.count("class:broken_doc_link_warning");
                }
            }
            match catch(|| expected_broken_links(&p)) {
                Err(m) => writeln!(tie, "comrak_replication_panic {} input={}", m.replace(' ', "_"), hex(s.as_bytes())).unwrap(),
                Ok(cases) => {
                    let mut exp: Vec<(usize, usize)> = Vec::new();
                    let mut lines = Vec::new();
                    let mut underflow = false;
                    for c in &cases {
                        if c.pos.1 == 0 || c.pos.3 == 0 {
                            o.count("note:comrak_column_zero");
                        }
                        let mut case = format!("span {}", c.docs.len());
                        for (st, en, v) in &c.docs {
                            write!(case, " {} {} s{}", st, en, hex(v.as_bytes())).unwrap();
                        }
                        write!(case, " {} {} {} {}", c.pos.0, c.pos.1, c.pos.2, c.pos.3).unwrap();
                        match span_of(c) {
                            Ok((st, en)) => {
                                exp.push((st, en));
                                lines.push((case, format!("{} {}", st, en)));
                                let direct = linecol(&c.docs, c.pos.0, c.pos.1, false) != Ok(None);
                                o.count(if direct { "class:span_direct" } else { "class:span_fallback" });
                            }
                            Err(()) => {
                                underflow = true;
                                lines.push((case, "underflow".into()));
                            }
                        }
                    }
                    let mut act: Vec<(usize, usize)> = actual.iter().map(|x| (x.0, x.1)).collect();
                    act.sort();
                    exp.sort();
                    if underflow {
                        // the real code would have panicked (overflow checks) or wrapped; we got here without a panic
                        writeln!(tie, "span_underflow_predicted_but_no_panic input={}", hex(s.as_bytes())).unwrap();
                    } else if act != exp {
                        writeln!(tie, "span_mismatch expected={:?} actual={:?} input={}", exp, act, hex(s.as_bytes())).unwrap();
                    }
                    for (c, i) in lines {
                        o.case(&c, &i);
                    }
                }
            }
        }
    }
}

fn c17(dir: &str, n: u64, list: &str) {
    let files = read_list(list);
    let mut rng = Rng::new(env_u64("VERIF_SEED", 1));
    let mut o = Out::default();
    let mut tie = String::new();
    for i in 0..n {
        let variant = rng.below(256);
        let stream = rng.below(10);
        let (src, name): (Option<String>, &str) = match stream {
            0 | 1 => (Some(soup(&mut rng)), "token_soup"),
            2 => (Some(near_valid(&mut rng)), "mutated_generated"),
            3 | 4 | 5 if !files.is_empty() => {
                let (_, s) = &files[rng.below(files.len() as u64) as usize];
                (Some(mutate(&mut rng, s)), "mutated_repository_file")
            }
            6 if !files.is_empty() => (Some(files[(i as usize) % files.len()].1.clone()), "repository_file"),
            9 if rng.chance(1, 10) => (None, "unreadable_main"),
            _ => {
                let mut a = gen::Gen::new(&mut rng, 30).schema();
                inject_docs(&mut rng, &mut a);
                (Some(layout::render(&mut rng, &a)), "valid_adversarial_docs")
            }
        };
        let imports: Imports = match rng.below(6) {
            0 => Vec::new(),
            1 | 2 => run::std_imports(),
            3 => vec![("dep_a".into(), None), ("dep_b".into(), Some(run::DEP_B.into()))],
            4 => vec![("dep_a".into(), Some(near_valid(&mut rng))), ("dep_b".into(), Some(soup(&mut rng)))],
            _ => {
                // an import that defines a service with the same uuid as one of ours, and a cycle
                vec![("dep_a".into(), Some(format!("import main;\nimport dep_b;\n{}", run::DEP_A))), ("dep_b".into(), Some(run::DEP_A.into()))]
            }
        };
        if i < 4 {
            if let Some(s) = &src {
                o.samples.push(s.clone());
            }
        }
        c17_one(&src, &imports, variant, name, &mut o, &mut tie);
    }
    write_out(dir, &o, &tie, &format!(" \"inputs\": {},\n", n));
}

fn parse_imports(spec: &str) -> Imports {
    let mut v = Vec::new();
    for part in spec.split('|') {
        if let Some((n, h)) = part.split_once(':') {
            v.push((n.to_owned(), if h == "!" { None } else { Some(String::from_utf8_lossy(&unhex(h)).into_owned()) }));
        }
    }
    v
}

fn main() {
    if std::env::var("VERIF_LOUD").is_err() {
        quiet_panics();
    }
    let args: Vec<String> = std::env::args().collect();
    match args.get(1).map(|s| s.as_str()) {
        Some("c18") => c18(&args[2], args[3].parse().unwrap()),
        Some("c18files") => c18files(&args[2], &args[3]),
        Some("c17") => c17(&args[2], args[3].parse().unwrap(), &args[4]),
        Some("one") => {
            let src = std::fs::read_to_string(&args[4]).unwrap();
            let imports = match args.get(5) {
                Some(s) if s == "std" => run::std_imports(),
                Some(s) => parse_imports(s),
                None => Vec::new(),
            };
            let mut o = Out::default();
            let mut tie = String::new();
            if args[2] == "c18" {
                run::check_c18(&src, &imports, None, &mut o);
            } else {
                let vs: Vec<u64> = match std::env::var("VERIF_VARIANT") { Ok(v) => vec![v.parse().unwrap()], Err(_) => vec![0u64, 3, 255, 16, 32, 64, 128, 1, 2, 4] };
                for variant in vs {
                    c17_one(&Some(src.clone()), &imports, variant, "replay", &mut o, &mut tie);
                }
            }
            write_out(&args[3], &o, &tie, "");
            print!("{}", o.monitor);
            print!("{}", tie);
        }
        _ => {
            eprintln!("usage: schema c18|c18files|c17|one ...");
            std::process::exit(2);
        }
    }
}
