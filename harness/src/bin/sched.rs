//! harness `sched` — C06 "clients and broker agree under every schedule".
//!
//! `sched gen <outdir> <cases> <ops-per-client> [opts]`   random programs, VERIF_SEED
//! `sched run <case-file> <outdir> [reps]`                 re-run stored cases (one per line)
//!
//! One case = 2..4 REAL clients (`Client::run`) + the REAL broker (`Broker::run`) + one
//! `Connection::run` per client + one application task per client + one server task per created
//! service, all on a single-threaded executor that honours wakers: a task is polled only after it
//! was woken, and the scheduler picks the next task among the woken ones with the seeded PRNG
//! (optionally with spurious polls).  Transports: `channel::unbounded()` or `channel::bounded(k)`,
//! k in 1..16, wrapped in a tap that records every message the client side sends/receives.
//!
//! An application task interprets a *program*: a list of operations over the public API whose
//! parameters are all part of the program (nothing is drawn at run time), so that a failing
//! program can be shrunk by delta debugging on the operation list.
//!
//! Oracle (the property statement): every `Client::run()` returns `Ok`; no task panics; no API
//! call returns an error outside the set documented for it in the given situation; a call returns
//! the value computed for that very call; items arrive in order without gaps; when no task is
//! runnable any more every task has finished (an awaited operation whose peer has acted is never
//! left pending: no lost wake-up, no deadlock), which includes `shutdown_idle` after all clients
//! are gone; the poll budget is not exhausted (no livelock).
#![allow(clippy::all)]
use aldrin::core::channel::{self, Disconnected};
use aldrin::core::message::Message;
use aldrin::core::transport::AsyncTransport;
use aldrin::core::{
    BusListenerFilter, BusListenerScope, ChannelCookie, ObjectUuid, ServiceId, ServiceUuid,
};
use aldrin::error::RunError;
use aldrin::low_level::{
    PendingReceiver, PendingReply, PendingSender, Proxy, Receiver, Sender, Service, ServiceInfo,
    UnboundReceiver, UnboundSender, UnclaimedReceiver, UnclaimedSender,
};
use aldrin::{BusListener, Client, Error, Handle, Object};
use aldrin_broker::Broker;
use std::cell::{Cell, RefCell};
use std::collections::{BTreeMap, HashMap, HashSet, VecDeque};
use std::fmt::Write as _;
use std::future::{poll_fn, Future};
use std::panic::{catch_unwind, AssertUnwindSafe};
use std::pin::Pin;
use std::rc::Rc;
use std::sync::atomic::{AtomicBool, AtomicU64, Ordering};
use std::sync::{Arc, Mutex};
use std::task::{Context, Poll, Wake, Waker};
use uuid::Uuid;
use verif_harness::msgfmt::{fmt_msg, Ids};
use verif_harness::{env_u64, Rng};

// ------------------------------------------------------------------------------------------
// programs

#[derive(Clone, Copy, Debug, PartialEq, Eq)]
struct Op {
    k: &'static str,
    a: u32,
    b: u32,
    c: u32,
}

/// name, number of parameters
const OPS: &[(&str, usize)] = &[
    ("co", 1),  // create object (uuid index)
    ("do", 2),  // destroy object i (1 = explicit destroy().await, 0 = drop)
    ("cs", 3),  // create service on object i, uuid index, version
    ("sv", 3),  // server command: service j, 0 emit / 1 destroy / 2 stop, event
    ("px", 1),  // create proxy for global service g
    ("ca", 3),  // call: proxy p, function*8+class, mode (0 await,1 drop,2 poll once+drop,3 hold)
    ("aw", 1),  // await held call i
    ("su", 2),  // subscribe proxy p event
    ("us", 2),  // unsubscribe proxy p event
    ("sa", 1),  // subscribe all
    ("ua", 1),  // unsubscribe all
    ("pe", 2),  // poll events of proxy p, up to n
    ("dp", 1),  // drop proxy p
    ("ks", 1),  // create channel claiming the sender; unclaimed end: 0 unbind->pool, 1 keep
    ("kr", 2),  // create channel claiming the receiver (capacity); same
    ("clr", 3), // claim receiver from pool entry g with capacity; c: bit0 leave in pool, bit1 cancel
    ("cls", 2), // claim sender from pool entry g; b: bit0 leave in pool, bit1 cancel
    ("llr", 3), // claim local unclaimed receiver i with capacity; c: 1 cancel
    ("lls", 2), // claim local unclaimed sender i; b: 1 cancel
    ("ul", 3),  // local unclaimed end: a 0 sender/1 receiver, index, 0 drop/1 close().await/2 unbind->pool
    ("es", 3),  // establish pending sender i: tries, if not ready 0 keep/1 drop/2 close().await
    ("er", 3),  // establish pending receiver i
    ("sd", 2),  // send up to n items on sender i
    ("rv", 2),  // receive up to n items on receiver i
    ("xs", 2),  // close sender i (0 drop, 1 close().await)
    ("xr", 2),  // close receiver i
    ("bc", 0),  // create bus listener
    ("bf", 3),  // listener i, filter f, 0 add/1 remove/2 clear
    ("bs", 2),  // start listener i with scope
    ("bt", 1),  // stop listener i
    ("bp", 2),  // poll listener i up to n events
    ("bd", 2),  // listener i: 1 destroy().await then drop, 0 drop
    ("sy", 1),  // sync: 0 client, 1 broker
    ("yi", 1),  // yield n times
    ("sh", 0),  // Handle::shutdown()
];

fn op_name(s: &str) -> Option<(&'static str, usize)> {
    OPS.iter().find(|(n, _)| *n == s).map(|(n, k)| (*n, *k))
}

impl Op {
    fn new(k: &str, a: u32, b: u32, c: u32) -> Op {
        Op { k: op_name(k).expect("op name").0, a, b, c }
    }
    fn text(&self) -> String {
        let n = op_name(self.k).unwrap().1;
        let mut s = self.k.to_string();
        for v in [self.a, self.b, self.c].iter().take(n) {
            write!(s, ".{v}").unwrap();
        }
        s
    }
    fn parse(s: &str) -> Option<Op> {
        let mut it = s.split('.');
        let (k, n) = op_name(it.next()?)?;
        let mut v = [0u32; 3];
        for x in v.iter_mut().take(n) {
            *x = it.next()?.parse().ok()?;
        }
        Some(Op { k, a: v[0], b: v[1], c: v[2] })
    }
}

#[derive(Clone, Debug)]
struct Case {
    n: usize,
    fifo: usize, // 0 = unbounded
    sched: u64,
    spurious: u32, // spurious polls per 64 scheduling decisions
    /// applications keep everything they hold until every program has finished (used together
    /// with a generator that closes no pending end, so that no claim is ever refused)
    barrier: bool,
    /// per-mille probability that the tap disturbs a message on its way to the client (drop,
    /// duplicate, re-deliver an old one, swap with the next).  Such a case is NOT judged by the
    /// property oracle: it only produces sessions for the acceptance-automaton correspondence.
    faults: u32,
    ops: Vec<(usize, Op)>, // (client, op) — per client in order
}

impl Case {
    fn text(&self) -> String {
        let mut s = format!("n={} fifo={} sched={} spur={} barrier={} faults={} |", self.n, self.fifo, self.sched, self.spurious, self.barrier as u8, self.faults);
        for (c, o) in &self.ops {
            write!(s, " {}:{}", c, o.text()).unwrap();
        }
        s
    }
    fn parse(line: &str) -> Option<Case> {
        let (head, body) = line.split_once('|')?;
        let mut c = Case { n: 2, fifo: 0, sched: 1, spurious: 0, barrier: false, faults: 0, ops: vec![] };
        for kv in head.split_whitespace() {
            let (k, v) = kv.split_once('=')?;
            match k {
                "n" => c.n = v.parse().ok()?,
                "fifo" => c.fifo = v.parse().ok()?,
                "sched" => c.sched = v.parse().ok()?,
                "spur" => c.spurious = v.parse().ok()?,
                "barrier" => c.barrier = v == "1",
                "faults" => c.faults = v.parse().ok()?,
                _ => return None,
            }
        }
        for t in body.split_whitespace() {
            let (w, o) = t.split_once(':')?;
            c.ops.push((w.parse().ok()?, Op::parse(o)?));
        }
        Some(c)
    }
}

#[derive(Clone, Copy)]
struct GenOpts {
    failing_claims: bool, // claims that the broker refuses (pool entries left behind, closed peers)
    cancel_claims: bool,  // claim futures dropped while the request is in flight
    shutdown_op: bool,
}

fn gen_program(r: &mut Rng, who: usize, len: usize, o: GenOpts, out: &mut Vec<(usize, Op)>) {
    // optimistic counts of what the client holds, only to bias the choice towards applicable ops
    let (mut objs, mut svcs, mut prox, mut held, mut us, mut ur, mut ps, mut pr, mut sn, mut rc, mut bl) =
        (0u32, 0u32, 0u32, 0u32, 0u32, 0u32, 0u32, 0u32, 0u32, 0u32, 0u32);
    let push = |out: &mut Vec<(usize, Op)>, k: &str, a: u64, b: u64, c: u64| {
        out.push((who, Op::new(k, a as u32, b as u32, c as u32)))
    };
    let mut i = 0;
    while i < len {
        i += 1;
        let x = r.below(100);
        let idx = r.below(8);
        match x {
            0..=5 => {
                push(out, "co", r.below(4), 0, 0);
                objs += 1;
            }
            6..=8 if objs > 0 => {
                push(out, "do", idx, r.below(2), 0);
                objs -= 1;
            }
            9..=14 if objs > 0 => {
                push(out, "cs", idx, r.below(3), 1 + r.below(3));
                svcs += 1;
            }
            15..=18 if svcs > 0 => {
                let cmd = *r.pick(&[0u64, 0, 0, 0, 0, 0, 0, 1, 2]);
                push(out, "sv", idx, cmd, r.below(3));
                if cmd != 0 {
                    svcs -= 1;
                }
            }
            19..=25 => {
                push(out, "px", r.below(16), 0, 0);
                prox += 1;
            }
            26..=38 if prox > 0 => {
                let mode = *r.pick(&[0u64, 0, 0, 0, 1, 2, 3, 3]);
                push(out, "ca", idx, r.below(3) * 8 + r.below(8), mode);
                if mode == 3 {
                    held += 1;
                }
            }
            39..=40 if held > 0 => {
                push(out, "aw", idx, 0, 0);
                held -= 1;
            }
            41..=43 if prox > 0 => {
                push(out, "su", idx, r.below(3), 0);
                if r.below(2) == 0 {
                    push(out, "pe", idx, 1 + r.below(4), 0);
                    i += 1;
                }
            }
            44 if prox > 0 => push(out, "us", idx, r.below(3), 0),
            45..=46 if prox > 0 => push(out, "sa", idx, 0, 0),
            47 if prox > 0 => push(out, "ua", idx, 0, 0),
            48..=49 if prox > 0 => push(out, "pe", idx, 1 + r.below(4), 0),
            50..=52 if prox > 0 => {
                push(out, "dp", idx, 0, 0);
                prox -= 1;
            }
            53..=56 => {
                let keep = r.below(3) == 0;
                push(out, "ks", keep as u64, 0, 0);
                ps += 1;
                if keep {
                    ur += 1;
                }
            }
            57..=60 => {
                let keep = r.below(3) == 0;
                push(out, "kr", *r.pick(&[1u64, 2, 4, 5, 16]), keep as u64, 0);
                pr += 1;
                if keep {
                    us += 1;
                }
            }
            61..=65 => {
                let leave = o.failing_claims && r.below(4) == 0;
                let cancel = o.cancel_claims && r.below(6) == 0;
                push(out, "clr", r.below(8), *r.pick(&[1u64, 3, 4, 5, 9]), leave as u64 | (cancel as u64) << 1);
                rc += 1;
            }
            66..=70 => {
                let leave = o.failing_claims && r.below(4) == 0;
                let cancel = o.cancel_claims && r.below(6) == 0;
                push(out, "cls", r.below(8), leave as u64 | (cancel as u64) << 1, 0);
                sn += 1;
            }
            71 if ur > 0 => {
                push(out, "llr", idx, *r.pick(&[1u64, 2, 16]), (o.cancel_claims && r.below(6) == 0) as u64);
                ur -= 1;
                rc += 1;
            }
            72 if us > 0 => {
                push(out, "lls", idx, (o.cancel_claims && r.below(6) == 0) as u64, 0);
                us -= 1;
                sn += 1;
            }
            73..=74 if us + ur > 0 => {
                let which = if us == 0 { 1 } else if ur == 0 { 0 } else { r.below(2) };
                push(out, "ul", which, idx, r.below(3));
                if which == 0 {
                    us -= 1
                } else {
                    ur -= 1
                }
            }
            75..=77 if ps > 0 => {
                let k = *r.pick(&[0u64, 0, 1, 2]);
                push(out, "es", idx, 2 + r.below(6), k);
                sn += 1;
            }
            78..=80 if pr > 0 => {
                let k = *r.pick(&[0u64, 0, 1, 2]);
                push(out, "er", idx, 2 + r.below(6), k);
                rc += 1;
            }
            81..=84 if sn > 0 => push(out, "sd", idx, 1 + r.below(10), 0),
            85..=88 if rc > 0 => push(out, "rv", idx, 1 + r.below(10), 0),
            89 if sn > 0 => {
                push(out, "xs", idx, r.below(2), 0);
            }
            90 if rc > 0 => {
                push(out, "xr", idx, r.below(2), 0);
            }
            91..=92 if bl < 2 => {
                push(out, "bc", 0, 0, 0);
                if r.below(2) == 0 {
                    push(out, "bf", bl as u64, r.below(4), 0);
                    push(out, "bs", bl as u64, r.below(3), 0);
                    i += 2;
                }
                bl += 1;
            }
            93 if bl > 0 => push(out, "bf", idx, r.below(4), *r.pick(&[0u64, 0, 0, 1, 2])),
            94 if bl > 0 => push(out, "bs", idx, r.below(3), 0),
            95 if bl > 0 => push(out, "bt", idx, 0, 0),
            96 if bl > 0 => push(out, "bp", idx, 1 + r.below(5), 0),
            97 if bl > 0 => {
                push(out, "bd", idx, r.below(2), 0);
                bl -= 1;
            }
            98 => push(out, "sy", r.below(2), 0, 0),
            99 => push(out, "yi", 1 + r.below(4), 0, 0),
            _ => {
                i -= 1; // not applicable: draw again (terminates: co/px/ks/... are always applicable)
            }
        }
    }
    if o.shutdown_op && r.below(6) == 0 {
        let at = out.len() - r.below(1 + (len as u64).min(6)) as usize;
        out.insert(at, (who, Op::new("sh", 0, 0, 0)));
    }
}

fn gen_case(r: &mut Rng, len: usize, o: GenOpts) -> Case {
    let n = 2 + r.below(3) as usize;
    let fifo = match r.below(8) {
        0 | 1 => 0,
        2 | 3 => 1,
        4 => 2,
        5 => 16,
        _ => 1 + r.below(16) as usize,
    };
    let mut ops = vec![];
    for who in 0..n {
        let l = if r.below(5) == 0 { 1 + r.below(len as u64) as usize } else { len };
        gen_program(r, who, l, o, &mut ops);
    }
    Case { n, fifo, sched: r.next() >> 1, spurious: if r.below(6) == 0 { 8 } else { 0 }, barrier: !o.failing_claims, faults: 0, ops }
}

// ------------------------------------------------------------------------------------------
// executor

type Task = Pin<Box<dyn Future<Output = ()>>>;

struct Flag(AtomicBool);
impl Wake for Flag {
    fn wake(self: Arc<Self>) {
        self.0.store(true, Ordering::SeqCst);
    }
    fn wake_by_ref(self: &Arc<Self>) {
        self.0.store(true, Ordering::SeqCst);
    }
}

struct Yield(bool);
impl Future for Yield {
    type Output = ();
    fn poll(mut self: Pin<&mut Self>, cx: &mut Context) -> Poll<()> {
        if self.0 {
            Poll::Ready(())
        } else {
            self.0 = true;
            cx.waker().wake_by_ref();
            Poll::Pending
        }
    }
}
async fn yield_n(n: u32) {
    for _ in 0..n {
        Yield(false).await;
    }
}

/// poll `f` up to `tries` times, yielding to the scheduler in between
async fn try_poll<T>(tries: u32, mut f: impl FnMut(&mut Context) -> Poll<T>) -> Option<T> {
    for i in 0..tries {
        if let Poll::Ready(x) = poll_fn(|cx| Poll::Ready(f(cx))).await {
            return Some(x);
        }
        if i + 1 < tries {
            Yield(false).await;
        }
    }
    None
}

static LAST_PANIC: Mutex<Option<String>> = Mutex::new(None);

/// name of the function whose body contains `path:line` (panic messages start with `path:line: `)
fn enclosing_fn(msg: &str) -> String {
    let mut it = msg.splitn(3, ':');
    let (Some(path), Some(line)) = (it.next(), it.next()) else { return "?".into() };
    let Ok(line) = line.trim().parse::<usize>() else { return "?".into() };
    let Ok(src) = std::fs::read_to_string(path) else { return "?".into() };
    let lines: Vec<&str> = src.lines().collect();
    for l in lines[..line.min(lines.len())].iter().rev() {
        if let Some(i) = l.find("fn ") {
            let before = &l[..i];
            if before.trim().chars().all(|c| c.is_alphanumeric() || c == ' ' || c == '(' || c == ')' || c == '_') {
                let name: String = l[i + 3..].chars().take_while(|c| c.is_alphanumeric() || *c == '_').collect();
                if !name.is_empty() {
                    return name;
                }
            }
        }
    }
    "?".into()
}

fn install_hook() {
    std::panic::set_hook(Box::new(|info| {
        let loc = info.location().map(|l| format!("{}:{}", l.file(), l.line())).unwrap_or_default();
        let msg = if let Some(s) = info.payload().downcast_ref::<String>() {
            s.clone()
        } else if let Some(s) = info.payload().downcast_ref::<&str>() {
            s.to_string()
        } else {
            "panic".to_string()
        };
        *LAST_PANIC.lock().unwrap() = Some(format!("{loc}: {msg}"));
    }));
}

// ------------------------------------------------------------------------------------------
// transport tap

type Tx = Box<dyn AsyncTransport<Error = Disconnected> + Unpin>;
type Log = Rc<RefCell<Vec<(bool, Message)>>>; // (true = sent by the client, message)

/// incremented by the executor before every task poll; a transport that is polled for input
/// more than SPIN_LIMIT times within ONE task poll belongs to a task that loops without ever
/// returning to the executor (on a single-threaded runtime nothing else can run then)
static EPOCH: AtomicU64 = AtomicU64::new(0);
const SPIN_LIMIT: u32 = 200_000;

struct Tap {
    inner: Tx,
    log: Option<Log>,
    epoch: u64,
    calls: u32,
    /// fault injection on the receive path (per-mille, PRNG, messages to deliver first, history)
    faults: u32,
    rng: Rng,
    pending: VecDeque<Message>,
    held: Option<Message>,
    history: Vec<Message>,
}

impl Tap {
    fn new(inner: Tx, log: Option<Log>) -> Tap {
        Tap { inner, log, epoch: 0, calls: 0, faults: 0, rng: Rng::new(1), pending: VecDeque::new(), held: None, history: vec![] }
    }

    fn deliver(&mut self, m: Message) -> Poll<Result<Message, Disconnected>> {
        if let Some(log) = &self.log {
            log.borrow_mut().push((false, m.clone()));
        }
        Poll::Ready(Ok(m))
    }
}

impl AsyncTransport for Tap {
    type Error = Disconnected;
    fn receive_poll(mut self: Pin<&mut Self>, cx: &mut Context) -> Poll<Result<Message, Disconnected>> {
        let e = EPOCH.load(Ordering::Relaxed);
        if self.epoch == e {
            self.calls += 1;
            if self.calls > SPIN_LIMIT {
                self.calls = 0;
                panic!("SPIN: receive_poll called {SPIN_LIMIT} times within a single poll of the task (busy loop that never yields)");
            }
        } else {
            self.epoch = e;
            self.calls = 0;
        }
        if let Some(m) = self.pending.pop_front() {
            return self.deliver(m);
        }
        let r = Pin::new(&mut self.inner).receive_poll(cx);
        match r {
            Poll::Ready(Ok(m)) => {
                if self.faults == 0 || matches!(m, Message::Shutdown(_)) || self.rng.below(1000) >= self.faults as u64 {
                    if self.faults != 0 {
                        self.history.push(m.clone());
                        if let Some(h) = self.held.take() {
                            self.pending.push_back(h); // the swapped message follows its successor
                        }
                    }
                    return self.deliver(m);
                }
                self.history.push(m.clone());
                match self.rng.below(4) {
                    0 => {
                        // drop: ask again (the waker is registered by the next poll)
                        cx.waker().wake_by_ref();
                        Poll::Pending
                    }
                    1 => {
                        self.pending.push_back(m.clone()); // duplicate
                        self.deliver(m)
                    }
                    2 => {
                        // re-deliver an old message first
                        let n = self.history.len() as u64;
                        let i = self.rng.below(n) as usize;
                        let old = self.history[i].clone();
                        self.pending.push_back(m);
                        self.deliver(old)
                    }
                    _ => {
                        // swap with the next message
                        if let Some(h) = self.held.replace(m) {
                            return self.deliver(h);
                        }
                        cx.waker().wake_by_ref();
                        Poll::Pending
                    }
                }
            }
            other => other,
        }
    }
    fn send_poll_ready(mut self: Pin<&mut Self>, cx: &mut Context) -> Poll<Result<(), Disconnected>> {
        Pin::new(&mut self.inner).send_poll_ready(cx)
    }
    fn send_start(mut self: Pin<&mut Self>, msg: Message) -> Result<(), Disconnected> {
        if let Some(log) = &self.log {
            log.borrow_mut().push((true, msg.clone()));
        }
        Pin::new(&mut self.inner).send_start(msg)
    }
    fn send_poll_flush(mut self: Pin<&mut Self>, cx: &mut Context) -> Poll<Result<(), Disconnected>> {
        Pin::new(&mut self.inner).send_poll_flush(cx)
    }
}

// ------------------------------------------------------------------------------------------
// shared board

#[derive(Default)]
struct Board {
    services: Vec<ServiceId>,
    recv_ends: Vec<ChannelCookie>,
    send_ends: Vec<ChannelCookie>,
    chan_tag: HashMap<ChannelCookie, u32>,
    next_call: u32,
    /// oracle failures noticed by application/server tasks: (class, detail)
    bad: Vec<(String, String)>,
    run_results: Vec<(usize, String)>,
    app_done: usize,
    progs_done: usize,
    barrier_wakers: Vec<Waker>,
    stats: BTreeMap<String, u64>,
    spawn: Vec<(String, Task)>,
}
type B = Rc<RefCell<Board>>;

fn stat(b: &B, k: &str) {
    *b.borrow_mut().stats.entry(k.to_string()).or_insert(0) += 1;
}
fn bad(b: &B, class: &str, detail: String) {
    b.borrow_mut().bad.push((class.to_string(), detail));
}

// what the server answers to a call with argument `arg` on function `f`
fn call_class(arg: u32) -> u32 {
    arg & 7
}
fn ok_value(arg: u32, f: u32) -> u32 {
    arg.wrapping_mul(2654435761).rotate_left(f & 31) ^ 0xA5A5
}
fn err_value(arg: u32, f: u32) -> u32 {
    (arg ^ 0x5555_0000).wrapping_add(f)
}
fn event_value(ev: u32, n: u32) -> u32 {
    ev.wrapping_mul(1000).wrapping_add(n & 0xff)
}

#[derive(Default)]
struct Mailbox {
    q: VecDeque<(u32, u32)>, // (cmd, event)
    waker: Option<Waker>,
    gone: bool,
}
type Mb = Rc<RefCell<Mailbox>>;

fn mb_push(mb: &Mb, cmd: u32, ev: u32) {
    let w = {
        let mut m = mb.borrow_mut();
        m.q.push_back((cmd, ev));
        m.waker.take()
    };
    if let Some(w) = w {
        w.wake();
    }
}

enum Next {
    Cmd(u32, u32),
    Call(aldrin::low_level::Call),
    End,
}

/// server task: answers every call with a value derived from its arguments; commands from the
/// owning application arrive through the mailbox (emit, destroy, stop)
async fn serve(mut svc: Service, mb: Mb, b: B, who: usize) {
    let mut emitted = 0u32;
    loop {
        let next = poll_fn(|cx| {
            let mut m = mb.borrow_mut();
            if let Some((c, e)) = m.q.pop_front() {
                return Poll::Ready(Next::Cmd(c, e));
            }
            m.waker = Some(cx.waker().clone());
            drop(m);
            match svc.poll_next_call(cx) {
                Poll::Ready(Some(c)) => Poll::Ready(Next::Call(c)),
                Poll::Ready(None) => Poll::Ready(Next::End),
                Poll::Pending => Poll::Pending,
            }
        })
        .await;
        match next {
            Next::End => {
                stat(&b, "server.stream_end");
                break;
            }
            Next::Cmd(0, ev) => {
                emitted += 1;
                match svc.emit(ev, event_value(ev, emitted)) {
                    Ok(()) => stat(&b, "emit.ok"),
                    Err(Error::Shutdown) => stat(&b, "emit.shutdown"),
                    Err(e) => bad(&b, "API emit", format!("c{who} emit -> {e:?}")),
                }
            }
            Next::Cmd(1, _) => {
                match svc.destroy().await {
                    Ok(()) => stat(&b, "svc_destroy.ok"),
                    Err(Error::InvalidService) => stat(&b, "svc_destroy.invalid"),
                    Err(Error::Shutdown) => stat(&b, "svc_destroy.shutdown"),
                    Err(e) => bad(&b, "API service destroy", format!("c{who} service.destroy -> {e:?}")),
                }
                break;
            }
            Next::Cmd(_, _) => break,
            Next::Call(call) => {
                let f = call.id();
                let arg = match call.deserialize::<u32>() {
                    Ok(a) => a,
                    Err(e) => {
                        bad(&b, "VALUE call args", format!("c{who} call args do not decode: {e:?}"));
                        continue;
                    }
                };
                yield_n((arg >> 3) % 3).await;
                let p = call.into_promise();
                let res = match call_class(arg) {
                    0 | 1 | 2 => p.ok(ok_value(arg, f)),
                    3 => p.err(err_value(arg, f)),
                    4 => p.abort(),
                    5 => {
                        drop(p);
                        Ok(())
                    }
                    6 => p.invalid_function(),
                    _ => p.invalid_args(),
                };
                match res {
                    Ok(()) => stat(&b, "served"),
                    Err(Error::Shutdown) => stat(&b, "served.shutdown"),
                    Err(e) => bad(&b, "API promise", format!("c{who} promise -> {e:?}")),
                }
            }
        }
    }
    mb.borrow_mut().gone = true;
    drop(svc);
}

// ------------------------------------------------------------------------------------------
// application task

struct ProxySt {
    p: Proxy,
    ever: HashSet<u32>,
    ever_all: bool,
}
struct Held {
    r: PendingReply,
    arg: u32,
    f: u32,
}
struct SenderSt {
    s: Sender,
    tag: u32,
    next: u32,
}
struct ReceiverSt {
    r: Receiver,
    tag: u32,
    next: u32,
}

struct App {
    who: usize,
    h: Handle,
    b: B,
    shut: bool,
    objects: Vec<Object>,
    servers: Vec<Mb>,
    proxies: Vec<ProxySt>,
    held: Vec<Held>,
    unc_s: Vec<UnclaimedSender>,
    unc_r: Vec<UnclaimedReceiver>,
    pend_s: Vec<PendingSender>,
    pend_r: Vec<PendingReceiver>,
    senders: Vec<SenderSt>,
    receivers: Vec<ReceiverSt>,
    listeners: Vec<BusListener>,
    /// channel ends this client has held or bound so far: (cookie, is_sender)
    bound: HashSet<(ChannelCookie, bool)>,
}

fn pick(i: u32, len: usize) -> Option<usize> {
    if len == 0 {
        None
    } else {
        Some(i as usize % len)
    }
}

impl App {
    /// classify an API result: `allowed` lists the error kinds documented for the situation
    fn api<T>(&self, what: &str, r: Result<T, Error>, allowed: &[&str]) -> Option<T> {
        match r {
            Ok(x) => {
                stat(&self.b, &format!("{what}.ok"));
                Some(x)
            }
            Err(e) => {
                let kind = err_kind(&e);
                if allowed.contains(&kind) || (self.shut && kind == "Shutdown") {
                    stat(&self.b, &format!("{what}.{kind}"));
                } else {
                    bad(&self.b, &format!("API {what} {kind}"), format!("c{} {what} -> {e:?}", self.who));
                }
                None
            }
        }
    }

    /// a client that binds an end it already holds (or held) — the cookie types are `Copy`
    fn note_bind(&mut self, c: ChannelCookie, sender: bool) {
        if !self.bound.insert((c, sender)) {
            stat(&self.b, "bind.double");
        }
    }

    fn tag_of(&self, c: ChannelCookie) -> u32 {
        let mut b = self.b.borrow_mut();
        let n = b.chan_tag.len() as u32 + 1;
        *b.chan_tag.entry(c).or_insert(n)
    }

    fn check_reply(&self, r: Result<aldrin::low_level::Reply, Error>, arg: u32, f: u32) {
        let class = call_class(arg);
        let who = self.who;
        match r {
            Ok(reply) => match reply.deserialize::<u32, u32>() {
                Ok(Ok(v)) => {
                    if class <= 2 && v == ok_value(arg, f) {
                        stat(&self.b, "call.ok")
                    } else {
                        bad(&self.b, "VALUE call", format!("c{who} call(f={f}, arg={arg}) returned Ok({v}), expected class {class} value {}", ok_value(arg, f)))
                    }
                }
                Ok(Err(v)) => {
                    if class == 3 && v == err_value(arg, f) {
                        stat(&self.b, "call.err")
                    } else {
                        bad(&self.b, "VALUE call", format!("c{who} call(f={f}, arg={arg}) returned Err({v}), expected class {class}"))
                    }
                }
                Err(e) => bad(&self.b, "VALUE call", format!("c{who} call(f={f}, arg={arg}): reply does not decode: {e:?}")),
            },
            Err(Error::CallAborted) => stat(&self.b, if class == 4 || class == 5 { "call.aborted" } else { "call.aborted_race" }),
            Err(Error::InvalidService) => stat(&self.b, "call.invalid_service"),
            Err(Error::InvalidFunction(_)) if class == 6 => stat(&self.b, "call.invalid_function"),
            Err(Error::InvalidArguments(_)) if class == 7 => stat(&self.b, "call.invalid_args"),
            Err(Error::Shutdown) if self.shut => stat(&self.b, "call.shutdown"),
            Err(e) => bad(&self.b, "API call", format!("c{who} call(f={f}, arg={arg}) class {class} -> {e:?}")),
        }
    }

    async fn step(&mut self, op: Op) {
        let b = self.b.clone();
        let who = self.who;
        match op.k {
            "co" => {
                let u = ObjectUuid(Uuid::from_u128(1 + (op.a % 4) as u128));
                let r = self.h.create_object(u).await;
                if let Some(o) = self.api("create_object", r, &["DuplicateObject"]) {
                    self.objects.push(o);
                }
            }
            "do" => {
                if let Some(i) = pick(op.a, self.objects.len()) {
                    let o = self.objects.swap_remove(i);
                    if op.b == 1 {
                        let r = o.destroy().await;
                        self.api("object.destroy", r, &[]);
                    }
                    drop(o);
                }
            }
            "cs" => {
                if let Some(i) = pick(op.a, self.objects.len()) {
                    let su = ServiceUuid(Uuid::from_u128(11 + (op.b % 3) as u128));
                    let r = self.objects[i].create_service(su, ServiceInfo::new(op.c)).await;
                    if let Some(svc) = self.api("create_service", r, &["DuplicateService"]) {
                        let mb: Mb = Default::default();
                        let mut bb = b.borrow_mut();
                        bb.services.push(svc.id());
                        let name = format!("server{who}.{}", self.servers.len());
                        bb.spawn.push((name, Box::pin(serve(svc, mb.clone(), b.clone(), who))));
                        drop(bb);
                        self.servers.push(mb);
                    }
                }
            }
            "sv" => {
                self.servers.retain(|m| !m.borrow().gone);
                if let Some(j) = pick(op.a, self.servers.len()) {
                    mb_push(&self.servers[j], op.b, op.c % 3);
                    stat(&b, "server.cmd");
                    if op.b != 0 {
                        self.servers.swap_remove(j);
                    }
                }
            }
            "px" => {
                let s = {
                    let bb = b.borrow();
                    pick(op.a, bb.services.len()).map(|i| bb.services[i])
                };
                if let Some(s) = s {
                    let r = Proxy::new(&self.h, s).await;
                    if let Some(p) = self.api("proxy", r, &["InvalidService"]) {
                        self.proxies.push(ProxySt { p, ever: HashSet::new(), ever_all: false });
                    }
                }
            }
            "ca" => {
                if let Some(i) = pick(op.a, self.proxies.len()) {
                    let f = op.b / 8;
                    let arg = {
                        let mut bb = b.borrow_mut();
                        bb.next_call += 1;
                        (bb.next_call << 3) | (op.b & 7)
                    };
                    let mut reply = self.proxies[i].p.call(f, arg, None);
                    match op.c {
                        1 => {
                            stat(&b, "call.dropped");
                            drop(reply)
                        }
                        2 => {
                            let r = poll_fn(|cx| Poll::Ready(Pin::new(&mut reply).poll(cx))).await;
                            yield_n(op.a % 3).await;
                            match r {
                                Poll::Ready(r) => self.check_reply(r, arg, f),
                                Poll::Pending => {
                                    stat(&b, "call.cancelled");
                                    drop(reply)
                                }
                            }
                        }
                        3 => self.held.push(Held { r: reply, arg, f }),
                        _ => {
                            let r = reply.await;
                            self.check_reply(r, arg, f);
                        }
                    }
                }
            }
            "aw" => {
                if let Some(i) = pick(op.a, self.held.len()) {
                    let Held { r, arg, f } = self.held.swap_remove(i);
                    let r = r.await;
                    self.check_reply(r, arg, f);
                }
            }
            "su" | "us" | "sa" | "ua" => {
                if let Some(i) = pick(op.a, self.proxies.len()) {
                    let ev = op.b % 3;
                    let (what, r) = match op.k {
                        "su" => {
                            self.proxies[i].ever.insert(ev);
                            ("subscribe", self.proxies[i].p.subscribe(ev).await)
                        }
                        "us" => ("unsubscribe", self.proxies[i].p.unsubscribe(ev).await),
                        "sa" => {
                            self.proxies[i].ever_all = true;
                            ("subscribe_all", self.proxies[i].p.subscribe_all().await)
                        }
                        _ => ("unsubscribe_all", self.proxies[i].p.unsubscribe_all().await),
                    };
                    self.api(what, r, &["InvalidService"]);
                }
            }
            "pe" => {
                if let Some(i) = pick(op.a, self.proxies.len()) {
                    for _ in 0..op.b {
                        let st = &mut self.proxies[i];
                        match try_poll(3, |cx| st.p.poll_next_event(cx)).await {
                            Some(Some(ev)) => {
                                let id = ev.id();
                                let okv = ev.deserialize::<u32>().map(|v| v / 1000 == id && id < 3).unwrap_or(false);
                                if !okv {
                                    bad(&b, "VALUE event", format!("c{who} event {id} carries a foreign value"));
                                } else if !(st.ever.contains(&id) || st.ever_all) {
                                    bad(&b, "VALUE event unsubscribed", format!("c{who} received event {id} it never subscribed to"));
                                } else {
                                    stat(&b, "event.received");
                                }
                            }
                            Some(None) => {
                                stat(&b, "event.stream_end");
                                break;
                            }
                            None => break,
                        }
                    }
                }
            }
            "dp" => {
                if let Some(i) = pick(op.a, self.proxies.len()) {
                    drop(self.proxies.swap_remove(i));
                    stat(&b, "proxy.dropped");
                }
            }
            "ks" => {
                let r = self.h.create_low_level_channel().claim_sender().await;
                if let Some((ps, ur)) = self.api("create_channel_s", r, &[]) {
                    self.tag_of(ps.cookie());
                    self.note_bind(ps.cookie(), true);
                    if op.a == 1 {
                        self.note_bind(ps.cookie(), false);
                    }
                    self.pend_s.push(ps);
                    if op.a == 1 {
                        self.unc_r.push(ur);
                    } else {
                        b.borrow_mut().recv_ends.push(ur.unbind().cookie());
                    }
                }
            }
            "kr" => {
                let r = self.h.create_low_level_channel().claim_receiver(op.a).await;
                if let Some((us, pr)) = self.api("create_channel_r", r, &[]) {
                    self.tag_of(pr.cookie());
                    self.note_bind(pr.cookie(), false);
                    if op.b == 1 {
                        self.note_bind(pr.cookie(), true);
                    }
                    self.pend_r.push(pr);
                    if op.b == 1 {
                        self.unc_s.push(us);
                    } else {
                        b.borrow_mut().send_ends.push(us.unbind().cookie());
                    }
                }
            }
            "clr" => {
                let c = {
                    let mut bb = b.borrow_mut();
                    pick(op.a, bb.recv_ends.len()).map(|i| if op.c & 1 == 1 { bb.recv_ends[i] } else { bb.recv_ends.swap_remove(i) })
                };
                if let Some(c) = c {
                    self.note_bind(c, false);
                    let unc = UnboundReceiver::new(c).bind(self.h.clone());
                    self.claim_r(unc, op.b, op.c & 2 != 0).await;
                }
            }
            "cls" => {
                let c = {
                    let mut bb = b.borrow_mut();
                    pick(op.a, bb.send_ends.len()).map(|i| if op.b & 1 == 1 { bb.send_ends[i] } else { bb.send_ends.swap_remove(i) })
                };
                if let Some(c) = c {
                    self.note_bind(c, true);
                    let unc = UnboundSender::new(c).bind(self.h.clone());
                    self.claim_s(unc, op.b & 2 != 0).await;
                }
            }
            "llr" => {
                if let Some(i) = pick(op.a, self.unc_r.len()) {
                    let unc = self.unc_r.swap_remove(i);
                    self.claim_r(unc, op.b, op.c & 1 != 0).await;
                }
            }
            "lls" => {
                if let Some(i) = pick(op.a, self.unc_s.len()) {
                    let unc = self.unc_s.swap_remove(i);
                    self.claim_s(unc, op.b & 1 != 0).await;
                }
            }
            "ul" => {
                if op.a == 0 {
                    if let Some(i) = pick(op.b, self.unc_s.len()) {
                        let mut u = self.unc_s.swap_remove(i);
                        match op.c {
                            1 => {
                                let r = u.close().await;
                                self.api("unclaimed.close", r, &["InvalidChannel"]);
                            }
                            2 => b.borrow_mut().send_ends.push(u.unbind().cookie()),
                            _ => drop(u),
                        }
                    }
                } else if let Some(i) = pick(op.b, self.unc_r.len()) {
                    let mut u = self.unc_r.swap_remove(i);
                    match op.c {
                        1 => {
                            let r = u.close().await;
                            self.api("unclaimed.close", r, &["InvalidChannel"]);
                        }
                        2 => b.borrow_mut().recv_ends.push(u.unbind().cookie()),
                        _ => drop(u),
                    }
                }
            }
            "es" => {
                if let Some(i) = pick(op.a, self.pend_s.len()) {
                    let mut ps = self.pend_s.swap_remove(i);
                    if try_poll(op.b, |cx| ps.poll_wait_established(cx)).await.is_some() {
                        let tag = self.tag_of(ps.cookie());
                        let r = ps.establish().await;
                        if let Some(s) = self.api("establish_s", r, &["InvalidChannel"]) {
                            self.senders.push(SenderSt { s, tag, next: 0 });
                        }
                    } else {
                        stat(&b, "establish_s.not_ready");
                        match op.c {
                            1 => drop(ps),
                            2 => {
                                let r = ps.close().await;
                                self.api("pending.close", r, &["InvalidChannel"]);
                            }
                            _ => self.pend_s.push(ps),
                        }
                    }
                }
            }
            "er" => {
                if let Some(i) = pick(op.a, self.pend_r.len()) {
                    let mut pr = self.pend_r.swap_remove(i);
                    if try_poll(op.b, |cx| pr.poll_wait_established(cx)).await.is_some() {
                        let tag = self.tag_of(pr.cookie());
                        let r = pr.establish().await;
                        if let Some(r) = self.api("establish_r", r, &["InvalidChannel"]) {
                            self.receivers.push(ReceiverSt { r, tag, next: 0 });
                        }
                    } else {
                        stat(&b, "establish_r.not_ready");
                        match op.c {
                            1 => drop(pr),
                            2 => {
                                let r = pr.close().await;
                                self.api("pending.close", r, &["InvalidChannel"]);
                            }
                            _ => self.pend_r.push(pr),
                        }
                    }
                }
            }
            "sd" => {
                if let Some(i) = pick(op.a, self.senders.len()) {
                    for _ in 0..op.b {
                        let st = &mut self.senders[i];
                        match try_poll(4, |cx| st.s.poll_send_ready(cx)).await {
                            Some(Ok(())) => {
                                let v = ((st.tag as u64) << 32) | st.next as u64;
                                match st.s.start_send_item(v) {
                                    Ok(()) => {
                                        st.next += 1;
                                        stat(&b, "item.sent");
                                    }
                                    Err(Error::Shutdown) if self.shut => break,
                                    Err(e) => {
                                        bad(&b, "API start_send_item", format!("c{who} start_send_item -> {e:?}"));
                                        break;
                                    }
                                }
                            }
                            Some(Err(Error::InvalidChannel)) => {
                                stat(&b, "item.receiver_closed");
                                break;
                            }
                            Some(Err(e)) => {
                                bad(&b, "API poll_send_ready", format!("c{who} poll_send_ready -> {e:?}"));
                                break;
                            }
                            None => {
                                stat(&b, "item.no_capacity");
                                break;
                            }
                        }
                    }
                }
            }
            "rv" => {
                if let Some(i) = pick(op.a, self.receivers.len()) {
                    for _ in 0..op.b {
                        let st = &mut self.receivers[i];
                        match try_poll(4, |cx| st.r.poll_next_item::<u64>(cx)).await {
                            Some(Ok(Some(v))) => {
                                if v != ((st.tag as u64) << 32) | st.next as u64 {
                                    bad(&b, "VALUE item", format!("c{who} channel {} delivered item {:x}, expected #{}", st.tag, v, st.next));
                                    break;
                                }
                                st.next += 1;
                                stat(&b, "item.received");
                            }
                            Some(Ok(None)) => {
                                stat(&b, "item.stream_end");
                                break;
                            }
                            Some(Err(e)) => {
                                bad(&b, "VALUE item", format!("c{who} item does not decode: {e:?}"));
                                break;
                            }
                            None => break,
                        }
                    }
                }
            }
            "xs" => {
                if let Some(i) = pick(op.a, self.senders.len()) {
                    let mut st = self.senders.swap_remove(i);
                    if op.b == 1 {
                        let r = st.s.close().await;
                        self.api("sender.close", r, &["InvalidChannel"]);
                    }
                    drop(st);
                }
            }
            "xr" => {
                if let Some(i) = pick(op.a, self.receivers.len()) {
                    let mut st = self.receivers.swap_remove(i);
                    if op.b == 1 {
                        let r = st.r.close().await;
                        self.api("receiver.close", r, &["InvalidChannel"]);
                    }
                    drop(st);
                }
            }
            "bc" => {
                let r = self.h.create_bus_listener().await;
                if let Some(l) = self.api("create_bus_listener", r, &[]) {
                    self.listeners.push(l);
                }
            }
            "bf" => {
                if let Some(i) = pick(op.a, self.listeners.len()) {
                    let f = match op.b % 4 {
                        0 => BusListenerFilter::any_object(),
                        1 => BusListenerFilter::any_object_any_service(),
                        2 => BusListenerFilter::object(ObjectUuid(Uuid::from_u128(1))),
                        _ => BusListenerFilter::object(ObjectUuid(Uuid::from_u128(2))),
                    };
                    let l = &mut self.listeners[i];
                    let r = match op.c {
                        1 => l.remove_filter(f),
                        2 => l.clear_filters(),
                        _ => l.add_filter(f),
                    };
                    self.api("listener.filter", r, &[]);
                }
            }
            "bs" => {
                if let Some(i) = pick(op.a, self.listeners.len()) {
                    let sc = [BusListenerScope::Current, BusListenerScope::New, BusListenerScope::All][op.b as usize % 3];
                    let r = self.listeners[i].start(sc).await;
                    self.api("listener.start", r, &["BusListenerAlreadyStarted"]);
                }
            }
            "bt" => {
                if let Some(i) = pick(op.a, self.listeners.len()) {
                    let r = self.listeners[i].stop().await;
                    self.api("listener.stop", r, &["BusListenerNotStarted"]);
                }
            }
            "bp" => {
                if let Some(i) = pick(op.a, self.listeners.len()) {
                    for _ in 0..op.b {
                        let l = &mut self.listeners[i];
                        match try_poll(3, |cx| l.poll_next_event(cx)).await {
                            Some(Some(_)) => stat(&b, "bus_event.received"),
                            Some(None) => {
                                stat(&b, "bus_event.finished");
                                break;
                            }
                            None => break,
                        }
                    }
                }
            }
            "bd" => {
                if let Some(i) = pick(op.a, self.listeners.len()) {
                    let mut l = self.listeners.swap_remove(i);
                    if op.b == 1 {
                        let r = l.destroy().await;
                        self.api("listener.destroy", r, &[]);
                    }
                    drop(l);
                }
            }
            "sy" => {
                if op.a == 0 {
                    let r = self.h.sync_client().await.map(|_| ());
                    self.api("sync_client", r, &[]);
                } else {
                    let r = self.h.sync_broker().await.map(|_| ());
                    self.api("sync_broker", r, &[]);
                }
            }
            "yi" => yield_n(op.a).await,
            "sh" => {
                self.h.shutdown();
                self.shut = true;
                stat(&b, "shutdown.explicit");
            }
            _ => unreachable!(),
        }
    }

    async fn claim_r(&mut self, unc: UnclaimedReceiver, cap: u32, cancel: bool) {
        let tag = self.tag_of(unc.cookie());
        let mut fut = Box::pin(unc.claim(cap));
        let r = if cancel {
            match poll_fn(|cx| Poll::Ready(fut.as_mut().poll(cx))).await {
                Poll::Ready(r) => r,
                Poll::Pending => {
                    yield_n(cap % 3).await;
                    stat(&self.b, "claim_r.cancelled");
                    return;
                }
            }
        } else {
            fut.await
        };
        if let Some(r) = self.api("claim_r", r, &["InvalidChannel"]) {
            self.receivers.push(ReceiverSt { r, tag, next: 0 });
        }
    }

    async fn claim_s(&mut self, unc: UnclaimedSender, cancel: bool) {
        let tag = self.tag_of(unc.cookie());
        let mut fut = Box::pin(unc.claim());
        let r = if cancel {
            match poll_fn(|cx| Poll::Ready(fut.as_mut().poll(cx))).await {
                Poll::Ready(r) => r,
                Poll::Pending => {
                    yield_n(tag % 3).await;
                    stat(&self.b, "claim_s.cancelled");
                    return;
                }
            }
        } else {
            fut.await
        };
        if let Some(s) = self.api("claim_s", r, &["InvalidChannel"]) {
            self.senders.push(SenderSt { s, tag, next: 0 });
        }
    }
}

fn err_kind(e: &Error) -> &'static str {
    match e {
        Error::Shutdown => "Shutdown",
        Error::DuplicateObject => "DuplicateObject",
        Error::InvalidObject => "InvalidObject",
        Error::DuplicateService => "DuplicateService",
        Error::InvalidService => "InvalidService",
        Error::InvalidFunction(_) => "InvalidFunction",
        Error::InvalidEvent(_) => "InvalidEvent",
        Error::InvalidArguments(_) => "InvalidArguments",
        Error::CallAborted => "CallAborted",
        Error::InvalidReply(_) => "InvalidReply",
        Error::InvalidChannel => "InvalidChannel",
        Error::InvalidItem(_) => "InvalidItem",
        Error::InvalidBusListener => "InvalidBusListener",
        Error::BusListenerAlreadyStarted => "BusListenerAlreadyStarted",
        Error::BusListenerNotStarted => "BusListenerNotStarted",
        Error::InvalidLifetime => "InvalidLifetime",
        Error::Serialize(_) => "Serialize",
        Error::NotSupported => "NotSupported",
    }
}

async fn app(who: usize, h: Handle, b: B, prog: Vec<Op>, barrier: Option<usize>) {
    let mut a = App {
        who,
        h,
        b: b.clone(),
        shut: false,
        objects: vec![],
        servers: vec![],
        proxies: vec![],
        held: vec![],
        unc_s: vec![],
        unc_r: vec![],
        pend_s: vec![],
        pend_r: vec![],
        senders: vec![],
        receivers: vec![],
        listeners: vec![],
        bound: HashSet::new(),
    };
    for (i, op) in prog.into_iter().enumerate() {
        yield_n((op.a + i as u32) % 3).await;
        stat(&b, &format!("op.{}", op.k));
        a.step(op).await;
    }
    {
        let ws: Vec<Waker> = {
            let mut bb = b.borrow_mut();
            bb.progs_done += 1;
            bb.barrier_wakers.drain(..).collect()
        };
        for w in ws {
            w.wake();
        }
    }
    if let Some(n) = barrier {
        poll_fn(|cx| {
            let mut bb = b.borrow_mut();
            if bb.progs_done >= n {
                Poll::Ready(())
            } else {
                bb.barrier_wakers.push(cx.waker().clone());
                Poll::Pending
            }
        })
        .await;
    }
    // stop the server tasks (a Service whose object was destroyed never ends its call stream),
    // then collect the calls still held: their peers have acted or are gone
    for m in &a.servers {
        mb_push(m, 2, 0);
    }
    while let Some(Held { r, arg, f }) = a.held.pop() {
        let r = r.await;
        a.check_reply(r, arg, f);
    }
    drop(a);
    b.borrow_mut().app_done += 1;
}

// ------------------------------------------------------------------------------------------
// one case

#[derive(Debug, Clone)]
struct Failure {
    class: String,
    detail: String,
}

struct CaseResult {
    fail: Option<Failure>,
    polls: u64,
    stats: BTreeMap<String, u64>,
    trace: Vec<Vec<(bool, Message)>>,
    /// per client: `ok` (run() returned Ok), `rej` (UnexpectedMessageReceived), `pan <fn>`,
    /// `err`, `none` (still running when the case ended)
    verdicts: Vec<String>,
}

async fn setup(i: usize, t1: Tap, t2: Tap, mut bh: aldrin_broker::BrokerHandle, b: B, prog: Vec<Op>, barrier: Option<usize>) {
    // both halves of the handshake are driven from this task
    let mut cf: Pin<Box<dyn Future<Output = _>>> = Box::pin(Client::connect(t1));
    let mut bf = Box::pin(bh.connect(t2));
    let (mut cres, mut bres) = (None, None);
    poll_fn(|cx| {
        if cres.is_none() {
            if let Poll::Ready(x) = cf.as_mut().poll(cx) {
                cres = Some(x);
            }
        }
        if bres.is_none() {
            if let Poll::Ready(x) = bf.as_mut().poll(cx) {
                bres = Some(x);
            }
        }
        if cres.is_some() && bres.is_some() {
            Poll::Ready(())
        } else {
            Poll::Pending
        }
    })
    .await;
    drop(cf);
    drop(bf);
    let (client, conn) = match (cres.unwrap(), bres.unwrap()) {
        (Ok(c), Ok(k)) => (c, k),
        (c, k) => {
            bad(&b, "CONNECT", format!("c{i} handshake failed: client {:?} broker {:?}", c.err().map(|e| e.to_string()), k.err().map(|e| e.to_string())));
            let mut bb = b.borrow_mut();
            bb.app_done += 1;
            bb.progs_done += 1;
            return;
        }
    };
    let h = client.handle().clone();
    let b2 = b.clone();
    let mut bb = b.borrow_mut();
    bb.spawn.push((
        format!("client{i}.run"),
        Box::pin(async move {
            let res = client.run().await;
            let s = match res {
                Ok(()) => "Ok".to_string(),
                Err(RunError::UnexpectedMessageReceived(m)) => format!("UnexpectedMessageReceived({m:?})"),
                Err(e) => format!("Err({e:?})"),
            };
            b2.borrow_mut().run_results.push((i, s));
        }),
    ));
    bb.spawn.push((
        format!("conn{i}.run"),
        Box::pin(async move {
            let _ = conn.run().await;
        }),
    ));
    bb.spawn.push((format!("app{i}"), Box::pin(app(i, h, b.clone(), prog, barrier))));
}

const POLL_BUDGET: u64 = 3_000_000;

fn run_case(case: &Case) -> CaseResult {
    let b: B = Default::default();
    let mut r = Rng::new(case.sched);
    let broker = Broker::new();
    let bh = broker.handle().clone();
    let mut names: Vec<String> = vec!["broker.run".into()];
    let mut tasks: Vec<Option<Task>> = vec![Some(Box::pin(broker.run()))];
    let mut flags: Vec<Arc<Flag>> = vec![Arc::new(Flag(AtomicBool::new(true)))];
    let logs: Vec<Log> = (0..case.n).map(|_| Default::default()).collect();
    for i in 0..case.n {
        let (t1, t2): (Tx, Tx) = if case.fifo == 0 {
            let (a, c) = channel::unbounded();
            (Box::new(a), Box::new(c))
        } else {
            let (a, c) = channel::bounded(case.fifo);
            (Box::new(a), Box::new(c))
        };
        let prog: Vec<Op> = case.ops.iter().filter(|(w, _)| *w == i).map(|(_, o)| *o).collect();
        let mut tap = Tap::new(t1, Some(logs[i].clone()));
        tap.faults = case.faults;
        tap.rng = Rng::new(case.sched ^ (0x9e37 + i as u64 * 7919));
        let t2 = Tap::new(t2, None);
        names.push(format!("setup{i}"));
        let barrier = if case.barrier { Some(case.n) } else { None };
        tasks.push(Some(Box::pin(setup(i, tap, t2, bh.clone(), b.clone(), prog, barrier))));
        flags.push(Arc::new(Flag(AtomicBool::new(true))));
    }
    let mut polls = 0u64;
    let trace_sched = std::env::var("SCHED_TRACE").is_ok();
    let mut idle_requested = false;
    let mut fail: Option<Failure> = None;
    let broker_idle_done = Rc::new(Cell::new(false));
    loop {
        let spawned: Vec<(String, Task)> = b.borrow_mut().spawn.drain(..).collect();
        for (n, t) in spawned {
            names.push(n);
            tasks.push(Some(t));
            flags.push(Arc::new(Flag(AtomicBool::new(true))));
        }
        if !idle_requested && b.borrow().app_done == case.n {
            idle_requested = true;
            let mut bh2 = bh.clone();
            let d = broker_idle_done.clone();
            names.push("shutdown_idle".into());
            tasks.push(Some(Box::pin(async move {
                bh2.shutdown_idle().await;
                d.set(true);
            })));
            flags.push(Arc::new(Flag(AtomicBool::new(true))));
        }
        if case.faults == 0 {
            // (a disturbed session is not judged by the oracle: let every client see its messages)
            if let Some((class, detail)) = b.borrow().bad.first().cloned() {
                fail = Some(Failure { class, detail });
                break;
            }
        }
        let live: Vec<usize> = (0..tasks.len()).filter(|i| tasks[*i].is_some()).collect();
        if live.is_empty() {
            break;
        }
        let ready: Vec<usize> = live.iter().copied().filter(|i| flags[*i].0.load(Ordering::SeqCst)).collect();
        let i = if ready.is_empty() {
            // quiescence with unfinished tasks: something awaits an event that nobody will produce
            let pend: Vec<&str> = live.iter().map(|i| names[*i].as_str()).collect();
            let bb = b.borrow();
            fail = Some(Failure {
                class: "HANG".into(),
                detail: format!(
                    "no runnable task, {} unfinished: {:?}; applications finished {}/{}; run() results {:?}",
                    live.len(), pend, bb.app_done, case.n, bb.run_results
                ),
            });
            break;
        } else if case.spurious > 0 && r.below(64) < case.spurious as u64 {
            live[r.below(live.len() as u64) as usize]
        } else {
            ready[r.below(ready.len() as u64) as usize]
        };
        if trace_sched {
            eprintln!("poll {polls} {}", names[i]);
        }
        flags[i].0.store(false, Ordering::SeqCst);
        EPOCH.fetch_add(1, Ordering::Relaxed);
        let w: Waker = flags[i].clone().into();
        let mut cx = Context::from_waker(&w);
        let t = tasks[i].as_mut().unwrap();
        match catch_unwind(AssertUnwindSafe(|| t.as_mut().poll(&mut cx))) {
            Ok(Poll::Ready(())) => tasks[i] = None,
            Ok(Poll::Pending) => {}
            Err(_) => {
                let msg = LAST_PANIC.lock().unwrap().take().unwrap_or_else(|| "panic".into());
                let task: String = names[i].chars().filter(|c| !c.is_ascii_digit()).collect();
                // the class names the site only, so that shrinking keeps the same failure
                let site = msg.split(": ").next().unwrap_or("").to_string();
                let site = ["aldrin/src/", "broker/src/", "core/src/", "harness/src/"]
                    .iter()
                    .find_map(|p| site.find(p).map(|i| site[i..].to_string()))
                    .unwrap_or(site);
                let func = enclosing_fn(&msg);
                fail = Some(if msg.contains("SPIN: ") {
                    Failure { class: format!("SPIN {task}"), detail: format!("task {} never returned from poll: {}", names[i], msg.split("SPIN: ").nth(1).unwrap_or("")) }
                } else {
                    Failure { class: format!("PANIC {task} {site} fn {func}"), detail: format!("task {} panicked in fn {func} at {msg}", names[i]) }
                });
                break;
            }
        }
        polls += 1;
        if polls >= POLL_BUDGET {
            let pend: Vec<&str> = live.iter().map(|i| names[*i].as_str()).collect();
            fail = Some(Failure { class: "BUDGET".into(), detail: format!("poll budget exhausted with unfinished tasks {pend:?}") });
            break;
        }
    }
    if fail.is_none() {
        let bb = b.borrow();
        for (i, s) in &bb.run_results {
            if s != "Ok" {
                let kind = s.split('(').nth(1).unwrap_or("").to_string();
                fail = Some(Failure { class: format!("RUN {}", s.split('(').next().unwrap_or("") .to_string() + " " + &kind), detail: format!("client {i} run() = {s}") });
                break;
            }
        }
        if fail.is_none() && bb.run_results.len() != case.n {
            fail = Some(Failure { class: "RUN missing".into(), detail: format!("only {} of {} clients returned from run()", bb.run_results.len(), case.n) });
        }
        if fail.is_none() && !broker_idle_done.get() {
            fail = Some(Failure { class: "IDLE".into(), detail: "shutdown_idle did not complete".into() });
        }
    }
    if fail.is_some() {
        // do not run destructors of half-dead tasks (a second panic would abort the process)
        for t in tasks.drain(..) {
            std::mem::forget(t);
        }
        let sp: Vec<(String, Task)> = b.borrow_mut().spawn.drain(..).collect();
        std::mem::forget(sp);
    }
    let stats = b.borrow().stats.clone();
    let trace = logs.iter().map(|l| l.borrow().clone()).collect();
    let mut verdicts = vec!["none".to_string(); case.n];
    for (i, s) in &b.borrow().run_results {
        verdicts[*i] = if s == "Ok" {
            "ok".into()
        } else if s.starts_with("UnexpectedMessageReceived") {
            "rej".into()
        } else {
            "err".into()
        };
    }
    if let Some(f) = &fail {
        if let Some(rest) = f.detail.strip_prefix("task client") {
            if let (Some(i), Some(j)) = (rest.find(".run panicked in fn "), rest.find(" at ")) {
                if let Ok(ci) = rest[..i].parse::<usize>() {
                    if ci < verdicts.len() {
                        verdicts[ci] = format!("pan {}", &rest[i + ".run panicked in fn ".len()..j]);
                    }
                }
            }
        }
    }
    CaseResult { fail, polls, stats, trace, verdicts }
}

fn run_case_caught(case: &Case) -> CaseResult {
    match catch_unwind(AssertUnwindSafe(|| run_case(case))) {
        Ok(r) => r,
        Err(_) => {
            let msg = LAST_PANIC.lock().unwrap().take().unwrap_or_else(|| "panic".into());
            CaseResult {
                fail: Some(Failure { class: "PANIC harness".into(), detail: format!("outside a task: {msg}") }),
                polls: 0,
                stats: BTreeMap::new(),
                trace: vec![],
                verdicts: vec![],
            }
        }
    }
}

// ------------------------------------------------------------------------------------------
// shrinking

const SHRINK_SCHEDS: u64 = 4;

/// does the case fail with the same class under the stored schedule or a few others?
fn still_fails(c: &Case, class: &str, runs: &mut u64) -> Option<(Case, Failure)> {
    for k in 0..SHRINK_SCHEDS {
        let mut c2 = c.clone();
        if k > 0 {
            c2.sched = c.sched.wrapping_mul(6364136223846793005).wrapping_add(k) >> 1;
        }
        *runs += 1;
        if let Some(f) = run_case_caught(&c2).fail {
            if f.class == class {
                return Some((c2, f));
            }
        }
    }
    None
}

fn shrink(case: &Case, f: &Failure) -> (Case, Failure, u64) {
    let mut best = case.clone();
    let mut bf = f.clone();
    let mut runs = 0u64;
    if best.spurious != 0 {
        let mut c = best.clone();
        c.spurious = 0;
        if let Some((c2, f2)) = still_fails(&c, &f.class, &mut runs) {
            best = c2;
            bf = f2;
        }
    }
    if best.fifo != 0 {
        let mut c = best.clone();
        c.fifo = 0;
        if let Some((c2, f2)) = still_fails(&c, &f.class, &mut runs) {
            best = c2;
            bf = f2;
        }
    }
    // ddmin on the operation list
    let mut chunk = (best.ops.len() + 1) / 2;
    while chunk >= 1 && !best.ops.is_empty() && runs < 4000 {
        let mut i = 0;
        let mut progressed = false;
        while i < best.ops.len() {
            let mut c = best.clone();
            let end = (i + chunk).min(c.ops.len());
            c.ops.drain(i..end);
            if let Some((c2, f2)) = still_fails(&c, &f.class, &mut runs) {
                best = c2;
                bf = f2;
                progressed = true;
            } else {
                i += chunk;
            }
        }
        if chunk == 1 && !progressed {
            break;
        }
        if !progressed || chunk > best.ops.len() {
            chunk = (chunk / 2).max(if chunk > 1 { 1 } else { 0 });
            if chunk == 0 {
                break;
            }
        }
    }
    // fewer clients: drop trailing clients without operations
    loop {
        let used = best.ops.iter().map(|(w, _)| *w + 1).max().unwrap_or(1).max(1);
        if used < best.n {
            let mut c = best.clone();
            c.n = used;
            if let Some((c2, f2)) = still_fails(&c, &f.class, &mut runs) {
                best = c2;
                bf = f2;
                continue;
            }
        }
        break;
    }
    (best, bf, runs)
}

// ------------------------------------------------------------------------------------------
// classification of a failure (after shrinking) into the finding families of design/C06.md

fn clear_cancels(c: &Case) -> Case {
    let mut c = c.clone();
    for (_, o) in c.ops.iter_mut() {
        match o.k {
            "clr" => o.c &= !2,
            "cls" => o.b &= !2,
            "llr" => o.c &= !1,
            "lls" => o.b &= !1,
            _ => {}
        }
    }
    c
}

fn has_cancel(c: &Case) -> bool {
    c.ops.iter().any(|(_, o)| match o.k {
        "clr" => o.c & 2 != 0,
        "cls" => o.b & 2 != 0,
        "llr" => o.c & 1 != 0,
        "lls" => o.b & 1 != 0,
        _ => false,
    })
}

/// (tag, case to store, its failure).  The tag is decided by the failing site AND by what the
/// program does, never by the property alone:
///  * `drain-abort-spin`: Client::run never returns from one poll
///  * `refused-claim-assert`: the channel-map assertion of msg_close_channel_end_reply fires in a
///    program that fails in the same way with every claim awaited to completion
///  * `cancelled-claim-assert`: the same assertion, but only because a claim future was dropped
///    while its request was in flight
///  * `double-bind-closes-held-end`: the map assertion of req_send_item / req_add_channel_capacity
///    fires in a run in which a client bound a channel end it already held
fn classify(c: &Case, f: &Failure, runs: &mut u64) -> (String, Case, Failure) {
    if f.class.starts_with("SPIN client.run") {
        return ("drain-abort-spin".into(), c.clone(), f.clone());
    }
    if f.class.contains("fn msg_close_channel_end_reply") && f.detail.contains("contained.is_some()") {
        if has_cancel(c) {
            let c2 = clear_cancels(c);
            for k in 0..3 {
                let mut c3 = c2.clone();
                c3.sched = c2.sched.wrapping_add(k * 7919);
                if let Some((c4, f4)) = still_fails(&c3, &f.class, runs) {
                    return ("refused-claim-assert".into(), c4, f4);
                }
            }
            return ("cancelled-claim-assert".into(), c.clone(), f.clone());
        }
        return ("refused-claim-assert".into(), c.clone(), f.clone());
    }
    if f.class.contains("fn req_send_item") || f.class.contains("fn req_add_channel_capacity") {
        *runs += 1;
        let r = run_case_caught(c);
        if r.stats.get("bind.double").copied().unwrap_or(0) > 0 {
            return ("double-bind-closes-held-end".into(), c.clone(), f.clone());
        }
    }
    ("other".into(), c.clone(), f.clone())
}

// ------------------------------------------------------------------------------------------
// output

fn fnv(s: &str) -> u64 {
    let mut h = 0xcbf29ce484222325u64;
    for b in s.bytes() {
        h = (h ^ b as u64).wrapping_mul(0x100000001b3);
    }
    h
}

fn trace_text(trace: &[Vec<(bool, Message)>], verdicts: &[String]) -> Vec<String> {
    // one line per client: `T <client> V <verdict> ; <S|R> msg ; <S|R> msg ; ...` — uuids numbered per case
    let mut ids = Ids::default();
    let mut out = vec![];
    for (i, t) in trace.iter().enumerate() {
        let mut s = format!("T {i} V {}", verdicts.get(i).map(String::as_str).unwrap_or("none"));
        for (sent, m) in t {
            write!(s, " ; {} {}", if *sent { "S" } else { "R" }, fmt_msg(m, &mut ids)).unwrap();
        }
        out.push(s);
    }
    out
}

fn json_str(s: &str) -> String {
    let mut o = String::from("\"");
    for c in s.chars() {
        match c {
            '"' => o.push_str("\\\""),
            '\\' => o.push_str("\\\\"),
            '\n' => o.push_str("\\n"),
            c if (c as u32) < 0x20 => write!(o, "\\u{:04x}", c as u32).unwrap(),
            c => o.push(c),
        }
    }
    o.push('"');
    o
}

struct Totals {
    cases: u64,
    failures: u64,
    polls: u64,
    ops: u64,
    stats: BTreeMap<String, u64>,
    by_fifo: BTreeMap<String, u64>,
    by_clients: BTreeMap<String, u64>,
    distinct: HashSet<u64>,
    samples: Vec<String>,
    traced_msgs: u64,
    fault_cases: u64,
    tags: BTreeMap<String, u64>,
}

fn write_outputs(outdir: &str, cases: &[Case], results: Vec<CaseResult>, do_shrink: bool, want_trace: bool, trace_max: usize) {
    let mut t = Totals {
        cases: 0,
        failures: 0,
        polls: 0,
        ops: 0,
        stats: BTreeMap::new(),
        by_fifo: BTreeMap::new(),
        by_clients: BTreeMap::new(),
        distinct: HashSet::new(),
        samples: vec![],
        traced_msgs: 0,
        fault_cases: 0,
        tags: BTreeMap::new(),
    };
    let (mut cases_txt, mut impl_txt, mut mon_txt, mut trace_txt) = (String::new(), String::new(), String::new(), String::new());
    let mut shrunk_classes: HashSet<String> = HashSet::new();
    for (ci, (c, r)) in cases.iter().zip(results.into_iter()).enumerate() {
        t.cases += 1;
        t.polls += r.polls;
        t.ops += c.ops.len() as u64;
        for (k, v) in &r.stats {
            *t.stats.entry(k.clone()).or_insert(0) += v;
        }
        *t.by_fifo.entry(if c.fifo == 0 { "unbounded".into() } else { format!("bounded({})", c.fifo) }).or_insert(0) += 1;
        *t.by_clients.entry(c.n.to_string()).or_insert(0) += 1;
        let text = c.text();
        // non-trivial: at least two clients with operations and at least one cross-client interaction kind
        let active = (0..c.n).filter(|w| c.ops.iter().any(|(x, _)| x == w)).count();
        let cross = c.ops.iter().any(|(_, o)| matches!(o.k, "px" | "clr" | "cls"));
        if active >= 2 && cross && c.ops.len() >= 8 {
            t.distinct.insert(fnv(&text.split_once('|').map(|x| x.1).unwrap_or("").to_string()));
        }
        if t.samples.len() < 3 {
            t.samples.push(text.clone());
        }
        writeln!(cases_txt, "{text}").unwrap();
        let fault = c.faults > 0;
        if fault {
            t.fault_cases += 1;
        }
        match &r.fail {
            None => writeln!(impl_txt, "ok polls={}", r.polls).unwrap(),
            Some(f) if fault => writeln!(impl_txt, "disturbed {} :: {}", f.class, f.detail.replace('\n', " ")).unwrap(),
            Some(f) => {
                t.failures += 1;
                writeln!(impl_txt, "FAIL {} :: {}", f.class, f.detail.replace('\n', " ")).unwrap();
                // shrink the first failure of each class of this shard
                let (sc, sf, runs) = if do_shrink && shrunk_classes.insert(f.class.clone()) {
                    shrink(c, f)
                } else {
                    (c.clone(), f.clone(), 0)
                };
                let mut runs = runs;
                let (tag, sc, sf) = classify(&sc, &sf, &mut runs);
                *t.tags.entry(tag.clone()).or_insert(0) += 1;
                writeln!(mon_txt, "{}\t{}\t{}\t{}\t{}\t{}", sf.class, ci, sc.text(), sf.detail.replace(['\n', '\t'], " "), runs, tag).unwrap();
            }
        }
        if want_trace && ci < trace_max && (fault || r.fail.is_none()) {
            for (k, l) in trace_text(&r.trace, &r.verdicts).into_iter().enumerate() {
                t.traced_msgs += r.trace[k].len() as u64;
                writeln!(trace_txt, "{ci} {l}").unwrap();
            }
        }
    }
    std::fs::create_dir_all(outdir).unwrap();
    std::fs::write(format!("{outdir}/cases.txt"), cases_txt).unwrap();
    std::fs::write(format!("{outdir}/impl.txt"), impl_txt).unwrap();
    std::fs::write(format!("{outdir}/monitor.txt"), mon_txt).unwrap();
    if want_trace {
        std::fs::write(format!("{outdir}/trace.txt"), trace_txt).unwrap();
    }
    let map = |m: &BTreeMap<String, u64>| {
        let v: Vec<String> = m.iter().map(|(k, v)| format!("{}: {}", json_str(k), v)).collect();
        format!("{{{}}}", v.join(", "))
    };
    let samples: Vec<String> = t.samples.iter().map(|s| json_str(s)).collect();
    let stats = format!(
        "{{\"cases\": {}, \"failures\": {}, \"polls\": {}, \"ops\": {}, \"traced_msgs\": {}, \"fault_cases\": {}, \"distinct_nontrivial\": {}, \"distinct_hashes\": [{}], \"by_transport\": {}, \"by_clients\": {}, \"result_classes\": {}, \"failure_tags\": {}, \"samples\": [{}]}}\n",
        t.cases,
        t.failures,
        t.polls,
        t.ops,
        t.traced_msgs,
        t.fault_cases,
        t.distinct.len(),
        t.distinct.iter().map(|h| h.to_string()).collect::<Vec<_>>().join(","),
        map(&t.by_fifo),
        map(&t.by_clients),
        map(&t.stats),
        map(&t.tags),
        samples.join(", ")
    );
    std::fs::write(format!("{outdir}/stats.json"), stats).unwrap();
}

fn main() {
    let args: Vec<String> = std::env::args().collect();
    install_hook();
    let flag = |f: &str| args.iter().any(|a| a == f);
    match args.get(1).map(String::as_str) {
        Some("gen") if args.len() >= 5 => {
            let outdir = &args[2];
            let n: u64 = args[3].parse().unwrap();
            let len: usize = args[4].parse().unwrap();
            let seed = env_u64("VERIF_SEED", 1);
            let mut r = Rng::new(seed);
            let o = GenOpts {
                failing_claims: !flag("--no-failing-claims"),
                cancel_claims: !flag("--no-cancel-claims"),
                shutdown_op: !flag("--no-shutdown-op"),
            };
            let mut cases: Vec<Case> = (0..n).map(|_| gen_case(&mut r, len, o)).collect();
            if let Some(i) = args.iter().position(|a| a == "--faults") {
                let f: u32 = args.get(i + 1).and_then(|x| x.parse().ok()).unwrap_or(20);
                for c in cases.iter_mut() {
                    c.faults = f;
                }
            }
            if !o.failing_claims {
                // no claim is ever refused: pool entries are taken exactly once (generator), no
                // pending end is closed while its peer may still be claimed, nobody shuts down
                // early, and the applications keep what they hold until all programs are done
                for c in cases.iter_mut() {
                    c.ops.retain(|(_, o)| o.k != "sh");
                    for (_, o) in c.ops.iter_mut() {
                        if matches!(o.k, "es" | "er") {
                            o.c = 0;
                        }
                    }
                }
            }
            let verbose = std::env::var("SCHED_VERBOSE").is_ok();
            let results: Vec<CaseResult> = cases
                .iter()
                .enumerate()
                .map(|(i, c)| {
                    if verbose {
                        eprintln!("case {i}: {}", c.text());
                    }
                    run_case_caught(c)
                })
                .collect();
            let trace_max = args
                .iter()
                .position(|a| a == "--trace-max")
                .and_then(|i| args.get(i + 1))
                .and_then(|x| x.parse().ok())
                .unwrap_or(usize::MAX);
            write_outputs(outdir, &cases, results, !flag("--no-shrink"), flag("--trace"), trace_max);
        }
        Some("run") if args.len() >= 4 => {
            let text = std::fs::read_to_string(&args[2]).unwrap();
            let reps: u64 = args.get(4).and_then(|s| s.parse().ok()).unwrap_or(1);
            let mut cases = vec![];
            for line in text.lines().filter(|l| !l.trim().is_empty()) {
                let c = Case::parse(line).unwrap_or_else(|| panic!("bad case line: {line}"));
                for k in 0..reps {
                    let mut c2 = c.clone();
                    if k > 0 {
                        c2.sched = c.sched.wrapping_mul(6364136223846793005).wrapping_add(k) >> 1;
                    }
                    cases.push(c2);
                }
            }
            let results: Vec<CaseResult> = cases.iter().map(run_case_caught).collect();
            write_outputs(&args[3], &cases, results, flag("--shrink"), flag("--trace"), usize::MAX);
        }
        _ => {
            eprintln!("usage: sched gen <outdir> <cases> <ops-per-client> [--no-failing-claims] [--no-cancel-claims] [--no-shutdown-op] [--no-shrink] [--trace [--trace-max <cases>]] [--faults <per-mille>]\n       sched run <case-file> <outdir> [reps] [--trace]");
            std::process::exit(2);
        }
    }
}
