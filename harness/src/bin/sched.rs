//! harness `sched` — C06 "clients and broker agree under every schedule".
//!
//! `sched gen <outdir> <cases> <ops-per-client> [opts]`   random programs, VERIF_SEED
//! `sched run <case-file> <outdir> [reps]`                 re-run stored cases (one per line)
//!
//! One case = 2..4 REAL clients (`Client::run`) + the REAL broker (`Broker::run`) + one
//! `Connection::run` per client + one application task per client + one server task per created
//! service, all on a single-threaded executor that honours wakers: a task is polled only after it
//! was woken, and the scheduler picks the next task among the woken ones with the seeded PRNG
//! (optionally with spurious polls).  Transports: `channel::unbounded()` or `channel::bounded(k)`,
//! k in 1..16, wrapped in a tap that records every message the client side sends/receives.
//!
//! An application task interprets a *program*: a list of operations over the public API whose
//! parameters are all part of the program (nothing is drawn at run time), so that a failing
//! program can be shrunk by delta debugging on the operation list.
//!
//! Oracle (the property statement): every `Client::run()` returns `Ok`; no task panics; no API
//! call returns an error outside the set documented for it in the given situation; a call returns
//! the value computed for that very call; items arrive in order without gaps; when no task is
//! runnable any more every task has finished (an awaited operation whose peer has acted is never
//! left pending: no lost wake-up, no deadlock), which includes `shutdown_idle` after all clients
//! are gone; the poll budget is not exhausted (no livelock).
//!
//! Events (section "event oracle"): the harness keeps, from the PROGRAM alone, the subscription
//! state of every proxy and every key (event id 0..3, "all events").  A key that was subscribed
//! (call returned Ok) before a *rendezvous* (`rz`: every client syncs with the broker, barrier,
//! syncs again, barrier) in which both the proxy's client and the service's owner took part is
//! `Stable`: from then on, until the application itself calls unsubscribe / unsubscribe_all /
//! drops that very proxy, every event the owner emits under that key MUST be delivered to that
//! proxy, exactly once and in emit order — whatever sibling proxies of the same client or other
//! clients do in the meantime.  An awaited `next_event()` with such an event outstanding has to
//! complete (`EVENT lost`).  A delivered event must have been emitted while the proxy was
//! subscribed at some time between the emit and the delivery (`EVENT unsubscribed`).
#![allow(clippy::all)]
use aldrin::core::channel::{self, Disconnected};
use aldrin::core::message::Message;
use aldrin::core::transport::AsyncTransport;
use aldrin::core::{
    BusListenerFilter, BusListenerScope, ChannelCookie, ObjectUuid, ServiceId, ServiceUuid,
};
use aldrin::error::RunError;
use aldrin::low_level::{
    PendingReceiver, PendingReply, PendingSender, Proxy, Receiver, Sender, Service, ServiceInfo,
    UnboundReceiver, UnboundSender, UnclaimedReceiver, UnclaimedSender,
};
use aldrin::{BusListener, Client, Error, Handle, Object};
use aldrin_broker::Broker;
use std::cell::{Cell, RefCell};
use std::collections::{BTreeMap, HashMap, HashSet, VecDeque};
use std::fmt::Write as _;
use std::future::{poll_fn, Future};
use std::panic::{catch_unwind, AssertUnwindSafe};
use std::pin::Pin;
use std::rc::Rc;
use std::sync::atomic::{AtomicBool, AtomicU64, Ordering};
use std::sync::{Arc, Mutex};
use std::task::{Context, Poll, Wake, Waker};
use uuid::Uuid;
use verif_harness::msgfmt::{fmt_msg, Ids};
use verif_harness::{env_u64, Rng};

// ------------------------------------------------------------------------------------------
// programs

#[derive(Clone, Copy, Debug, PartialEq, Eq)]
struct Op {
    k: &'static str,
    a: u32,
    b: u32,
    c: u32,
}

/// name, number of parameters
const OPS: &[(&str, usize)] = &[
    ("co", 1),  // create object (uuid index)
    ("do", 2),  // destroy object i (1 = explicit destroy().await, 0 = drop)
    ("cs", 3),  // create service on object i, uuid index, version
    ("sv", 3),  // server command: service j, 0 emit / 1 destroy / 2 stop, event
    ("px", 1),  // create proxy for global service g
    ("pf", 3),  // proxy family: k (1..5) proxies for global service g; c = 4 bits per proxy: subscribe event 0 / 1 / 2 / all events
    ("ca", 3),  // call: proxy p, function*8+class, mode (0 await,1 drop,2 poll once+drop,3 hold)
    ("aw", 1),  // await held call i
    ("su", 2),  // subscribe proxy p event
    ("us", 2),  // unsubscribe proxy p event
    ("sa", 1),  // subscribe all
    ("ua", 1),  // unsubscribe all
    ("pe", 2),  // poll events of proxy p, up to n
    ("dp", 1),  // drop proxy p
    ("ks", 1),  // create channel claiming the sender; unclaimed end: 0 unbind->pool, 1 keep
    ("kr", 2),  // create channel claiming the receiver (capacity); same
    ("clr", 3), // claim receiver from pool entry g with capacity; c: bit0 leave in pool, bit1 cancel
    ("cls", 2), // claim sender from pool entry g; b: bit0 leave in pool, bit1 cancel
    ("llr", 3), // claim local unclaimed receiver i with capacity; c: 1 cancel
    ("lls", 2), // claim local unclaimed sender i; b: 1 cancel
    ("ul", 3),  // local unclaimed end: a 0 sender/1 receiver, index, 0 drop/1 close().await/2 unbind->pool
    ("es", 3),  // establish pending sender i: tries, if not ready 0 keep/1 drop/2 close().await
    ("er", 3),  // establish pending receiver i
    ("sd", 2),  // send up to n items on sender i
    ("rv", 2),  // receive up to n items on receiver i
    ("xs", 2),  // close sender i (0 drop, 1 close().await)
    ("xr", 2),  // close receiver i
    ("bc", 0),  // create bus listener
    ("bf", 3),  // listener i, filter f, 0 add/1 remove/2 clear
    ("bs", 2),  // start listener i with scope
    ("bt", 1),  // stop listener i
    ("bp", 2),  // poll listener i up to n events
    ("bd", 2),  // listener i: 1 destroy().await then drop, 0 drop
    ("sy", 1),  // sync: 0 client, 1 broker
    ("rz", 0),  // rendezvous of all clients: sync_broker, barrier, sync_broker, barrier (the k-th
    // `rz` of every client belongs together; a finished program counts as arrived)
    ("yi", 1),  // yield n times
    ("sh", 0),  // Handle::shutdown()
];

fn op_name(s: &str) -> Option<(&'static str, usize)> {
    OPS.iter().find(|(n, _)| *n == s).map(|(n, k)| (*n, *k))
}

impl Op {
    fn new(k: &str, a: u32, b: u32, c: u32) -> Op {
        Op { k: op_name(k).expect("op name").0, a, b, c }
    }
    fn text(&self) -> String {
        let n = op_name(self.k).unwrap().1;
        let mut s = self.k.to_string();
        for v in [self.a, self.b, self.c].iter().take(n) {
            write!(s, ".{v}").unwrap();
        }
        s
    }
    fn parse(s: &str) -> Option<Op> {
        let mut it = s.split('.');
        let (k, n) = op_name(it.next()?)?;
        let mut v = [0u32; 3];
        for x in v.iter_mut().take(n) {
            *x = it.next()?.parse().ok()?;
        }
        Some(Op { k, a: v[0], b: v[1], c: v[2] })
    }
}

#[derive(Clone, Debug)]
struct Case {
    n: usize,
    fifo: usize, // 0 = unbounded
    sched: u64,
    spurious: u32, // spurious polls per 64 scheduling decisions
    /// applications keep everything they hold until every program has finished (used together
    /// with a generator that closes no pending end, so that no claim is ever refused)
    barrier: bool,
    /// per-mille probability that the tap disturbs a message on its way to the client (drop,
    /// duplicate, re-deliver an old one, swap with the next).  Such a case is NOT judged by the
    /// property oracle: it only produces sessions for the acceptance-automaton correspondence.
    faults: u32,
    /// negotiated protocol minor version per client (1.14 ..= 1.20; missing = 20).  14 connects with
    /// the old `Connect` handshake (`ClientBuilder::connect1`), 15..19 clamp the minor version of
    /// the client's `Connect2` in the transport tap, so that the real broker answers with it.
    vers: Vec<u32>,
    ops: Vec<(usize, Op)>, // (client, op) — per client in order
}

impl Case {
    fn ver(&self, client: usize) -> u32 {
        self.vers.get(client).copied().unwrap_or(20)
    }
    fn text(&self) -> String {
        let mut s = format!("n={} fifo={} sched={} spur={} barrier={} faults={}", self.n, self.fifo, self.sched, self.spurious, self.barrier as u8, self.faults);
        if self.vers.iter().any(|v| *v != 20) {
            let v: Vec<String> = (0..self.n).map(|i| self.ver(i).to_string()).collect();
            write!(s, " ver={}", v.join(",")).unwrap();
        }
        s.push_str(" |");
        for (c, o) in &self.ops {
            write!(s, " {}:{}", c, o.text()).unwrap();
        }
        s
    }
    fn parse(line: &str) -> Option<Case> {
        let (head, body) = line.split_once('|')?;
        let mut c = Case { n: 2, fifo: 0, sched: 1, spurious: 0, barrier: false, faults: 0, vers: vec![], ops: vec![] };
        for kv in head.split_whitespace() {
            let (k, v) = kv.split_once('=')?;
            match k {
                "n" => c.n = v.parse().ok()?,
                "fifo" => c.fifo = v.parse().ok()?,
                "sched" => c.sched = v.parse().ok()?,
                "spur" => c.spurious = v.parse().ok()?,
                "barrier" => c.barrier = v == "1",
                "faults" => c.faults = v.parse().ok()?,
                "ver" => {
                    for x in v.split(',') {
                        let m: u32 = x.parse().ok()?;
                        if !(14..=20).contains(&m) {
                            return None;
                        }
                        c.vers.push(m);
                    }
                }
                _ => return None,
            }
        }
        for t in body.split_whitespace() {
            let (w, o) = t.split_once(':')?;
            c.ops.push((w.parse().ok()?, Op::parse(o)?));
        }
        Some(c)
    }
}

#[derive(Clone, Copy)]
struct GenOpts {
    failing_claims: bool, // claims that the broker refuses (pool entries left behind, closed peers)
    cancel_claims: bool,  // claim futures dropped while the request is in flight
    shutdown_op: bool,
    event_theme: bool, // half of the cases use the event-themed generator
    /// this program draws half of its operations from the object / service / bus-listener slots
    /// (objects and services that come and go under listeners that are started, stopped and destroyed)
    listener_heavy: bool,
    /// protocol-version diversity (half of the cases mix 1.14 ..= 1.20)
    versions: bool,
}

fn gen_program(r: &mut Rng, who: usize, len: usize, o: GenOpts, out: &mut Vec<(usize, Op)>) {
    // optimistic counts of what the client holds, only to bias the choice towards applicable ops
    let (mut objs, mut svcs, mut prox, mut held, mut us, mut ur, mut ps, mut pr, mut sn, mut rc, mut bl) =
        (0u32, 0u32, 0u32, 0u32, 0u32, 0u32, 0u32, 0u32, 0u32, 0u32, 0u32);
    let push = |out: &mut Vec<(usize, Op)>, k: &str, a: u64, b: u64, c: u64| {
        out.push((who, Op::new(k, a as u32, b as u32, c as u32)))
    };
    let mut i = 0;
    while i < len {
        i += 1;
        let mut x = r.below(100);
        let idx = r.below(8);
        if o.listener_heavy && r.below(2) == 0 {
            x = *r.pick(&[0u64, 1, 6, 9, 15, 91, 92, 91, 92, 93, 94, 95, 96, 97, 97]);
        }
        match x {
            0..=4 => {
                push(out, "co", r.below(4), 0, 0);
                objs += 1;
            }
            5 => push(out, "rz", 0, 0, 0),
            6..=8 if objs > 0 => {
                push(out, "do", idx, r.below(2), 0);
                objs -= 1;
            }
            9..=14 if objs > 0 => {
                push(out, "cs", idx, r.below(3), 1 + r.below(3));
                svcs += 1;
            }
            15..=18 if svcs > 0 => {
                let cmd = *r.pick(&[0u64, 0, 0, 0, 0, 0, 0, 1, 2]);
                push(out, "sv", idx, cmd, r.below(NEV as u64));
                if cmd != 0 {
                    svcs -= 1;
                }
            }
            19..=25 => {
                // mostly one of the first services, so that a client holds several proxies of one service
                let g = if r.below(3) == 0 { r.below(16) } else { r.below(3) };
                if r.below(4) == 0 {
                    // a small family with random subscription sets
                    let k = 2 + r.below(2);
                    push(out, "pf", g, k, r.below(1 << 12));
                    prox += k as u32;
                } else {
                    push(out, "px", g, 0, 0);
                    prox += 1;
                }
            }
            26..=38 if prox > 0 => {
                let mode = *r.pick(&[0u64, 0, 0, 0, 1, 2, 3, 3]);
                push(out, "ca", idx, r.below(3) * 8 + r.below(8), mode);
                if mode == 3 {
                    held += 1;
                }
            }
            39..=40 if held > 0 => {
                push(out, "aw", idx, 0, 0);
                held -= 1;
            }
            41..=43 if prox > 0 => {
                push(out, "su", idx, r.below(NEV as u64), 0);
                if r.below(2) == 0 {
                    push(out, "pe", idx, 1 + r.below(4), 0);
                    i += 1;
                }
            }
            44 if prox > 0 => push(out, "us", idx, r.below(NEV as u64), 0),
            45..=46 if prox > 0 => push(out, "sa", idx, 0, 0),
            47 if prox > 0 => push(out, "ua", idx, 0, 0),
            48..=49 if prox > 0 => push(out, "pe", idx, 1 + r.below(4), 0),
            50..=52 if prox > 0 => {
                push(out, "dp", idx, 0, 0);
                prox -= 1;
            }
            53..=56 => {
                let keep = r.below(3) == 0;
                push(out, "ks", keep as u64, 0, 0);
                ps += 1;
                if keep {
                    ur += 1;
                }
            }
            57..=60 => {
                let keep = r.below(3) == 0;
                push(out, "kr", *r.pick(&[1u64, 2, 4, 5, 16]), keep as u64, 0);
                pr += 1;
                if keep {
                    us += 1;
                }
            }
            61..=65 => {
                let leave = o.failing_claims && r.below(4) == 0;
                let cancel = o.cancel_claims && r.below(6) == 0;
                push(out, "clr", r.below(8), *r.pick(&[1u64, 3, 4, 5, 9]), leave as u64 | (cancel as u64) << 1);
                rc += 1;
            }
            66..=70 => {
                let leave = o.failing_claims && r.below(4) == 0;
                let cancel = o.cancel_claims && r.below(6) == 0;
                push(out, "cls", r.below(8), leave as u64 | (cancel as u64) << 1, 0);
                sn += 1;
            }
            71 if ur > 0 => {
                push(out, "llr", idx, *r.pick(&[1u64, 2, 16]), (o.cancel_claims && r.below(6) == 0) as u64);
                ur -= 1;
                rc += 1;
            }
            72 if us > 0 => {
                push(out, "lls", idx, (o.cancel_claims && r.below(6) == 0) as u64, 0);
                us -= 1;
                sn += 1;
            }
            73..=74 if us + ur > 0 => {
                let which = if us == 0 { 1 } else if ur == 0 { 0 } else { r.below(2) };
                push(out, "ul", which, idx, r.below(3));
                if which == 0 {
                    us -= 1
                } else {
                    ur -= 1
                }
            }
            75..=77 if ps > 0 => {
                let k = *r.pick(&[0u64, 0, 1, 2]);
                push(out, "es", idx, 2 + r.below(6), k);
                sn += 1;
            }
            78..=80 if pr > 0 => {
                let k = *r.pick(&[0u64, 0, 1, 2]);
                push(out, "er", idx, 2 + r.below(6), k);
                rc += 1;
            }
            81..=84 if sn > 0 => push(out, "sd", idx, 1 + r.below(10), 0),
            85..=88 if rc > 0 => push(out, "rv", idx, 1 + r.below(10), 0),
            89 if sn > 0 => {
                push(out, "xs", idx, r.below(2), 0);
            }
            90 if rc > 0 => {
                push(out, "xr", idx, r.below(2), 0);
            }
            91..=92 if bl < 2 + o.listener_heavy as u32 => {
                push(out, "bc", 0, 0, 0);
                bl += 1;
                if r.below(2) == 0 {
                    push(out, "bf", bl as u64 - 1, r.below(4), 0);
                    push(out, "bs", bl as u64 - 1, r.below(3), 0);
                    i += 2;
                    // short-lived listeners: stopped or destroyed/dropped right after start(), while
                    // the broker's answer burst (current objects, CurrentFinished) may still be in flight
                    match r.below(4) {
                        0 => {
                            push(out, "bd", bl as u64 - 1, r.below(2), 0);
                            bl -= 1;
                            i += 1;
                        }
                        1 => {
                            push(out, "bt", bl as u64 - 1, 0, 0);
                            i += 1;
                        }
                        _ => {}
                    }
                }
            }
            93 if bl > 0 => push(out, "bf", idx, r.below(4), *r.pick(&[0u64, 0, 0, 1, 2])),
            94 if bl > 0 => push(out, "bs", idx, r.below(3), 0),
            95 if bl > 0 => push(out, "bt", idx, 0, 0),
            96 if bl > 0 => push(out, "bp", idx, 1 + r.below(5), 0),
            97 if bl > 0 => {
                push(out, "bd", idx, r.below(2), 0);
                bl -= 1;
            }
            98 => push(out, "sy", r.below(2), 0, 0),
            99 => push(out, "yi", 1 + r.below(4), 0, 0),
            _ => {
                i -= 1; // not applicable: draw again (terminates: co/px/ks/... are always applicable)
            }
        }
    }
    if o.shutdown_op && r.below(6) == 0 {
        let at = out.len() - r.below(1 + (len as u64).min(6)) as usize;
        out.insert(at, (who, Op::new("sh", 0, 0, 0)));
    }
}

/// counts of what an event-themed client holds (optimistic, only to bias the choice of operations)
#[derive(Clone, Copy, Default)]
struct EvCnt {
    objs: u32,
    svcs: u32,
    prox: u32,
    left: usize,
    /// sparse case: few single-event subscriptions (they come and go), mostly all-events ones — so
    /// that the LAST single-event subscription of a service ends while all-events ones stay
    sparse: bool,
}

/// a family of 2..5 proxies of one service with (mostly) different subscription sets
fn gen_family(r: &mut Rng, who: usize, c: &mut EvCnt, out: &mut Vec<(usize, Op)>) {
    let k = if c.sparse { 1 + r.below(3) } else { 2 + r.below(4) }.min(8 - c.prox as u64);
    let mut bits = 0u64;
    for j in 0..k {
        // per member: nothing, one event, two events, all events, an event and all events
        let b = if c.sparse {
            *r.pick(&[8u64, 8, 8, 0, 0, 1, 1, 2])
        } else {
            *r.pick(&[0u64, 1, 1, 1, 2, 2, 4, 3, 5, 8, 8, 9, 1, 3, 6, 10])
        };
        bits |= b << (4 * j);
    }
    out.push((who, Op::new("pf", *r.pick(&[0u64, 0, 0, 0, 1, 1, 2]) as u32, k as u32, bits as u32)));
    c.prox += k as u32;
}

/// one operation of the event-themed mix for client `who`: proxies of the first few services (up
/// to 6 alive per client, created and dropped at any time), (un)subscriptions of single events and
/// of all events, event polls, some emits (so that emits also race with the changes), a few
/// calls / syncs / further services / destructions
fn gen_event_op(r: &mut Rng, who: usize, c: &mut EvCnt, out: &mut Vec<(usize, Op)>) {
    const EV: [u64; 8] = [0, 0, 0, 1, 1, 2, 2, 3];
    let push = |out: &mut Vec<(usize, Op)>, k: &str, a: u64, b: u64, c: u64| {
        out.push((who, Op::new(k, a as u32, b as u32, c as u32)))
    };
    loop {
        let mut x = r.below(100);
        let idx = r.below(8);
        if c.sparse && (16..=37).contains(&x) {
            // fewer subscribe(event): the slots go to unsubscribe / subscribe_all / drop
            x = *r.pick(&[16, 20, 24, 38, 40, 42, 46, 48, 50, 52, 55, 60, 64, 68]);
        }
        match x {
            0..=6 if c.prox + 2 <= 8 => gen_family(r, who, c, out),
            7..=15 if c.prox < 8 => {
                push(out, "px", *r.pick(&[0u64, 0, 0, 0, 1, 1, 2]), 0, 0);
                c.prox += 1;
            }
            16..=37 if c.prox > 0 => push(out, "su", idx, *r.pick(&EV), 0),
            38..=45 if c.prox > 0 => push(out, "us", idx, *r.pick(&EV), 0),
            46..=54 if c.prox > 0 => push(out, "sa", idx, 0, 0),
            55..=59 if c.prox > 0 => push(out, "ua", idx, 0, 0),
            60..=71 if c.prox > 1 => {
                push(out, "dp", idx, 0, 0);
                c.prox -= 1;
            }
            72..=79 if c.prox > 0 => push(out, "pe", idx, 1 + r.below(4), 0),
            80..=86 if c.svcs > 0 => push(out, "sv", idx, 0, *r.pick(&EV)),
            87..=89 => push(out, "yi", 1 + r.below(4), 0, 0),
            90..=91 => push(out, "sy", r.below(2), 0, 0),
            92..=94 if c.prox > 0 => push(out, "ca", idx, r.below(3) * 8 + r.below(8), *r.pick(&[0u64, 0, 0, 1, 2])),
            95 => {
                push(out, "co", r.below(4), 0, 0);
                c.objs += 1;
            }
            96..=97 if c.objs > 0 => {
                push(out, "cs", idx, r.below(3), 1 + r.below(3));
                c.svcs += 1;
            }
            98 if c.objs > 1 && r.below(2) == 0 => {
                push(out, "do", idx, r.below(2), 0);
                c.objs -= 1;
            }
            99 if c.svcs > 1 && r.below(2) == 0 => {
                push(out, "sv", idx, 1 + r.below(2), 0);
                c.svcs -= 1;
            }
            _ => continue, // not applicable: draw again (px / yi are always applicable)
        }
        break;
    }
    c.left = c.left.saturating_sub(1);
}

/// the event-themed case: every client's program is built in ROUNDS —
///   a few operations of the event mix per client (different numbers, so the clients drift),
///   a rendezvous (which confirms what is subscribed then),
///   the owners emit a burst over subscribed and unsubscribed event ids while the other clients
///   already run the next round's operations (drops, unsubscribes, new proxies race with the emits).
/// `lens[who]` bounds the program of each client: a short one ends (and disconnects) while the
/// others go on.
fn gen_event_case(r: &mut Rng, lens: &[usize], o: GenOpts, out: &mut Vec<(usize, Op)>) {
    const EV: [u64; 8] = [0, 0, 0, 1, 1, 2, 2, 3];
    let n = lens.len();
    let sparse = r.below(3) == 0;
    let mut cnt: Vec<EvCnt> = lens.iter().map(|l| EvCnt { left: *l, sparse, ..Default::default() }).collect();
    let mut starts = vec![];
    for who in 0..n {
        starts.push(out.len());
        // few services per case (client 0 always owns one), so that subscriptions and emits meet
        if who == 0 || r.below(3) == 0 {
            out.push((who, Op::new("co", who as u32, 0, 0))); // distinct uuids: no DuplicateObject here
            cnt[who].objs += 1;
            for _ in 0..1 + r.below(2) {
                out.push((who, Op::new("cs", 0, r.below(3) as u32, 1 + r.below(3) as u32)));
                cnt[who].svcs += 1;
            }
        }
        out.push((who, Op::new("rz", 0, 0, 0)));
        if r.below(4) != 0 && cnt[who].left > 0 {
            gen_family(r, who, &mut cnt[who], out);
            cnt[who].left -= 1;
        }
    }
    while cnt.iter().any(|c| c.left > 0) {
        for who in 0..n {
            let k = (1 + r.below(8)) as usize;
            for _ in 0..k.min(cnt[who].left) {
                gen_event_op(r, who, &mut cnt[who], out);
            }
        }
        let skip = r.below(8) == 0; // sometimes a round without rendezvous
        for who in 0..n {
            if cnt[who].left > 0 && !skip {
                out.push((who, Op::new("rz", 0, 0, 0)));
                cnt[who].left -= 1;
            }
        }
        for who in 0..n {
            if cnt[who].svcs == 0 || cnt[who].left == 0 {
                continue;
            }
            for _ in 0..1 + r.below(5) {
                if cnt[who].left == 0 {
                    break;
                }
                out.push((who, Op::new("sv", r.below(4) as u32, 0, *r.pick(&EV) as u32)));
                cnt[who].left -= 1;
                if r.below(3) == 0 && cnt[who].left > 0 {
                    gen_event_op(r, who, &mut cnt[who], out);
                }
            }
        }
    }
    for who in 0..n {
        if o.shutdown_op && r.below(6) == 0 {
            // a subscriber (or owner) that disconnects while the others go on
            let mine: Vec<usize> = (0..out.len()).filter(|i| out[*i].0 == who).collect();
            let k = mine.len() - r.below(1 + mine.len() as u64 / 3) as usize;
            let at = if k >= mine.len() { out.len() } else { mine[k] };
            out.insert(at, (who, Op::new("sh", 0, 0, 0)));
        }
    }
    let _ = starts;
}

fn gen_case(r: &mut Rng, len: usize, o: GenOpts) -> Case {
    let n = 2 + r.below(3) as usize;
    let fifo = match r.below(8) {
        0 | 1 => 0,
        2 | 3 => 1,
        4 => 2,
        5 => 16,
        _ => 1 + r.below(16) as usize,
    };
    let mut ops = vec![];
    // half of the cases are event-themed (all clients of the case)
    let events = o.event_theme && r.below(2) == 0;
    let lens: Vec<usize> = (0..n).map(|_| if r.below(5) == 0 { 1 + r.below(len as u64) as usize } else { len }).collect();
    if events {
        gen_event_case(r, &lens, o, &mut ops);
    } else {
        // a third of the general cases is listener-heavy
        let o = GenOpts { listener_heavy: r.below(3) == 0, ..o };
        for who in 0..n {
            gen_program(r, who, lens[who], o, &mut ops);
        }
    }
    // protocol versions: half of the cases all-newest, otherwise every client draws its own
    let vers: Vec<u32> = if !o.versions || r.below(2) == 0 {
        vec![]
    } else {
        (0..n).map(|_| *r.pick(&[20u64, 20, 20, 20, 20, 20, 19, 19, 18, 18, 18, 17, 17, 17, 16, 16, 15, 15, 14, 14]) as u32).collect()
    };
    Case { n, fifo, sched: r.next() >> 1, spurious: if r.below(6) == 0 { 8 } else { 0 }, barrier: !o.failing_claims, faults: 0, vers, ops }
}

// ------------------------------------------------------------------------------------------
// executor

type Task = Pin<Box<dyn Future<Output = ()>>>;

struct Flag(AtomicBool);
impl Wake for Flag {
    fn wake(self: Arc<Self>) {
        self.0.store(true, Ordering::SeqCst);
    }
    fn wake_by_ref(self: &Arc<Self>) {
        self.0.store(true, Ordering::SeqCst);
    }
}

struct Yield(bool);
impl Future for Yield {
    type Output = ();
    fn poll(mut self: Pin<&mut Self>, cx: &mut Context) -> Poll<()> {
        if self.0 {
            Poll::Ready(())
        } else {
            self.0 = true;
            cx.waker().wake_by_ref();
            Poll::Pending
        }
    }
}
async fn yield_n(n: u32) {
    for _ in 0..n {
        Yield(false).await;
    }
}

/// poll `f` up to `tries` times, yielding to the scheduler in between
async fn try_poll<T>(tries: u32, mut f: impl FnMut(&mut Context) -> Poll<T>) -> Option<T> {
    for i in 0..tries {
        if let Poll::Ready(x) = poll_fn(|cx| Poll::Ready(f(cx))).await {
            return Some(x);
        }
        if i + 1 < tries {
            Yield(false).await;
        }
    }
    None
}

static LAST_PANIC: Mutex<Option<String>> = Mutex::new(None);

/// name of the function whose body contains `path:line` (panic messages start with `path:line: `)
fn enclosing_fn(msg: &str) -> String {
    let mut it = msg.splitn(3, ':');
    let (Some(path), Some(line)) = (it.next(), it.next()) else { return "?".into() };
    let Ok(line) = line.trim().parse::<usize>() else { return "?".into() };
    let Ok(src) = std::fs::read_to_string(path) else { return "?".into() };
    let lines: Vec<&str> = src.lines().collect();
    for l in lines[..line.min(lines.len())].iter().rev() {
        if let Some(i) = l.find("fn ") {
            let before = &l[..i];
            if before.trim().chars().all(|c| c.is_alphanumeric() || c == ' ' || c == '(' || c == ')' || c == '_') {
                let name: String = l[i + 3..].chars().take_while(|c| c.is_alphanumeric() || *c == '_').collect();
                if !name.is_empty() {
                    return name;
                }
            }
        }
    }
    "?".into()
}

fn install_hook() {
    std::panic::set_hook(Box::new(|info| {
        let loc = info.location().map(|l| format!("{}:{}", l.file(), l.line())).unwrap_or_default();
        let msg = if let Some(s) = info.payload().downcast_ref::<String>() {
            s.clone()
        } else if let Some(s) = info.payload().downcast_ref::<&str>() {
            s.to_string()
        } else {
            "panic".to_string()
        };
        *LAST_PANIC.lock().unwrap() = Some(format!("{loc}: {msg}"));
    }));
}

// ------------------------------------------------------------------------------------------
// transport tap

type Tx = Box<dyn AsyncTransport<Error = Disconnected> + Unpin>;
type Log = Rc<RefCell<Vec<(bool, Message)>>>; // (true = sent by the client, message)

/// incremented by the executor before every task poll; a transport that is polled for input
/// more than SPIN_LIMIT times within ONE task poll belongs to a task that loops without ever
/// returning to the executor (on a single-threaded runtime nothing else can run then)
static EPOCH: AtomicU64 = AtomicU64::new(0);
const SPIN_LIMIT: u32 = 200_000;

struct Tap {
    inner: Tx,
    log: Option<Log>,
    epoch: u64,
    calls: u32,
    /// fault injection on the receive path (per-mille, PRNG, messages to deliver first, history)
    faults: u32,
    rng: Rng,
    pending: VecDeque<Message>,
    held: Option<Message>,
    history: Vec<Message>,
    /// the peer "only speaks up to 1.<clamp>": the minor version of an outgoing Connect2 is lowered
    clamp: Option<u32>,
}

impl Tap {
    fn new(inner: Tx, log: Option<Log>) -> Tap {
        Tap { inner, log, epoch: 0, calls: 0, faults: 0, rng: Rng::new(1), pending: VecDeque::new(), held: None, history: vec![], clamp: None }
    }

    fn deliver(&mut self, m: Message) -> Poll<Result<Message, Disconnected>> {
        if let Some(log) = &self.log {
            log.borrow_mut().push((false, m.clone()));
        }
        Poll::Ready(Ok(m))
    }
}

impl AsyncTransport for Tap {
    type Error = Disconnected;
    fn receive_poll(mut self: Pin<&mut Self>, cx: &mut Context) -> Poll<Result<Message, Disconnected>> {
        let e = EPOCH.load(Ordering::Relaxed);
        if self.epoch == e {
            self.calls += 1;
            if self.calls > SPIN_LIMIT {
                self.calls = 0;
                panic!("SPIN: receive_poll called {SPIN_LIMIT} times within a single poll of the task (busy loop that never yields)");
            }
        } else {
            self.epoch = e;
            self.calls = 0;
        }
        if let Some(m) = self.pending.pop_front() {
            return self.deliver(m);
        }
        let r = Pin::new(&mut self.inner).receive_poll(cx);
        match r {
            Poll::Ready(Ok(m)) => {
                if self.faults == 0 || matches!(m, Message::Shutdown(_)) || self.rng.below(1000) >= self.faults as u64 {
                    if self.faults != 0 {
                        self.history.push(m.clone());
                        if let Some(h) = self.held.take() {
                            self.pending.push_back(h); // the swapped message follows its successor
                        }
                    }
                    return self.deliver(m);
                }
                self.history.push(m.clone());
                match self.rng.below(4) {
                    0 => {
                        // drop: ask again (the waker is registered by the next poll)
                        cx.waker().wake_by_ref();
                        Poll::Pending
                    }
                    1 => {
                        self.pending.push_back(m.clone()); // duplicate
                        self.deliver(m)
                    }
                    2 => {
                        // re-deliver an old message first
                        let n = self.history.len() as u64;
                        let i = self.rng.below(n) as usize;
                        let old = self.history[i].clone();
                        self.pending.push_back(m);
                        self.deliver(old)
                    }
                    _ => {
                        // swap with the next message
                        if let Some(h) = self.held.replace(m) {
                            return self.deliver(h);
                        }
                        cx.waker().wake_by_ref();
                        Poll::Pending
                    }
                }
            }
            other => other,
        }
    }
    fn send_poll_ready(mut self: Pin<&mut Self>, cx: &mut Context) -> Poll<Result<(), Disconnected>> {
        Pin::new(&mut self.inner).send_poll_ready(cx)
    }
    fn send_start(mut self: Pin<&mut Self>, mut msg: Message) -> Result<(), Disconnected> {
        if let (Some(c), Message::Connect2(connect)) = (self.clamp, &mut msg) {
            connect.minor_version = connect.minor_version.min(c);
        }
        if let Some(log) = &self.log {
            log.borrow_mut().push((true, msg.clone()));
        }
        Pin::new(&mut self.inner).send_start(msg)
    }
    fn send_poll_flush(mut self: Pin<&mut Self>, cx: &mut Context) -> Poll<Result<(), Disconnected>> {
        Pin::new(&mut self.inner).send_poll_flush(cx)
    }
}

// ------------------------------------------------------------------------------------------
// shared board

#[derive(Default)]
struct Board {
    services: Vec<ServiceId>,
    // event oracle (see below)
    svc_rec: Vec<SvcRec>,
    px: Vec<PxRec>,
    emits: Vec<EmitRec>,
    clock: u64,
    shut: Vec<bool>,
    rz_arr: Vec<u64>,
    rz_good: Vec<Option<u64>>,
    rz_done: u64,
    /// false in a disturbed case (fault injection): nothing is awaited without bound there
    judge: bool,
    /// negotiated protocol minor version per client
    vers: Vec<u32>,
    recv_ends: Vec<ChannelCookie>,
    send_ends: Vec<ChannelCookie>,
    chan_tag: HashMap<ChannelCookie, u32>,
    next_call: u32,
    /// oracle failures noticed by application/server tasks: (class, detail)
    bad: Vec<(String, String)>,
    run_results: Vec<(usize, String)>,
    app_done: usize,
    progs_done: usize,
    barrier_wakers: Vec<Waker>,
    stats: BTreeMap<String, u64>,
    spawn: Vec<(String, Task)>,
}
type B = Rc<RefCell<Board>>;

fn stat(b: &B, k: &str) {
    *b.borrow_mut().stats.entry(k.to_string()).or_insert(0) += 1;
}
fn bad(b: &B, class: &str, detail: String) {
    b.borrow_mut().bad.push((class.to_string(), detail));
}

// what the server answers to a call with argument `arg` on function `f`
fn call_class(arg: u32) -> u32 {
    arg & 7
}
fn ok_value(arg: u32, f: u32) -> u32 {
    arg.wrapping_mul(2654435761).rotate_left(f & 31) ^ 0xA5A5
}
fn err_value(arg: u32, f: u32) -> u32 {
    (arg ^ 0x5555_0000).wrapping_add(f)
}
/// the value of the `seq`-th emit of the case (seq counts from 1 over all services)
fn event_value(ev: u32, seq: u32) -> u32 {
    seq.wrapping_mul(16).wrapping_add(ev & 15)
}

// ------------------------------------------------------------------------------------------
// event oracle: per-proxy subscription state and expected events, from the program alone

/// event ids used by programs
const NEV: u32 = 4;
/// key index of "all events"
const KALL: usize = NEV as usize;
const NKEY: usize = KALL + 1;

/// state of one key (event id or "all events") of one proxy, as the APPLICATION knows it
#[derive(Clone, Copy, PartialEq, Eq, Debug)]
enum Sub {
    Off,     // never subscribed, or the unsubscribing call has returned
    Pending, // subscribe()/subscribe_all() called, not yet returned
    On,      // ... returned Ok
    Stable,  // On, and a rendezvous of the proxy's client and the owner's client happened since
    Leaving, // unsubscribe()/unsubscribe_all() called, not yet returned
    Zombie,  // a subscribing call returned an error (service gone): anything may or may not arrive
}

#[derive(Clone, Copy)]
struct Must {
    seq: u32,
    ev: u32,
    by_ev: bool,  // the event's own key was Stable at the emit and has not been given up since
    by_all: bool, // the same for the all-events key
}

struct PxRec {
    client: usize,
    svc: usize,
    alive: bool,
    st: [Sub; NKEY],
    ever: [bool; NKEY],
    /// clock value at which the key last became Off
    off_at: [u64; NKEY],
    /// emits that HAVE to be delivered to this proxy, in emit order
    must: VecDeque<Must>,
    last_seq: u32,
    /// the application is inside `next_event().await` because `must` is not empty
    awaiting: bool,
}

struct SvcRec {
    owner: usize,
    /// the owner has started to destroy the service (or its object, or shut down, or finished)
    ended: bool,
}

struct EmitRec {
    svc: usize,
    ev: u32,
    at: u64,
}

fn px_new(b: &B, client: usize, svc: usize) -> usize {
    let mut bb = b.borrow_mut();
    bb.px.push(PxRec {
        client,
        svc,
        alive: true,
        st: [Sub::Off; NKEY],
        ever: [false; NKEY],
        off_at: [0; NKEY],
        must: VecDeque::new(),
        last_seq: 0,
        awaiting: false,
    });
    bb.px.len() - 1
}

fn px_sub_begin(b: &B, pid: usize, key: usize) {
    let mut bb = b.borrow_mut();
    let p = &mut bb.px[pid];
    p.ever[key] = true;
    if matches!(p.st[key], Sub::Off | Sub::Leaving | Sub::Zombie) {
        p.st[key] = Sub::Pending;
    }
}

fn px_sub_end(b: &B, pid: usize, key: usize, ok: bool) {
    let mut bb = b.borrow_mut();
    let p = &mut bb.px[pid];
    if !ok {
        p.st[key] = Sub::Zombie;
    } else if p.st[key] == Sub::Pending {
        p.st[key] = Sub::On;
    }
}

/// `key` = event id, or KALL for unsubscribe_all() (which gives up EVERY key of the proxy)
fn px_unsub_begin(b: &B, pid: usize, key: usize) {
    let mut bb = b.borrow_mut();
    let p = &mut bb.px[pid];
    if key == KALL {
        for k in 0..NKEY {
            if p.st[k] != Sub::Off {
                p.st[k] = Sub::Leaving;
            }
        }
        p.must.clear();
    } else {
        if p.st[key] != Sub::Off {
            p.st[key] = Sub::Leaving;
        }
        for m in p.must.iter_mut() {
            if m.ev as usize == key {
                m.by_ev = false;
            }
        }
        p.must.retain(|m| m.by_ev || m.by_all);
    }
}

fn px_unsub_end(b: &B, pid: usize, key: usize) {
    let mut bb = b.borrow_mut();
    bb.clock += 1;
    let now = bb.clock;
    let p = &mut bb.px[pid];
    for k in 0..NKEY {
        if (key == KALL || k == key) && p.st[k] == Sub::Leaving {
            p.st[k] = Sub::Off;
            p.off_at[k] = now;
        }
    }
}

fn px_dead(b: &B, pid: usize) {
    let mut bb = b.borrow_mut();
    let p = &mut bb.px[pid];
    p.alive = false;
    p.must.clear();
    p.awaiting = false;
}

fn svc_end(b: &B, svc: usize) {
    b.borrow_mut().svc_rec[svc].ended = true;
}

/// the owner emits event `ev` of service `svc`: the sequence number of this emit
fn emit_begin(b: &B, svc: usize, ev: u32) -> u32 {
    let mut bb = b.borrow_mut();
    bb.clock += 1;
    let at = bb.clock;
    bb.emits.push(EmitRec { svc, ev, at });
    bb.emits.len() as u32
}

/// `Service::emit` returned Ok: every proxy holding a Stable key for it has to receive it
fn emit_ok(b: &B, svc: usize, ev: u32, seq: u32) {
    let mut bb = b.borrow_mut();
    let owner = bb.svc_rec[svc].owner;
    if bb.svc_rec[svc].ended || bb.shut[owner] {
        return;
    }
    let (mut n, mut subscribed) = (0u64, 0u64);
    for p in bb.px.iter_mut() {
        if !p.alive || p.svc != svc {
            continue;
        }
        let by_ev = p.st[ev as usize] == Sub::Stable;
        let by_all = p.st[KALL] == Sub::Stable;
        if by_ev || by_all {
            p.must.push_back(Must { seq, ev, by_ev, by_all });
            n += 1;
        } else if p.st[ev as usize] != Sub::Off || p.st[KALL] != Sub::Off {
            subscribed += 1;
        }
    }
    *bb.stats.entry("event.must_recorded".into()).or_insert(0) += n;
    *bb.stats.entry("event.may_recorded".into()).or_insert(0) += subscribed;
    if n == 0 && subscribed == 0 {
        *bb.stats.entry("emit.nobody_subscribed".into()).or_insert(0) += 1;
    }
}

/// proxy `pid` delivered an event with id `id` and value `v`: Err((class, detail)) if the oracle objects
fn event_delivered(b: &B, pid: usize, id: u32, v: Option<u32>) -> Result<(), (&'static str, String)> {
    let mut bb = b.borrow_mut();
    let who = bb.px[pid].client;
    let Some(v) = v else {
        return Err(("VALUE event", format!("c{who} event {id}: value does not decode")));
    };
    let seq = v >> 4;
    if v & 15 != id || seq == 0 || seq as usize > bb.emits.len() || bb.emits[seq as usize - 1].ev != id {
        return Err(("VALUE event", format!("c{who} event {id} carries a foreign value {v}")));
    }
    let (esvc, eat) = {
        let e = &bb.emits[seq as usize - 1];
        (e.svc, e.at)
    };
    let p = &mut bb.px[pid];
    if esvc != p.svc {
        return Err(("EVENT foreign", format!("c{who} proxy #{pid} of service #{} received emit #{seq} (event {id}) of service #{esvc}", p.svc)));
    }
    if seq <= p.last_seq {
        return Err((
            "EVENT order",
            format!("c{who} proxy #{pid} received emit #{seq} (event {id}) after emit #{}: duplicated or out of emit order", p.last_seq),
        ));
    }
    let held = |k: usize| p.st[k] != Sub::Off || (p.ever[k] && p.off_at[k] > eat);
    if !(held(id as usize) || held(KALL)) {
        return Err((
            "EVENT unsubscribed",
            format!(
                "c{who} proxy #{pid} received emit #{seq} of event {id}, but at no time between that emit and now was it subscribed to event {id} or to all events (states now {:?})",
                p.st
            ),
        ));
    }
    p.last_seq = seq;
    let mut was_must = false;
    while let Some(m) = p.must.front().copied() {
        if m.seq < seq {
            return Err((
                "EVENT lost",
                format!(
                    "c{who} proxy #{pid} (service #{}) received emit #{seq} but never emit #{} of event {}, which was emitted earlier while the proxy held a confirmed subscription ({})",
                    p.svc,
                    m.seq,
                    m.ev,
                    if m.by_ev { "to that event" } else { "to all events" }
                ),
            ));
        }
        if m.seq == seq {
            p.must.pop_front();
            was_must = true;
        }
        break;
    }
    *bb.stats.entry(if was_must { "event.must_delivered" } else { "event.may_delivered" }.into()).or_insert(0) += 1;
    Ok(())
}

/// arrive at barrier `idx` of the rendezvous sequence and wait for every other client (clients whose
/// program has finished count as arrived everywhere)
async fn rz_wait(b: &B, who: usize, idx: u64) {
    let ws: Vec<Waker> = {
        let mut bb = b.borrow_mut();
        bb.rz_arr[who] = idx + 1;
        bb.barrier_wakers.drain(..).collect()
    };
    for w in ws {
        w.wake();
    }
    poll_fn(|cx| {
        let mut bb = b.borrow_mut();
        if bb.rz_arr.iter().all(|a| *a > idx) {
            Poll::Ready(())
        } else {
            bb.barrier_wakers.push(cx.waker().clone());
            Poll::Pending
        }
    })
    .await;
}

fn rz_leave(b: &B, who: usize) {
    let ws: Vec<Waker> = {
        let mut bb = b.borrow_mut();
        if who < bb.rz_arr.len() {
            bb.rz_arr[who] = u64::MAX;
        }
        bb.barrier_wakers.drain(..).collect()
    };
    for w in ws {
        w.wake();
    }
}

/// rendezvous `k` is complete (called by every participant right after the last barrier; the first
/// caller does the work, before any participant runs its next operation): a key that is `On` at a
/// proxy whose client AND whose service's owner both completed the two syncs is confirmed at the
/// broker (the subscriber's first sync follows its SubscribeEvent on the same FIFO) and at the
/// owner (the owner's second sync started after that, its reply follows the forwarded
/// SubscribeEvent on the broker -> owner FIFO)
fn rz_upgrade(b: &B, k: u64) {
    let mut bb = b.borrow_mut();
    if bb.rz_done > k {
        return;
    }
    bb.rz_done = k + 1;
    let good: Vec<bool> = (0..bb.rz_good.len()).map(|c| bb.rz_good[c] == Some(k) && !bb.shut[c]).collect();
    let svc_ok: Vec<bool> = bb.svc_rec.iter().map(|s| !s.ended && good[s.owner]).collect();
    let mut n = 0u64;
    for p in bb.px.iter_mut() {
        if p.alive && good[p.client] && svc_ok[p.svc] {
            for k in 0..NKEY {
                if p.st[k] == Sub::On {
                    p.st[k] = Sub::Stable;
                    n += 1;
                }
            }
        }
    }
    *bb.stats.entry("rz.completed".into()).or_insert(0) += 1;
    *bb.stats.entry("rz.keys_confirmed".into()).or_insert(0) += n;
}

#[derive(Default)]
struct Mailbox {
    q: VecDeque<(u32, u32)>, // (cmd, event)
    waker: Option<Waker>,
    gone: bool,
}
type Mb = Rc<RefCell<Mailbox>>;

fn mb_push(mb: &Mb, cmd: u32, ev: u32) {
    let w = {
        let mut m = mb.borrow_mut();
        m.q.push_back((cmd, ev));
        m.waker.take()
    };
    if let Some(w) = w {
        w.wake();
    }
}

enum Next {
    Cmd(u32, u32),
    Call(aldrin::low_level::Call),
    End,
}

/// server task: answers every call with a value derived from its arguments; commands from the
/// owning application arrive through the mailbox (emit, destroy, stop)
async fn serve(mut svc: Service, mb: Mb, b: B, who: usize, gsvc: usize) {
    loop {
        let next = poll_fn(|cx| {
            let mut m = mb.borrow_mut();
            if let Some((c, e)) = m.q.pop_front() {
                return Poll::Ready(Next::Cmd(c, e));
            }
            m.waker = Some(cx.waker().clone());
            drop(m);
            match svc.poll_next_call(cx) {
                Poll::Ready(Some(c)) => Poll::Ready(Next::Call(c)),
                Poll::Ready(None) => Poll::Ready(Next::End),
                Poll::Pending => Poll::Pending,
            }
        })
        .await;
        match next {
            Next::End => {
                svc_end(&b, gsvc);
                stat(&b, "server.stream_end");
                break;
            }
            Next::Cmd(0, ev) => {
                let seq = emit_begin(&b, gsvc, ev);
                match svc.emit(ev, event_value(ev, seq)) {
                    Ok(()) => {
                        stat(&b, "emit.ok");
                        emit_ok(&b, gsvc, ev, seq);
                    }
                    Err(Error::Shutdown) => stat(&b, "emit.shutdown"),
                    Err(e) => bad(&b, "API emit", format!("c{who} emit -> {e:?}")),
                }
            }
            Next::Cmd(1, _) => {
                svc_end(&b, gsvc);
                match svc.destroy().await {
                    Ok(()) => stat(&b, "svc_destroy.ok"),
                    Err(Error::InvalidService) => stat(&b, "svc_destroy.invalid"),
                    Err(Error::Shutdown) => stat(&b, "svc_destroy.shutdown"),
                    Err(e) => bad(&b, "API service destroy", format!("c{who} service.destroy -> {e:?}")),
                }
                break;
            }
            Next::Cmd(_, _) => {
                svc_end(&b, gsvc);
                break;
            }
            Next::Call(call) => {
                let f = call.id();
                let arg = match call.deserialize::<u32>() {
                    Ok(a) => a,
                    Err(e) => {
                        bad(&b, "VALUE call args", format!("c{who} call args do not decode: {e:?}"));
                        continue;
                    }
                };
                yield_n((arg >> 3) % 3).await;
                let p = call.into_promise();
                let res = match call_class(arg) {
                    0 | 1 | 2 => p.ok(ok_value(arg, f)),
                    3 => p.err(err_value(arg, f)),
                    4 => p.abort(),
                    5 => {
                        drop(p);
                        Ok(())
                    }
                    6 => p.invalid_function(),
                    _ => p.invalid_args(),
                };
                match res {
                    Ok(()) => stat(&b, "served"),
                    Err(Error::Shutdown) => stat(&b, "served.shutdown"),
                    Err(e) => bad(&b, "API promise", format!("c{who} promise -> {e:?}")),
                }
            }
        }
    }
    mb.borrow_mut().gone = true;
    drop(svc);
}

// ------------------------------------------------------------------------------------------
// application task

struct ProxySt {
    p: Proxy,
    /// index of the proxy's record on the board (event oracle)
    pid: usize,
    /// the event stream has ended
    done: bool,
}
struct Held {
    r: PendingReply,
    arg: u32,
    f: u32,
}
struct SenderSt {
    s: Sender,
    tag: u32,
    next: u32,
}
struct ReceiverSt {
    r: Receiver,
    tag: u32,
    next: u32,
}

struct App {
    who: usize,
    h: Handle,
    b: B,
    shut: bool,
    objects: Vec<Object>,
    /// per object: the services (board index) created on it
    obj_svcs: Vec<Vec<usize>>,
    /// every service this client created (board index)
    my_svcs: Vec<usize>,
    /// number of `rz` operations executed
    rz_k: u64,
    servers: Vec<Mb>,
    proxies: Vec<ProxySt>,
    held: Vec<Held>,
    unc_s: Vec<UnclaimedSender>,
    unc_r: Vec<UnclaimedReceiver>,
    pend_s: Vec<PendingSender>,
    pend_r: Vec<PendingReceiver>,
    senders: Vec<SenderSt>,
    receivers: Vec<ReceiverSt>,
    listeners: Vec<BusListener>,
    /// channel ends this client has held or bound so far: (cookie, is_sender)
    bound: HashSet<(ChannelCookie, bool)>,
}

fn pick(i: u32, len: usize) -> Option<usize> {
    if len == 0 {
        None
    } else {
        Some(i as usize % len)
    }
}

impl App {
    /// classify an API result: `allowed` lists the error kinds documented for the situation
    fn api<T>(&self, what: &str, r: Result<T, Error>, allowed: &[&str]) -> Option<T> {
        match r {
            Ok(x) => {
                stat(&self.b, &format!("{what}.ok"));
                Some(x)
            }
            Err(e) => {
                let kind = err_kind(&e);
                let run_err: Option<String> = {
                    let bb = self.b.borrow();
                    bb.run_results.iter().find(|(c, r)| *c == self.who && r != "Ok" && kind == "Shutdown").map(|(_, r)| r.clone())
                };
                if allowed.contains(&kind) || (self.shut && kind == "Shutdown") {
                    stat(&self.b, &format!("{what}.{kind}"));
                } else if let Some(res) = run_err {
                    // the root cause: this client's run() has already returned an error
                    let k = res.split('(').nth(1).unwrap_or("").to_string();
                    let class = format!("RUN {} {}", res.split('(').next().unwrap_or(""), k);
                    let ver = self.b.borrow().vers[self.who];
                    bad(&self.b, &class, format!("client {} (protocol 1.{ver}) run() = {res} (noticed when {what} returned Shutdown)", self.who));
                } else {
                    bad(&self.b, &format!("API {what} {kind}"), format!("c{} {what} -> {e:?}", self.who));
                }
                None
            }
        }
    }

    /// a client that binds an end it already holds (or held) — the cookie types are `Copy`
    fn note_bind(&mut self, c: ChannelCookie, sender: bool) {
        if !self.bound.insert((c, sender)) {
            stat(&self.b, "bind.double");
        }
    }

    fn tag_of(&self, c: ChannelCookie) -> u32 {
        let mut b = self.b.borrow_mut();
        let n = b.chan_tag.len() as u32 + 1;
        *b.chan_tag.entry(c).or_insert(n)
    }

    fn check_reply(&self, r: Result<aldrin::low_level::Reply, Error>, arg: u32, f: u32) {
        let class = call_class(arg);
        let who = self.who;
        match r {
            Ok(reply) => match reply.deserialize::<u32, u32>() {
                Ok(Ok(v)) => {
                    if class <= 2 && v == ok_value(arg, f) {
                        stat(&self.b, "call.ok")
                    } else {
                        bad(&self.b, "VALUE call", format!("c{who} call(f={f}, arg={arg}) returned Ok({v}), expected class {class} value {}", ok_value(arg, f)))
                    }
                }
                Ok(Err(v)) => {
                    if class == 3 && v == err_value(arg, f) {
                        stat(&self.b, "call.err")
                    } else {
                        bad(&self.b, "VALUE call", format!("c{who} call(f={f}, arg={arg}) returned Err({v}), expected class {class}"))
                    }
                }
                Err(e) => bad(&self.b, "VALUE call", format!("c{who} call(f={f}, arg={arg}): reply does not decode: {e:?}")),
            },
            Err(Error::CallAborted) => stat(&self.b, if class == 4 || class == 5 { "call.aborted" } else { "call.aborted_race" }),
            Err(Error::InvalidService) => stat(&self.b, "call.invalid_service"),
            Err(Error::InvalidFunction(_)) if class == 6 => stat(&self.b, "call.invalid_function"),
            Err(Error::InvalidArguments(_)) if class == 7 => stat(&self.b, "call.invalid_args"),
            Err(Error::Shutdown) if self.shut => stat(&self.b, "call.shutdown"),
            Err(e) => bad(&self.b, "API call", format!("c{who} call(f={f}, arg={arg}) class {class} -> {e:?}")),
        }
    }

    async fn step(&mut self, op: Op) {
        let b = self.b.clone();
        let who = self.who;
        match op.k {
            "co" => {
                let u = ObjectUuid(Uuid::from_u128(1 + (op.a % 4) as u128));
                let r = self.h.create_object(u).await;
                if let Some(o) = self.api("create_object", r, &["DuplicateObject"]) {
                    self.objects.push(o);
                    self.obj_svcs.push(vec![]);
                }
            }
            "do" => {
                if let Some(i) = pick(op.a, self.objects.len()) {
                    let o = self.objects.swap_remove(i);
                    for g in self.obj_svcs.swap_remove(i) {
                        svc_end(&b, g);
                    }
                    if op.b == 1 {
                        let r = o.destroy().await;
                        self.api("object.destroy", r, &[]);
                    }
                    drop(o);
                }
            }
            "cs" => {
                if let Some(i) = pick(op.a, self.objects.len()) {
                    let su = ServiceUuid(Uuid::from_u128(11 + (op.b % 3) as u128));
                    let r = self.objects[i].create_service(su, ServiceInfo::new(op.c)).await;
                    if let Some(svc) = self.api("create_service", r, &["DuplicateService"]) {
                        let mb: Mb = Default::default();
                        let mut bb = b.borrow_mut();
                        bb.services.push(svc.id());
                        let ended = bb.shut[who];
                        bb.svc_rec.push(SvcRec { owner: who, ended });
                        let gsvc = bb.services.len() - 1;
                        let name = format!("server{who}.{}", self.servers.len());
                        bb.spawn.push((name, Box::pin(serve(svc, mb.clone(), b.clone(), who, gsvc))));
                        drop(bb);
                        self.obj_svcs[i].push(gsvc);
                        self.my_svcs.push(gsvc);
                        self.servers.push(mb);
                    }
                }
            }
            "sv" => {
                self.servers.retain(|m| !m.borrow().gone);
                if let Some(j) = pick(op.a, self.servers.len()) {
                    mb_push(&self.servers[j], op.b, op.c % NEV);
                    stat(&b, "server.cmd");
                    if op.b != 0 {
                        self.servers.swap_remove(j);
                    }
                }
            }
            "px" => {
                let s = {
                    let bb = b.borrow();
                    pick(op.a, bb.services.len()).map(|i| (i, bb.services[i]))
                };
                if let Some((g, s)) = s {
                    let r = Proxy::new(&self.h, s).await;
                    if let Some(p) = self.api("proxy", r, &["InvalidService"]) {
                        let siblings = self.proxies.iter().filter(|q| q.p.id() == s).count();
                        stat(&b, &format!("proxy.siblings_at_creation.{}", siblings.min(5)));
                        let pid = px_new(&b, who, g);
                        if self.shut {
                            px_dead(&b, pid);
                        }
                        self.proxies.push(ProxySt { p, pid, done: false });
                    }
                }
            }
            "pf" => {
                let s = {
                    let bb = b.borrow();
                    pick(op.a, bb.services.len()).map(|i| (i, bb.services[i]))
                };
                if let Some((g, s)) = s {
                    for j in 0..(op.b.clamp(1, 5)) {
                        let r = Proxy::new(&self.h, s).await;
                        let Some(p) = self.api("proxy", r, &["InvalidService"]) else { break };
                        let siblings = self.proxies.iter().filter(|q| q.p.id() == s).count();
                        stat(&b, &format!("proxy.siblings_at_creation.{}", siblings.min(5)));
                        let pid = px_new(&b, who, g);
                        if self.shut {
                            px_dead(&b, pid);
                        }
                        self.proxies.push(ProxySt { p, pid, done: false });
                        let i = self.proxies.len() - 1;
                        let bits = (op.c >> (4 * j)) & 15;
                        for key in 0..3usize {
                            if bits & (1 << key) != 0 {
                                self.sub_key(i, key).await;
                            }
                        }
                        if bits & 8 != 0 {
                            self.sub_key(i, KALL).await;
                        }
                    }
                }
            }
            "ca" => {
                if let Some(i) = pick(op.a, self.proxies.len()) {
                    let f = op.b / 8;
                    let arg = {
                        let mut bb = b.borrow_mut();
                        bb.next_call += 1;
                        (bb.next_call << 3) | (op.b & 7)
                    };
                    let mut reply = self.proxies[i].p.call(f, arg, None);
                    match op.c {
                        1 => {
                            stat(&b, "call.dropped");
                            drop(reply)
                        }
                        2 => {
                            let r = poll_fn(|cx| Poll::Ready(Pin::new(&mut reply).poll(cx))).await;
                            yield_n(op.a % 3).await;
                            match r {
                                Poll::Ready(r) => self.check_reply(r, arg, f),
                                Poll::Pending => {
                                    stat(&b, "call.cancelled");
                                    drop(reply)
                                }
                            }
                        }
                        3 => self.held.push(Held { r: reply, arg, f }),
                        _ => {
                            let r = reply.await;
                            self.check_reply(r, arg, f);
                        }
                    }
                }
            }
            "aw" => {
                if let Some(i) = pick(op.a, self.held.len()) {
                    let Held { r, arg, f } = self.held.swap_remove(i);
                    let r = r.await;
                    self.check_reply(r, arg, f);
                }
            }
            "su" | "us" | "sa" | "ua" => {
                if let Some(i) = pick(op.a, self.proxies.len()) {
                    let ev = op.b % NEV;
                    let pid = self.proxies[i].pid;
                    let (what, r) = match op.k {
                        "su" => {
                            self.sub_key(i, ev as usize).await;
                            return;
                        }
                        "us" => {
                            self.note_sub_end(i, ev as usize);
                            px_unsub_begin(&b, pid, ev as usize);
                            let r = self.proxies[i].p.unsubscribe(ev).await;
                            px_unsub_end(&b, pid, ev as usize);
                            ("unsubscribe", r)
                        }
                        "sa" => {
                            self.sub_key(i, KALL).await;
                            return;
                        }
                        _ => {
                            self.note_sub_end(i, KALL);
                            px_unsub_begin(&b, pid, KALL);
                            let r = self.proxies[i].p.unsubscribe_all().await;
                            px_unsub_end(&b, pid, KALL);
                            ("unsubscribe_all", r)
                        }
                    };
                    self.api(what, r, &["InvalidService"]);
                }
            }
            "pe" => {
                if let Some(i) = pick(op.a, self.proxies.len()) {
                    // first everything that HAS to arrive (awaited without bound), then a few polls
                    self.drain_must(i).await;
                    for _ in 0..op.b {
                        if self.proxies[i].done {
                            break;
                        }
                        let st = &mut self.proxies[i];
                        match try_poll(3, |cx| st.p.poll_next_event(cx)).await {
                            Some(Some(ev)) => self.on_event(i, ev),
                            Some(None) => {
                                self.stream_end(i);
                                break;
                            }
                            None => break,
                        }
                    }
                }
            }
            "dp" => {
                if let Some(i) = pick(op.a, self.proxies.len()) {
                    self.note_sub_end(i, KALL);
                    let st = self.proxies.swap_remove(i);
                    px_dead(&b, st.pid);
                    drop(st);
                    stat(&b, "proxy.dropped");
                }
            }
            "ks" => {
                let r = self.h.create_low_level_channel().claim_sender().await;
                if let Some((ps, ur)) = self.api("create_channel_s", r, &[]) {
                    self.tag_of(ps.cookie());
                    self.note_bind(ps.cookie(), true);
                    if op.a == 1 {
                        self.note_bind(ps.cookie(), false);
                    }
                    self.pend_s.push(ps);
                    if op.a == 1 {
                        self.unc_r.push(ur);
                    } else {
                        b.borrow_mut().recv_ends.push(ur.unbind().cookie());
                    }
                }
            }
            "kr" => {
                let r = self.h.create_low_level_channel().claim_receiver(op.a).await;
                if let Some((us, pr)) = self.api("create_channel_r", r, &[]) {
                    self.tag_of(pr.cookie());
                    self.note_bind(pr.cookie(), false);
                    if op.b == 1 {
                        self.note_bind(pr.cookie(), true);
                    }
                    self.pend_r.push(pr);
                    if op.b == 1 {
                        self.unc_s.push(us);
                    } else {
                        b.borrow_mut().send_ends.push(us.unbind().cookie());
                    }
                }
            }
            "clr" => {
                let c = {
                    let mut bb = b.borrow_mut();
                    pick(op.a, bb.recv_ends.len()).map(|i| if op.c & 1 == 1 { bb.recv_ends[i] } else { bb.recv_ends.swap_remove(i) })
                };
                if let Some(c) = c {
                    self.note_bind(c, false);
                    let unc = UnboundReceiver::new(c).bind(self.h.clone());
                    self.claim_r(unc, op.b, op.c & 2 != 0).await;
                }
            }
            "cls" => {
                let c = {
                    let mut bb = b.borrow_mut();
                    pick(op.a, bb.send_ends.len()).map(|i| if op.b & 1 == 1 { bb.send_ends[i] } else { bb.send_ends.swap_remove(i) })
                };
                if let Some(c) = c {
                    self.note_bind(c, true);
                    let unc = UnboundSender::new(c).bind(self.h.clone());
                    self.claim_s(unc, op.b & 2 != 0).await;
                }
            }
            "llr" => {
                if let Some(i) = pick(op.a, self.unc_r.len()) {
                    let unc = self.unc_r.swap_remove(i);
                    self.claim_r(unc, op.b, op.c & 1 != 0).await;
                }
            }
            "lls" => {
                if let Some(i) = pick(op.a, self.unc_s.len()) {
                    let unc = self.unc_s.swap_remove(i);
                    self.claim_s(unc, op.b & 1 != 0).await;
                }
            }
            "ul" => {
                if op.a == 0 {
                    if let Some(i) = pick(op.b, self.unc_s.len()) {
                        let mut u = self.unc_s.swap_remove(i);
                        match op.c {
                            1 => {
                                let r = u.close().await;
                                self.api("unclaimed.close", r, &["InvalidChannel"]);
                            }
                            2 => b.borrow_mut().send_ends.push(u.unbind().cookie()),
                            _ => drop(u),
                        }
                    }
                } else if let Some(i) = pick(op.b, self.unc_r.len()) {
                    let mut u = self.unc_r.swap_remove(i);
                    match op.c {
                        1 => {
                            let r = u.close().await;
                            self.api("unclaimed.close", r, &["InvalidChannel"]);
                        }
                        2 => b.borrow_mut().recv_ends.push(u.unbind().cookie()),
                        _ => drop(u),
                    }
                }
            }
            "es" => {
                if let Some(i) = pick(op.a, self.pend_s.len()) {
                    let mut ps = self.pend_s.swap_remove(i);
                    if try_poll(op.b, |cx| ps.poll_wait_established(cx)).await.is_some() {
                        let tag = self.tag_of(ps.cookie());
                        let r = ps.establish().await;
                        if let Some(s) = self.api("establish_s", r, &["InvalidChannel"]) {
                            self.senders.push(SenderSt { s, tag, next: 0 });
                        }
                    } else {
                        stat(&b, "establish_s.not_ready");
                        match op.c {
                            1 => drop(ps),
                            2 => {
                                let r = ps.close().await;
                                self.api("pending.close", r, &["InvalidChannel"]);
                            }
                            _ => self.pend_s.push(ps),
                        }
                    }
                }
            }
            "er" => {
                if let Some(i) = pick(op.a, self.pend_r.len()) {
                    let mut pr = self.pend_r.swap_remove(i);
                    if try_poll(op.b, |cx| pr.poll_wait_established(cx)).await.is_some() {
                        let tag = self.tag_of(pr.cookie());
                        let r = pr.establish().await;
                        if let Some(r) = self.api("establish_r", r, &["InvalidChannel"]) {
                            self.receivers.push(ReceiverSt { r, tag, next: 0 });
                        }
                    } else {
                        stat(&b, "establish_r.not_ready");
                        match op.c {
                            1 => drop(pr),
                            2 => {
                                let r = pr.close().await;
                                self.api("pending.close", r, &["InvalidChannel"]);
                            }
                            _ => self.pend_r.push(pr),
                        }
                    }
                }
            }
            "sd" => {
                if let Some(i) = pick(op.a, self.senders.len()) {
                    for _ in 0..op.b {
                        let st = &mut self.senders[i];
                        match try_poll(4, |cx| st.s.poll_send_ready(cx)).await {
                            Some(Ok(())) => {
                                let v = ((st.tag as u64) << 32) | st.next as u64;
                                match st.s.start_send_item(v) {
                                    Ok(()) => {
                                        st.next += 1;
                                        stat(&b, "item.sent");
                                    }
                                    Err(Error::Shutdown) if self.shut => break,
                                    Err(e) => {
                                        bad(&b, "API start_send_item", format!("c{who} start_send_item -> {e:?}"));
                                        break;
                                    }
                                }
                            }
                            Some(Err(Error::InvalidChannel)) => {
                                stat(&b, "item.receiver_closed");
                                break;
                            }
                            Some(Err(e)) => {
                                bad(&b, "API poll_send_ready", format!("c{who} poll_send_ready -> {e:?}"));
                                break;
                            }
                            None => {
                                stat(&b, "item.no_capacity");
                                break;
                            }
                        }
                    }
                }
            }
            "rv" => {
                if let Some(i) = pick(op.a, self.receivers.len()) {
                    for _ in 0..op.b {
                        let st = &mut self.receivers[i];
                        match try_poll(4, |cx| st.r.poll_next_item::<u64>(cx)).await {
                            Some(Ok(Some(v))) => {
                                if v != ((st.tag as u64) << 32) | st.next as u64 {
                                    bad(&b, "VALUE item", format!("c{who} channel {} delivered item {:x}, expected #{}", st.tag, v, st.next));
                                    break;
                                }
                                st.next += 1;
                                stat(&b, "item.received");
                            }
                            Some(Ok(None)) => {
                                stat(&b, "item.stream_end");
                                break;
                            }
                            Some(Err(e)) => {
                                bad(&b, "VALUE item", format!("c{who} item does not decode: {e:?}"));
                                break;
                            }
                            None => break,
                        }
                    }
                }
            }
            "xs" => {
                if let Some(i) = pick(op.a, self.senders.len()) {
                    let mut st = self.senders.swap_remove(i);
                    if op.b == 1 {
                        let r = st.s.close().await;
                        self.api("sender.close", r, &["InvalidChannel"]);
                    }
                    drop(st);
                }
            }
            "xr" => {
                if let Some(i) = pick(op.a, self.receivers.len()) {
                    let mut st = self.receivers.swap_remove(i);
                    if op.b == 1 {
                        let r = st.r.close().await;
                        self.api("receiver.close", r, &["InvalidChannel"]);
                    }
                    drop(st);
                }
            }
            "bc" => {
                let r = self.h.create_bus_listener().await;
                if let Some(l) = self.api("create_bus_listener", r, &[]) {
                    self.listeners.push(l);
                }
            }
            "bf" => {
                if let Some(i) = pick(op.a, self.listeners.len()) {
                    let f = match op.b % 4 {
                        0 => BusListenerFilter::any_object(),
                        1 => BusListenerFilter::any_object_any_service(),
                        2 => BusListenerFilter::object(ObjectUuid(Uuid::from_u128(1))),
                        _ => BusListenerFilter::object(ObjectUuid(Uuid::from_u128(2))),
                    };
                    let l = &mut self.listeners[i];
                    let r = match op.c {
                        1 => l.remove_filter(f),
                        2 => l.clear_filters(),
                        _ => l.add_filter(f),
                    };
                    self.api("listener.filter", r, &[]);
                }
            }
            "bs" => {
                if let Some(i) = pick(op.a, self.listeners.len()) {
                    let sc = [BusListenerScope::Current, BusListenerScope::New, BusListenerScope::All][op.b as usize % 3];
                    let r = self.listeners[i].start(sc).await;
                    self.api("listener.start", r, &["BusListenerAlreadyStarted"]);
                }
            }
            "bt" => {
                if let Some(i) = pick(op.a, self.listeners.len()) {
                    let r = self.listeners[i].stop().await;
                    self.api("listener.stop", r, &["BusListenerNotStarted"]);
                }
            }
            "bp" => {
                if let Some(i) = pick(op.a, self.listeners.len()) {
                    for _ in 0..op.b {
                        let l = &mut self.listeners[i];
                        match try_poll(3, |cx| l.poll_next_event(cx)).await {
                            Some(Some(_)) => stat(&b, "bus_event.received"),
                            Some(None) => {
                                stat(&b, "bus_event.finished");
                                break;
                            }
                            None => break,
                        }
                    }
                }
            }
            "bd" => {
                if let Some(i) = pick(op.a, self.listeners.len()) {
                    let mut l = self.listeners.swap_remove(i);
                    if op.b == 1 {
                        let r = l.destroy().await;
                        self.api("listener.destroy", r, &[]);
                    }
                    drop(l);
                }
            }
            "sy" => {
                if op.a == 0 {
                    let r = self.h.sync_client().await.map(|_| ());
                    self.api("sync_client", r, &[]);
                } else {
                    let r = self.h.sync_broker().await.map(|_| ());
                    self.api("sync_broker", r, &[]);
                }
            }
            "rz" => {
                let k = self.rz_k;
                self.rz_k += 1;
                if !b.borrow().judge {
                    // disturbed session: a lost reply must not stop the other clients
                    let mut f = Box::pin(self.h.sync_broker());
                    let _ = try_poll(6, |cx| f.as_mut().poll(cx)).await;
                    return;
                }
                let r = self.h.sync_broker().await.map(|_| ());
                let ok1 = self.api("rz.sync", r, &[]).is_some();
                rz_wait(&b, who, 2 * k).await;
                let r = self.h.sync_broker().await.map(|_| ());
                let ok2 = self.api("rz.sync", r, &[]).is_some();
                b.borrow_mut().rz_good[who] = if ok1 && ok2 { Some(k) } else { None };
                rz_wait(&b, who, 2 * k + 1).await;
                rz_upgrade(&b, k);
            }
            "yi" => yield_n(op.a).await,
            "sh" => {
                // this client's proxies are exempt from now on, its services end
                self.mark_all_ended();
                for st in &self.proxies {
                    self.note_sub_end_pid(st.pid, KALL);
                    px_dead(&b, st.pid);
                }
                b.borrow_mut().shut[who] = true;
                self.h.shutdown();
                self.shut = true;
                stat(&b, "shutdown.explicit");
            }
            _ => unreachable!(),
        }
    }

    /// proxy #i: subscribe(key) / subscribe_all() for key == KALL
    async fn sub_key(&mut self, i: usize, key: usize) {
        let pid = self.proxies[i].pid;
        px_sub_begin(&self.b, pid, key);
        let (what, r) = if key == KALL {
            ("subscribe_all", self.proxies[i].p.subscribe_all().await)
        } else {
            ("subscribe", self.proxies[i].p.subscribe(key as u32).await)
        };
        px_sub_end(&self.b, pid, key, r.is_ok());
        // subscribe_all needs protocol 1.18 on this connection (SubscribeAllEvents) AND on the owner's
        // (only then the service info says subscribe_all): otherwise Error::NotSupported is the
        // documented answer — and with both at 1.18+ it is not
        let old = {
            let bb = self.b.borrow();
            let owner = bb.svc_rec[bb.px[pid].svc].owner;
            key == KALL && (bb.vers[self.who] < 18 || bb.vers[owner] < 18)
        };
        if old {
            if r.is_ok() {
                stat(&self.b, "subscribe_all.ok_below_1.18");
            }
            self.api(what, r, &["InvalidService", "NotSupported"]);
        } else {
            self.api(what, r, &["InvalidService"]);
        }
    }

    fn mark_all_ended(&self) {
        for g in &self.my_svcs {
            svc_end(&self.b, *g);
        }
    }

    /// an event was taken out of proxy #i
    fn on_event(&mut self, i: usize, ev: aldrin::low_level::Event) {
        stat(&self.b, "event.received");
        if !self.b.borrow().judge {
            return;
        }
        let id = ev.id();
        let v = ev.deserialize::<u32>().ok();
        if let Err((class, detail)) = event_delivered(&self.b, self.proxies[i].pid, id, v) {
            bad(&self.b, class, detail);
        }
    }

    /// `next_event()` of proxy #i returned None
    fn stream_end(&mut self, i: usize) {
        stat(&self.b, "event.stream_end");
        self.proxies[i].done = true;
        let pid = self.proxies[i].pid;
        let mut bb = self.b.borrow_mut();
        let svc = bb.px[pid].svc;
        let owner = bb.svc_rec[svc].owner;
        // Owed events were emitted BEFORE the owner started to destroy the service / its object, to
        // shut down or to drop everything (emit_ok records nothing after that), so their EmitEvent
        // precedes the destruction on every FIFO (handle queue -> owner's client -> broker -> this
        // client -> the proxy's queue, which is drained before None): the end of the stream does not
        // excuse them.  Only a client that has stopped does.
        let excused = self.shut || !bb.judge || bb.run_results.iter().any(|(c, r)| *c == self.who || (*c == owner && r != "Ok"));
        let lost = bb.px[pid].must.front().copied();
        let bb_ended = bb.svc_rec[svc].ended;
        bb.px[pid].must.clear();
        bb.px[pid].alive = false;
        drop(bb);
        if let (Some(m), false) = (lost, excused) {
            bad(
                &self.b,
                "EVENT stream-end",
                format!(
                    "c{} proxy #{pid} (service #{svc} of c{owner}): next_event() returned None (service destroyed: {}), but emit #{} of event {} — emitted before the owner began to destroy anything, while this proxy held a confirmed subscription — was never delivered",
                    self.who, bb_ended, m.seq, m.ev
                ),
            );
        }
    }

    /// await every event that HAS to be delivered to proxy #i (the property: an awaited operation
    /// whose peer has acted completes).  If one of them was lost the executor runs dry with
    /// `awaiting` set, which run_case reports as `EVENT lost`.
    async fn drain_must(&mut self, i: usize) {
        loop {
            let pid = self.proxies[i].pid;
            if self.proxies[i].done || self.shut {
                return;
            }
            {
                let mut bb = self.b.borrow_mut();
                if !bb.judge || bb.px[pid].must.is_empty() {
                    return;
                }
                bb.px[pid].awaiting = true;
            }
            let ev = self.proxies[i].p.next_event().await;
            self.b.borrow_mut().px[pid].awaiting = false;
            match ev {
                Some(ev) => self.on_event(i, ev),
                None => {
                    self.stream_end(i);
                    return;
                }
            }
        }
    }

    /// coverage only: proxy #i gives up `key` (KALL = everything: unsubscribe_all, drop).  Counts the
    /// shapes the event oracle is about: siblings of the same (client, service) that stay
    /// subscribed with DIFFERENT sets, and all-events subscriptions of other connections that stay
    /// while the last single-event subscription of the service goes away
    fn note_sub_end(&self, i: usize, key: usize) {
        self.note_sub_end_pid(self.proxies[i].pid, key);
    }

    fn note_sub_end_pid(&self, pid: usize, key: usize) {
        let mut bb = self.b.borrow_mut();
        let (client, svc, st) = {
            let p = &bb.px[pid];
            (p.client, p.svc, p.st)
        };
        if !bb.px[pid].alive {
            return;
        }
        let on = |s: Sub| matches!(s, Sub::On | Sub::Stable);
        let mut hits: Vec<&'static str> = vec![];
        for e in 0..KALL {
            if !(key == KALL || key == e) || !on(st[e]) {
                continue;
            }
            let sib: Vec<&PxRec> = bb.px.iter().enumerate().filter(|(j, q)| *j != pid && q.alive && q.client == client && q.svc == svc).map(|(_, q)| q).collect();
            let with = sib.iter().filter(|q| on(q.st[e])).count();
            let stable = sib.iter().filter(|q| q.st[e] == Sub::Stable).count();
            if with > 0 && with < sib.len() {
                hits.push("subend.siblings_mixed");
                if stable > 0 {
                    hits.push("subend.siblings_mixed_confirmed");
                }
            } else if with > 0 {
                hits.push("subend.siblings_all_subscribed");
            }
            // last single-event subscription of the service (over all clients) while another
            // CONNECTION keeps a confirmed all-events subscription
            let others_ev = bb.px.iter().enumerate().any(|(j, q)| j != pid && q.alive && q.svc == svc && (0..KALL).any(|x| on(q.st[x])));
            let mine_other = (0..KALL).any(|x| x != e && on(st[x]) && !(key == KALL));
            let all_elsewhere = bb.px.iter().any(|q| q.alive && q.svc == svc && q.client != client && q.st[KALL] == Sub::Stable);
            let all_here = bb.px.iter().enumerate().any(|(j, q)| j != pid && q.alive && q.svc == svc && q.client == client && q.st[KALL] == Sub::Stable);
            if !others_ev && !mine_other && all_elsewhere {
                hits.push("subend.last_single_event_while_all_events_elsewhere");
            } else if !others_ev && !mine_other && all_here {
                hits.push("subend.last_single_event_while_all_events_same_client");
            }
        }
        for h in hits {
            *bb.stats.entry(h.into()).or_insert(0) += 1;
        }
    }

    async fn claim_r(&mut self, unc: UnclaimedReceiver, cap: u32, cancel: bool) {
        let tag = self.tag_of(unc.cookie());
        let mut fut = Box::pin(unc.claim(cap));
        let r = if cancel {
            match poll_fn(|cx| Poll::Ready(fut.as_mut().poll(cx))).await {
                Poll::Ready(r) => r,
                Poll::Pending => {
                    yield_n(cap % 3).await;
                    stat(&self.b, "claim_r.cancelled");
                    return;
                }
            }
        } else {
            fut.await
        };
        if let Some(r) = self.api("claim_r", r, &["InvalidChannel"]) {
            self.receivers.push(ReceiverSt { r, tag, next: 0 });
        }
    }

    async fn claim_s(&mut self, unc: UnclaimedSender, cancel: bool) {
        let tag = self.tag_of(unc.cookie());
        let mut fut = Box::pin(unc.claim());
        let r = if cancel {
            match poll_fn(|cx| Poll::Ready(fut.as_mut().poll(cx))).await {
                Poll::Ready(r) => r,
                Poll::Pending => {
                    yield_n(tag % 3).await;
                    stat(&self.b, "claim_s.cancelled");
                    return;
                }
            }
        } else {
            fut.await
        };
        if let Some(s) = self.api("claim_s", r, &["InvalidChannel"]) {
            self.senders.push(SenderSt { s, tag, next: 0 });
        }
    }
}

fn err_kind(e: &Error) -> &'static str {
    match e {
        Error::Shutdown => "Shutdown",
        Error::DuplicateObject => "DuplicateObject",
        Error::InvalidObject => "InvalidObject",
        Error::DuplicateService => "DuplicateService",
        Error::InvalidService => "InvalidService",
        Error::InvalidFunction(_) => "InvalidFunction",
        Error::InvalidEvent(_) => "InvalidEvent",
        Error::InvalidArguments(_) => "InvalidArguments",
        Error::CallAborted => "CallAborted",
        Error::InvalidReply(_) => "InvalidReply",
        Error::InvalidChannel => "InvalidChannel",
        Error::InvalidItem(_) => "InvalidItem",
        Error::InvalidBusListener => "InvalidBusListener",
        Error::BusListenerAlreadyStarted => "BusListenerAlreadyStarted",
        Error::BusListenerNotStarted => "BusListenerNotStarted",
        Error::InvalidLifetime => "InvalidLifetime",
        Error::Serialize(_) => "Serialize",
        Error::NotSupported => "NotSupported",
    }
}

async fn app(who: usize, h: Handle, b: B, prog: Vec<Op>, barrier: Option<usize>) {
    let mut a = App {
        who,
        h,
        b: b.clone(),
        shut: false,
        objects: vec![],
        obj_svcs: vec![],
        my_svcs: vec![],
        rz_k: 0,
        servers: vec![],
        proxies: vec![],
        held: vec![],
        unc_s: vec![],
        unc_r: vec![],
        pend_s: vec![],
        pend_r: vec![],
        senders: vec![],
        receivers: vec![],
        listeners: vec![],
        bound: HashSet::new(),
    };
    {
        let want = b.borrow().vers[who];
        match a.h.version().await {
            Ok(v) if v.major() == 1 && v.minor() == want => stat(&b, &format!("version.1.{want}")),
            Ok(v) => bad(&b, "CONNECT version", format!("c{who} negotiated {v}, the program says 1.{want}")),
            Err(e) => bad(&b, "CONNECT version", format!("c{who} Handle::version() -> {e:?}")),
        }
    }
    for (i, op) in prog.into_iter().enumerate() {
        yield_n((op.a + i as u32) % 3).await;
        stat(&b, &format!("op.{}", op.k));
        a.step(op).await;
    }
    // the program is over: no further rendezvous; whatever is still owed to a live proxy has to arrive
    rz_leave(&b, who);
    for i in 0..a.proxies.len() {
        a.drain_must(i).await;
    }
    {
        let ws: Vec<Waker> = {
            let mut bb = b.borrow_mut();
            bb.progs_done += 1;
            bb.barrier_wakers.drain(..).collect()
        };
        for w in ws {
            w.wake();
        }
    }
    if let Some(n) = barrier {
        poll_fn(|cx| {
            let mut bb = b.borrow_mut();
            if bb.progs_done >= n {
                Poll::Ready(())
            } else {
                bb.barrier_wakers.push(cx.waker().clone());
                Poll::Pending
            }
        })
        .await;
    }
    // stop the server tasks (a Service whose object was destroyed never ends its call stream),
    // then collect the calls still held: their peers have acted or are gone
    a.mark_all_ended();
    for st in &a.proxies {
        px_dead(&b, st.pid);
    }
    for m in &a.servers {
        mb_push(m, 2, 0);
    }
    while let Some(Held { r, arg, f }) = a.held.pop() {
        let r = r.await;
        a.check_reply(r, arg, f);
    }
    drop(a);
    b.borrow_mut().app_done += 1;
}

// ------------------------------------------------------------------------------------------
// one case

#[derive(Debug, Clone)]
struct Failure {
    class: String,
    detail: String,
}

struct CaseResult {
    fail: Option<Failure>,
    polls: u64,
    stats: BTreeMap<String, u64>,
    trace: Vec<Vec<(bool, Message)>>,
    /// per client: `ok` (run() returned Ok), `rej` (UnexpectedMessageReceived), `pan <fn>`,
    /// `err`, `none` (still running when the case ended)
    verdicts: Vec<String>,
}

async fn setup(i: usize, mut t1: Tap, t2: Tap, mut bh: aldrin_broker::BrokerHandle, b: B, prog: Vec<Op>, barrier: Option<usize>) {
    // both halves of the handshake are driven from this task
    let ver = b.borrow().vers[i];
    let mut cf: Pin<Box<dyn Future<Output = _>>> = if ver <= 14 {
        Box::pin(Client::builder(t1).connect1())
    } else {
        if ver < 20 {
            t1.clamp = Some(ver);
        }
        Box::pin(Client::connect(t1))
    };
    let mut bf = Box::pin(bh.connect(t2));
    let (mut cres, mut bres) = (None, None);
    poll_fn(|cx| {
        if cres.is_none() {
            if let Poll::Ready(x) = cf.as_mut().poll(cx) {
                cres = Some(x);
            }
        }
        if bres.is_none() {
            if let Poll::Ready(x) = bf.as_mut().poll(cx) {
                bres = Some(x);
            }
        }
        if cres.is_some() && bres.is_some() {
            Poll::Ready(())
        } else {
            Poll::Pending
        }
    })
    .await;
    drop(cf);
    drop(bf);
    let (client, conn) = match (cres.unwrap(), bres.unwrap()) {
        (Ok(c), Ok(k)) => (c, k),
        (c, k) => {
            bad(&b, "CONNECT", format!("c{i} handshake failed: client {:?} broker {:?}", c.err().map(|e| e.to_string()), k.err().map(|e| e.to_string())));
            rz_leave(&b, i);
            let mut bb = b.borrow_mut();
            bb.app_done += 1;
            bb.progs_done += 1;
            return;
        }
    };
    let h = client.handle().clone();
    let b2 = b.clone();
    let mut bb = b.borrow_mut();
    bb.spawn.push((
        format!("client{i}.run"),
        Box::pin(async move {
            let res = client.run().await;
            let s = match res {
                Ok(()) => "Ok".to_string(),
                Err(RunError::UnexpectedMessageReceived(m)) => format!("UnexpectedMessageReceived({m:?})"),
                Err(e) => format!("Err({e:?})"),
            };
            b2.borrow_mut().run_results.push((i, s));
        }),
    ));
    bb.spawn.push((
        format!("conn{i}.run"),
        Box::pin(async move {
            let _ = conn.run().await;
        }),
    ));
    bb.spawn.push((format!("app{i}"), Box::pin(app(i, h, b.clone(), prog, barrier))));
}

const POLL_BUDGET: u64 = 3_000_000;

fn run_case(case: &Case) -> CaseResult {
    let b: B = Default::default();
    {
        let mut bb = b.borrow_mut();
        bb.shut = vec![false; case.n];
        bb.rz_arr = vec![0; case.n];
        bb.rz_good = vec![None; case.n];
        bb.judge = case.faults == 0;
        bb.vers = (0..case.n).map(|i| case.ver(i)).collect();
    }
    let mut r = Rng::new(case.sched);
    let broker = Broker::new();
    let bh = broker.handle().clone();
    let mut names: Vec<String> = vec!["broker.run".into()];
    let mut tasks: Vec<Option<Task>> = vec![Some(Box::pin(broker.run()))];
    let mut flags: Vec<Arc<Flag>> = vec![Arc::new(Flag(AtomicBool::new(true)))];
    let logs: Vec<Log> = (0..case.n).map(|_| Default::default()).collect();
    for i in 0..case.n {
        let (t1, t2): (Tx, Tx) = if case.fifo == 0 {
            let (a, c) = channel::unbounded();
            (Box::new(a), Box::new(c))
        } else {
            let (a, c) = channel::bounded(case.fifo);
            (Box::new(a), Box::new(c))
        };
        let prog: Vec<Op> = case.ops.iter().filter(|(w, _)| *w == i).map(|(_, o)| *o).collect();
        let mut tap = Tap::new(t1, Some(logs[i].clone()));
        tap.faults = case.faults;
        tap.rng = Rng::new(case.sched ^ (0x9e37 + i as u64 * 7919));
        let t2 = Tap::new(t2, None);
        names.push(format!("setup{i}"));
        let barrier = if case.barrier { Some(case.n) } else { None };
        tasks.push(Some(Box::pin(setup(i, tap, t2, bh.clone(), b.clone(), prog, barrier))));
        flags.push(Arc::new(Flag(AtomicBool::new(true))));
    }
    let mut polls = 0u64;
    let trace_sched = std::env::var("SCHED_TRACE").is_ok();
    let mut idle_requested = false;
    let mut fail: Option<Failure> = None;
    let broker_idle_done = Rc::new(Cell::new(false));
    loop {
        let spawned: Vec<(String, Task)> = b.borrow_mut().spawn.drain(..).collect();
        for (n, t) in spawned {
            names.push(n);
            tasks.push(Some(t));
            flags.push(Arc::new(Flag(AtomicBool::new(true))));
        }
        if !idle_requested && b.borrow().app_done == case.n {
            idle_requested = true;
            let mut bh2 = bh.clone();
            let d = broker_idle_done.clone();
            names.push("shutdown_idle".into());
            tasks.push(Some(Box::pin(async move {
                bh2.shutdown_idle().await;
                d.set(true);
            })));
            flags.push(Arc::new(Flag(AtomicBool::new(true))));
        }
        if case.faults == 0 {
            // (a disturbed session is not judged by the oracle: let every client see its messages)
            if let Some((class, detail)) = b.borrow().bad.first().cloned() {
                fail = Some(Failure { class, detail });
                break;
            }
        }
        let live: Vec<usize> = (0..tasks.len()).filter(|i| tasks[*i].is_some()).collect();
        if live.is_empty() {
            break;
        }
        let ready: Vec<usize> = live.iter().copied().filter(|i| flags[*i].0.load(Ordering::SeqCst)).collect();
        let i = if ready.is_empty() {
            // quiescence with unfinished tasks: something awaits an event that nobody will produce
            let pend: Vec<&str> = live.iter().map(|i| names[*i].as_str()).collect();
            let bb = b.borrow();
            // an application sits in next_event().await for an event that had to be delivered
            if let Some((pid, p)) = bb.px.iter().enumerate().find(|(_, p)| p.awaiting && !p.must.is_empty()) {
                let m = p.must[0];
                fail = Some(Failure {
                    class: "EVENT lost".into(),
                    detail: format!(
                        "c{} awaits next_event() of proxy #{pid} (service #{} of c{}) and nothing can run any more: emit #{} of event {} was emitted while this proxy held a confirmed subscription ({}) and was never delivered; {} such events outstanding; unfinished tasks {:?}",
                        p.client,
                        p.svc,
                        bb.svc_rec[p.svc].owner,
                        m.seq,
                        m.ev,
                        if m.by_ev { "to that event" } else { "to all events" },
                        p.must.len(),
                        pend
                    ),
                });
                break;
            }
            fail = Some(Failure {
                class: "HANG".into(),
                detail: format!(
                    "no runnable task, {} unfinished: {:?}; applications finished {}/{}; run() results {:?}",
                    live.len(), pend, bb.app_done, case.n, bb.run_results
                ),
            });
            break;
        } else if case.spurious > 0 && r.below(64) < case.spurious as u64 {
            live[r.below(live.len() as u64) as usize]
        } else {
            ready[r.below(ready.len() as u64) as usize]
        };
        if trace_sched {
            eprintln!("poll {polls} {}", names[i]);
        }
        flags[i].0.store(false, Ordering::SeqCst);
        EPOCH.fetch_add(1, Ordering::Relaxed);
        let w: Waker = flags[i].clone().into();
        let mut cx = Context::from_waker(&w);
        let t = tasks[i].as_mut().unwrap();
        match catch_unwind(AssertUnwindSafe(|| t.as_mut().poll(&mut cx))) {
            Ok(Poll::Ready(())) => tasks[i] = None,
            Ok(Poll::Pending) => {}
            Err(_) => {
                let msg = LAST_PANIC.lock().unwrap().take().unwrap_or_else(|| "panic".into());
                let task: String = names[i].chars().filter(|c| !c.is_ascii_digit()).collect();
                // the class names the site only, so that shrinking keeps the same failure
                let site = msg.split(": ").next().unwrap_or("").to_string();
                let site = ["aldrin/src/", "broker/src/", "core/src/", "harness/src/"]
                    .iter()
                    .find_map(|p| site.find(p).map(|i| site[i..].to_string()))
                    .unwrap_or(site);
                let func = enclosing_fn(&msg);
                fail = Some(if msg.contains("SPIN: ") {
                    Failure { class: format!("SPIN {task}"), detail: format!("task {} never returned from poll: {}", names[i], msg.split("SPIN: ").nth(1).unwrap_or("")) }
                } else {
                    Failure { class: format!("PANIC {task} {site} fn {func}"), detail: format!("task {} panicked in fn {func} at {msg}", names[i]) }
                });
                break;
            }
        }
        polls += 1;
        if polls >= POLL_BUDGET {
            let pend: Vec<&str> = live.iter().map(|i| names[*i].as_str()).collect();
            fail = Some(Failure { class: "BUDGET".into(), detail: format!("poll budget exhausted with unfinished tasks {pend:?}") });
            break;
        }
    }
    if fail.is_none() && case.faults == 0 {
        // no client is ever closed by the broker: a Shutdown arrives only after the client sent its own
        for (i, l) in logs.iter().enumerate() {
            let l = l.borrow();
            let got = l.iter().position(|(sent, m)| !*sent && matches!(m, Message::Shutdown(_)));
            let asked = l.iter().position(|(sent, m)| *sent && matches!(m, Message::Shutdown(_)));
            if let Some(g) = got {
                if asked.map(|a| a > g).unwrap_or(true) {
                    let last: Vec<String> = l[..g].iter().rev().filter(|(sent, _)| *sent).take(3).map(|(_, m)| format!("{m:?}").split('(').next().unwrap_or("").to_string()).collect();
                    fail = Some(Failure {
                        class: "CLOSED by broker".into(),
                        detail: format!(
                            "the broker shut down the connection of client {i} (protocol 1.{}) although the client had not asked for it; the client's last messages before that (newest first): {:?}",
                            case.ver(i),
                            last
                        ),
                    });
                    break;
                }
            }
        }
    }
    if fail.is_none() {
        let bb = b.borrow();
        for (i, s) in &bb.run_results {
            if s != "Ok" {
                let kind = s.split('(').nth(1).unwrap_or("").to_string();
                let last: Vec<String> = logs[*i].borrow().iter().rev().filter(|(sent, _)| *sent).take(4).map(|(_, m)| format!("{m:?}").split('(').next().unwrap_or("").to_string()).collect();
                fail = Some(Failure {
                    class: format!("RUN {}", s.split('(').next().unwrap_or("").to_string() + " " + &kind),
                    detail: format!("client {i} (protocol 1.{}) run() = {s}; the last messages it sent (newest first): {last:?}", case.ver(*i)),
                });
                break;
            }
        }
        if fail.is_none() && bb.run_results.len() != case.n {
            fail = Some(Failure { class: "RUN missing".into(), detail: format!("only {} of {} clients returned from run()", bb.run_results.len(), case.n) });
        }
        if fail.is_none() && !broker_idle_done.get() {
            fail = Some(Failure { class: "IDLE".into(), detail: "shutdown_idle did not complete".into() });
        }
    }
    if fail.is_some() {
        // do not run destructors of half-dead tasks (a second panic would abort the process)
        for t in tasks.drain(..) {
            std::mem::forget(t);
        }
        let sp: Vec<(String, Task)> = b.borrow_mut().spawn.drain(..).collect();
        std::mem::forget(sp);
    }
    let stats = b.borrow().stats.clone();
    let trace = logs.iter().map(|l| l.borrow().clone()).collect();
    let mut verdicts = vec!["none".to_string(); case.n];
    for (i, s) in &b.borrow().run_results {
        verdicts[*i] = if s == "Ok" {
            "ok".into()
        } else if s.starts_with("UnexpectedMessageReceived") {
            "rej".into()
        } else {
            "err".into()
        };
    }
    if let Some(f) = &fail {
        if let Some(rest) = f.detail.strip_prefix("task client") {
            if let (Some(i), Some(j)) = (rest.find(".run panicked in fn "), rest.find(" at ")) {
                if let Ok(ci) = rest[..i].parse::<usize>() {
                    if ci < verdicts.len() {
                        verdicts[ci] = format!("pan {}", &rest[i + ".run panicked in fn ".len()..j]);
                    }
                }
            }
        }
    }
    CaseResult { fail, polls, stats, trace, verdicts }
}

fn run_case_caught(case: &Case) -> CaseResult {
    match catch_unwind(AssertUnwindSafe(|| run_case(case))) {
        Ok(r) => r,
        Err(_) => {
            let msg = LAST_PANIC.lock().unwrap().take().unwrap_or_else(|| "panic".into());
            CaseResult {
                fail: Some(Failure { class: "PANIC harness".into(), detail: format!("outside a task: {msg}") }),
                polls: 0,
                stats: BTreeMap::new(),
                trace: vec![],
                verdicts: vec![],
            }
        }
    }
}

// ------------------------------------------------------------------------------------------
// shrinking

const SHRINK_SCHEDS: u64 = 4;

/// does the case fail with the same class under the stored schedule or a few others?
fn still_fails(c: &Case, class: &str, runs: &mut u64) -> Option<(Case, Failure)> {
    for k in 0..SHRINK_SCHEDS {
        let mut c2 = c.clone();
        if k > 0 {
            c2.sched = c.sched.wrapping_mul(6364136223846793005).wrapping_add(k) >> 1;
        }
        *runs += 1;
        if let Some(f) = run_case_caught(&c2).fail {
            if f.class == class {
                return Some((c2, f));
            }
        }
    }
    None
}

fn shrink(case: &Case, f: &Failure) -> (Case, Failure, u64) {
    let mut best = case.clone();
    let mut bf = f.clone();
    let mut runs = 0u64;
    if best.spurious != 0 {
        let mut c = best.clone();
        c.spurious = 0;
        if let Some((c2, f2)) = still_fails(&c, &f.class, &mut runs) {
            best = c2;
            bf = f2;
        }
    }
    if best.fifo != 0 {
        let mut c = best.clone();
        c.fifo = 0;
        if let Some((c2, f2)) = still_fails(&c, &f.class, &mut runs) {
            best = c2;
            bf = f2;
        }
    }
    if best.vers.iter().any(|v| *v != 20) {
        let mut c = best.clone();
        c.vers.clear();
        if let Some((c2, f2)) = still_fails(&c, &f.class, &mut runs) {
            best = c2;
            bf = f2;
        }
    }
    // ddmin on the operation list
    let mut chunk = (best.ops.len() + 1) / 2;
    while chunk >= 1 && !best.ops.is_empty() && runs < 4000 {
        let mut i = 0;
        let mut progressed = false;
        while i < best.ops.len() {
            let mut c = best.clone();
            let end = (i + chunk).min(c.ops.len());
            c.ops.drain(i..end);
            if let Some((c2, f2)) = still_fails(&c, &f.class, &mut runs) {
                best = c2;
                bf = f2;
                progressed = true;
            } else {
                i += chunk;
            }
        }
        if chunk == 1 && !progressed {
            break;
        }
        if !progressed || chunk > best.ops.len() {
            chunk = (chunk / 2).max(if chunk > 1 { 1 } else { 0 });
            if chunk == 0 {
                break;
            }
        }
    }
    // fewer clients: drop trailing clients without operations
    loop {
        let used = best.ops.iter().map(|(w, _)| *w + 1).max().unwrap_or(1).max(1);
        if used < best.n {
            let mut c = best.clone();
            c.n = used;
            if let Some((c2, f2)) = still_fails(&c, &f.class, &mut runs) {
                best = c2;
                bf = f2;
                continue;
            }
        }
        break;
    }
    (best, bf, runs)
}

// ------------------------------------------------------------------------------------------
// classification of a failure (after shrinking) into the finding families of design/C06.md

fn clear_cancels(c: &Case) -> Case {
    let mut c = c.clone();
    for (_, o) in c.ops.iter_mut() {
        match o.k {
            "clr" => o.c &= !2,
            "cls" => o.b &= !2,
            "llr" => o.c &= !1,
            "lls" => o.b &= !1,
            _ => {}
        }
    }
    c
}

fn has_cancel(c: &Case) -> bool {
    c.ops.iter().any(|(_, o)| match o.k {
        "clr" => o.c & 2 != 0,
        "cls" => o.b & 2 != 0,
        "llr" => o.c & 1 != 0,
        "lls" => o.b & 1 != 0,
        _ => false,
    })
}

/// (tag, case to store, its failure).  The tag is decided by the failing site AND by what the
/// program does, never by the property alone:
///  * `drain-abort-spin`: Client::run never returns from one poll
///  * `refused-claim-assert`: the channel-map assertion of msg_close_channel_end_reply fires in a
///    program that fails in the same way with every claim awaited to completion
///  * `cancelled-claim-assert`: the same assertion, but only because a claim future was dropped
///    while its request was in flight
///  * `double-bind-closes-held-end`: the map assertion of req_send_item / req_add_channel_capacity
///    fires in a run in which a client bound a channel end it already held
///  * `event-lost` / `event-unsubscribed` / `event-order` / `event-foreign` / `event-stream-end`:
///    the event oracle (per-proxy subscription state kept from the program)
fn classify(c: &Case, f: &Failure, runs: &mut u64) -> (String, Case, Failure) {
    // the event oracle's classes are their own families
    for (class, tag) in [
        ("EVENT lost", "event-lost"),
        ("EVENT unsubscribed", "event-unsubscribed"),
        ("EVENT order", "event-order"),
        ("EVENT foreign", "event-foreign"),
        ("EVENT stream-end", "event-stream-end"),
        ("CLOSED by broker", "closed-by-broker"),
    ] {
        if f.class == class {
            return (tag.into(), c.clone(), f.clone());
        }
    }
    if f.class.starts_with("SPIN client.run") {
        return ("drain-abort-spin".into(), c.clone(), f.clone());
    }
    if f.class.contains("fn msg_close_channel_end_reply") && f.detail.contains("contained.is_some()") {
        if has_cancel(c) {
            let c2 = clear_cancels(c);
            for k in 0..3 {
                let mut c3 = c2.clone();
                c3.sched = c2.sched.wrapping_add(k * 7919);
                if let Some((c4, f4)) = still_fails(&c3, &f.class, runs) {
                    return ("refused-claim-assert".into(), c4, f4);
                }
            }
            return ("cancelled-claim-assert".into(), c.clone(), f.clone());
        }
        return ("refused-claim-assert".into(), c.clone(), f.clone());
    }
    if f.class.contains("fn req_send_item") || f.class.contains("fn req_add_channel_capacity") {
        *runs += 1;
        let r = run_case_caught(c);
        if r.stats.get("bind.double").copied().unwrap_or(0) > 0 {
            return ("double-bind-closes-held-end".into(), c.clone(), f.clone());
        }
    }
    ("other".into(), c.clone(), f.clone())
}

// ------------------------------------------------------------------------------------------
// output

fn fnv(s: &str) -> u64 {
    let mut h = 0xcbf29ce484222325u64;
    for b in s.bytes() {
        h = (h ^ b as u64).wrapping_mul(0x100000001b3);
    }
    h
}

fn trace_text(trace: &[Vec<(bool, Message)>], verdicts: &[String], case: &Case) -> Vec<String> {
    // one line per client: `T <client> P <minor> V <verdict> ; <S|R> msg ; <S|R> msg ; ...` — uuids numbered per case
    let mut ids = Ids::default();
    let mut out = vec![];
    for (i, t) in trace.iter().enumerate() {
        let mut s = format!("T {i} P {} V {}", case.ver(i), verdicts.get(i).map(String::as_str).unwrap_or("none"));
        for (sent, m) in t {
            write!(s, " ; {} {}", if *sent { "S" } else { "R" }, fmt_msg(m, &mut ids)).unwrap();
        }
        out.push(s);
    }
    out
}

fn json_str(s: &str) -> String {
    let mut o = String::from("\"");
    for c in s.chars() {
        match c {
            '"' => o.push_str("\\\""),
            '\\' => o.push_str("\\\\"),
            '\n' => o.push_str("\\n"),
            c if (c as u32) < 0x20 => write!(o, "\\u{:04x}", c as u32).unwrap(),
            c => o.push(c),
        }
    }
    o.push('"');
    o
}

struct Totals {
    cases: u64,
    failures: u64,
    polls: u64,
    ops: u64,
    stats: BTreeMap<String, u64>,
    by_fifo: BTreeMap<String, u64>,
    by_clients: BTreeMap<String, u64>,
    distinct: HashSet<u64>,
    samples: Vec<String>,
    traced_msgs: u64,
    fault_cases: u64,
    tags: BTreeMap<String, u64>,
}

fn write_outputs(outdir: &str, cases: &[Case], results: Vec<CaseResult>, do_shrink: bool, want_trace: bool, trace_max: usize) {
    let mut t = Totals {
        cases: 0,
        failures: 0,
        polls: 0,
        ops: 0,
        stats: BTreeMap::new(),
        by_fifo: BTreeMap::new(),
        by_clients: BTreeMap::new(),
        distinct: HashSet::new(),
        samples: vec![],
        traced_msgs: 0,
        fault_cases: 0,
        tags: BTreeMap::new(),
    };
    let (mut cases_txt, mut impl_txt, mut mon_txt, mut trace_txt) = (String::new(), String::new(), String::new(), String::new());
    let mut shrunk_classes: HashSet<String> = HashSet::new();
    for (ci, (c, r)) in cases.iter().zip(results.into_iter()).enumerate() {
        t.cases += 1;
        t.polls += r.polls;
        t.ops += c.ops.len() as u64;
        for (k, v) in &r.stats {
            *t.stats.entry(k.clone()).or_insert(0) += v;
        }
        *t.by_fifo.entry(if c.fifo == 0 { "unbounded".into() } else { format!("bounded({})", c.fifo) }).or_insert(0) += 1;
        *t.by_clients.entry(c.n.to_string()).or_insert(0) += 1;
        let text = c.text();
        // non-trivial: at least two clients with operations and at least one cross-client interaction kind
        let active = (0..c.n).filter(|w| c.ops.iter().any(|(x, _)| x == w)).count();
        let cross = c.ops.iter().any(|(_, o)| matches!(o.k, "px" | "pf" | "clr" | "cls"));
        if active >= 2 && cross && c.ops.len() >= 8 {
            t.distinct.insert(fnv(&text.split_once('|').map(|x| x.1).unwrap_or("").to_string()));
        }
        if t.samples.len() < 3 {
            t.samples.push(text.clone());
        }
        writeln!(cases_txt, "{text}").unwrap();
        let fault = c.faults > 0;
        if fault {
            t.fault_cases += 1;
        }
        match &r.fail {
            None => writeln!(impl_txt, "ok polls={}", r.polls).unwrap(),
            Some(f) if fault => writeln!(impl_txt, "disturbed {} :: {}", f.class, f.detail.replace('\n', " ")).unwrap(),
            Some(f) => {
                t.failures += 1;
                writeln!(impl_txt, "FAIL {} :: {}", f.class, f.detail.replace('\n', " ")).unwrap();
                // shrink the first failure of each class of this shard
                let (sc, sf, runs) = if do_shrink && shrunk_classes.insert(f.class.clone()) {
                    shrink(c, f)
                } else {
                    (c.clone(), f.clone(), 0)
                };
                let mut runs = runs;
                let (tag, sc, sf) = classify(&sc, &sf, &mut runs);
                *t.tags.entry(tag.clone()).or_insert(0) += 1;
                writeln!(mon_txt, "{}\t{}\t{}\t{}\t{}\t{}", sf.class, ci, sc.text(), sf.detail.replace(['\n', '\t'], " "), runs, tag).unwrap();
            }
        }
        if want_trace && ci < trace_max && (fault || r.fail.is_none()) {
            for (k, l) in trace_text(&r.trace, &r.verdicts, c).into_iter().enumerate() {
                t.traced_msgs += r.trace[k].len() as u64;
                writeln!(trace_txt, "{ci} {l}").unwrap();
            }
        }
    }
    std::fs::create_dir_all(outdir).unwrap();
    std::fs::write(format!("{outdir}/cases.txt"), cases_txt).unwrap();
    std::fs::write(format!("{outdir}/impl.txt"), impl_txt).unwrap();
    std::fs::write(format!("{outdir}/monitor.txt"), mon_txt).unwrap();
    if want_trace {
        std::fs::write(format!("{outdir}/trace.txt"), trace_txt).unwrap();
    }
    let map = |m: &BTreeMap<String, u64>| {
        let v: Vec<String> = m.iter().map(|(k, v)| format!("{}: {}", json_str(k), v)).collect();
        format!("{{{}}}", v.join(", "))
    };
    let samples: Vec<String> = t.samples.iter().map(|s| json_str(s)).collect();
    let stats = format!(
        "{{\"cases\": {}, \"failures\": {}, \"polls\": {}, \"ops\": {}, \"traced_msgs\": {}, \"fault_cases\": {}, \"distinct_nontrivial\": {}, \"distinct_hashes\": [{}], \"by_transport\": {}, \"by_clients\": {}, \"result_classes\": {}, \"failure_tags\": {}, \"samples\": [{}]}}\n",
        t.cases,
        t.failures,
        t.polls,
        t.ops,
        t.traced_msgs,
        t.fault_cases,
        t.distinct.len(),
        t.distinct.iter().map(|h| h.to_string()).collect::<Vec<_>>().join(","),
        map(&t.by_fifo),
        map(&t.by_clients),
        map(&t.stats),
        map(&t.tags),
        samples.join(", ")
    );
    std::fs::write(format!("{outdir}/stats.json"), stats).unwrap();
}

fn main() {
    let args: Vec<String> = std::env::args().collect();
    install_hook();
    let flag = |f: &str| args.iter().any(|a| a == f);
    match args.get(1).map(String::as_str) {
        Some("gen") if args.len() >= 5 => {
            let outdir = &args[2];
            let n: u64 = args[3].parse().unwrap();
            let len: usize = args[4].parse().unwrap();
            let seed = env_u64("VERIF_SEED", 1);
            let mut r = Rng::new(seed);
            let o = GenOpts {
                failing_claims: !flag("--no-failing-claims"),
                cancel_claims: !flag("--no-cancel-claims"),
                shutdown_op: !flag("--no-shutdown-op"),
                event_theme: !flag("--no-event-theme"),
                listener_heavy: false,
                versions: !flag("--no-versions"),
            };
            let mut cases: Vec<Case> = (0..n).map(|_| gen_case(&mut r, len, o)).collect();
            if let Some(i) = args.iter().position(|a| a == "--faults") {
                let f: u32 = args.get(i + 1).and_then(|x| x.parse().ok()).unwrap_or(20);
                for c in cases.iter_mut() {
                    c.faults = f;
                }
            }
            if !o.failing_claims {
                // no claim is ever refused: pool entries are taken exactly once (generator), no
                // pending end is closed while its peer may still be claimed, nobody shuts down
                // early, and the applications keep what they hold until all programs are done
                for c in cases.iter_mut() {
                    c.ops.retain(|(_, o)| o.k != "sh");
                    for (_, o) in c.ops.iter_mut() {
                        if matches!(o.k, "es" | "er") {
                            o.c = 0;
                        }
                    }
                }
            }
            let verbose = std::env::var("SCHED_VERBOSE").is_ok();
            let results: Vec<CaseResult> = cases
                .iter()
                .enumerate()
                .map(|(i, c)| {
                    if verbose {
                        eprintln!("case {i}: {}", c.text());
                    }
                    run_case_caught(c)
                })
                .collect();
            let trace_max = args
                .iter()
                .position(|a| a == "--trace-max")
                .and_then(|i| args.get(i + 1))
                .and_then(|x| x.parse().ok())
                .unwrap_or(usize::MAX);
            write_outputs(outdir, &cases, results, !flag("--no-shrink"), flag("--trace"), trace_max);
        }
        Some("run") if args.len() >= 4 => {
            let text = std::fs::read_to_string(&args[2]).unwrap();
            let reps: u64 = args.get(4).and_then(|s| s.parse().ok()).unwrap_or(1);
            let mut cases = vec![];
            for line in text.lines().filter(|l| !l.trim().is_empty()) {
                let c = Case::parse(line).unwrap_or_else(|| panic!("bad case line: {line}"));
                for k in 0..reps {
                    let mut c2 = c.clone();
                    if k > 0 {
                        c2.sched = c.sched.wrapping_mul(6364136223846793005).wrapping_add(k) >> 1;
                    }
                    cases.push(c2);
                }
            }
            let results: Vec<CaseResult> = cases.iter().map(run_case_caught).collect();
            write_outputs(&args[3], &cases, results, flag("--shrink"), flag("--trace"), usize::MAX);
        }
        _ => {
            eprintln!("usage: sched gen <outdir> <cases> <ops-per-client> [--no-failing-claims] [--no-cancel-claims] [--no-shutdown-op] [--no-shrink] [--trace [--trace-max <cases>]] [--faults <per-mille>]\n       sched run <case-file> <outdir> [reps] [--trace]");
            std::process::exit(2);
        }
    }
}
