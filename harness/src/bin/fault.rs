//! `fault` — C15 harness: termination of the real `aldrin::Client` under transport faults, clean
//! shutdown causes and seeded random schedules (DESIGN §4 C15, design/C15.md).
//!
//! One case = (scenario, kind, k, schedule seed):
//!   * a real `Broker`, a peer client that owns a service / a lifetime scope and never answers,
//!     and the *victim*: a client on [`Faulty`], a wrapper around `channel::Unbounded` that counts
//!     the transport operations that complete (receive, send_start, flush) and, for the fault
//!     kinds, fails operation number `k` and every later one;
//!   * for the clean kinds a controller task acts when operation `k` has completed: it calls
//!     `Handle::shutdown`, drops the whole application (last handle), shuts the broker down, or
//!     shuts down / drops the broker side of the victim's connection;
//!   * combined kinds `<clean>+err` / `<clean>+eof`: the clean cause is applied (at the first
//!     quiescence or at a seed-drawn operation index), then transport operation number `k` counted
//!     from that moment and every later one fail -- a clean stop is under way and THEN the
//!     transport fails; a fault that fired must be the result of `run` (never `Ok`);
//!   * every task runs on a single-threaded executor with REAL wakers: only woken tasks are
//!     polled, the seeded `Rng` picks the next one.  A task that is still pending when no task is
//!     runnable is a hang (lost wake-up or a future nobody will ever complete).  A task that
//!     never returns from ONE poll (a loop without a yield inside `Client::run`) is caught by
//!     the spin guard of the victim's transport (`EPOCH`/`SPIN_LIMIT`) and reported as a hang too.
//!   * scenario `calldrop` (and `calldrop14` on protocol 1.14): one or two unanswered calls whose
//!     `PendingReply` futures are dropped at seeded points before / after the stop was requested
//!     (`drop <label>` in the trace), or awaited; on `lastdrop` the application drops its proxy
//!     and handle itself and keeps only the reply futures.
//!
//! Monitor (the property statement, evaluated on the Rust run alone): no panic; the executor
//! becomes quiescent with every task finished; `Client::run` returned the expected class; every
//! awaited operation of the application resolved; operations started after `run` returned failed
//! with `Error::Shutdown`; the peer is still served; `shutdown_idle` completed and `Broker::run`
//! returned (the broker removed the victim's connection).
//!
//! Correspondence: the wrapper's log of transport results plus the application's own log of
//! requests and outcomes is written to `trace.txt`; `extract/clientlife_driver.ml` feeds it to the
//! extracted automaton (Proto/ClientLife.v) and prints the predicted summary; `impl.txt` has the
//! observed one in the same format.
#![allow(clippy::all)]

use aldrin::core::channel::{self, Unbounded};
use aldrin::core::message::Message;
use aldrin::core::transport::AsyncTransport;
use aldrin::core::{BusListenerFilter, BusListenerScope, ObjectUuid, ServiceId, ServiceUuid};
use aldrin::low_level::{Proxy, ServiceInfo};
use aldrin::error::RunError;
use aldrin::{Client, Error, Handle, LifetimeId};
use aldrin_broker::{Broker, BrokerHandle, ConnectionHandle};
use std::cell::{Cell, RefCell};
use std::collections::BTreeMap;
use std::fmt;
use std::future::Future;
use std::io::Write;
use std::pin::Pin;
use std::rc::Rc;
use std::sync::atomic::{AtomicU64, Ordering};
use std::sync::{Arc, Mutex};
use std::task::{Context, Poll, Wake, Waker};
use uuid::Uuid;
use verif_harness::msgfmt::{fmt_msg, Ids};
use verif_harness::{catch, env_u64, quiet_panics, Rng};

// ------------------------------------------------------------------ executor with real wakers
/// incremented by the executor before every task poll.  The victim's transport counts how often
/// it is polled for input within ONE task poll: beyond SPIN_LIMIT the task that owns it
/// (`Client::run`) loops without ever returning to the executor -- on a single-threaded executor
/// nothing else can run then, so the wrapper panics with "SPIN: ..." (the case runner turns that
/// into a `hang:` problem with the case as replay instead of hanging the harness).  A legitimate
/// poll of `run` calls `receive_poll` once per handled message plus once per select call.
static EPOCH: AtomicU64 = AtomicU64::new(0);
const SPIN_LIMIT: u32 = 20_000;
/// the victim's trace up to the moment the spin guard fired (the panic loses the case state)
static SPIN_TRACE: Mutex<Vec<String>> = Mutex::new(Vec::new());

type Task = Pin<Box<dyn Future<Output = ()>>>;

struct TaskWaker {
    id: usize,
    ready: Arc<Mutex<Vec<bool>>>,
}
impl Wake for TaskWaker {
    fn wake(self: Arc<Self>) {
        self.wake_by_ref()
    }
    fn wake_by_ref(self: &Arc<Self>) {
        let mut r = self.ready.lock().unwrap();
        if self.id < r.len() {
            r[self.id] = true;
        }
    }
}

type Spawner = Rc<RefCell<Vec<(&'static str, Task)>>>;

struct Exec {
    tasks: Vec<Option<Task>>,
    names: Vec<&'static str>,
    wakers: Vec<Waker>,
    ready: Arc<Mutex<Vec<bool>>>,
    spawn: Spawner,
    polls: usize,
}

enum Stop {
    Quiescent,
    Budget,
}

impl Exec {
    fn new() -> Self {
        Exec { tasks: vec![], names: vec![], wakers: vec![], ready: Arc::new(Mutex::new(vec![])), spawn: Rc::new(RefCell::new(vec![])), polls: 0 }
    }
    fn absorb(&mut self) {
        let new: Vec<_> = self.spawn.borrow_mut().drain(..).collect();
        for (name, t) in new {
            let id = self.tasks.len();
            self.tasks.push(Some(t));
            self.names.push(name);
            self.ready.lock().unwrap().push(true);
            self.wakers.push(Arc::new(TaskWaker { id, ready: self.ready.clone() }).into());
        }
    }
    /// poll woken tasks in the order the rng chooses until none is runnable
    fn run(&mut self, rng: &mut Rng, budget: usize) -> Stop {
        loop {
            self.absorb();
            let runnable: Vec<usize> = {
                let r = self.ready.lock().unwrap();
                (0..self.tasks.len()).filter(|i| r[*i] && self.tasks[*i].is_some()).collect()
            };
            if runnable.is_empty() {
                return Stop::Quiescent;
            }
            if self.polls >= budget {
                return Stop::Budget;
            }
            let i = runnable[rng.below(runnable.len() as u64) as usize];
            self.ready.lock().unwrap()[i] = false;
            let w = self.wakers[i].clone();
            let mut cx = Context::from_waker(&w);
            self.polls += 1;
            EPOCH.fetch_add(1, Ordering::Relaxed);
            let done = self.tasks[i].as_mut().unwrap().as_mut().poll(&mut cx).is_ready();
            if done {
                self.tasks[i] = None;
            }
        }
    }
    fn pending(&self) -> Vec<&'static str> {
        (0..self.tasks.len()).filter(|i| self.tasks[*i].is_some()).map(|i| self.names[i]).collect()
    }
}

// ------------------------------------------------------------------ tiny sync primitives
#[derive(Clone, Default)]
struct Flag(Rc<FlagInner>);
#[derive(Default)]
struct FlagInner {
    set: Cell<bool>,
    wakers: RefCell<Vec<Waker>>,
}
impl Flag {
    fn new() -> Self {
        Self::default()
    }
    fn set(&self) {
        self.0.set.set(true);
        for w in self.0.wakers.borrow_mut().drain(..) {
            w.wake();
        }
    }
    fn is_set(&self) -> bool {
        self.0.set.get()
    }
    fn wait(&self) -> FlagWait {
        FlagWait(self.clone())
    }
}
struct FlagWait(Flag);
impl Future for FlagWait {
    type Output = ();
    fn poll(self: Pin<&mut Self>, cx: &mut Context) -> Poll<()> {
        if self.0.is_set() {
            Poll::Ready(())
        } else {
            self.0 .0.wakers.borrow_mut().push(cx.waker().clone());
            Poll::Pending
        }
    }
}

/// gives the executor one turn: Pending once (the task stays runnable), then Ready
struct YieldNow(bool);
impl Future for YieldNow {
    type Output = ();
    fn poll(mut self: Pin<&mut Self>, cx: &mut Context) -> Poll<()> {
        if self.0 {
            Poll::Ready(())
        } else {
            self.0 = true;
            cx.waker().wake_by_ref();
            Poll::Pending
        }
    }
}
async fn yields(n: u64) {
    for _ in 0..n {
        YieldNow(false).await;
    }
}

/// `fut`, unless `stop` is set first (then `fut` is dropped and None returned)
struct Race<F: Future> {
    fut: Option<Pin<Box<F>>>,
    stop: Flag,
}
fn race<F: Future>(fut: F, stop: &Flag) -> Race<F> {
    Race { fut: Some(Box::pin(fut)), stop: stop.clone() }
}
impl<F: Future> Future for Race<F> {
    type Output = Option<F::Output>;
    fn poll(mut self: Pin<&mut Self>, cx: &mut Context) -> Poll<Self::Output> {
        if self.stop.is_set() {
            self.fut = None;
            return Poll::Ready(None);
        }
        let this = &mut *self;
        match this.fut.as_mut().unwrap().as_mut().poll(cx) {
            Poll::Ready(x) => {
                this.fut = None;
                Poll::Ready(Some(x))
            }
            Poll::Pending => {
                this.stop.0.wakers.borrow_mut().push(cx.waker().clone());
                Poll::Pending
            }
        }
    }
}

// ------------------------------------------------------------------ the fault-injecting transport
#[derive(Debug, Clone, Copy, PartialEq, Eq)]
enum FErr {
    Injected, // the injected error
    Closed,   // the injected EOF: the wrapper dropped the inner transport
    Peer,     // the inner channel reported Disconnected (the other side went away)
}
impl fmt::Display for FErr {
    fn fmt(&self, f: &mut fmt::Formatter) -> fmt::Result {
        write!(f, "{:?}", self)
    }
}
impl std::error::Error for FErr {}
impl FErr {
    fn code(self) -> u32 {
        match self {
            FErr::Injected => 1,
            FErr::Closed => 2,
            FErr::Peer => 3,
        }
    }
}

#[derive(Clone, Copy, PartialEq, Eq, Debug)]
enum Kind {
    None,
    Err,
    Eof,
    Shutdown,
    LastDrop,
    Broker,
    ConnClose,
    ConnDrop,
}
impl Kind {
    fn name(self) -> &'static str {
        match self {
            Kind::None => "none",
            Kind::Err => "err",
            Kind::Eof => "eof",
            Kind::Shutdown => "shutdown",
            Kind::LastDrop => "lastdrop",
            Kind::Broker => "broker",
            Kind::ConnClose => "connclose",
            Kind::ConnDrop => "conndrop",
        }
    }
    fn parse(s: &str) -> Kind {
        match s {
            "none" => Kind::None,
            "err" => Kind::Err,
            "eof" => Kind::Eof,
            "shutdown" => Kind::Shutdown,
            "lastdrop" => Kind::LastDrop,
            "broker" => Kind::Broker,
            "connclose" => Kind::ConnClose,
            "conndrop" => Kind::ConnDrop,
            _ => panic!("unknown kind {s}"),
        }
    }
    fn is_fault(self) -> bool {
        matches!(self, Kind::Err | Kind::Eof)
    }
}

/// state shared by the wrapper, the application and the case runner
struct Shared {
    kind: Kind,
    k: usize,
    /// combined kinds `<clean>+err|eof`: the fault that follows the clean cause, its operation index
    /// counted from the moment the controller applied the cause, and the absolute index once known
    late: Option<Kind>,
    late_k: usize,
    late_from: Cell<Option<usize>>,
    ops_at_act: Cell<Option<usize>>,
    ops: Cell<usize>,
    failed: Cell<Option<FErr>>,
    injected_at: Cell<Option<usize>>,
    err_logged: Cell<bool>,
    logging: Cell<bool>,
    log: RefCell<Vec<String>>,
    ids: RefCell<Ids>,
    trigger: Flag,
    labels: Cell<usize>,
    obs: RefCell<Vec<(String, &'static str)>>,
    op_kinds: RefCell<[usize; 3]>,
}
impl Shared {
    fn line(&self, s: String) {
        if self.logging.get() {
            self.log.borrow_mut().push(s);
        }
    }
    /// one transport operation is about to complete; true = it fails instead
    fn tick(&self, which: usize) -> bool {
        let n = self.ops.get();
        self.ops.set(n + 1);
        self.op_kinds.borrow_mut()[which] += 1;
        if self.kind.is_fault() && n >= self.k {
            self.failed.set(Some(if self.kind == Kind::Err { FErr::Injected } else { FErr::Closed }));
            self.injected_at.set(Some(n));
            return true;
        }
        if let (Some(f), Some(from)) = (self.late, self.late_from.get()) {
            if n >= from {
                self.failed.set(Some(if f == Kind::Err { FErr::Injected } else { FErr::Closed }));
                self.injected_at.set(Some(n));
                return true;
            }
        }
        if !self.kind.is_fault() && self.kind != Kind::None && n + 1 >= self.k {
            self.trigger.set();
        }
        false
    }
    fn err(&self, what: &str, e: FErr) -> FErr {
        if !self.err_logged.get() {
            self.err_logged.set(true);
            self.line(format!("{what} {}", e.code()));
        }
        e
    }
}

struct Faulty {
    inner: Option<Unbounded>,
    sh: Rc<Shared>,
    epoch: u64,
    calls: u32,
    /// a socket-like transport: every other flush needs one extra poll (Pending with an immediate
    /// wake-up) before it completes, so that a wrapper that reports a flush as done too early
    /// (Buffered) leaves the last message unwritten
    flushes: u32,
    stalled: bool,
    /// messages handed over with send_start stay here until a flush writes them (a write buffer)
    wbuf: Vec<Message>,
}
impl Faulty {
    fn new(inner: Unbounded, sh: Rc<Shared>) -> Self {
        Faulty { inner: Some(inner), sh, epoch: 0, calls: 0, flushes: 0, stalled: false, wbuf: Vec::new() }
    }
    /// see EPOCH
    fn spin_guard(&mut self) {
        let e = EPOCH.load(Ordering::Relaxed);
        if self.epoch == e {
            self.calls += 1;
            if self.calls > SPIN_LIMIT {
                self.calls = 0;
                *SPIN_TRACE.lock().unwrap() = self.sh.log.borrow().clone();
                panic!("SPIN: receive_poll called {SPIN_LIMIT} times within a single poll of the task (busy loop that never yields)");
            }
        } else {
            self.epoch = e;
            self.calls = 0;
        }
    }
    fn fail_now(&mut self) -> FErr {
        let e = self.sh.failed.get().unwrap();
        if e == FErr::Closed {
            self.inner = None; // EOF: the connection is really closed
        }
        e
    }
}
impl AsyncTransport for Faulty {
    type Error = FErr;
    fn receive_poll(mut self: Pin<&mut Self>, cx: &mut Context) -> Poll<Result<Message, FErr>> {
        self.spin_guard();
        if let Some(e) = self.sh.failed.get() {
            return Poll::Ready(Err(self.sh.err("recverr", e)));
        }
        let r = Pin::new(self.inner.as_mut().unwrap()).receive_poll(cx);
        match r {
            Poll::Pending => Poll::Pending,
            Poll::Ready(Ok(m)) => {
                if self.sh.tick(0) {
                    let e = self.fail_now();
                    return Poll::Ready(Err(self.sh.err("recverr", e)));
                }
                let t = fmt_msg(&m, &mut self.sh.ids.borrow_mut());
                self.sh.line(format!("recv {t}"));
                Poll::Ready(Ok(m))
            }
            Poll::Ready(Err(_)) => {
                self.sh.failed.set(Some(FErr::Peer));
                Poll::Ready(Err(self.sh.err("recverr", FErr::Peer)))
            }
        }
    }
    fn send_poll_ready(mut self: Pin<&mut Self>, cx: &mut Context) -> Poll<Result<(), FErr>> {
        if let Some(e) = self.sh.failed.get() {
            return Poll::Ready(Err(self.sh.err("flusherr", e)));
        }
        match Pin::new(self.inner.as_mut().unwrap()).send_poll_ready(cx) {
            Poll::Pending => Poll::Pending,
            Poll::Ready(Ok(())) => Poll::Ready(Ok(())),
            Poll::Ready(Err(_)) => {
                self.sh.failed.set(Some(FErr::Peer));
                Poll::Ready(Err(self.sh.err("flusherr", FErr::Peer)))
            }
        }
    }
    fn send_start(mut self: Pin<&mut Self>, msg: Message) -> Result<(), FErr> {
        if let Some(e) = self.sh.failed.get() {
            return Err(self.sh.err("flusherr", e));
        }
        if self.sh.tick(1) {
            let e = self.fail_now();
            return Err(self.sh.err("flusherr", e));
        }
        let t = fmt_msg(&msg, &mut self.sh.ids.borrow_mut());
        self.sh.line(format!("send {t}"));
        self.wbuf.push(msg);
        Ok(())
    }
    fn send_poll_flush(mut self: Pin<&mut Self>, cx: &mut Context) -> Poll<Result<(), FErr>> {
        if let Some(e) = self.sh.failed.get() {
            return Poll::Ready(Err(self.sh.err("flusherr", e)));
        }
        if !self.stalled && self.flushes % 2 == 1 {
            // not yet: ask to be polled again
            self.stalled = true;
            cx.waker().wake_by_ref();
            return Poll::Pending;
        }
        // write the buffered messages out
        let pending = std::mem::take(&mut self.wbuf);
        for m in pending {
            let inner = self.inner.as_mut().unwrap();
            let ok = matches!(Pin::new(&mut *inner).send_poll_ready(cx), Poll::Ready(Ok(()))) && Pin::new(&mut *inner).send_start(m).is_ok();
            if !ok {
                self.sh.failed.set(Some(FErr::Peer));
                return Poll::Ready(Err(self.sh.err("flusherr", FErr::Peer)));
            }
        }
        match Pin::new(self.inner.as_mut().unwrap()).send_poll_flush(cx) {
            Poll::Pending => Poll::Pending,
            Poll::Ready(Ok(())) => {
                self.stalled = false;
                self.flushes += 1;
                if self.sh.tick(2) {
                    let e = self.fail_now();
                    return Poll::Ready(Err(self.sh.err("flusherr", e)));
                }
                self.sh.line("flush ok".into());
                Poll::Ready(Ok(()))
            }
            Poll::Ready(Err(_)) => {
                self.sh.failed.set(Some(FErr::Peer));
                Poll::Ready(Err(self.sh.err("flusherr", FErr::Peer)))
            }
        }
    }
}

// ------------------------------------------------------------------ the application side
const SCENARIOS: [&str; 11] =
    ["objsvc", "call", "listener", "channel", "sync", "mixed", "lifetime", "mixed14", "twotasks", "calldrop", "calldrop14"];

/// scenarios run on protocol 1.14 (`connect1`)
fn is_v14(scenario: usize) -> bool {
    SCENARIOS[scenario].ends_with("14")
}
/// scenarios whose application drops its handles itself on `lastdrop` (it is not dropped as a whole)
fn is_calldrop(scenario: usize) -> bool {
    SCENARIOS[scenario].starts_with("calldrop")
}

#[derive(Clone)]
struct PeerInfo {
    sid: ServiceId,
    scope: LifetimeId,
}

#[derive(Clone)]
struct Ctx {
    h: Handle,
    sh: Rc<Shared>,
    peer: PeerInfo,
    run_returned: Flag,
    late: Rc<RefCell<Vec<(&'static str, bool)>>>, // (operation, failed with Error::Shutdown)
    kind: Kind,
    stopping: Flag, // the controller has applied the clean cause (or `run` has returned)
    vseed: u64,     // seed of the scenario's own choices (not the schedule's)
}

fn class<T>(r: &Result<T, Error>) -> &'static str {
    match r {
        Err(Error::Shutdown) => "shutdown",
        _ => "value",
    }
}

impl Ctx {
    /// a request with a reply is about to be sent through the handle
    fn enq(&self, kind: &str) -> String {
        let n = self.sh.labels.get();
        self.sh.labels.set(n + 1);
        self.sh.line(format!("enq r{n} {kind}"));
        format!("r{n}")
    }
    fn obs(&self, label: &str, c: &'static str) {
        self.sh.obs.borrow_mut().push((label.to_string(), c));
    }
    /// the n-th sender the client created itself in `map` was observed to end
    fn obs_int(&self, map: &str, n: usize, c: &'static str) {
        self.sh.obs.borrow_mut().push((format!("{map}#{n}"), c));
    }
}

macro_rules! op {
    ($cx:expr, $kind:expr, $fut:expr) => {{
        let l = $cx.enq($kind);
        let r = $fut.await;
        $cx.obs(&l, class(&r));
        r
    }};
}

/// operations started when the application believes the client has stopped
async fn late_ops(cx: &Ctx) {
    if !cx.run_returned.is_set() {
        return;
    }
    let r = cx.h.create_object(ObjectUuid(Uuid::from_u128(0xdead))).await;
    cx.late.borrow_mut().push(("create_object", matches!(r, Err(Error::Shutdown))));
    let r = cx.h.sync_client().await;
    cx.late.borrow_mut().push(("sync_client", matches!(r, Err(Error::Shutdown))));
    let r = cx.h.sync_broker().await;
    cx.late.borrow_mut().push(("sync_broker", matches!(r, Err(Error::Shutdown))));
    let r = cx.h.create_bus_listener().await;
    cx.late.borrow_mut().push(("create_bus_listener", matches!(r, Err(Error::Shutdown))));
    let r = Proxy::new(&cx.h, cx.peer.sid).await;
    cx.late.borrow_mut().push(("create_proxy", matches!(r, Err(Error::Shutdown))));
    let r = cx.h.create_low_level_channel().claim_sender().await;
    cx.late.borrow_mut().push(("create_channel", matches!(r, Err(Error::Shutdown))));
}

async fn sc_objsvc(cx: Ctx) {
    let obj = op!(cx, "CreateObject", cx.h.create_object(ObjectUuid(Uuid::from_u128(50))));
    if let Ok(o) = &obj {
        let s = op!(cx, "CreateService", o.create_service(ServiceUuid(Uuid::from_u128(51)), ServiceInfo::new(0)));
        let _ = op!(cx, "SyncBroker", cx.h.sync_broker());
        if let Ok(mut s) = s {
            // nobody calls this service: resolves only when the client stops
            let c = s.next_call().await;
            cx.obs_int("services", 0, if c.is_none() { "shutdown" } else { "value" });
        }
    }
    late_ops(&cx).await;
}

async fn sc_call(cx: Ctx) {
    let p = op!(cx, "CreateProxy", Proxy::new(&cx.h, cx.peer.sid));
    if let Ok(mut p) = p {
        let _ = op!(cx, "SubscribeEvent", p.subscribe(1));
        let l = cx.enq("CallFunction");
        let pending = p.call(0, 1u8, None); // the peer never answers
        let r = pending.await;
        cx.obs(&l, class(&r));
        let e = p.next_event().await;
        cx.obs_int("proxies", 0, if e.is_none() { "shutdown" } else { "value" });
    }
    late_ops(&cx).await;
}

async fn sc_listener(cx: Ctx) {
    let lis = op!(cx, "CreateBusListener", cx.h.create_bus_listener());
    if let Ok(mut l) = lis {
        let _ = l.add_filter(BusListenerFilter::any_object());
        let st = op!(cx, "StartBusListener", l.start(BusListenerScope::All));
        if st.is_ok() {
            loop {
                if l.next_event().await.is_none() {
                    cx.obs_int("bus_listeners", 0, "shutdown");
                    break;
                }
            }
        }
    }
    late_ops(&cx).await;
}

async fn sc_channel(cx: Ctx) {
    let a = op!(cx, "CreateClaimedReceiver", cx.h.create_low_level_channel().claim_receiver(4));
    let b = op!(cx, "CreateClaimedSender", cx.h.create_low_level_channel().claim_sender());
    if let Ok((_us, pr)) = a {
        // nobody claims the sender
        let r = pr.establish().await;
        cx.obs_int("receivers", 0, class(&r));
    }
    if let Ok((ps, _ur)) = b {
        let r = ps.establish().await;
        cx.obs_int("senders", 0, class(&r));
    }
    late_ops(&cx).await;
}

async fn sc_sync(cx: Ctx) {
    for _ in 0..2 {
        let _ = op!(cx, "SyncClient", cx.h.sync_client());
        let _ = op!(cx, "SyncBroker", cx.h.sync_broker());
    }
    let _ = op!(cx, "GetProtocolVersion", cx.h.version());
    let _ = op!(cx, "SyncBroker", cx.h.sync_broker());
    late_ops(&cx).await;
}

async fn sc_mixed(cx: Ctx) {
    let obj = op!(cx, "CreateObject", cx.h.create_object(ObjectUuid(Uuid::from_u128(50))));
    let mut my_svc = None;
    if let Ok(o) = &obj {
        my_svc = op!(cx, "CreateService", o.create_service(ServiceUuid(Uuid::from_u128(51)), ServiceInfo::new(0))).ok();
    }
    let p = op!(cx, "CreateProxy", Proxy::new(&cx.h, cx.peer.sid));
    if let Ok(mut p) = p {
        let _ = op!(cx, "SubscribeEvent", p.subscribe(1));
        let lc = cx.enq("CallFunction");
        let pending = p.call(0, 1u8, None);
        let lis = op!(cx, "CreateBusListener", cx.h.create_bus_listener());
        let ch = op!(cx, "CreateClaimedReceiver", cx.h.create_low_level_channel().claim_receiver(4));
        let mut lis = lis.ok();
        let mut started = false;
        if let Some(l) = lis.as_mut() {
            let _ = l.add_filter(BusListenerFilter::any_object());
            started = op!(cx, "StartBusListener", l.start(BusListenerScope::All)).is_ok();
        }
        let _ = op!(cx, "SyncBroker", cx.h.sync_broker());
        let r = pending.await;
        cx.obs(&lc, class(&r));
        let e = p.next_event().await;
        cx.obs_int("proxies", 0, if e.is_none() { "shutdown" } else { "value" });
        if let (Some(l), true) = (lis.as_mut(), started) {
            loop {
                if l.next_event().await.is_none() {
                    cx.obs_int("bus_listeners", 0, "shutdown");
                    break;
                }
            }
        }
        if let Ok((_us, pr)) = ch {
            let r = pr.establish().await;
            cx.obs_int("receivers", 0, class(&r));
        }
        if let Some(s) = my_svc.as_mut() {
            let c = s.next_call().await;
            cx.obs_int("services", 0, if c.is_none() { "shutdown" } else { "value" });
        }
    }
    late_ops(&cx).await;
}

async fn sc_lifetime(cx: Ctx) {
    // Lifetime::new issues CreateLifetimeListener, a filter and StartBusListener itself
    let lt = cx.h.create_lifetime(cx.peer.scope).await;
    let d = cx
        .h
        .create_discoverer::<u32>()
        .bare_object(0, ObjectUuid(Uuid::from_u128(0xabcdef)))
        .build()
        .await;
    if let Ok(mut lt) = lt {
        lt.ended().await; // the peer keeps its scope: ends only when the client stops
        cx.obs_int("bus_listeners", 0, "shutdown");
    }
    if let Ok(mut d) = d {
        loop {
            if d.next_event().await.is_none() {
                break;
            }
        }
    }
    let r = cx.h.wait_for_bare_object(ObjectUuid(Uuid::from_u128(0xabcdef))).await;
    cx.late.borrow_mut().push(("wait_for_bare_object", r.is_err() || !cx.run_returned.is_set()));
    late_ops(&cx).await;
}

/// what `calldrop` does with one call the peer never answers
#[derive(Clone, Copy, PartialEq, Eq)]
enum Fate {
    DropBefore(u64), // the PendingReply is dropped after that many executor turns, not waiting for the stop
    DropAfter(u64),  // ... that many executor turns after the stop was requested
    Await,           // awaited to the end
}

/// One or two calls pending at the peer; their `PendingReply` futures are dropped at seeded,
/// schedule-dependent points before / after the stop was requested, or awaited.  A dropped
/// reply is what `FunctionCallMap::poll_aborted` reports: `Selected::AbortFunctionCall` in the
/// main loop of `Client::run` (-> `abort_function_call`, sends `AbortFunctionCall` from 1.16 on)
/// or in `drain_transport` (-> `FunctionCallMap::abort` only).  On `lastdrop` the application
/// drops its proxy and handle itself and keeps only the reply futures.
async fn sc_calldrop(cx: Ctx) {
    let mut vr = Rng::new(cx.vseed);
    let p = op!(cx, "CreateProxy", Proxy::new(&cx.h, cx.peer.sid));
    let p = match p {
        Ok(p) => p,
        Err(_) => {
            late_ops(&cx).await;
            return;
        }
    };
    let ncalls = 1 + vr.below(2);
    let mut calls = vec![];
    for i in 0..ncalls {
        let fate = match vr.below(6) {
            0 => Fate::DropBefore(vr.below(6)),
            1 => Fate::Await,
            _ => Fate::DropAfter(vr.below(7)),
        };
        let l = cx.enq("CallFunction");
        calls.push((l, Some(p.call(0, i as u8, None)), fate));
        if vr.below(3) == 0 {
            yields(vr.below(4)).await;
        }
    }
    let sh = cx.sh.clone();
    let drop_call = |c: &mut (String, Option<aldrin::low_level::PendingReply>, Fate)| {
        sh.line(format!("drop {}", c.0));
        c.1 = None; // the receiver of the reply oneshot is dropped here
        sh.obs.borrow_mut().push((c.0.clone(), "dropped"));
    };
    // drops that do not wait for the stop (main-loop path, unless the stop overtakes them)
    let mut turn = 0;
    let mut order: Vec<usize> = (0..calls.len()).collect();
    order.sort_by_key(|i| match calls[*i].2 {
        Fate::DropBefore(y) | Fate::DropAfter(y) => y,
        Fate::Await => 0,
    });
    for &i in &order {
        if let Fate::DropBefore(y) = calls[i].2 {
            yields(y.saturating_sub(turn)).await;
            turn = turn.max(y);
            drop_call(&mut calls[i]);
        }
    }
    cx.stopping.wait().await;
    // last handle dropped: the application lets go of everything but the reply futures
    let mut keep = Some((cx.clone(), p));
    let lastdrop = cx.kind == Kind::LastDrop;
    drop(cx);
    if lastdrop {
        keep = None;
    }
    turn = 0;
    for &i in &order {
        if let Fate::DropAfter(y) = calls[i].2 {
            yields(y.saturating_sub(turn)).await;
            turn = turn.max(y);
            drop_call(&mut calls[i]);
        }
    }
    for c in calls.iter_mut() {
        if let Some(pending) = c.1.take() {
            let r = pending.await;
            sh.obs.borrow_mut().push((c.0.clone(), class(&r)));
        }
    }
    if let Some((cx, mut p)) = keep {
        let e = p.next_event().await;
        cx.obs_int("proxies", 0, if e.is_none() { "shutdown" } else { "value" });
        late_ops(&cx).await;
    }
}

/// second task of `twotasks`: syncs until the client stops
async fn sc_syncloop(cx: Ctx) {
    for _ in 0..400 {
        let r = op!(cx, "SyncBroker", cx.h.sync_broker());
        if r.is_err() {
            break;
        }
        let r = op!(cx, "SyncClient", cx.h.sync_client());
        if r.is_err() {
            break;
        }
        if cx.sh.ops.get() > 60 {
            break;
        }
    }
}

// ------------------------------------------------------------------ one case
struct Case {
    scenario: usize,
    kind: Kind,
    /// `Some(Err | Eof)`: kind `<clean>+err` / `<clean>+eof` -- the clean cause `kind` is applied (at
    /// the first quiescence or at an operation index drawn from the seed), then transport operation
    /// number `k` COUNTED FROM THAT MOMENT and every later one fail
    late: Option<Kind>,
    k: usize,
    seed: u64,
}
impl Case {
    fn kind_name(&self) -> String {
        match self.late {
            Some(f) => format!("{}+{}", self.kind.name(), f.name()),
            None => self.kind.name().to_string(),
        }
    }
    fn id(&self) -> String {
        format!("{} {} {} {}", SCENARIOS[self.scenario], self.kind_name(), self.k, self.seed)
    }
    fn parse_kind(s: &str) -> (Kind, Option<Kind>) {
        match s.split_once('+') {
            Some((c, f)) => {
                let (c, f) = (Kind::parse(c), Kind::parse(f));
                if c.is_fault() || c == Kind::None || !f.is_fault() {
                    panic!("unknown kind {s}");
                }
                (c, Some(f))
            }
            None => (Kind::parse(s), None),
        }
    }
    /// the operation index at which the clean cause of a combined kind is applied: never reached
    /// (= at the first quiescence, everything the scenario does is pending) for half of the seeds,
    /// somewhere in the middle of the scenario for the others
    fn cause_k(&self) -> usize {
        let x = self.seed.wrapping_mul(0x9E37_79B9_7F4A_7C15) >> 33;
        if x % 2 == 0 {
            usize::MAX
        } else {
            3 + ((x / 2) % 24) as usize
        }
    }
}

#[derive(Default)]
struct Board {
    victim_connect_failed: bool,
    victim_run: Option<String>,
    victim_conn: Option<String>,
    peer_run: Option<String>,
    peer_conn: Option<String>,
    peer_ok: Option<bool>,
    idle_done: bool,
    acted: bool,
}

struct Outcome {
    problems: Vec<String>,
    trace: Vec<String>,
    summary: String,
    ops: usize,
    polls: usize,
    fired: bool,
    run_class: String,
    conn_class: String,
    op_kinds: [usize; 3],
    labelled: usize,
    /// where the application's reply drops fell: [main loop, draining and waiting for the peer's
    /// Shutdown, draining otherwise, after run returned / failed], and AbortFunctionCall messages sent
    reply_drops: [usize; 5],
    /// transport operations completed after the controller applied the clean cause
    post_ops: usize,
}

/// classify the `drop` lines of a trace by the state of the client as the wire shows it
fn reply_drops(trace: &[String]) -> [usize; 5] {
    let (mut sent, mut recvd, mut over) = (false, false, false);
    let mut n = [0usize; 5];
    for l in trace {
        match l.as_str() {
            "send Shutdown" => sent = true,
            "recv Shutdown" => recvd = true,
            "returned" => over = true,
            _ if l.starts_with("recverr") || l.starts_with("flusherr") => over = true,
            _ if l.starts_with("send AbortFunctionCall") => n[4] += 1,
            _ if l.starts_with("drop ") => {
                let i = if over {
                    3
                } else if sent && !recvd {
                    1
                } else if sent || recvd {
                    2
                } else {
                    0
                };
                n[i] += 1;
            }
            _ => {}
        }
    }
    n
}

fn run_class<E: fmt::Debug>(r: &Result<(), RunError<E>>) -> String {
    match r {
        Ok(()) => "ok".into(),
        Err(RunError::Transport(e)) => format!("transport:{:?}", e),
        Err(RunError::UnexpectedMessageReceived(m)) => format!("unexpected:{:?}", m).chars().take(60).collect(),
        Err(e) => format!("other:{:?}", e).chars().take(60).collect(),
    }
}

fn run_case(c: &Case) -> Outcome {
    let mut rng = Rng::new(c.seed);
    let mut ex = Exec::new();
    let sp = ex.spawn.clone();
    let b: Rc<RefCell<Board>> = Rc::new(RefCell::new(Board::default()));
    let sh = Rc::new(Shared {
        kind: c.kind,
        k: if c.late.is_some() { c.cause_k() } else { c.k },
        late: c.late,
        late_k: c.k,
        late_from: Cell::new(None),
        ops_at_act: Cell::new(None),
        ops: Cell::new(0),
        failed: Cell::new(None),
        injected_at: Cell::new(None),
        err_logged: Cell::new(false),
        logging: Cell::new(false),
        log: RefCell::new(vec![]),
        ids: RefCell::new(Ids::default()),
        trigger: Flag::new(),
        labels: Cell::new(0),
        obs: RefCell::new(vec![]),
        op_kinds: RefCell::new([0; 3]),
    });
    let late: Rc<RefCell<Vec<(&'static str, bool)>>> = Rc::new(RefCell::new(vec![]));
    let app_done = Flag::new(); // the victim's application finished or was dropped
    let app_completed = Rc::new(Cell::new(0usize)); // application tasks that ran to their end
    let run_returned = Flag::new(); // the victim's Client::run returned (or connect failed)
    let victim_finished = Flag::new();
    let started = Flag::new(); // the victim's client runs, handles are in place
    let peer_done = Flag::new();
    let peer_ready = Flag::new();
    let peer_info: Rc<RefCell<Option<PeerInfo>>> = Rc::new(RefCell::new(None));
    let app_abort = Flag::new();
    let conn_abort = Flag::new();
    let napps = if SCENARIOS[c.scenario] == "twotasks" { 2 } else { 1 };
    let stopping = Flag::new(); // the clean cause has been applied or the victim's run has returned

    let broker = Broker::new();
    let bh: BrokerHandle = broker.handle().clone();
    sp.borrow_mut().push(("broker", Box::pin(async move {
        broker.run().await;
    })));

    // ---- peer: owns a service and a lifetime scope, never answers, stays until the victim is done
    {
        let (t1, t2) = channel::unbounded();
        let cslot: Rc<RefCell<Option<Client<Unbounded>>>> = Rc::new(RefCell::new(None));
        let bslot = Rc::new(RefCell::new(None));
        let (cf, bf) = (Flag::new(), Flag::new());
        {
            let (cslot, cf) = (cslot.clone(), cf.clone());
            sp.borrow_mut().push(("peer_connect", Box::pin(async move {
                *cslot.borrow_mut() = Client::connect(t1).await.ok();
                cf.set();
            })));
        }
        {
            let (bslot, bf, mut bh) = (bslot.clone(), bf.clone(), bh.clone());
            sp.borrow_mut().push(("peer_accept", Box::pin(async move {
                *bslot.borrow_mut() = bh.connect(t2).await.ok();
                bf.set();
            })));
        }
        let (sp2, b2, peer_ready, peer_info, victim_finished, peer_done, kind) =
            (sp.clone(), b.clone(), peer_ready.clone(), peer_info.clone(), victim_finished.clone(), peer_done.clone(), c.kind);
        sp.borrow_mut().push(("peer", Box::pin(async move {
            cf.wait().await;
            bf.wait().await;
            let client = cslot.borrow_mut().take().expect("peer connect");
            let conn = bslot.borrow_mut().take().expect("peer accept");
            let h = client.handle().clone();
            let b3 = b2.clone();
            sp2.borrow_mut().push(("peer_run", Box::pin(async move {
                let r = client.run().await;
                b3.borrow_mut().peer_run = Some(run_class(&r));
            })));
            let b5 = b2.clone();
            sp2.borrow_mut().push(("peer_conn", Box::pin(async move {
                let r = conn.run().await;
                b5.borrow_mut().peer_conn = Some(match r {
                    Ok(()) => "ok".into(),
                    Err(e) => format!("{e:?}").chars().take(60).collect(),
                });
            })));
            let o = h.create_object(ObjectUuid(Uuid::from_u128(1))).await.expect("peer object");
            let mut s = o.create_service(ServiceUuid(Uuid::from_u128(2)), ServiceInfo::new(0)).await.expect("peer service");
            let scope = h.create_lifetime_scope().await.expect("peer scope");
            *peer_info.borrow_mut() = Some(PeerInfo { sid: s.id(), scope: scope.id() });
            peer_ready.set();
            let mut held = vec![];
            loop {
                match race(s.next_call(), &victim_finished).await {
                    Some(Some(call)) => held.push(call),
                    Some(None) => break, // the peer's own client stopped (broker shutdown)
                    None => break,
                }
            }
            // after the victim is gone the peer must still be served
            if kind != Kind::Broker {
                let ok = h.sync_broker().await.is_ok();
                b2.borrow_mut().peer_ok = Some(ok);
            }
            drop(held);
            drop(s);
            drop(scope);
            drop(o);
            drop(h);
            peer_done.set();
        })));
    }

    // ---- victim
    let conn_handle: Rc<RefCell<Option<ConnectionHandle>>> = Rc::new(RefCell::new(None));
    let ctl_handle: Rc<RefCell<Option<Handle>>> = Rc::new(RefCell::new(None));
    {
        let (t1, t2) = channel::unbounded();
        let ft = Faulty::new(t1, sh.clone());
        let cslot = Rc::new(RefCell::new(None));
        let bslot = Rc::new(RefCell::new(None));
        let (cf, bf) = (Flag::new(), Flag::new());
        let v14 = is_v14(c.scenario);
        {
            let (cslot, cf) = (cslot.clone(), cf.clone());
            sp.borrow_mut().push(("victim_connect", Box::pin(async move {
                let r = if v14 { Client::builder(ft).connect1().await } else { Client::connect(ft).await };
                *cslot.borrow_mut() = Some(r.map_err(|e| format!("{e:?}")));
                cf.set();
            })));
        }
        {
            let (bslot, bf, mut bh) = (bslot.clone(), bf.clone(), bh.clone());
            sp.borrow_mut().push(("victim_accept", Box::pin(async move {
                *bslot.borrow_mut() = bh.connect(t2).await.ok();
                bf.set();
            })));
        }
        let (sp2, b2, sh2, peer_ready, peer_info, app_done, run_returned, late2, app_abort, conn_abort, conn_handle, ctl_handle, app_completed) = (
            sp.clone(), b.clone(), sh.clone(), peer_ready.clone(), peer_info.clone(), app_done.clone(), run_returned.clone(),
            late.clone(), app_abort.clone(), conn_abort.clone(), conn_handle.clone(), ctl_handle.clone(), app_completed.clone(),
        );
        let (scenario, kind) = (c.scenario, c.kind);
        let started2 = started.clone();
        let stopping2 = stopping.clone();
        let vseed = c.seed.wrapping_mul(0x2545_F491_4F6C_DD1D) ^ 0xCA11_D809;
        sp.borrow_mut().push(("victim", Box::pin(async move {
            peer_ready.wait().await;
            cf.wait().await;
            bf.wait().await;
            let client = cslot.borrow_mut().take().unwrap();
            let conn = bslot.borrow_mut().take();
            // lesson of the probe: the broker half must be run even when the client half failed
            if let Some(conn) = conn {
                *conn_handle.borrow_mut() = Some(conn.handle().clone());
                let ca = conn_abort.clone();
                let b4 = b2.clone();
                sp2.borrow_mut().push(("victim_conn", Box::pin(async move {
                    let r = race(conn.run(), &ca).await;
                    b4.borrow_mut().victim_conn = Some(match r {
                        None => "dropped".into(),
                        Some(Ok(())) => "ok".into(),
                        Some(Err(e)) => format!("{e:?}").chars().take(60).collect(),
                    });
                })));
            }
            let client: Client<Faulty> = match client {
                Ok(c) => c,
                Err(_) => {
                    b2.borrow_mut().victim_connect_failed = true;
                    run_returned.set();
                    app_done.set();
                    return;
                }
            };
            let h = client.handle().clone();
            sh2.logging.set(true);
            {
                let (b3, rr, st, sh3) = (b2.clone(), run_returned.clone(), stopping2.clone(), sh2.clone());
                sp2.borrow_mut().push(("victim_run", Box::pin(async move {
                    let r = client.run().await;
                    sh3.line("returned".into()); // not an input of the automaton (the driver skips it)
                    b3.borrow_mut().victim_run = Some(run_class(&r));
                    rr.set();
                    st.set();
                })));
            }
            if kind == Kind::Shutdown || kind == Kind::None || kind.is_fault() {
                *ctl_handle.borrow_mut() = Some(h.clone());
            }
            started2.set();
            let cx = Ctx {
                h,
                sh: sh2.clone(),
                peer: peer_info.borrow().clone().unwrap(),
                run_returned: run_returned.clone(),
                late: late2,
                kind,
                stopping: stopping2.clone(),
                vseed,
            };
            let mut apps: Vec<(&'static str, Task)> = vec![];
            match SCENARIOS[scenario] {
                "objsvc" => apps.push(("app", Box::pin(sc_objsvc(cx)))),
                "call" => apps.push(("app", Box::pin(sc_call(cx)))),
                "listener" => apps.push(("app", Box::pin(sc_listener(cx)))),
                "channel" => apps.push(("app", Box::pin(sc_channel(cx)))),
                "sync" => apps.push(("app", Box::pin(sc_sync(cx)))),
                "mixed" | "mixed14" => apps.push(("app", Box::pin(sc_mixed(cx)))),
                "lifetime" => apps.push(("app", Box::pin(sc_lifetime(cx)))),
                "twotasks" => {
                    apps.push(("app", Box::pin(sc_call(cx.clone()))));
                    apps.push(("app2", Box::pin(sc_syncloop(cx))));
                }
                "calldrop" | "calldrop14" => apps.push(("app", Box::pin(sc_calldrop(cx)))),
                _ => unreachable!(),
            }
            let remaining = Rc::new(Cell::new(apps.len()));
            for (name, t) in apps {
                // `calldrop` is not dropped as a whole: on `lastdrop` it drops its handles itself
                let aa = if is_calldrop(scenario) { Flag::new() } else { app_abort.clone() };
                let (ad, rem, done) = (app_done.clone(), remaining.clone(), app_completed.clone());
                sp2.borrow_mut().push((name, Box::pin(async move {
                    // dropping the application drops every handle, object, proxy, ... it holds
                    if race(t, &aa).await.is_some() {
                        done.set(done.get() + 1);
                    }
                    rem.set(rem.get() - 1);
                    if rem.get() == 0 {
                        ad.set();
                    }
                })));
            }
        })));
    }

    // ---- controller: the clean causes, applied when transport operation k has completed
    {
        let (sh2, b2, mut bh2, app_abort, conn_abort, conn_handle, ctl_handle, app_done, kind) =
            (sh.clone(), b.clone(), bh.clone(), app_abort.clone(), conn_abort.clone(), conn_handle.clone(), ctl_handle.clone(), app_done.clone(), c.kind);
        let started = started.clone();
        let stopping = stopping.clone();
        sp.borrow_mut().push(("controller", Box::pin(async move {
            // not before the victim runs (handles and connection handle are in place)
            if race(started.wait(), &app_done).await.is_none() {
                ctl_handle.borrow_mut().take();
                return;
            }
            if race(sh2.trigger.wait(), &app_done).await.is_none() {
                // the application ended before operation k: nothing to do (drop the spare handle)
                ctl_handle.borrow_mut().take();
                return;
            }
            b2.borrow_mut().acted = true;
            sh2.ops_at_act.set(Some(sh2.ops.get()));
            if sh2.late.is_some() {
                sh2.late_from.set(Some(sh2.ops.get() + sh2.late_k));
            }
            stopping.set();
            match kind {
                Kind::Shutdown | Kind::None | Kind::Err | Kind::Eof => {
                    if let Some(h) = ctl_handle.borrow_mut().take() {
                        sh2.line("enq - Shutdown".into());
                        h.shutdown();
                    }
                }
                Kind::LastDrop => app_abort.set(),
                Kind::Broker => bh2.shutdown().await,
                Kind::ConnClose => {
                    let ch = conn_handle.borrow().clone();
                    if let Some(ch) = ch {
                        let _ = bh2.shutdown_connection(&ch).await;
                    }
                }
                Kind::ConnDrop => conn_abort.set(),
            }
        })));
    }

    // ---- joiner and closer
    {
        let (app_done, run_returned, victim_finished) = (app_done.clone(), run_returned.clone(), victim_finished.clone());
        sp.borrow_mut().push(("joiner", Box::pin(async move {
            app_done.wait().await;
            run_returned.wait().await;
            victim_finished.set();
        })));
    }
    {
        let (b2, mut bh2, victim_finished, peer_done, kind) = (b.clone(), bh.clone(), victim_finished.clone(), peer_done.clone(), c.kind);
        sp.borrow_mut().push(("closer", Box::pin(async move {
            victim_finished.wait().await;
            peer_done.wait().await;
            if kind == Kind::ConnDrop {
                // a dropped Connection is only noticed by the broker at its next failed send
                bh2.shutdown().await;
            } else {
                bh2.shutdown_idle().await;
            }
            b2.borrow_mut().idle_done = true;
        })));
    }
    drop(bh);

    let mut stop = ex.run(&mut rng, 400_000);
    if (!c.kind.is_fault() && !b.borrow().acted || (c.kind.is_fault() && sh.injected_at.get().is_none()))
        && matches!(stop, Stop::Quiescent)
        && !ex.pending().is_empty()
    {
        // everything that can happen has happened and operation k was not reached: request the
        // shutdown, so that the operations of the shutdown handshake are fault points too
        sh.trigger.set();
        stop = ex.run(&mut rng, 400_000);
    }

    // ---------------------------------------------------------------- monitor
    let mut problems = vec![];
    let bb = b.borrow();
    let fired = sh.injected_at.get().is_some();
    match stop {
        Stop::Budget => problems.push(format!("hang: poll budget exhausted, pending tasks {:?}", ex.pending())),
        Stop::Quiescent => {
            let p = ex.pending();
            if !p.is_empty() {
                problems.push(format!("hang: no task runnable but {:?} still pending", p));
            }
        }
    }
    let run = bb.victim_run.clone();
    let run_s = if bb.victim_connect_failed { "connect_failed".to_string() } else { run.clone().unwrap_or_else(|| "none".into()) };
    // the injected fault is sticky and only `Client::run` (or connect) polls the victim's transport:
    // once it fired, run has been handed that error and must return it -- whatever clean cause was
    // under way (a clean handshake that completed BEFORE the fault index leaves the fault unfired)
    let fault_kind = if c.kind.is_fault() { Some(c.kind) } else { c.late };
    let expect: Vec<String> = match c.kind {
        _ if fired => {
            let e = if fault_kind == Some(Kind::Err) { "transport:Injected" } else { "transport:Closed" };
            if c.late.is_some() {
                vec![e.to_string()]
            } else {
                vec![e.to_string(), "connect_failed".to_string()]
            }
        }
        Kind::ConnDrop if bb.acted => vec!["ok".to_string(), "transport:Peer".to_string()],
        _ => vec!["ok".to_string()],
    };
    if !expect.contains(&run_s) {
        if matches!(c.kind, Kind::Broker) && run_s == "transport:Peer" && bb.victim_conn.as_deref() == Some("UnexpectedShutdown") {
            // the broker was shut down cleanly, but its Connection task returned UnexpectedShutdown
            // while forwarding a client message and never delivered the queued Shutdown
            problems.insert(0, format!(
                "clean-broker-shutdown-unclean: BrokerHandle::shutdown(): Client::run() returned {run_s} instead of Ok(()); \
                 broker-side Connection::run() = Err(UnexpectedShutdown) (broker/src/conn.rs: send_broker_msg(..).await? after Broker::run returned)"
            ));
        } else {
            problems.push(format!("wrong-result: run() returned {run_s}, expected one of {:?}", expect));
        }
    }
    if fired && run_s == "connect_failed" && sh.logging.get() {
        problems.push("wrong-result: connect failed although the client was built".into());
    }
    if !bb.victim_connect_failed {
        let aborted = app_abort.is_set() && !is_calldrop(c.scenario);
        if !aborted && app_completed.get() != napps {
            problems.push(format!("hang: application: {} of {napps} tasks ran to completion (a pending operation never resolved)", app_completed.get()));
        }
        for (what, failed_fast) in late.borrow().iter() {
            if !failed_fast {
                problems.push(format!("late-operation: {what} started after run() returned did not fail with Error::Shutdown"));
            }
        }
    }
    if c.kind != Kind::Broker && bb.peer_ok != Some(true) {
        problems.push(format!("peer-not-served: after the victim stopped ({:?})", bb.peer_ok));
    }
    if bb.peer_run.as_deref() != Some("ok") {
        if matches!(c.kind, Kind::Broker) && bb.peer_run.as_deref() == Some("transport:Disconnected") && bb.peer_conn.as_deref() == Some("UnexpectedShutdown") {
            problems.insert(0, "clean-broker-shutdown-unclean: BrokerHandle::shutdown(): the peer's Client::run() returned transport:Disconnected instead of Ok(()); \
                 its broker-side Connection::run() = Err(UnexpectedShutdown) (broker/src/conn.rs: send_broker_msg(..).await? after Broker::run returned)".to_string());
        } else {
            problems.push(format!("peer-result: peer run() = {:?} (broker side {:?})", bb.peer_run, bb.peer_conn));
        }
    }
    if !bb.idle_done {
        problems.push("broker-not-idle: shutdown_idle did not complete (the victim's connection was not removed)".into());
    }

    // ---------------------------------------------------------------- summary for the correspondence
    let mut ws: BTreeMap<String, &'static str> = BTreeMap::new();
    for (l, cl) in sh.obs.borrow().iter() {
        ws.insert(l.clone(), cl);
    }
    let waiters: Vec<String> = ws.iter().map(|(l, c)| format!("{l}:{c}")).collect();
    let result = if bb.victim_connect_failed {
        "connect_failed".to_string()
    } else {
        match run.as_deref() {
            Some("ok") => "ok".into(),
            Some(s) if s.starts_with("transport:") => {
                let code = match &s[10..] {
                    "Injected" => 1,
                    "Closed" => 2,
                    _ => 3,
                };
                format!("transport{code}")
            }
            Some(_) => "other".into(),
            None => "none".into(),
        }
    };
    let summary = format!("result={result} waiters={}", if waiters.is_empty() { "-".to_string() } else { waiters.join(",") });
    let mut trace = vec![format!("begin {} {}", c.id().replace(' ', "_"), if is_v14(c.scenario) { 14 } else { 20 })];
    trace.extend(sh.log.borrow().iter().cloned());
    for (l, cl) in ws.iter() {
        trace.push(format!("obs {l} {cl}"));
    }
    trace.push(format!("result {result}"));
    trace.push("end".into());
    let opk = *sh.op_kinds.borrow();
    let labelled = ws.len();
    let reply_drops = reply_drops(&trace);
    Outcome {
        problems,
        trace,
        summary,
        ops: sh.ops.get(),
        polls: ex.polls,
        fired,
        run_class: run_s,
        conn_class: bb.victim_conn.clone().unwrap_or_else(|| "none".into()),
        op_kinds: opk,
        labelled,
        reply_drops,
        post_ops: sh.ops_at_act.get().map(|a| sh.ops.get() - a).unwrap_or(0),
    }
}

fn run_case_caught(c: &Case) -> Outcome {
    match catch(|| run_case(c)) {
        Ok(o) => o,
        Err(p) => Outcome {
            problems: vec![match p.split("SPIN: ").nth(1) {
                // the spin guard of the victim's transport fired: the task polling it never yielded
                Some(d) => format!("hang: Client::run() did not return from a single poll (it spins without yielding to the executor): {d}"),
                None => format!("panic: {p}"),
            }],
            trace: {
                let mut t = vec![format!("begin {} {}", c.id().replace(' ', "_"), if is_v14(c.scenario) { 14 } else { 20 })];
                if p.contains("SPIN: ") {
                    t.extend(SPIN_TRACE.lock().unwrap().drain(..));
                }
                t.push("result panic".into());
                t.push("end".into());
                t
            },
            summary: "result=panic waiters=-".into(),
            ops: 0,
            polls: 0,
            fired: false,
            run_class: "panic".into(),
            conn_class: "panic".into(),
            op_kinds: [0; 3],
            labelled: 0,
            reply_drops: [0; 5],
            post_ops: 0,
        },
    }
}

// ------------------------------------------------------------------ main
fn usage() -> ! {
    eprintln!("usage: fault gen OUTDIR SCHEDULES SHARD NSHARDS NSCENARIOS | fault one SCENARIO KIND K SEED   (KIND: err eof shutdown lastdrop broker connclose conndrop, or <clean>+err / <clean>+eof)");
    std::process::exit(2)
}

fn main() {
    quiet_panics();
    let a: Vec<String> = std::env::args().collect();
    if a.len() < 2 {
        usage();
    }
    match a[1].as_str() {
        "one" => {
            if a.len() < 6 {
                usage();
            }
            let scenario = SCENARIOS.iter().position(|s| *s == a[2]).unwrap_or_else(|| usage());
            let (kind, late) = Case::parse_kind(&a[3]);
            let c = Case { scenario, kind, late, k: a[4].parse().unwrap(), seed: a[5].parse().unwrap() };
            let o = run_case_caught(&c);
            for l in &o.trace {
                println!("{l}");
            }
            println!("# {}", o.summary);
            println!("# ops={} polls={} fired={} run={} broker_side_connection={}", o.ops, o.polls, o.fired, o.run_class, o.conn_class);
            for p in &o.problems {
                println!("PROBLEM {p}");
            }
            std::process::exit(if o.problems.is_empty() { 0 } else { 1 });
        }
        "gen" => {
            if a.len() < 7 {
                usage();
            }
            let out = &a[2];
            let schedules: u64 = a[3].parse().unwrap();
            let shard: usize = a[4].parse().unwrap();
            let nshards: usize = a[5].parse().unwrap();
            let nscen: usize = a[6].parse::<usize>().unwrap().min(SCENARIOS.len());
            let seed0 = env_u64("VERIF_SEED", 1);
            std::fs::create_dir_all(out).unwrap();
            let mut cases_f = std::fs::File::create(format!("{out}/cases.txt")).unwrap();
            let mut impl_f = std::fs::File::create(format!("{out}/impl.txt")).unwrap();
            let mut trace_f = std::fs::File::create(format!("{out}/trace.txt")).unwrap();
            let mut mon_f = std::fs::File::create(format!("{out}/monitor.txt")).unwrap();
            let mut n_cases = 0usize;
            let mut classes: BTreeMap<String, usize> = BTreeMap::new();
            let mut by_kind: BTreeMap<String, usize> = BTreeMap::new();
            let mut maxpost: BTreeMap<String, usize> = BTreeMap::new();
            let mut by_scen: BTreeMap<&'static str, usize> = BTreeMap::new();
            let mut fired = 0usize;
            let mut polls = 0usize;
            let mut maxops: BTreeMap<&'static str, usize> = BTreeMap::new();
            let mut opk = [0usize; 3];
            let mut labelled = 0usize;
            let mut drops = [0usize; 5];
            let mut nontrivial = std::collections::HashSet::new();
            let mut samples = vec![];
            let mut violations = 0usize;
            let mut idx = 0usize;
            for scenario in 0..nscen {
                // dry runs: how many transport operations does the scenario perform?
                let mut total = 0;
                for s in 0..3u64 {
                    let o = run_case_caught(&Case { scenario, kind: Kind::None, late: None, k: 0, seed: seed0.wrapping_mul(977).wrapping_add(s) });
                    total = total.max(o.ops);
                    if !o.problems.is_empty() && shard == 0 {
                        violations += 1;
                        writeln!(mon_f, "{}\t{} none 0 {}\t{}", o.problems[0].split(':').next().unwrap_or("problem"), SCENARIOS[scenario], seed0.wrapping_mul(977).wrapping_add(s), o.problems.join(" | ")).unwrap();
                    }
                }
                if is_calldrop(scenario) {
                    // the variant is drawn from the seed; the longest one has two calls aborted in the
                    // main loop (from 1.16 on: AbortFunctionCall + flush each), which a dry run rarely draws
                    total += 4;
                }
                if shard == 0 {
                    maxops.insert(SCENARIOS[scenario], total);
                }
                let kinds = [Kind::Err, Kind::Eof, Kind::Shutdown, Kind::LastDrop, Kind::Broker, Kind::ConnClose, Kind::ConnDrop];
                // (kind, fault after the clean cause, last k)
                let mut plans: Vec<(Kind, Option<Kind>, usize)> = kinds.iter().map(|k| (*k, None, total + 1)).collect();
                // combined kinds: a clean cause, then err / eof at every transport operation that follows it
                for clean in [Kind::Shutdown, Kind::LastDrop, Kind::Broker, Kind::ConnClose, Kind::ConnDrop] {
                    // dry runs (the fault index is never reached): how many operations follow the cause?
                    let mut post = 0;
                    for s in 0..6u64 {
                        let seed = seed0.wrapping_mul(1013).wrapping_add(s * 3 + clean as u64 * 17);
                        let o = run_case_caught(&Case { scenario, kind: clean, late: Some(Kind::Err), k: usize::MAX / 2, seed });
                        post = post.max(o.post_ops);
                    }
                    if shard == 0 {
                        maxpost.insert(format!("{}/{}", SCENARIOS[scenario], clean.name()), post);
                    }
                    plans.push((clean, Some(Kind::Err), post + 1));
                    plans.push((clean, Some(Kind::Eof), post + 1));
                }
                for (kind, late, last_k) in plans {
                    for k in 0..=last_k {
                        // the clean causes are applied at every second operation index (and the first six)
                        if late.is_none() && !kind.is_fault() && k > 6 && k % 2 == 1 {
                            continue;
                        }
                        for s in 0..schedules {
                            idx += 1;
                            if idx % nshards != shard {
                                continue;
                            }
                            let seed = seed0
                                .wrapping_mul(0x9E37_79B9)
                                .wrapping_add((scenario as u64) << 40)
                                .wrapping_add((k as u64) << 20)
                                .wrapping_add(s * 7 + kind as u64 * 131)
                                .wrapping_add(late.map(|f| 7777 + f as u64 * 1009).unwrap_or(0));
                            let c = Case { scenario, kind, late, k, seed };
                            let o = run_case_caught(&c);
                            n_cases += 1;
                            writeln!(cases_f, "{}", c.id()).unwrap();
                            writeln!(impl_f, "{}", o.summary).unwrap();
                            for l in &o.trace {
                                writeln!(trace_f, "{l}").unwrap();
                            }
                            *classes.entry(o.run_class.clone()).or_default() += 1;
                            *by_kind.entry(c.kind_name()).or_default() += 1;
                            *by_scen.entry(SCENARIOS[scenario]).or_default() += 1;
                            if o.fired {
                                fired += 1;
                            }
                            polls += o.polls;
                            for i in 0..3 {
                                opk[i] += o.op_kinds[i];
                            }
                            labelled += o.labelled;
                            for i in 0..5 {
                                drops[i] += o.reply_drops[i];
                            }
                            if o.ops >= 4 {
                                nontrivial.insert((scenario, c.kind_name(), k, o.summary.clone()));
                            }
                            if samples.len() < 12 && n_cases % 97 == 1 {
                                samples.push(format!("{} -> {}", c.id(), o.summary));
                            }
                            if !o.problems.is_empty() {
                                violations += 1;
                                let what = o.problems[0].split(':').next().unwrap_or("problem").to_string();
                                writeln!(mon_f, "{}\t{}\t{}", what, c.id(), o.problems.join(" | ")).unwrap();
                            }
                        }
                    }
                }
            }
            let js = |m: &BTreeMap<String, usize>| -> String {
                let v: Vec<String> = m.iter().map(|(k, v)| format!("\"{}\": {}", k.replace('"', "'"), v)).collect();
                format!("{{{}}}", v.join(", "))
            };
            let js2 = |m: &BTreeMap<&'static str, usize>| -> String {
                let v: Vec<String> = m.iter().map(|(k, v)| format!("\"{k}\": {v}")).collect();
                format!("{{{}}}", v.join(", "))
            };
            let samples_js: Vec<String> = samples.iter().map(|s| format!("\"{}\"", s.replace('"', "'"))).collect();
            let stats = format!(
                "{{\"cases\": {n_cases}, \"violations\": {violations}, \"fault_fired\": {fired}, \"polls\": {polls}, \"labelled_waiters\": {labelled}, \
                 \"distinct_nontrivial\": {}, \"result_classes\": {}, \"case_kinds\": {}, \"scenarios\": {}, \"transport_ops_per_scenario\": {}, \"transport_ops_after_clean_cause\": {}, \
                 \"ops\": {{\"receive\": {}, \"send_start\": {}, \"flush\": {}}}, \
                 \"reply_drops\": {{\"main_loop\": {}, \"draining_awaiting_peer_shutdown\": {}, \"draining_other\": {}, \"after_return\": {}, \
                 \"abort_function_call_sent\": {}}}, \"samples\": [{}]}}",
                nontrivial.len(),
                js(&classes),
                js(&by_kind),
                js2(&by_scen),
                js2(&maxops),
                js(&maxpost),
                opk[0],
                opk[1],
                opk[2],
                drops[0],
                drops[1],
                drops[2],
                drops[3],
                drops[4],
                samples_js.join(", ")
            );
            std::fs::write(format!("{out}/stats.json"), stats).unwrap();
        }
        _ => usage(),
    }
}
