//! `introdb gen <outdir> <histories> <max-steps>` / `introdb replay <outdir> <events-file>`:
//! the broker's introspection database (broker/src/introspection_database.rs and the
//! cfg(feature = "introspection") handlers of broker/src/broker.rs) under C09.
//!
//! Needs `aldrin-broker` built WITH its `introspection` feature: this binary has
//! `required-features = ["broker-introspection"]` and is built in its own cargo invocation
//! (`cargo build --offline --bin introdb --features broker-introspection`); the `broker` binary
//! keeps the feature off.
//!
//! Drives the REAL `Broker::run` + `Connection::run` tasks over in-memory transports on the same
//! deterministic single-threaded executor as `broker.rs` (no-op waker, poll to quiescence after
//! every injected operation; the World below is a copy of the one in broker.rs, which is left
//! untouched).  Histories: 2-6 connections (1.14..1.20) register introspection for 1-4 type ids of
//! a pool of five (four real `Introspection`s and one type nobody can describe), query known and
//! unknown types, answer the broker's QueryIntrospection (Some / None, from the chosen provider,
//! from the wrong connection, with a wrong serial), and disconnect in all four ways at every
//! point; at the end every outstanding provider query is answered, every connection leaves and
//! the broker is asked to stop when idle.
//!
//! Trace (`trace.txt`, conventions of broker.rs): `HIST seed`, then per step
//!   EV NEW i ver | SHUT c [clean] | SHUTC c | DROP c | SHUTI
//!      | MSG c REG t,t,.. | MSG c REGBAD | MSG c QRY serial t | MSG c RPL serial some:k|none t P|W
//!   OUT j QI serial t | OUT j QIR serial some:k|none | OUT j SHUTDOWN | OUT j OTHER kind
//!   CLOSED j            (the broker closed connection j)
//!   STATS conns intros  (BrokerStatistics::num_connections, num_introspections; `-` if not asked)
//!   EXIT 0|1            (the broker task has finished)
//!   END
//! `MONITOR C09 what` lines are verdicts of the monitors that look at the implementation alone
//! (every query answered exactly once unless the requester left; nothing after Shutdown; idle
//! shutdown completes).  A panic of the broker task ends the history with `EVP op` / `PANIC msg`.
//! `extract/introdb_driver` replays the events through the Coq model (Broker/IntroDb.v).
use aldrin_broker::{Broker, BrokerHandle, ConnectionHandle};
use aldrin_core::channel::{self, Unbounded};
use aldrin_core::introspection::Introspection;
use aldrin_core::message::*;
use aldrin_core::transport::AsyncTransport;
use aldrin_core::*;
use std::cell::RefCell;
use std::collections::{BTreeMap, HashMap, HashSet};
use std::fmt::Write as _;
use std::future::Future;
use std::io::Write;
use std::panic::{catch_unwind, AssertUnwindSafe};
use std::pin::Pin;
use std::rc::Rc;
use std::sync::Arc;
use std::task::{Context, Poll, Wake, Waker};
use uuid::Uuid;
use verif_harness::{env_u64, quiet_panics, Rng};

// ---------------------------------------------------------------- executor (as in broker.rs)
struct Noop;
impl Wake for Noop {
    fn wake(self: Arc<Self>) {}
}
fn waker() -> Waker {
    Arc::new(Noop).into()
}
type Task = Pin<Box<dyn Future<Output = ()>>>;

fn poll(t: &mut Option<Task>) {
    if let Some(f) = t {
        let w = waker();
        let mut cx = Context::from_waker(&w);
        if f.as_mut().poll(&mut cx).is_ready() {
            *t = None;
        }
    }
}

fn send(t: &mut Unbounded, m: impl Into<Message>) -> bool {
    let w = waker();
    let mut cx = Context::from_waker(&w);
    if !matches!(Pin::new(&mut *t).send_poll_ready(&mut cx), Poll::Ready(Ok(()))) {
        return false;
    }
    if Pin::new(&mut *t).send_start(m.into()).is_err() {
        return false;
    }
    let _ = Pin::new(&mut *t).send_poll_flush(&mut cx);
    true
}

fn recv(t: &mut Unbounded) -> Option<Result<Message, ()>> {
    let w = waker();
    let mut cx = Context::from_waker(&w);
    match Pin::new(&mut *t).receive_poll(&mut cx) {
        Poll::Ready(Ok(m)) => Some(Ok(m)),
        Poll::Ready(Err(_)) => Some(Err(())),
        Poll::Pending => None,
    }
}

struct World {
    btask: Option<Task>,
    handle: BrokerHandle,
    clients: Vec<Option<Unbounded>>,
    tasks: Vec<Option<Task>>,
    chandles: Vec<Rc<RefCell<Option<ConnectionHandle>>>>,
}

impl World {
    fn new() -> Self {
        let b = Broker::new();
        let h = b.handle().clone();
        World { btask: Some(Box::pin(b.run())), handle: h, clients: vec![], tasks: vec![], chandles: vec![] }
    }
    fn settle(&mut self) {
        for _ in 0..10 {
            for t in self.tasks.iter_mut() {
                poll(t);
            }
            poll(&mut self.btask);
        }
    }
    fn connect(&mut self, minor: u32) -> usize {
        let (mut c, b) = channel::unbounded();
        send(
            &mut c,
            Connect2 { major_version: 1, minor_version: minor, value: SerializedValue::serialize(ConnectData::new()).unwrap() },
        );
        let mut h = self.handle.clone();
        let slot: Rc<RefCell<Option<ConnectionHandle>>> = Rc::new(RefCell::new(None));
        let slot2 = slot.clone();
        let t: Task = Box::pin(async move {
            if let Ok(conn) = h.connect(b).await {
                *slot2.borrow_mut() = Some(conn.handle().clone());
                let _ = conn.run().await;
            }
        });
        self.clients.push(Some(c));
        self.tasks.push(Some(t));
        self.chandles.push(slot);
        self.settle();
        let i = self.clients.len() - 1;
        let r = recv(self.clients[i].as_mut().unwrap());
        assert!(matches!(r, Some(Ok(Message::ConnectReply2(_)))), "{r:?}");
        i
    }
    fn drain(&mut self, i: usize) -> (Vec<Message>, bool) {
        let mut out = vec![];
        let mut closed = false;
        if let Some(c) = self.clients[i].as_mut() {
            loop {
                match recv(c) {
                    Some(Ok(m)) => out.push(m),
                    Some(Err(())) => {
                        closed = true;
                        break;
                    }
                    None => break,
                }
            }
        }
        if closed {
            self.clients[i] = None;
        }
        (out, closed)
    }
    fn with_handle<T: 'static>(&mut self, f: impl FnOnce(BrokerHandle) -> Pin<Box<dyn Future<Output = T>>>) -> Option<T> {
        let mut fut = f(self.handle.clone());
        let wk = waker();
        let mut cx = Context::from_waker(&wk);
        for _ in 0..200 {
            if let Poll::Ready(x) = fut.as_mut().poll(&mut cx) {
                return Some(x);
            }
            poll(&mut self.btask);
        }
        None
    }
    /// (num_connections, num_introspections)
    fn stats(&mut self) -> Option<[usize; 2]> {
        if self.btask.is_none() {
            return None;
        }
        self.with_handle(|mut h| Box::pin(async move { h.take_statistics().await.ok() }))
            .flatten()
            .map(|st| [st.num_connections(), st.num_introspections()])
    }
}

// ---------------------------------------------------------------- pools
const NTYPES: usize = 5;

struct Pool {
    tids: Vec<TypeId>,
    /// serialized `Introspection` of pool type k (k < 4); payload 4 is the introspection of type 0
    /// again under another index (a provider may answer with whatever it likes)
    payloads: Vec<SerializedValue>,
    payload_tid: Vec<TypeId>,
}

impl Pool {
    fn new() -> Self {
        let intros = vec![
            Introspection::new::<Option<u32>>(),
            Introspection::new::<Vec<String>>(),
            Introspection::new::<(u8, String)>(),
            Introspection::new::<HashMap<u32, String>>(),
        ];
        let mut tids: Vec<TypeId> = intros.iter().map(|i| i.type_id()).collect();
        tids.push(TypeId(Uuid::from_u128(0xdead_0000_0000_0000_0000_0000_0000_0004)));
        let payloads: Vec<SerializedValue> = intros.iter().map(|i| SerializedValue::serialize(i).unwrap()).collect();
        let payload_tid = intros.iter().map(|i| i.type_id()).collect();
        Pool { tids, payloads, payload_tid }
    }
    fn tname(&self, t: TypeId) -> String {
        match self.tids.iter().position(|x| *x == t) {
            Some(k) => k.to_string(),
            None => format!("?{}", t.0.simple()),
        }
    }
    fn pname(&self, v: &SerializedValueSlice) -> String {
        match v.deserialize::<Introspection>() {
            Ok(i) => match self.payload_tid.iter().position(|x| *x == i.type_id()) {
                Some(k) => k.to_string(),
                None => format!("?{}", i.type_id().0.simple()),
            },
            Err(_) => "?undecodable".to_string(),
        }
    }
}

// ---------------------------------------------------------------- operations
#[derive(Clone, Debug)]
enum Req {
    Reg(Vec<usize>),
    RegBad,
    Qry(u32, usize),
    /// serial, result (payload index), type the answer is meant for, P = the asked provider answers its
    /// outstanding query / W = deliberately wrong connection or serial
    Rpl(u32, Option<usize>, usize, bool),
}

enum Op {
    New(u32),
    Shut { c: usize, clean: bool },
    Drop(usize),
    DropQueued(usize, Req),
    ShutC(usize),
    ShutI,
    Msg(usize, Req),
}

struct Hist {
    pending: String,
    out: String,
    kinds: BTreeMap<String, u64>,
    steps: u64,
    monitors: u64,
}

fn bump(h: &mut Hist, k: &str) {
    *h.kinds.entry(k.to_string()).or_default() += 1;
}

/// what the harness knows about one connection (a generator aid and the input of the monitors;
/// NOT a model of the broker)
#[derive(Default, Clone)]
struct CInfo {
    ver: u32,
    /// the task is running (false after DROP)
    task: bool,
    /// QueryIntrospection received from the broker and not answered yet: (broker serial, type)
    asked: Vec<(u32, usize)>,
    /// own queries without a reply so far: (serial, type)
    open: Vec<(u32, usize)>,
    /// own open queries that the broker forgets by design: the connection answered Unavailable as the
    /// queried provider of that type while its own query for the type was pending (see design/C09.md)
    forgotten: Vec<(u32, usize)>,
    got_shutdown: bool,
    registered: HashSet<usize>,
}

struct Sys {
    w: World,
    p: Pool,
    ci: Vec<CInfo>,
    replay: bool,
    idle_sent: bool,
}

impl Sys {
    fn new(replay: bool) -> Self {
        Sys { w: World::new(), p: Pool::new(), ci: vec![], replay, idle_sent: false }
    }
    fn drain_all(&mut self) -> (Vec<Vec<Message>>, Vec<usize>) {
        let mut outs = vec![];
        let mut closed = vec![];
        for j in 0..self.w.clients.len() {
            let (o, cl) = self.w.drain(j);
            if cl {
                closed.push(j);
            }
            outs.push(o);
        }
        (outs, closed)
    }
    fn alive(&self, c: usize) -> bool {
        c < self.w.clients.len() && self.w.clients[c].is_some()
    }
    fn req_text(&self, r: &Req) -> String {
        match r {
            Req::Reg(ts) => format!("REG {}", ts.iter().map(|t| t.to_string()).collect::<Vec<_>>().join(",")),
            Req::RegBad => "REGBAD".to_string(),
            Req::Qry(s, t) => format!("QRY {} {}", s, t),
            Req::Rpl(s, r, t, p) => format!(
                "RPL {} {} {} {}",
                s,
                match r {
                    Some(k) => format!("some:{}", k),
                    None => "none".to_string(),
                },
                t,
                if *p { "P" } else { "W" }
            ),
        }
    }
    fn req_msg(&self, r: &Req) -> Message {
        match r {
            Req::Reg(ts) => {
                let set: HashSet<TypeId> = ts.iter().map(|t| self.p.tids[*t]).collect();
                RegisterIntrospection { value: SerializedValue::serialize(&set).unwrap() }.into()
            }
            Req::RegBad => RegisterIntrospection { value: SerializedValue::serialize(7u8).unwrap() }.into(),
            Req::Qry(s, t) => QueryIntrospection { serial: *s, type_id: self.p.tids[*t] }.into(),
            Req::Rpl(s, r, _, _) => QueryIntrospectionReply {
                serial: *s,
                result: match r {
                    Some(k) => QueryIntrospectionResult::Ok(self.p.payloads[*k].clone()),
                    None => QueryIntrospectionResult::Unavailable,
                },
            }
            .into(),
        }
    }
}

fn fmt_out(p: &Pool, m: &Message) -> String {
    match m {
        Message::QueryIntrospection(q) => format!("QI {} {}", q.serial, p.tname(q.type_id)),
        Message::QueryIntrospectionReply(r) => format!(
            "QIR {} {}",
            r.serial,
            match &r.result {
                QueryIntrospectionResult::Ok(v) => format!("some:{}", p.pname(v)),
                QueryIntrospectionResult::Unavailable => "none".to_string(),
            }
        ),
        Message::Shutdown(_) => "SHUTDOWN".to_string(),
        other => format!("OTHER {:?}", other.kind()),
    }
}

fn monitor(h: &mut Hist, what: String) {
    writeln!(h.out, "MONITOR C09 {}", what).unwrap();
    h.monitors += 1;
}

/// write one step and feed what was observed into the per-connection bookkeeping and the monitors
fn emit(h: &mut Hist, s: &mut Sys, ev: String, real_out: &[Vec<Message>], closed: &[usize], ask_stats: bool) {
    writeln!(h.out, "EV {}", ev).unwrap();
    for (j, o) in real_out.iter().enumerate() {
        for x in o {
            let t = fmt_out(&s.p, x);
            bump(h, &format!("out:{}", t.split(' ').next().unwrap_or("")));
            writeln!(h.out, "OUT {} {}", j, t).unwrap();
        }
    }
    for c in closed {
        writeln!(h.out, "CLOSED {}", c).unwrap();
    }
    let st = if ask_stats { s.w.stats() } else { None };
    match st {
        Some(st) => writeln!(h.out, "STATS {} {}", st[0], st[1]).unwrap(),
        None => writeln!(h.out, "STATS -").unwrap(),
    }
    writeln!(h.out, "EXIT {}", if s.w.btask.is_none() { 1 } else { 0 }).unwrap();
    writeln!(h.out, "END").unwrap();
    h.steps += 1;
    // bookkeeping + monitors on the implementation alone
    for (j, o) in real_out.iter().enumerate() {
        for x in o {
            if s.ci[j].got_shutdown {
                monitor(h, format!("message-after-Shutdown(conn-{},{})", j, fmt_out(&s.p, x).replace(' ', "-")));
            }
            match x {
                Message::QueryIntrospection(q) => {
                    let t = s.p.tids.iter().position(|y| *y == q.type_id).unwrap_or(NTYPES);
                    s.ci[j].asked.push((q.serial, t));
                }
                Message::QueryIntrospectionReply(r) => {
                    if let Some(k) = s.ci[j].open.iter().position(|(sr, _)| *sr == r.serial) {
                        s.ci[j].open.remove(k);
                    } else if let Some(k) = s.ci[j].forgotten.iter().position(|(sr, _)| *sr == r.serial) {
                        s.ci[j].forgotten.remove(k);
                    } else {
                        monitor(h, format!("reply-without-open-query(conn-{},serial-{})", j, r.serial));
                    }
                }
                Message::Shutdown(_) => s.ci[j].got_shutdown = true,
                _ => {}
            }
        }
    }
}

fn note_sent(h: &mut Hist, s: &mut Sys, c: usize, r: &Req) {
    match r {
        Req::Reg(ts) => {
            if s.ci[c].ver >= 17 {
                for t in ts {
                    s.ci[c].registered.insert(*t);
                }
            }
        }
        Req::RegBad => {}
        Req::Qry(sr, t) => {
            if s.ci[c].ver >= 17 {
                s.ci[c].open.push((*sr, *t));
            }
        }
        Req::Rpl(sr, r, _, _) => {
            // an answer to an outstanding provider query retires it; answering Unavailable also makes
            // the broker forget the answering connection's own pending queries for that type
            if let Some(k) = s.ci[c].asked.iter().position(|(a, _)| a == sr) {
                let (_, t) = s.ci[c].asked.remove(k);
                if r.is_none() {
                    let (gone, keep): (Vec<_>, Vec<_>) = s.ci[c].open.iter().cloned().partition(|(_, ot)| *ot == t);
                    s.ci[c].open = keep;
                    if !gone.is_empty() {
                        bump(h, "exempt:own-query-dropped-by-own-Unavailable");
                    }
                    s.ci[c].forgotten.extend(gone);
                    s.ci[c].registered.remove(&t);
                }
            }
        }
    }
}

fn exec_op(h: &mut Hist, s: &mut Sys, op: Op) -> Result<(), String> {
    match op {
        Op::New(v) => {
            h.pending = format!("NEW {} {}", s.w.clients.len(), v.min(20));
            if s.w.btask.is_none() {
                return Err("NEW: the broker has exited".to_string());
            }
            let i = s.w.connect(v);
            s.ci.push(CInfo { ver: v.min(20), task: true, ..Default::default() });
            let (o, c) = s.drain_all();
            emit(h, s, format!("NEW {} {}", i, v.min(20)), &o, &c, true);
        }
        Op::Shut { c, clean: false } => {
            h.pending = format!("SHUT {}", c);
            if !s.alive(c) {
                return Err(format!("SHUT {c}: not a live connection"));
            }
            s.w.clients[c] = None;
            s.w.settle();
            let (o, cl) = s.drain_all();
            emit(h, s, format!("SHUT {}", c), &o, &cl, true);
        }
        Op::Shut { c, clean: true } => {
            h.pending = format!("SHUT {} clean", c);
            if !s.alive(c) {
                return Err(format!("SHUT {c} clean: not a live connection"));
            }
            send(s.w.clients[c].as_mut().unwrap(), Shutdown);
            s.w.settle();
            let (mut o, mut cl) = s.drain_all();
            o[c].retain(|x| !matches!(x, Message::Shutdown(_)));
            s.w.clients[c] = None;
            cl.retain(|x| *x != c);
            emit(h, s, format!("SHUT {} clean", c), &o, &cl, true);
        }
        Op::Drop(c) => {
            h.pending = format!("DROP {}", c);
            if !s.alive(c) {
                return Err(format!("DROP {c}: not a live connection"));
            }
            s.w.tasks[c] = None;
            s.w.clients[c] = None;
            s.ci[c].task = false;
            s.w.settle();
            let (o, cl) = s.drain_all();
            emit(h, s, format!("DROP {}", c), &o, &cl, true);
        }
        Op::DropQueued(c, req) => {
            let text = s.req_text(&req);
            bump(h, &format!("in:{}", text.split(' ').next().unwrap_or("")));
            h.pending = format!("MSG {} {}", c, text);
            if !s.alive(c) {
                return Err(format!("DROP {c} + MSG {c}: not a live connection"));
            }
            let msg = s.req_msg(&req);
            send(s.w.clients[c].as_mut().unwrap(), msg);
            for _ in 0..4 {
                poll(&mut s.w.tasks[c]);
            }
            s.w.tasks[c] = None;
            s.w.clients[c] = None;
            s.ci[c].task = false;
            // (no gauge query here: polling the broker would let it dequeue the request)
            writeln!(h.out, "EV DROP {}\nSTATS -\nEXIT 0\nEND", c).unwrap();
            h.steps += 1;
            note_sent(h, s, c, &req);
            s.w.settle();
            let (o, cl) = s.drain_all();
            emit(h, s, format!("MSG {} {}", c, text), &o, &cl, true);
        }
        Op::ShutC(c) => {
            h.pending = format!("SHUTC {}", c);
            if c >= s.w.chandles.len() {
                return Err(format!("SHUTC {c}: not a connection"));
            }
            let hd = s.w.chandles[c].borrow().clone();
            if let Some(hd) = hd {
                let _ = s.w.with_handle(|mut bh| Box::pin(async move { bh.shutdown_connection(&hd).await.ok() }));
                s.w.settle();
                let (mut o, mut cl) = s.drain_all();
                let got = o[c].iter().any(|x| matches!(x, Message::Shutdown(_)));
                if got {
                    s.w.clients[c] = None;
                    s.w.settle();
                    let (o2, cl2) = s.drain_all();
                    for (a, b) in o.iter_mut().zip(o2) {
                        a.extend(b);
                    }
                    cl.extend(cl2);
                }
                cl.retain(|x| *x != c);
                emit(h, s, format!("SHUTC {}", c), &o, &cl, true);
            } else if s.replay {
                return Err(format!("SHUTC {c}: the connection has no handle"));
            }
        }
        Op::ShutI => {
            h.pending = "SHUTI".to_string();
            s.w.with_handle(|mut bh| Box::pin(async move { bh.shutdown_idle().await }));
            s.w.settle();
            s.idle_sent = true;
            let (o, cl) = s.drain_all();
            emit(h, s, "SHUTI".to_string(), &o, &cl, true);
        }
        Op::Msg(c, req) => {
            let text = s.req_text(&req);
            bump(h, &format!("in:{}", text.split(' ').next().unwrap_or("")));
            h.pending = format!("MSG {} {}", c, text);
            if !s.alive(c) {
                return Err(format!("MSG {c}: not a live connection"));
            }
            let msg = s.req_msg(&req);
            if !send(s.w.clients[c].as_mut().unwrap(), msg) {
                return Err(format!("could not send on live client {c}"));
            }
            note_sent(h, s, c, &req);
            s.w.settle();
            let (o, cl) = s.drain_all();
            emit(h, s, format!("MSG {} {}", c, text), &o, &cl, true);
        }
    }
    Ok(())
}

/// connections whose client side is still open
fn alive_list(s: &Sys) -> Vec<usize> {
    (0..s.w.clients.len()).filter(|i| s.w.clients[*i].is_some()).collect()
}

/// connections the broker may still know: open ones and task-dropped ones it has not noticed
fn zombies(s: &Sys) -> Vec<usize> {
    (0..s.ci.len()).filter(|i| !s.ci[*i].task && s.w.clients[*i].is_none() && s.w.chandles[*i].borrow().is_some()).collect()
}

/// serial of a new query of connection c for type t: the smallest serial c has no open query under
/// (serials are reused as soon as they are answered); sometimes the serial of an open query for the
/// SAME type (the broker does not look at requester serials; the answered-exactly-once monitor
/// counts per serial, which stays exact when the duplicates ask for the same type)
fn qry_serial(r: &mut Rng, s: &Sys, c: usize, t: usize) -> u32 {
    let open = &s.ci[c].open;
    let same: Vec<u32> = open.iter().chain(s.ci[c].forgotten.iter()).filter(|(_, ot)| *ot == t).map(|(sr, _)| *sr).collect();
    if !same.is_empty() && r.chance(1, 12) {
        return *r.pick(&same);
    }
    let mut k = 0u32;
    while open.iter().chain(s.ci[c].forgotten.iter()).any(|(sr, _)| *sr == k) {
        k += 1;
    }
    k
}

fn gen_req(r: &mut Rng, s: &Sys, c: usize, hot: usize) -> Req {
    let roll = r.below(100);
    let all_asked: Vec<(usize, u32, usize)> =
        alive_list(s).into_iter().flat_map(|j| s.ci[j].asked.iter().map(move |(sr, t)| (j, *sr, *t))).collect();
    if roll < 34 {
        let n = 1 + r.below(4) as usize;
        let mut ts = vec![];
        if r.chance(4, 5) {
            ts.push(hot);
        }
        while ts.len() < n {
            let t = r.below(NTYPES as u64) as usize;
            if !ts.contains(&t) {
                ts.push(t);
            }
        }
        Req::Reg(ts)
    } else if roll < 36 {
        Req::RegBad
    } else if roll < 66 {
        let t = if r.chance(3, 5) { hot } else { r.below(NTYPES as u64) as usize };
        Req::Qry(qry_serial(r, s, c, t), t)
    } else if roll < 94 {
        // the provider answers one of its outstanding queries
        if let Some((sr, t)) = s.ci[c].asked.first().cloned() {
            let res = match r.below(10) {
                0..=4 => Some(if t < 4 { t } else { 0 }),
                5 => Some(r.below(4) as usize),
                _ => None,
            };
            Req::Rpl(sr, res, t, true)
        } else {
            Req::Qry(qry_serial(r, s, c, hot), hot)
        }
    } else {
        // a reply nobody asked this connection for: another connection's serial, or a free one
        let res = if r.chance(1, 2) { Some(r.below(4) as usize) } else { None };
        let others: Vec<&(usize, u32, usize)> = all_asked.iter().filter(|(j, _, _)| *j != c).collect();
        if !others.is_empty() && r.chance(2, 3) {
            let (_, sr, t) = **r.pick(&others);
            Req::Rpl(sr, res, t, false)
        } else {
            Req::Rpl(1_000_000 + r.below(5) as u32, res, hot, false)
        }
    }
}

fn run_history(seed: u64, len: usize, h: &mut Hist) -> Result<(), String> {
    let mut r = Rng::new(seed);
    let mut s = Sys::new(false);
    writeln!(h.out, "HIST {}", seed).unwrap();
    let vers = [17u32, 18, 19, 20, 20, 20, 17, 19, 16, 14];
    let nconn = 2 + r.below(5) as usize;
    for _ in 0..nconn {
        let v = vers[r.below(vers.len() as u64) as usize];
        exec_op(h, &mut s, Op::New(v))?;
    }
    let hot = r.below(NTYPES as u64) as usize;
    // most histories start with every capable connection registering the hot type, in connection
    // order: the providers of one type are what the index map / vector bookkeeping is about
    if r.chance(2, 3) {
        for c in 0..nconn {
            if s.ci[c].ver >= 17 && r.chance(5, 6) {
                let mut ts = vec![hot];
                if r.chance(1, 3) {
                    ts.push((hot + 1 + r.below(4) as usize) % NTYPES);
                }
                exec_op(h, &mut s, Op::Msg(c, Req::Reg(ts)))?;
            }
        }
    }
    let mut step = 0usize;
    let leave_heavy = r.chance(1, 3);
    while step < len {
        step += 1;
        if s.w.btask.is_none() {
            break;
        }
        let alive = alive_list(&s);
        if alive.is_empty() {
            if s.idle_sent || r.chance(1, 2) {
                break;
            }
            exec_op(h, &mut s, Op::New(vers[r.below(6) as usize]))?;
            continue;
        }
        let c = *r.pick(&alive);
        let roll = r.below(if leave_heavy { 120 } else { 240 });
        if roll < 5 {
            exec_op(h, &mut s, Op::Shut { c, clean: false })?;
        } else if roll < 10 {
            exec_op(h, &mut s, Op::Shut { c, clean: true })?;
        } else if roll < 15 {
            exec_op(h, &mut s, Op::Drop(c))?;
        } else if roll < 19 {
            let req = gen_req(&mut r, &s, c, hot);
            exec_op(h, &mut s, Op::DropQueued(c, req))?;
        } else if roll < 25 {
            let z = zombies(&s);
            let t = if !z.is_empty() && r.chance(1, 3) { *r.pick(&z) } else { c };
            exec_op(h, &mut s, Op::ShutC(t))?;
        } else if roll < 33 && alive.len() < 6 && s.w.clients.len() < 12 {
            exec_op(h, &mut s, Op::New(vers[r.below(vers.len() as u64) as usize]))?;
        } else {
            // messages: prefer a connection that has something to answer half of the time
            let askers: Vec<usize> = alive.iter().cloned().filter(|j| !s.ci[*j].asked.is_empty()).collect();
            let c = if !askers.is_empty() && r.chance(1, 2) { *r.pick(&askers) } else { c };
            let mut req = gen_req(&mut r, &s, c, hot);
            // connections below 1.17 are closed by any of these messages: mostly leave them alone
            if s.ci[c].ver < 17 && !r.chance(1, 8) {
                let capable: Vec<usize> = alive.iter().cloned().filter(|j| s.ci[*j].ver >= 17).collect();
                if capable.is_empty() {
                    continue;
                }
                let c2 = *r.pick(&capable);
                req = gen_req(&mut r, &s, c2, hot);
                exec_op(h, &mut s, Op::Msg(c2, req))?;
            } else {
                exec_op(h, &mut s, Op::Msg(c, req))?;
            }
        }
        if !s.idle_sent && r.chance(1, 150) {
            exec_op(h, &mut s, Op::ShutI)?;
        }
    }
    wind_down(h, &mut s, &mut r)
}

/// every outstanding provider query is answered, the answered-exactly-once monitor is evaluated,
/// every connection leaves (random order, random manner), idle shutdown must complete
fn wind_down(h: &mut Hist, s: &mut Sys, r: &mut Rng) -> Result<(), String> {
    if s.w.btask.is_none() {
        return Ok(());
    }
    // task-dropped connections the broker has not noticed yet are forced out first (a provider query
    // may be waiting at one of them); then every live provider answers what it was asked
    for _ in 0..64 {
        if s.w.btask.is_none() {
            return Ok(());
        }
        let z = zombies(s);
        if let Some(c) = z.first().cloned() {
            exec_op(h, s, Op::ShutC(c))?;
            *s.w.chandles[c].borrow_mut() = None;
            continue;
        }
        let askers: Vec<usize> = alive_list(s).into_iter().filter(|j| !s.ci[*j].asked.is_empty()).collect();
        if askers.is_empty() {
            break;
        }
        let c = askers[0];
        let (sr, t) = s.ci[c].asked[0];
        exec_op(h, s, Op::Msg(c, Req::Rpl(sr, Some(if t < 4 { t } else { 0 }), t, true)))?;
    }
    // "a requester gets exactly one QueryIntrospectionReply per query unless it disconnected": no
    // provider query is outstanding anywhere now, so no query of a live connection may still be open
    if s.w.btask.is_some() {
        for c in alive_list(s) {
            if s.ci[c].ver >= 17 {
                for (sr, t) in s.ci[c].open.clone() {
                    monitor(h, format!("query-never-answered(conn-{},serial-{},type-{})", c, sr, t));
                }
            }
        }
    }
    // everybody leaves
    loop {
        if s.w.btask.is_none() {
            break;
        }
        let alive = alive_list(s);
        let z = zombies(s);
        if alive.is_empty() && z.is_empty() {
            break;
        }
        let pick_zombie = !z.is_empty() && (alive.is_empty() || r.chance(1, 3));
        if pick_zombie {
            let c = *r.pick(&z);
            exec_op(h, s, Op::ShutC(c))?;
            // the handle is of no further use once the broker has dropped the connection
            *s.w.chandles[c].borrow_mut() = None;
        } else {
            let c = *r.pick(&alive);
            match r.below(4) {
                0 => exec_op(h, s, Op::Shut { c, clean: false })?,
                1 => exec_op(h, s, Op::Shut { c, clean: true })?,
                2 => exec_op(h, s, Op::ShutC(c))?,
                _ => exec_op(h, s, Op::Drop(c))?,
            }
        }
    }
    if s.w.btask.is_some() && !s.idle_sent {
        exec_op(h, s, Op::ShutI)?;
    }
    if s.w.btask.is_some() {
        monitor(h, "idle-shutdown-did-not-complete(all-connections-gone)".to_string());
    }
    Ok(())
}

// ---------------------------------------------------------------- replay
fn parse_req(toks: &[&str]) -> Result<Req, String> {
    let num = |x: &str| x.parse::<u64>().map_err(|_| format!("not a number {:?}", x));
    let ty = |x: &str| -> Result<usize, String> {
        let t = num(x)? as usize;
        if t < NTYPES {
            Ok(t)
        } else {
            Err(format!("type {t} out of range"))
        }
    };
    match toks {
        ["REG", ts] => Ok(Req::Reg(ts.split(',').filter(|x| !x.is_empty()).map(ty).collect::<Result<Vec<_>, _>>()?)),
        ["REG"] => Ok(Req::Reg(vec![])),
        ["REGBAD"] => Ok(Req::RegBad),
        ["QRY", s, t] => Ok(Req::Qry(num(s)? as u32, ty(t)?)),
        ["RPL", s, res, rest @ ..] => {
            let r = match res.strip_prefix("some:") {
                Some(k) => Some((num(k)? as usize).min(3)),
                None if *res == "none" => None,
                None => return Err(format!("result {:?}", res)),
            };
            let t = rest.first().map(|x| ty(x)).transpose()?.unwrap_or(0);
            let p = rest.get(1).map(|x| *x == "P").unwrap_or(false);
            Ok(Req::Rpl(num(s)? as u32, r, t, p))
        }
        _ => Err(format!("request {:?} not understood", toks)),
    }
}

fn parse_op(text: &str) -> Result<Op, String> {
    let toks: Vec<&str> = text.split(' ').filter(|x| !x.is_empty()).collect();
    let num = |x: &str| x.parse::<usize>().map_err(|_| format!("not a number {:?} in event {:?}", x, text));
    match toks.as_slice() {
        ["NEW", _i, v] => Ok(Op::New(num(v)? as u32)),
        ["SHUT", c] => Ok(Op::Shut { c: num(c)?, clean: false }),
        ["SHUT", c, "clean"] => Ok(Op::Shut { c: num(c)?, clean: true }),
        ["SHUTC", c] => Ok(Op::ShutC(num(c)?)),
        ["DROP", c] => Ok(Op::Drop(num(c)?)),
        ["SHUTI"] => Ok(Op::ShutI),
        ["MSG", c, rest @ ..] => Ok(Op::Msg(num(c)?, parse_req(rest)?)),
        _ => Err(format!("event {:?} not understood", text)),
    }
}

/// re-execute a stored history.  The provider the broker draws (rand) differs from run to run, so
/// a recorded answer `RPL serial .. t P` is re-targeted: the connection that holds an outstanding
/// provider query for type t NOW answers it (the recorded connection if it has one).
fn replay_history(events: &[String], h: &mut Hist) -> Result<(), String> {
    let mut s = Sys::new(true);
    writeln!(h.out, "HIST replay").unwrap();
    let mut i = 0;
    while i < events.len() {
        h.pending = events[i].clone();
        let mut op = parse_op(&events[i]).map_err(|e| format!("event {}: {}", i + 1, e))?;
        i += 1;
        if let Op::Drop(c) = op {
            if i < events.len() && events[i].starts_with(&format!("MSG {} ", c)) {
                if let Op::Msg(_, req) = parse_op(&events[i]).map_err(|e| format!("event {}: {}", i + 1, e))? {
                    op = Op::DropQueued(c, req);
                    i += 1;
                }
            }
        }
        let retarget = |s: &Sys, c: usize, req: Req| -> (usize, Req) {
            if let Req::Rpl(sr, res, t, true) = req {
                if let Some((a, _)) = s.ci.get(c).and_then(|x| x.asked.iter().find(|(_, at)| *at == t)).cloned().map(|x| (x.0, x.1)) {
                    return (c, Req::Rpl(a, res, t, true));
                }
                for j in alive_list(s) {
                    if let Some((a, _)) = s.ci[j].asked.iter().find(|(_, at)| *at == t).cloned() {
                        return (j, Req::Rpl(a, res, t, true));
                    }
                }
                (c, Req::Rpl(sr, res, t, true))
            } else {
                (c, req)
            }
        };
        let op = match op {
            Op::Msg(c, req) => {
                let (c2, r2) = retarget(&s, c, req);
                Op::Msg(c2, r2)
            }
            Op::DropQueued(c, req) => {
                let (c2, r2) = retarget(&s, c, req);
                if c2 == c {
                    Op::DropQueued(c, r2)
                } else {
                    Op::DropQueued(c, Req::Rpl(9999, None, 0, false))
                }
            }
            o => o,
        };
        // operations on connections that are gone in this re-execution are skipped
        let skip = match &op {
            Op::Msg(c, _) | Op::DropQueued(c, _) | Op::Drop(c) | Op::Shut { c, .. } => !s.alive(*c),
            Op::ShutC(c) => *c >= s.w.chandles.len() || s.w.chandles[*c].borrow().is_none(),
            Op::New(_) | Op::ShutI => s.w.btask.is_none(),
        };
        if skip {
            continue;
        }
        exec_op(h, &mut s, op)?;
        if s.w.btask.is_none() {
            break;
        }
    }
    Ok(())
}

fn finish_history(f: &mut impl Write, h: &Hist, res: std::thread::Result<Result<(), String>>) -> bool {
    f.write_all(h.out.as_bytes()).unwrap();
    let mut panicked = false;
    match res {
        Ok(Ok(())) => {}
        Ok(Err(e)) => writeln!(f, "HARNESS-ERROR {}", e).unwrap(),
        Err(p) => {
            panicked = true;
            writeln!(f, "EVP {}", h.pending).unwrap();
            let msg = p.downcast_ref::<String>().cloned().or_else(|| p.downcast_ref::<&str>().map(|s| s.to_string())).unwrap_or_default();
            writeln!(f, "PANIC {}", msg.replace('\n', " ")).unwrap();
        }
    }
    writeln!(f, "HISTEND").unwrap();
    panicked
}

fn write_stats(outdir: &str, seed: u64, n: u64, steps: u64, panics: u64, monitors: u64, kinds: &BTreeMap<String, u64>) {
    let mut stats = String::new();
    write!(
        stats,
        "{{\"seed\":{},\"histories\":{},\"steps\":{},\"panics\":{},\"monitor_verdicts\":{},\"kinds\":{{{}}}}}",
        seed,
        n,
        steps,
        panics,
        monitors,
        kinds.iter().map(|(k, v)| format!("\"{}\":{}", k, v)).collect::<Vec<_>>().join(",")
    )
    .unwrap();
    std::fs::write(format!("{outdir}/stats.json"), stats).unwrap();
}

fn usage() -> ! {
    eprintln!("usage: introdb gen <outdir> <histories> <max-steps>");
    eprintln!("       introdb replay <outdir> <events-file>");
    std::process::exit(2);
}

fn main() {
    quiet_panics();
    let args: Vec<String> = std::env::args().collect();
    if args.len() >= 4 && args[1] == "replay" {
        let outdir = &args[2];
        let events: Vec<String> = std::fs::read_to_string(&args[3])
            .unwrap_or_else(|e| {
                eprintln!("cannot read {}: {}", args[3], e);
                std::process::exit(2)
            })
            .lines()
            .map(|l| l.trim().strip_prefix("EV ").unwrap_or(l.trim()).to_string())
            .filter(|l| !l.is_empty())
            .collect();
        let mut f = std::io::BufWriter::new(std::fs::File::create(format!("{outdir}/trace.txt")).unwrap());
        let mut h = Hist { pending: String::new(), out: String::new(), kinds: BTreeMap::new(), steps: 0, monitors: 0 };
        let res = catch_unwind(AssertUnwindSafe(|| replay_history(&events, &mut h)));
        let panicked = finish_history(&mut f, &h, res);
        write_stats(outdir, 0, 1, h.steps, panicked as u64, h.monitors, &h.kinds);
        return;
    }
    if args.len() < 5 || args[1] != "gen" {
        usage();
    }
    let outdir = &args[2];
    let n: u64 = args[3].parse().unwrap();
    let len: usize = args[4].parse().unwrap();
    let seed = env_u64("VERIF_SEED", 1);
    let mut f = std::io::BufWriter::new(std::fs::File::create(format!("{outdir}/trace.txt")).unwrap());
    let mut kinds: BTreeMap<String, u64> = BTreeMap::new();
    let mut steps = 0u64;
    let mut panics = 0u64;
    let mut monitors = 0u64;
    for i in 0..n {
        let hs = seed.wrapping_mul(1_000_003).wrapping_add(i);
        let mut h = Hist { pending: String::new(), out: String::new(), kinds: BTreeMap::new(), steps: 0, monitors: 0 };
        let res = catch_unwind(AssertUnwindSafe(|| run_history(hs, len, &mut h)));
        if finish_history(&mut f, &h, res) {
            panics += 1;
        }
        steps += h.steps;
        monitors += h.monitors;
        for (k, v) in h.kinds {
            *kinds.entry(k).or_default() += v;
        }
    }
    write_stats(outdir, seed, n, steps, panics, monitors, &kinds);
}
