//! C08 correspondence harness for the message codec (core/src/message/*.rs).
//!
//! `msg gen <outdir> <valid-per-kind> <mutated-per-kind>`: for every one of the 63 message kinds
//!   generate messages (all enum alternatives in turn, serial/id boundaries, payloads of 1..N
//!   bytes), run the real `serialize_message` / `deserialize_message`, then mutate the frames
//!   (length prefix, kind byte sweep, byte sweeps, truncation, trailing bytes, value-length
//!   edits, non-canonical varints, random bytes) and run `Message::deserialize_message` and the
//!   per-type `deserialize_message` on them under catch_unwind.  Writes cases.txt (ops for the
//!   model driver extract/msg_driver.ml), impl.txt (the implementation's answers, one per op),
//!   monitor.txt (violations of the property statement seen on the implementation alone) and
//!   stats.json.
//! `msg run <cases> <impl-out>`: answer the ops of a cases file with the real code (replay).
//!
//! The aldrin-core `fuzzing` feature is not used: the generator below builds every message.
//!
//! Text syntax (shared with the model driver):
//!   message: `<kind> <fields> <value>`; fields `-` or `,`-separated `u<dec>` / `i<32 hex>` /
//!   `t<disc>(<fields>)`; value `-` (none), `E` (SerializedValue::empty()) or hex.
//!   ops: `ser <message>`, `wf <message>`, `de <hex>`, `deas <kind> <hex>`.
use aldrin_core::message::*;
use aldrin_core::{
    BusEvent, BusListenerCookie, BusListenerFilter, BusListenerScope, BusListenerServiceFilter,
    ChannelCookie, ChannelEnd, ChannelEndWithCapacity, ObjectCookie, ObjectId, ObjectUuid,
    SerializedValue, ServiceCookie, ServiceId, ServiceUuid, TypeId,
};
use bytes::BytesMut;
use std::collections::{BTreeMap, HashSet};
use std::fmt::Write as _;
use std::io::{BufRead, Write};
use uuid::Uuid;
use verif_harness::{catch, env_u64, hex, quiet_panics, sv_from_bytes, unhex, Rng};

// ------------------------------------------------------------------ generic view of a message

enum FV {
    U(u32),
    I(Uuid),
    T(u8, Vec<FV>),
}

fn u(x: u32) -> FV {
    FV::U(x)
}
fn id(x: Uuid) -> FV {
    FV::I(x)
}
fn t(d: u8, vs: Vec<FV>) -> FV {
    FV::T(d, vs)
}
fn opt_u32(o: Option<u32>) -> FV {
    match o {
        None => t(0, vec![]),
        Some(x) => t(1, vec![u(x)]),
    }
}
fn end_cap(e: ChannelEndWithCapacity) -> FV {
    match e {
        ChannelEndWithCapacity::Sender => t(0, vec![]),
        ChannelEndWithCapacity::Receiver(c) => t(1, vec![u(c)]),
    }
}
fn filter(f: BusListenerFilter) -> FV {
    match f {
        BusListenerFilter::Object(None) => t(0, vec![]),
        BusListenerFilter::Object(Some(o)) => t(1, vec![id(o.0)]),
        BusListenerFilter::Service(BusListenerServiceFilter { object: None, service: None }) => t(2, vec![]),
        BusListenerFilter::Service(BusListenerServiceFilter { object: Some(o), service: None }) => t(3, vec![id(o.0)]),
        BusListenerFilter::Service(BusListenerServiceFilter { object: None, service: Some(s) }) => t(4, vec![id(s.0)]),
        BusListenerFilter::Service(BusListenerServiceFilter { object: Some(o), service: Some(s) }) => {
            t(5, vec![id(o.0), id(s.0)])
        }
    }
}
fn obj(o: ObjectId) -> Vec<FV> {
    vec![id(o.uuid.0), id(o.cookie.0)]
}
fn svc(s: ServiceId) -> Vec<FV> {
    vec![id(s.object_id.uuid.0), id(s.object_id.cookie.0), id(s.uuid.0), id(s.cookie.0)]
}

fn fields_text(vs: &[FV], out: &mut String) {
    for (i, v) in vs.iter().enumerate() {
        if i > 0 {
            out.push(',');
        }
        match v {
            FV::U(x) => write!(out, "u{}", x).unwrap(),
            FV::I(x) => write!(out, "i{}", hex(x.as_bytes())).unwrap(),
            FV::T(d, vs) => {
                write!(out, "t{}(", d).unwrap();
                fields_text(vs, out);
                out.push(')');
            }
        }
    }
}

/// fields of a message in wire order, as the model's `fval`s
fn fields_of(m: &Message) -> Vec<FV> {
    match m {
        Message::Connect(m) => vec![u(m.version)],
        Message::ConnectReply(m) => vec![match m {
            ConnectReply::Ok(_) => t(0, vec![]),
            ConnectReply::IncompatibleVersion(v) => t(1, vec![u(*v)]),
            ConnectReply::Rejected(_) => t(2, vec![]),
        }],
        Message::Shutdown(_) => vec![],
        Message::CreateObject(m) => vec![u(m.serial), id(m.uuid.0)],
        Message::CreateObjectReply(m) => vec![
            u(m.serial),
            match m.result {
                CreateObjectResult::Ok(c) => t(0, vec![id(c.0)]),
                CreateObjectResult::DuplicateObject => t(1, vec![]),
            },
        ],
        Message::DestroyObject(m) => vec![u(m.serial), id(m.cookie.0)],
        Message::DestroyObjectReply(m) => vec![u(m.serial), t(u8::from(m.result), vec![])],
        Message::CreateService(m) => vec![u(m.serial), id(m.object_cookie.0), id(m.uuid.0), u(m.version)],
        Message::CreateServiceReply(m) => vec![
            u(m.serial),
            match m.result {
                CreateServiceResult::Ok(c) => t(0, vec![id(c.0)]),
                CreateServiceResult::DuplicateService => t(1, vec![]),
                CreateServiceResult::InvalidObject => t(2, vec![]),
                CreateServiceResult::ForeignObject => t(3, vec![]),
            },
        ],
        Message::DestroyService(m) => vec![u(m.serial), id(m.cookie.0)],
        Message::DestroyServiceReply(m) => vec![u(m.serial), t(u8::from(m.result), vec![])],
        Message::CallFunction(m) => vec![u(m.serial), id(m.service_cookie.0), u(m.function)],
        Message::CallFunctionReply(m) => vec![
            u(m.serial),
            t(
                match m.result {
                    CallFunctionResult::Ok(_) => 0,
                    CallFunctionResult::Err(_) => 1,
                    CallFunctionResult::Aborted => 2,
                    CallFunctionResult::InvalidService => 3,
                    CallFunctionResult::InvalidFunction => 4,
                    CallFunctionResult::InvalidArgs => 5,
                },
                vec![],
            ),
        ],
        Message::SubscribeEvent(m) => vec![opt_u32(m.serial), id(m.service_cookie.0), u(m.event)],
        Message::SubscribeEventReply(m) => vec![u(m.serial), t(u8::from(m.result), vec![])],
        Message::UnsubscribeEvent(m) => vec![id(m.service_cookie.0), u(m.event)],
        Message::EmitEvent(m) => vec![id(m.service_cookie.0), u(m.event)],
        Message::QueryServiceVersion(m) => vec![u(m.serial), id(m.cookie.0)],
        Message::QueryServiceVersionReply(m) => vec![
            u(m.serial),
            match m.result {
                QueryServiceVersionResult::Ok(v) => t(0, vec![u(v)]),
                QueryServiceVersionResult::InvalidService => t(1, vec![]),
            },
        ],
        Message::CreateChannel(m) => vec![u(m.serial), end_cap(m.end)],
        Message::CreateChannelReply(m) => vec![u(m.serial), id(m.cookie.0)],
        Message::CloseChannelEnd(m) => vec![u(m.serial), id(m.cookie.0), t(u8::from(m.end), vec![])],
        Message::CloseChannelEndReply(m) => vec![u(m.serial), t(u8::from(m.result), vec![])],
        Message::ChannelEndClosed(m) => vec![id(m.cookie.0), t(u8::from(m.end), vec![])],
        Message::ClaimChannelEnd(m) => vec![u(m.serial), id(m.cookie.0), end_cap(m.end)],
        Message::ClaimChannelEndReply(m) => vec![
            u(m.serial),
            match m.result {
                ClaimChannelEndResult::SenderClaimed(c) => t(0, vec![u(c)]),
                ClaimChannelEndResult::ReceiverClaimed => t(1, vec![]),
                ClaimChannelEndResult::InvalidChannel => t(2, vec![]),
                ClaimChannelEndResult::AlreadyClaimed => t(3, vec![]),
            },
        ],
        Message::ChannelEndClaimed(m) => vec![id(m.cookie.0), end_cap(m.end)],
        Message::SendItem(m) => vec![id(m.cookie.0)],
        Message::ItemReceived(m) => vec![id(m.cookie.0)],
        Message::AddChannelCapacity(m) => vec![id(m.cookie.0), u(m.capacity)],
        Message::Sync(m) => vec![u(m.serial)],
        Message::SyncReply(m) => vec![u(m.serial)],
        Message::ServiceDestroyed(m) => vec![id(m.service_cookie.0)],
        Message::CreateBusListener(m) => vec![u(m.serial)],
        Message::CreateBusListenerReply(m) => vec![u(m.serial), id(m.cookie.0)],
        Message::DestroyBusListener(m) => vec![u(m.serial), id(m.cookie.0)],
        Message::DestroyBusListenerReply(m) => vec![u(m.serial), t(u8::from(m.result), vec![])],
        Message::AddBusListenerFilter(m) => vec![id(m.cookie.0), filter(m.filter)],
        Message::RemoveBusListenerFilter(m) => vec![id(m.cookie.0), filter(m.filter)],
        Message::ClearBusListenerFilters(m) => vec![id(m.cookie.0)],
        Message::StartBusListener(m) => vec![u(m.serial), id(m.cookie.0), t(u8::from(m.scope), vec![])],
        Message::StartBusListenerReply(m) => vec![u(m.serial), t(u8::from(m.result), vec![])],
        Message::StopBusListener(m) => vec![u(m.serial), id(m.cookie.0)],
        Message::StopBusListenerReply(m) => vec![u(m.serial), t(u8::from(m.result), vec![])],
        Message::EmitBusEvent(m) => vec![
            match m.cookie {
                None => t(0, vec![]),
                Some(c) => t(1, vec![id(c.0)]),
            },
            match m.event {
                BusEvent::ObjectCreated(o) => t(0, obj(o)),
                BusEvent::ObjectDestroyed(o) => t(1, obj(o)),
                BusEvent::ServiceCreated(s) => t(2, svc(s)),
                BusEvent::ServiceDestroyed(s) => t(3, svc(s)),
            },
        ],
        Message::BusListenerCurrentFinished(m) => vec![id(m.cookie.0)],
        Message::Connect2(m) => vec![u(m.major_version), u(m.minor_version)],
        Message::ConnectReply2(m) => vec![match m.result {
            ConnectResult::Ok(v) => t(0, vec![u(v)]),
            ConnectResult::Rejected => t(1, vec![]),
            ConnectResult::IncompatibleVersion => t(2, vec![]),
        }],
        Message::AbortFunctionCall(m) => vec![u(m.serial)],
        Message::RegisterIntrospection(_) => vec![],
        Message::QueryIntrospection(m) => vec![u(m.serial), id(m.type_id.0)],
        Message::QueryIntrospectionReply(m) => vec![
            u(m.serial),
            match m.result {
                QueryIntrospectionResult::Ok(_) => t(0, vec![]),
                QueryIntrospectionResult::Unavailable => t(1, vec![]),
            },
        ],
        Message::CreateService2(m) => vec![u(m.serial), id(m.object_cookie.0), id(m.uuid.0)],
        Message::QueryServiceInfo(m) => vec![u(m.serial), id(m.cookie.0)],
        Message::QueryServiceInfoReply(m) => vec![
            u(m.serial),
            match m.result {
                QueryServiceInfoResult::Ok(_) => t(0, vec![]),
                QueryServiceInfoResult::InvalidService => t(1, vec![]),
            },
        ],
        Message::SubscribeService(m) => vec![u(m.serial), id(m.service_cookie.0)],
        Message::SubscribeServiceReply(m) => vec![u(m.serial), t(u8::from(m.result), vec![])],
        Message::UnsubscribeService(m) => vec![id(m.service_cookie.0)],
        Message::SubscribeAllEvents(m) => vec![opt_u32(m.serial), id(m.service_cookie.0)],
        Message::SubscribeAllEventsReply(m) => vec![u(m.serial), t(u8::from(m.result), vec![])],
        Message::UnsubscribeAllEvents(m) => vec![opt_u32(m.serial), id(m.service_cookie.0)],
        Message::UnsubscribeAllEventsReply(m) => vec![u(m.serial), t(u8::from(m.result), vec![])],
        Message::CallFunction2(m) => vec![u(m.serial), id(m.service_cookie.0), u(m.function), opt_u32(m.version)],
    }
}

/// `<kind> <fields> <value>`; `empty_value`: the message holds SerializedValue::empty(), whose
/// deref panics by design, so it is printed without looking at it
fn msg_text(m: &Message, empty_value: bool) -> String {
    let mut s = String::new();
    write!(s, "{} ", u8::from(m.kind())).unwrap();
    let fs = fields_of(m);
    if fs.is_empty() {
        s.push('-');
    } else {
        fields_text(&fs, &mut s);
    }
    s.push(' ');
    if empty_value {
        s.push('E');
    } else {
        match m.value() {
            None => s.push('-'),
            Some(v) => s.push_str(&hex(v)),
        }
    }
    s
}

// ------------------------------------------------------------------ generator

const U32_EDGES: [u32; 22] = [
    0, 1, 2, 127, 128, 250, 251, 252, 253, 254, 255, 256, 257, 65535, 65536, 65537, 16777215,
    16777216, 16777217, 0x7fff_ffff, 0xffff_fffe, 0xffff_ffff,
];

fn g32(r: &mut Rng) -> u32 {
    match r.below(4) {
        0 | 1 => *r.pick(&U32_EDGES),
        2 => r.below(300) as u32,
        _ => r.next() as u32,
    }
}

fn guuid(r: &mut Rng) -> Uuid {
    match r.below(8) {
        0 => Uuid::from_bytes([0; 16]),
        1 => Uuid::from_bytes([0xff; 16]),
        2 => {
            // bytes that look like varint headers / discriminants
            let mut b = [0u8; 16];
            for x in b.iter_mut() {
                *x = *r.pick(&[0u8, 1, 2, 5, 251, 252, 253, 254, 255]);
            }
            Uuid::from_bytes(b)
        }
        _ => {
            let v = r.bytes(16);
            let mut b = [0u8; 16];
            b.copy_from_slice(&v);
            Uuid::from_bytes(b)
        }
    }
}

/// payload of 1..N bytes: arbitrary bytes (not necessarily a valid value: the message layer
/// treats it as opaque) or a really serialized value
fn gpayload(r: &mut Rng, big: bool) -> SerializedValue {
    match r.below(10) {
        0 => SerializedValue::serialize(r.next() as u8).unwrap(),
        1 => SerializedValue::serialize(r.next() as u32).unwrap(),
        2 => SerializedValue::serialize(()).unwrap(),
        3 => SerializedValue::serialize("payload").unwrap(),
        _ => {
            let len = if big {
                *r.pick(&[65526usize, 65527, 65535, 65536, 70001])
            } else {
                match r.below(6) {
                    0 => 1,
                    1 => 2,
                    2 => r.range(3, 16) as usize,
                    3 => r.range(17, 300) as usize,
                    4 => *r.pick(&[246usize, 247, 250, 251, 252, 255, 256, 257]),
                    _ => r.range(1, 40) as usize,
                }
            };
            let mut b = r.bytes(len);
            if r.chance(1, 3) {
                // value bytes that look like a frame header themselves
                for x in b.iter_mut().take(9) {
                    *x = *r.pick(&[0u8, 1, 4, 5, 9, 10, 255]);
                }
            }
            sv_from_bytes(&b).expect("payload")
        }
    }
}

fn gend(r: &mut Rng, alt: u64) -> ChannelEnd {
    let _ = r;
    if alt % 2 == 0 {
        ChannelEnd::Sender
    } else {
        ChannelEnd::Receiver
    }
}
fn gend_cap(r: &mut Rng, alt: u64) -> ChannelEndWithCapacity {
    if alt % 2 == 0 {
        ChannelEndWithCapacity::Sender
    } else {
        ChannelEndWithCapacity::Receiver(g32(r))
    }
}
fn gfilter(r: &mut Rng, alt: u64) -> BusListenerFilter {
    let o = ObjectUuid(guuid(r));
    let s = ServiceUuid(guuid(r));
    match alt % 6 {
        0 => BusListenerFilter::any_object(),
        1 => BusListenerFilter::object(o),
        2 => BusListenerFilter::any_object_any_service(),
        3 => BusListenerFilter::specific_object_any_service(o),
        4 => BusListenerFilter::any_object_specific_service(s),
        _ => BusListenerFilter::specific_object_and_service(o, s),
    }
}
fn gobj(r: &mut Rng) -> ObjectId {
    ObjectId::new(ObjectUuid(guuid(r)), ObjectCookie(guuid(r)))
}
fn gsvc(r: &mut Rng) -> ServiceId {
    ServiceId::new(gobj(r), ServiceUuid(guuid(r)), ServiceCookie(guuid(r)))
}
fn gopt(r: &mut Rng, alt: u64) -> Option<u32> {
    if alt % 2 == 0 {
        None
    } else {
        Some(g32(r))
    }
}

/// number of enum alternatives (product over the tagged fields) of a kind, so that `alt`
/// running over 0..n visits each combination
fn n_alts(kind: u8) -> u64 {
    match kind {
        1 | 6 | 10 | 22 | 40 | 41 | 43 | 47 | 59 | 61 => 3,
        4 | 13 | 14 | 18 | 19 | 21 | 23 | 24 | 26 | 36 | 51 | 54 | 56 | 58 | 60 | 62 => 2,
        8 | 25 => 4,
        12 | 37 | 38 => 6,
        44 => 8,
        _ => 1,
    }
}

fn gen_msg(kind: u8, alt: u64, big: bool, r: &mut Rng) -> Message {
    match kind {
        0 => Message::Connect(Connect { version: g32(r), value: gpayload(r, big) }),
        1 => Message::ConnectReply(match alt % 3 {
            0 => ConnectReply::Ok(gpayload(r, big)),
            1 => ConnectReply::IncompatibleVersion(g32(r)),
            _ => ConnectReply::Rejected(gpayload(r, big)),
        }),
        2 => Message::Shutdown(Shutdown),
        3 => Message::CreateObject(CreateObject { serial: g32(r), uuid: ObjectUuid(guuid(r)) }),
        4 => Message::CreateObjectReply(CreateObjectReply {
            serial: g32(r),
            result: if alt % 2 == 0 {
                CreateObjectResult::Ok(ObjectCookie(guuid(r)))
            } else {
                CreateObjectResult::DuplicateObject
            },
        }),
        5 => Message::DestroyObject(DestroyObject { serial: g32(r), cookie: ObjectCookie(guuid(r)) }),
        6 => Message::DestroyObjectReply(DestroyObjectReply {
            serial: g32(r),
            result: [DestroyObjectResult::Ok, DestroyObjectResult::InvalidObject, DestroyObjectResult::ForeignObject]
                [(alt % 3) as usize],
        }),
        7 => Message::CreateService(CreateService {
            serial: g32(r),
            object_cookie: ObjectCookie(guuid(r)),
            uuid: ServiceUuid(guuid(r)),
            version: g32(r),
        }),
        8 => Message::CreateServiceReply(CreateServiceReply {
            serial: g32(r),
            result: match alt % 4 {
                0 => CreateServiceResult::Ok(ServiceCookie(guuid(r))),
                1 => CreateServiceResult::DuplicateService,
                2 => CreateServiceResult::InvalidObject,
                _ => CreateServiceResult::ForeignObject,
            },
        }),
        9 => Message::DestroyService(DestroyService { serial: g32(r), cookie: ServiceCookie(guuid(r)) }),
        10 => Message::DestroyServiceReply(DestroyServiceReply {
            serial: g32(r),
            result: [DestroyServiceResult::Ok, DestroyServiceResult::InvalidService, DestroyServiceResult::ForeignObject]
                [(alt % 3) as usize],
        }),
        11 => Message::CallFunction(CallFunction {
            serial: g32(r),
            service_cookie: ServiceCookie(guuid(r)),
            function: g32(r),
            value: gpayload(r, big),
        }),
        12 => Message::CallFunctionReply(CallFunctionReply {
            serial: g32(r),
            result: match alt % 6 {
                0 => CallFunctionResult::Ok(gpayload(r, big)),
                1 => CallFunctionResult::Err(gpayload(r, big)),
                2 => CallFunctionResult::Aborted,
                3 => CallFunctionResult::InvalidService,
                4 => CallFunctionResult::InvalidFunction,
                _ => CallFunctionResult::InvalidArgs,
            },
        }),
        13 => Message::SubscribeEvent(SubscribeEvent {
            serial: gopt(r, alt),
            service_cookie: ServiceCookie(guuid(r)),
            event: g32(r),
        }),
        14 => Message::SubscribeEventReply(SubscribeEventReply {
            serial: g32(r),
            result: [SubscribeEventResult::Ok, SubscribeEventResult::InvalidService][(alt % 2) as usize],
        }),
        15 => Message::UnsubscribeEvent(UnsubscribeEvent { service_cookie: ServiceCookie(guuid(r)), event: g32(r) }),
        16 => Message::EmitEvent(EmitEvent {
            service_cookie: ServiceCookie(guuid(r)),
            event: g32(r),
            value: gpayload(r, big),
        }),
        17 => Message::QueryServiceVersion(QueryServiceVersion { serial: g32(r), cookie: ServiceCookie(guuid(r)) }),
        18 => Message::QueryServiceVersionReply(QueryServiceVersionReply {
            serial: g32(r),
            result: if alt % 2 == 0 {
                QueryServiceVersionResult::Ok(g32(r))
            } else {
                QueryServiceVersionResult::InvalidService
            },
        }),
        19 => Message::CreateChannel(CreateChannel { serial: g32(r), end: gend_cap(r, alt) }),
        20 => Message::CreateChannelReply(CreateChannelReply { serial: g32(r), cookie: ChannelCookie(guuid(r)) }),
        21 => Message::CloseChannelEnd(CloseChannelEnd {
            serial: g32(r),
            cookie: ChannelCookie(guuid(r)),
            end: gend(r, alt),
        }),
        22 => Message::CloseChannelEndReply(CloseChannelEndReply {
            serial: g32(r),
            result: [CloseChannelEndResult::Ok, CloseChannelEndResult::InvalidChannel, CloseChannelEndResult::ForeignChannel]
                [(alt % 3) as usize],
        }),
        23 => Message::ChannelEndClosed(ChannelEndClosed { cookie: ChannelCookie(guuid(r)), end: gend(r, alt) }),
        24 => Message::ClaimChannelEnd(ClaimChannelEnd {
            serial: g32(r),
            cookie: ChannelCookie(guuid(r)),
            end: gend_cap(r, alt),
        }),
        25 => Message::ClaimChannelEndReply(ClaimChannelEndReply {
            serial: g32(r),
            result: match alt % 4 {
                0 => ClaimChannelEndResult::SenderClaimed(g32(r)),
                1 => ClaimChannelEndResult::ReceiverClaimed,
                2 => ClaimChannelEndResult::InvalidChannel,
                _ => ClaimChannelEndResult::AlreadyClaimed,
            },
        }),
        26 => Message::ChannelEndClaimed(ChannelEndClaimed { cookie: ChannelCookie(guuid(r)), end: gend_cap(r, alt) }),
        27 => Message::SendItem(SendItem { cookie: ChannelCookie(guuid(r)), value: gpayload(r, big) }),
        28 => Message::ItemReceived(ItemReceived { cookie: ChannelCookie(guuid(r)), value: gpayload(r, big) }),
        29 => Message::AddChannelCapacity(AddChannelCapacity { cookie: ChannelCookie(guuid(r)), capacity: g32(r) }),
        30 => Message::Sync(aldrin_core::message::Sync { serial: g32(r) }),
        31 => Message::SyncReply(SyncReply { serial: g32(r) }),
        32 => Message::ServiceDestroyed(ServiceDestroyed { service_cookie: ServiceCookie(guuid(r)) }),
        33 => Message::CreateBusListener(CreateBusListener { serial: g32(r) }),
        34 => Message::CreateBusListenerReply(CreateBusListenerReply {
            serial: g32(r),
            cookie: BusListenerCookie(guuid(r)),
        }),
        35 => Message::DestroyBusListener(DestroyBusListener { serial: g32(r), cookie: BusListenerCookie(guuid(r)) }),
        36 => Message::DestroyBusListenerReply(DestroyBusListenerReply {
            serial: g32(r),
            result: [DestroyBusListenerResult::Ok, DestroyBusListenerResult::InvalidBusListener][(alt % 2) as usize],
        }),
        37 => Message::AddBusListenerFilter(AddBusListenerFilter {
            cookie: BusListenerCookie(guuid(r)),
            filter: gfilter(r, alt),
        }),
        38 => Message::RemoveBusListenerFilter(RemoveBusListenerFilter {
            cookie: BusListenerCookie(guuid(r)),
            filter: gfilter(r, alt),
        }),
        39 => Message::ClearBusListenerFilters(ClearBusListenerFilters { cookie: BusListenerCookie(guuid(r)) }),
        40 => Message::StartBusListener(StartBusListener {
            serial: g32(r),
            cookie: BusListenerCookie(guuid(r)),
            scope: [BusListenerScope::Current, BusListenerScope::New, BusListenerScope::All][(alt % 3) as usize],
        }),
        41 => Message::StartBusListenerReply(StartBusListenerReply {
            serial: g32(r),
            result: [StartBusListenerResult::Ok, StartBusListenerResult::InvalidBusListener, StartBusListenerResult::AlreadyStarted]
                [(alt % 3) as usize],
        }),
        42 => Message::StopBusListener(StopBusListener { serial: g32(r), cookie: BusListenerCookie(guuid(r)) }),
        43 => Message::StopBusListenerReply(StopBusListenerReply {
            serial: g32(r),
            result: [StopBusListenerResult::Ok, StopBusListenerResult::InvalidBusListener, StopBusListenerResult::NotStarted]
                [(alt % 3) as usize],
        }),
        44 => Message::EmitBusEvent(EmitBusEvent {
            cookie: if alt % 2 == 0 { None } else { Some(BusListenerCookie(guuid(r))) },
            event: match (alt / 2) % 4 {
                0 => BusEvent::ObjectCreated(gobj(r)),
                1 => BusEvent::ObjectDestroyed(gobj(r)),
                2 => BusEvent::ServiceCreated(gsvc(r)),
                _ => BusEvent::ServiceDestroyed(gsvc(r)),
            },
        }),
        45 => Message::BusListenerCurrentFinished(BusListenerCurrentFinished { cookie: BusListenerCookie(guuid(r)) }),
        46 => Message::Connect2(Connect2 { major_version: g32(r), minor_version: g32(r), value: gpayload(r, big) }),
        47 => Message::ConnectReply2(ConnectReply2 {
            result: match alt % 3 {
                0 => ConnectResult::Ok(g32(r)),
                1 => ConnectResult::Rejected,
                _ => ConnectResult::IncompatibleVersion,
            },
            value: gpayload(r, big),
        }),
        48 => Message::AbortFunctionCall(AbortFunctionCall { serial: g32(r) }),
        49 => Message::RegisterIntrospection(RegisterIntrospection { value: gpayload(r, big) }),
        50 => Message::QueryIntrospection(QueryIntrospection { serial: g32(r), type_id: TypeId(guuid(r)) }),
        51 => Message::QueryIntrospectionReply(QueryIntrospectionReply {
            serial: g32(r),
            result: if alt % 2 == 0 {
                QueryIntrospectionResult::Ok(gpayload(r, big))
            } else {
                QueryIntrospectionResult::Unavailable
            },
        }),
        52 => Message::CreateService2(CreateService2 {
            serial: g32(r),
            object_cookie: ObjectCookie(guuid(r)),
            uuid: ServiceUuid(guuid(r)),
            value: gpayload(r, big),
        }),
        53 => Message::QueryServiceInfo(QueryServiceInfo { serial: g32(r), cookie: ServiceCookie(guuid(r)) }),
        54 => Message::QueryServiceInfoReply(QueryServiceInfoReply {
            serial: g32(r),
            result: if alt % 2 == 0 {
                QueryServiceInfoResult::Ok(gpayload(r, big))
            } else {
                QueryServiceInfoResult::InvalidService
            },
        }),
        55 => Message::SubscribeService(SubscribeService { serial: g32(r), service_cookie: ServiceCookie(guuid(r)) }),
        56 => Message::SubscribeServiceReply(SubscribeServiceReply {
            serial: g32(r),
            result: [SubscribeServiceResult::Ok, SubscribeServiceResult::InvalidService][(alt % 2) as usize],
        }),
        57 => Message::UnsubscribeService(UnsubscribeService { service_cookie: ServiceCookie(guuid(r)) }),
        58 => Message::SubscribeAllEvents(SubscribeAllEvents {
            serial: gopt(r, alt),
            service_cookie: ServiceCookie(guuid(r)),
        }),
        59 => Message::SubscribeAllEventsReply(SubscribeAllEventsReply {
            serial: g32(r),
            result: [SubscribeAllEventsResult::Ok, SubscribeAllEventsResult::InvalidService, SubscribeAllEventsResult::NotSupported]
                [(alt % 3) as usize],
        }),
        60 => Message::UnsubscribeAllEvents(UnsubscribeAllEvents {
            serial: gopt(r, alt),
            service_cookie: ServiceCookie(guuid(r)),
        }),
        61 => Message::UnsubscribeAllEventsReply(UnsubscribeAllEventsReply {
            serial: g32(r),
            result: [
                UnsubscribeAllEventsResult::Ok,
                UnsubscribeAllEventsResult::InvalidService,
                UnsubscribeAllEventsResult::NotSupported,
            ][(alt % 3) as usize],
        }),
        62 => Message::CallFunction2(CallFunction2 {
            serial: g32(r),
            service_cookie: ServiceCookie(guuid(r)),
            function: g32(r),
            version: gopt(r, alt),
            value: gpayload(r, big),
        }),
        _ => unreachable!(),
    }
}

// ------------------------------------------------------------------ the real code, as text

fn ser_err(e: MessageSerializeError) -> &'static str {
    match e {
        MessageSerializeError::Overflow => "!Overflow",
        MessageSerializeError::InvalidValue => "!InvalidValue",
    }
}

fn de_err(e: MessageDeserializeError) -> &'static str {
    match e {
        MessageDeserializeError::InvalidSerialization => "!Invalid",
        MessageDeserializeError::UnexpectedEoi => "!Eoi",
        MessageDeserializeError::UnexpectedMessage => "!UnexpectedMessage",
        MessageDeserializeError::TrailingData => "!TrailingData",
    }
}

fn panic_text(p: String) -> String {
    format!("!PANIC {}", p.replace('\n', " "))
}

fn do_ser(m: Message) -> String {
    match catch(move || m.serialize_message()) {
        Ok(Ok(b)) => hex(&b),
        Ok(Err(e)) => ser_err(e).to_string(),
        Err(p) => panic_text(p),
    }
}

fn do_de(bytes: &[u8]) -> (String, Option<Message>) {
    let buf = BytesMut::from(bytes);
    match catch(move || Message::deserialize_message(buf)) {
        Ok(Ok(m)) => (msg_text(&m, false), Some(m)),
        Ok(Err(e)) => (de_err(e).to_string(), None),
        Err(p) => (panic_text(p), None),
    }
}

macro_rules! all_kinds {
    ($m:ident) => {
        $m!(
            Connect, ConnectReply, Shutdown, CreateObject, CreateObjectReply, DestroyObject, DestroyObjectReply,
            CreateService, CreateServiceReply, DestroyService, DestroyServiceReply, CallFunction, CallFunctionReply,
            SubscribeEvent, SubscribeEventReply, UnsubscribeEvent, EmitEvent, QueryServiceVersion,
            QueryServiceVersionReply, CreateChannel, CreateChannelReply, CloseChannelEnd, CloseChannelEndReply,
            ChannelEndClosed, ClaimChannelEnd, ClaimChannelEndReply, ChannelEndClaimed, SendItem, ItemReceived,
            AddChannelCapacity, Sync, SyncReply, ServiceDestroyed, CreateBusListener, CreateBusListenerReply,
            DestroyBusListener, DestroyBusListenerReply, AddBusListenerFilter, RemoveBusListenerFilter,
            ClearBusListenerFilters, StartBusListener, StartBusListenerReply, StopBusListener, StopBusListenerReply,
            EmitBusEvent, BusListenerCurrentFinished, Connect2, ConnectReply2, AbortFunctionCall,
            RegisterIntrospection, QueryIntrospection, QueryIntrospectionReply, CreateService2, QueryServiceInfo,
            QueryServiceInfoReply, SubscribeService, SubscribeServiceReply, UnsubscribeService, SubscribeAllEvents,
            SubscribeAllEventsReply, UnsubscribeAllEvents, UnsubscribeAllEventsReply, CallFunction2
        )
    };
}

/// `<Kind as MessageOps>::deserialize_message`
fn de_as(kind: MessageKind, buf: BytesMut) -> Result<Message, MessageDeserializeError> {
    macro_rules! arms {
        ($($n:ident),*) => {
            match kind {
                $(MessageKind::$n => aldrin_core::message::$n::deserialize_message(buf).map(Message::$n),)*
            }
        };
    }
    all_kinds!(arms)
}

fn do_deas(kind: u8, bytes: &[u8]) -> String {
    let Ok(k) = MessageKind::try_from(kind) else {
        return "!IllTyped".to_string();
    };
    let buf = BytesMut::from(bytes);
    match catch(move || de_as(k, buf)) {
        Ok(Ok(m)) => msg_text(&m, false),
        Ok(Err(e)) => de_err(e).to_string(),
        Err(p) => panic_text(p),
    }
}

// ------------------------------------------------------------------ text -> Message (replay)

fn parse_fields(s: &str) -> Vec<FV> {
    fn items(b: &[u8], pos: &mut usize) -> Vec<FV> {
        let mut out = Vec::new();
        if *pos >= b.len() || b[*pos] == b')' {
            return out;
        }
        loop {
            let c = b[*pos];
            *pos += 1;
            let start = *pos;
            match c {
                b'u' => {
                    while *pos < b.len() && b[*pos] != b',' && b[*pos] != b')' {
                        *pos += 1;
                    }
                    out.push(FV::U(std::str::from_utf8(&b[start..*pos]).unwrap().parse().unwrap()));
                }
                b'i' => {
                    while *pos < b.len() && b[*pos] != b',' && b[*pos] != b')' {
                        *pos += 1;
                    }
                    let v = unhex(std::str::from_utf8(&b[start..*pos]).unwrap());
                    let mut a = [0u8; 16];
                    a.copy_from_slice(&v);
                    out.push(FV::I(Uuid::from_bytes(a)));
                }
                b't' => {
                    while b[*pos] != b'(' {
                        *pos += 1;
                    }
                    let d: u8 = std::str::from_utf8(&b[start..*pos]).unwrap().parse().unwrap();
                    *pos += 1;
                    let vs = items(b, pos);
                    assert_eq!(b[*pos], b')');
                    *pos += 1;
                    out.push(FV::T(d, vs));
                }
                _ => panic!("bad field text"),
            }
            if *pos < b.len() && b[*pos] == b',' {
                *pos += 1;
            } else {
                return out;
            }
        }
    }
    if s == "-" {
        return vec![];
    }
    let mut pos = 0;
    items(s.as_bytes(), &mut pos)
}

/// a message from its text: generate the right alternative, then print-and-compare would be
/// circular, so the fields are written into the typed struct directly by re-serializing through
/// the generic wire layout: header + value part + field bytes in canonical form, parsed by the
/// real decoder.  (Only used by `msg run` for `ser`/`wf` lines of a replay.)
fn message_from_text(text: &str) -> Option<(Message, bool)> {
    let parts: Vec<&str> = text.split(' ').collect();
    if parts.len() != 3 {
        return None;
    }
    let kind: u8 = parts[0].parse().ok()?;
    let k = MessageKind::try_from(kind).ok()?;
    let fs = parse_fields(parts[1]);
    fn put(vs: &[FV], out: &mut Vec<u8>) {
        for v in vs {
            match v {
                FV::U(x) => {
                    // canonical varint, written independently of buf_ext.rs
                    let x = *x;
                    if x <= 251 {
                        out.push(x as u8);
                    } else if x < 1 << 8 {
                        out.extend_from_slice(&[252, x as u8]);
                    } else if x < 1 << 16 {
                        out.push(253);
                        out.extend_from_slice(&x.to_le_bytes()[..2]);
                    } else if x < 1 << 24 {
                        out.push(254);
                        out.extend_from_slice(&x.to_le_bytes()[..3]);
                    } else {
                        out.push(255);
                        out.extend_from_slice(&x.to_le_bytes());
                    }
                }
                FV::I(x) => out.extend_from_slice(x.as_bytes()),
                FV::T(d, vs) => {
                    out.push(*d);
                    put(vs, out);
                }
            }
        }
    }
    let empty = parts[2] == "E";
    let value: Option<Vec<u8>> = if parts[2] == "-" { None } else if empty { Some(vec![0]) } else { Some(unhex(parts[2])) };
    let mut f = vec![0u8, 0, 0, 0, kind];
    if k.has_value() {
        let v = value.clone().unwrap_or_else(|| vec![0]);
        f.extend_from_slice(&(v.len() as u32).to_le_bytes());
        f.extend_from_slice(&v);
    }
    put(&fs, &mut f);
    let len = f.len() as u32;
    f[..4].copy_from_slice(&len.to_le_bytes());
    let mut m = Message::deserialize_message(BytesMut::from(&f[..])).ok()?;
    if empty {
        *m.value_mut()? = SerializedValue::empty();
    }
    Some((m, empty))
}

fn run_op(line: &str) -> String {
    let (op, arg) = line.split_once(' ').unwrap_or((line, ""));
    match op {
        "ser" => match message_from_text(arg) {
            Some((m, _)) => do_ser(m),
            None => "!IllTyped".to_string(),
        },
        "wf" => match message_from_text(arg) {
            Some((m, _)) => if do_ser(m).starts_with('!') { "0" } else { "1" }.to_string(),
            None => "0".to_string(),
        },
        "de" => do_de(&unhex(arg)).0,
        "deas" => {
            let (k, h) = arg.split_once(' ').unwrap_or((arg, ""));
            do_deas(k.parse().unwrap_or(255), &unhex(h))
        }
        _ => format!("!UnknownOp {}", op),
    }
}

fn cmd_run(cases: &str, out: &str) {
    let f = std::io::BufReader::new(std::fs::File::open(cases).unwrap());
    let mut o = std::io::BufWriter::new(std::fs::File::create(out).unwrap());
    for line in f.lines() {
        let line = line.unwrap();
        writeln!(o, "{}", run_op(&line)).unwrap();
    }
}

// ------------------------------------------------------------------ mutations

const MUTATIONS: [&str; 10] =
    ["prefix", "kind", "byte", "trunc", "trail", "vlen", "insdel", "noncanon", "random", "splice"];

fn fix_prefix(b: &mut Vec<u8>) {
    if b.len() >= 4 {
        let l = b.len() as u32;
        b[..4].copy_from_slice(&l.to_le_bytes());
    }
}

/// position of the first field byte of a frame produced by the serializer
fn fields_pos(b: &[u8]) -> usize {
    if b.len() >= 9 && MessageKind::try_from(b[4]).map(|k| k.has_value()).unwrap_or(false) {
        let vl = u32::from_le_bytes([b[5], b[6], b[7], b[8]]) as usize;
        (9 + vl).min(b.len())
    } else {
        5.min(b.len())
    }
}

fn mutate(which: &str, counter: u64, base: &[u8], other: &[u8], r: &mut Rng) -> Vec<u8> {
    let mut b = base.to_vec();
    let len = b.len();
    match which {
        "prefix" => {
            let l = len as u32;
            let v = match r.below(10) {
                0 => l.wrapping_add(1),
                1 => l.wrapping_sub(1),
                2 => l.wrapping_add(r.range(2, 300) as u32),
                3 => l.wrapping_sub(r.range(2, 300) as u32),
                4 => 0,
                5 => *r.pick(&[4u32, 5, 9, 10]),
                6 => u32::MAX,
                7 => l | 0x0100_0000,
                _ => r.next() as u32,
            };
            b[..4].copy_from_slice(&v.to_le_bytes());
        }
        "kind" => b[4] = (counter % 256) as u8,
        "byte" => {
            // discriminant / header sweeps: biased to the field bytes
            let fp = fields_pos(&b);
            let pos = if fp < len && r.chance(3, 4) { r.range(fp as u64, len as u64 - 1) as usize } else { r.below(len as u64) as usize };
            let v = match r.below(4) {
                0 => (counter % 9) as u8,
                1 => 250 + (counter % 6) as u8,
                2 => b[pos] ^ (1 << r.below(8)),
                _ => r.next() as u8,
            };
            b[pos] = v;
        }
        "trunc" => {
            let cut = if r.chance(1, 2) && len > fields_pos(&b) {
                r.range(fields_pos(&b) as u64, len as u64 - 1) as usize
            } else {
                r.below(len as u64) as usize
            };
            b.truncate(cut);
            if r.chance(3, 4) {
                fix_prefix(&mut b);
            }
        }
        "trail" => {
            let n = r.range(1, 3) as usize;
            for _ in 0..n {
                b.push(*r.pick(&[0u8, 1, 255, 7]));
            }
            if r.chance(3, 4) {
                fix_prefix(&mut b);
            }
        }
        "vlen" => {
            if len >= 9 {
                let cur = u32::from_le_bytes([b[5], b[6], b[7], b[8]]);
                let v = match r.below(9) {
                    0 => 0,
                    1 => 1,
                    2 => cur.wrapping_sub(1),
                    3 => cur.wrapping_add(1),
                    4 => (len as u32).wrapping_sub(9),
                    5 => (len as u32).wrapping_sub(8),
                    6 => u32::MAX,
                    7 => cur.wrapping_add(r.range(2, 40) as u32),
                    _ => r.next() as u32,
                };
                b[5..9].copy_from_slice(&v.to_le_bytes());
            }
        }
        "insdel" => {
            let fp = fields_pos(&b).min(len.saturating_sub(1)).max(5.min(len.saturating_sub(1)));
            let pos = r.range(fp as u64, len as u64 - 1) as usize;
            if r.chance(1, 2) {
                b.insert(pos, r.next() as u8);
            } else {
                b.remove(pos);
            }
            if r.chance(9, 10) {
                fix_prefix(&mut b);
            }
        }
        "noncanon" => {
            // widen a one-byte varint at the first field position (or somewhere after it)
            let fp = fields_pos(&b);
            let pos = if r.chance(2, 3) || fp + 1 >= len { fp } else { r.range(fp as u64, len as u64 - 1) as usize };
            if pos < len {
                let x = b[pos];
                let rep: Vec<u8> = match r.below(4) {
                    0 => vec![252, x],
                    1 => vec![253, x, 0],
                    2 => vec![254, x, 0, 0],
                    _ => vec![255, x, 0, 0, 0],
                };
                b.splice(pos..pos + 1, rep);
                fix_prefix(&mut b);
            }
        }
        "random" => {
            let n = r.below(40) as usize;
            b = r.bytes(n);
            if r.chance(2, 3) && b.len() >= 5 {
                fix_prefix(&mut b);
                if r.chance(2, 3) {
                    b[4] = r.below(63) as u8;
                }
                if b.len() >= 10 && r.chance(1, 2) {
                    let vl = r.range(0, b.len() as u64 - 8) as u32;
                    b[5..9].copy_from_slice(&vl.to_le_bytes());
                }
            }
        }
        _ => {
            // splice: header of this frame, body of another
            let cut = r.range(4, len as u64) as usize;
            let ocut = r.below(other.len() as u64 + 1) as usize;
            b.truncate(cut);
            b.extend_from_slice(&other[ocut..]);
            if r.chance(3, 4) {
                fix_prefix(&mut b);
            }
        }
    }
    b
}

// ------------------------------------------------------------------ gen

struct Out {
    cases: std::io::BufWriter<std::fs::File>,
    imp: std::io::BufWriter<std::fs::File>,
    mon: std::io::BufWriter<std::fs::File>,
    classes: BTreeMap<String, u64>,
    streams: BTreeMap<String, u64>,
    kinds_ser: BTreeMap<u8, u64>,
    alts_seen: HashSet<String>,
    distinct: HashSet<u64>,
    nontrivial: u64,
    ops: u64,
    monitor_failures: u64,
    samples: Vec<String>,
    max_frame: usize,
}

fn fnv(s: &str) -> u64 {
    let mut h = 0xcbf29ce484222325u64;
    for b in s.bytes() {
        h ^= b as u64;
        h = h.wrapping_mul(0x100000001b3);
    }
    h
}

impl Out {
    fn op(&mut self, case: &str, res: &str) {
        writeln!(self.cases, "{}", case).unwrap();
        writeln!(self.imp, "{}", res).unwrap();
        self.ops += 1;
        let opname = case.split(' ').next().unwrap_or("");
        let class = if res.starts_with("!PANIC") {
            "!PANIC".to_string()
        } else if res.starts_with('!') || opname == "wf" {
            res.to_string()
        } else {
            "Ok".to_string()
        };
        *self.classes.entry(format!("{} {}", opname, class)).or_default() += 1;
    }
    fn fail(&mut self, what: &str, input: &str, detail: &str) {
        self.monitor_failures += 1;
        let inp = if input.len() > 4000 { &input[..4000] } else { input };
        writeln!(self.mon, "C08 {} input={} detail={}", what, inp.replace(' ', "_"), detail.replace('\n', " ")).unwrap();
    }
    fn note_distinct(&mut self, key: &str, nontrivial: bool) {
        if self.distinct.insert(fnv(key)) && nontrivial {
            self.nontrivial += 1;
        }
    }
}

/// discriminant signature of a message text: the `t<d>` items in order
fn alt_sig(text: &str) -> String {
    let mut s = String::new();
    let b = text.as_bytes();
    let mut i = 0;
    let first_space = text.find(' ').unwrap_or(0);
    s.push_str(&text[..first_space]);
    while i < b.len() {
        if b[i] == b't' && (i == 0 || matches!(b[i - 1], b' ' | b',' | b'(')) {
            let st = i;
            while i < b.len() && b[i] != b'(' {
                i += 1;
            }
            s.push(':');
            s.push_str(&text[st + 1..i]);
        }
        i += 1;
    }
    s
}

/// the property on the implementation alone, for a frame the implementation accepted
fn monitor_accepted(o: &mut Out, input_hex: &str, bytes: &[u8], m: &Message) {
    if bytes.len() < 5 || u32::from_le_bytes([bytes[0], bytes[1], bytes[2], bytes[3]]) as usize != bytes.len() {
        o.fail("accepted a frame whose length prefix differs from its length", input_hex, "");
    }
    if bytes.len() >= 5 && (bytes[4] >= 63 || MessageKind::try_from(bytes[4]).is_err() || u8::from(m.kind()) != bytes[4]) {
        o.fail("accepted a frame with an unknown or different kind byte", input_hex, "");
    }
    let m2 = m.clone();
    match catch(move || m2.serialize_message()) {
        Err(p) => o.fail("panic re-serializing an accepted message", input_hex, &p),
        Ok(Err(e)) => o.fail("accepted message does not re-serialize", input_hex, ser_err(e)),
        Ok(Ok(f2)) => {
            if f2.len() > bytes.len() {
                o.fail("re-serialized frame longer than the accepted one", input_hex, &hex(&f2));
            }
            let f2v = f2.to_vec();
            match catch(move || Message::deserialize_message(f2)) {
                Err(p) => o.fail("panic parsing a re-serialized frame", input_hex, &p),
                Ok(Err(e)) => o.fail("re-serialized frame is rejected", input_hex, de_err(e)),
                Ok(Ok(m3)) => {
                    if m3 != *m || m3.value().map(|v| v.to_vec()) != m.value().map(|v| v.to_vec()) {
                        o.fail("re-serialization is not a fixpoint", input_hex, &hex(&f2v));
                    }
                }
            }
        }
    }
}

fn cmd_gen(outdir: &str, n_valid: u64, n_mut: u64) {
    let seed = env_u64("VERIF_SEED", 1);
    let mut r = Rng::new(seed);
    let mk = |n: &str| std::io::BufWriter::new(std::fs::File::create(format!("{outdir}/{n}")).unwrap());
    let mut o = Out {
        cases: mk("cases.txt"),
        imp: mk("impl.txt"),
        mon: mk("monitor.txt"),
        classes: BTreeMap::new(),
        streams: BTreeMap::new(),
        kinds_ser: BTreeMap::new(),
        alts_seen: HashSet::new(),
        distinct: HashSet::new(),
        nontrivial: 0,
        ops: 0,
        monitor_failures: 0,
        samples: Vec::new(),
        max_frame: 0,
    };
    let mut prev_frame: Vec<u8> = vec![5, 0, 0, 0, 2];
    let mut big_budget = 3u32; // frames above 64 KiB per shard

    for kind in 0u8..63 {
        let mut frames: Vec<Vec<u8>> = Vec::new();
        // ---------------- valid messages: every alternative in turn ----------------
        for i in 0..n_valid.max(n_alts(kind)) {
            let has_value = MessageKind::try_from(kind).unwrap().has_value();
            let big = has_value && big_budget > 0 && ((i == 3 && kind % 8 == 3) || r.chance(1, 400));
            if big {
                big_budget -= 1;
            }
            let alt = (seed.wrapping_mul(7)).wrapping_add(i);
            let mut m = gen_msg(kind, alt, big, &mut r);
            // SerializedValue::empty() as payload: must be refused with InvalidValue
            let empty = m.value().is_some() && r.chance(1, 60);
            if empty {
                *m.value_mut().unwrap() = SerializedValue::empty();
            }
            let text = msg_text(&m, empty);
            o.alts_seen.insert(alt_sig(&text));
            *o.streams.entry("valid".into()).or_default() += 1;
            *o.kinds_ser.entry(kind).or_default() += 1;
            o.note_distinct(&text, true);
            if o.samples.len() < 4 && i == 1 && kind % 16 == 12 {
                o.samples.push(format!("ser {}", if text.len() > 300 { &text[..300] } else { &text }));
            }
            let frame_hex = do_ser(m.clone());
            o.op(&format!("ser {}", text), &frame_hex);
            o.op(&format!("wf {}", text), if frame_hex.starts_with('!') { "0" } else { "1" });
            if frame_hex.starts_with("!PANIC") {
                o.fail("panic in serialize_message", &text, &frame_hex);
                continue;
            }
            if empty {
                if frame_hex != "!InvalidValue" {
                    o.fail("empty payload not refused with InvalidValue", &text, &frame_hex);
                }
                continue;
            }
            if frame_hex.starts_with('!') {
                o.fail("a well-formed message does not serialize", &text, &frame_hex);
                continue;
            }
            let frame = unhex(&frame_hex);
            o.max_frame = o.max_frame.max(frame.len());
            // ---- monitor: prefix = length, round trip, identical payload ----
            if u32::from_le_bytes([frame[0], frame[1], frame[2], frame[3]]) as usize != frame.len() {
                o.fail("length prefix differs from the frame length", &text, &frame_hex);
            }
            let (back, parsed) = do_de(&frame);
            o.op(&format!("de {}", frame_hex), &back);
            match &parsed {
                None => o.fail("serialized frame does not parse", &text, &back),
                Some(m2) => {
                    if *m2 != m || back != text {
                        o.fail("parsed message differs from the serialized one", &text, &back);
                    }
                    if m2.value().map(|v| v.to_vec()) != m.value().map(|v| v.to_vec()) {
                        o.fail("payload changed in the round trip", &text, &back);
                    }
                    monitor_accepted(&mut o, &frame_hex, &frame, m2);
                }
            }
            // the per-type entry point agrees with the dispatching one
            let via = do_deas(kind, &frame);
            o.op(&format!("deas {} {}", kind, frame_hex), &via);
            if via != back {
                o.fail("per-type deserialize_message differs from Message::deserialize_message", &text, &via);
            }
            if i % 8 == 0 {
                let k2 = r.below(63) as u8;
                let via2 = do_deas(k2, &frame);
                o.op(&format!("deas {} {}", k2, frame_hex), &via2);
                if via2.starts_with("!PANIC") {
                    o.fail("panic in per-type deserialize_message", &frame_hex, &via2);
                }
            }
            if frame.len() < 2048 && frames.len() < 64 {
                frames.push(frame);
            } else if frame.len() < 2048 {
                let j = r.below(64) as usize;
                frames[j] = frame;
            }
        }
        if frames.is_empty() {
            continue;
        }
        // ---------------- mutated frames ----------------
        for i in 0..n_mut {
            let which = MUTATIONS[(i % MUTATIONS.len() as u64) as usize];
            let base = r.pick(&frames).clone();
            let b = mutate(which, i / MUTATIONS.len() as u64 + seed, &base, &prev_frame, &mut r);
            *o.streams.entry(which.into()).or_default() += 1;
            let h = hex(&b);
            o.note_distinct(&h, b.len() >= 5);
            if o.samples.len() < 8 && i == 7 && kind % 16 == 5 {
                o.samples.push(format!("de {}", if h.len() > 300 { &h[..300] } else { &h }));
            }
            let (res, parsed) = do_de(&b);
            o.op(&format!("de {}", h), &res);
            if res.starts_with("!PANIC") {
                o.fail("panic in Message::deserialize_message", &h, &res);
            }
            if let Some(m) = &parsed {
                monitor_accepted(&mut o, &h, &b, m);
            }
            if i % 4 == 1 {
                let k2 = if r.chance(3, 4) { kind } else { r.below(64) as u8 };
                let via = do_deas(k2, &b);
                o.op(&format!("deas {} {}", k2, h), &via);
                if via.starts_with("!PANIC") {
                    o.fail("panic in per-type deserialize_message", &h, &via);
                }
                if k2 < 63 && !via.starts_with('!') && via != res {
                    o.fail("per-type deserialize_message accepts what Message::deserialize_message does not", &h, &via);
                }
            }
        }
        prev_frame = frames[0].clone();
    }

    let mut stats = String::new();
    write!(
        stats,
        "{{\"seed\":{},\"ops\":{},\"distinct_nontrivial\":{},\"monitor_failures\":{},\"max_frame_len\":{},\"kinds_covered\":{},\"alternatives_covered\":{},",
        seed, o.ops, o.nontrivial, o.monitor_failures, o.max_frame, o.kinds_ser.len(), o.alts_seen.len()
    )
    .unwrap();
    let map = |m: &BTreeMap<String, u64>| m.iter().map(|(k, v)| format!("\"{}\":{}", k, v)).collect::<Vec<_>>().join(",");
    write!(stats, "\"streams\":{{{}}},", map(&o.streams)).unwrap();
    write!(stats, "\"result_classes\":{{{}}},", map(&o.classes)).unwrap();
    let mut alts: Vec<&String> = o.alts_seen.iter().collect();
    alts.sort();
    write!(stats, "\"alternatives\":[{}],", alts.iter().map(|s| format!("\"{}\"", s)).collect::<Vec<_>>().join(",")).unwrap();
    write!(stats, "\"samples\":[{}]}}", o.samples.iter().map(|s| format!("\"{}\"", s)).collect::<Vec<_>>().join(",")).unwrap();
    std::fs::write(format!("{outdir}/stats.json"), stats).unwrap();
}

fn main() {
    quiet_panics();
    let args: Vec<String> = std::env::args().collect();
    match args.get(1).map(String::as_str) {
        Some("gen") => cmd_gen(&args[2], args[3].parse().unwrap(), args[4].parse().unwrap()),
        Some("run") => cmd_run(&args[2], &args[3]),
        _ => {
            eprintln!("usage: msg gen <outdir> <valid-per-kind> <mutated-per-kind> | msg run <cases> <out>");
            std::process::exit(2);
        }
    }
}
