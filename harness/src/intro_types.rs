//! C20, derive-consistency stream: a fixed family of HAND-WRITTEN types deriving
//! `Serialize`/`Deserialize`/`Introspectable` with implicit, explicit and mixed ids.
//!
//! `aldrin::generate!` output always spells every id out, so the default-id rule of the derive
//! macros ("id of the previous item + 1", `macros/src/derive/{struct_data,enum_data,introspectable}.rs`)
//! is only exercised by types written by hand.  For every type of module `w` ("as written") this
//! file hands the harness (`bin/intro.rs`, `derive_stream`)
//!   * the type's `DynIntrospectable` and `TypeId::compute::<T>()` (what the Introspectable derive says),
//!   * WIRE probes made with the derived `Serialize` alone: for a struct one value with every
//!     optional field set plus, per declared field in declaration order, the generic `Value` of
//!     that field's (pairwise distinct) content; for an enum one serialized value per declared
//!     variant in declaration order; for a newtype the value and its inner value,
//!   * `redecode`: derived `Deserialize` followed by derived `Serialize` (None = rejected).
//! Field/variant NAMES and the fallback name are written down here by hand (the wire has no names).
//!
//! Module `x` holds the "explicit-id twins" (same schema, names and member types, every id
//! spelled out = the id the documented rule assigns), module `p` the "position twins" (every id
//! spelled out = the declaration position), module `q` the "position-as-default twins" (explicit
//! ids as written, the others = the declaration position) of the types whose ids are mixed.  Only
//! types that are mixed themselves live in `x`/`p`/`q`, and they only refer to types of their own
//! module.
#![allow(dead_code, non_camel_case_types, clippy::all)]

use aldrin::core::introspection::{DynIntrospectable, Introspectable, LexicalId};
use aldrin::core::tags::{PrimaryTag as PrimaryTagT, Tag as TagT};
use aldrin::core::{Deserialize as DeT, Serialize as SerT, SerializePrimary, SerializedValue, TypeId, Value};

pub mod reexp {
    pub use aldrin::core as ac;
}

/// the usual header of a hand-written Aldrin type
macro_rules! dv {
    ($($item:item)*) => { $(
        #[derive(Debug, Clone, PartialEq, Tag, PrimaryTag, RefType, Serialize, Deserialize, Introspectable)]
        #[aldrin(schema = "dv", ref_type)]
        $item
    )* };
}

// ------------------------------------------------------------------ as written

pub mod w {
    use aldrin::core::{Bytes, UnknownFields, UnknownVariant};
    use aldrin::{Deserialize, Introspectable, PrimaryTag, RefType, Serialize, Tag};
    use std::collections::{HashMap, HashSet};
    use uuid::Uuid;

    dv! {
        // ---- structs, ids all implicit / all explicit
        pub struct SImplicit { pub a: u8, pub b: String, pub c: bool }                         // 0 1 2
        pub struct SExplicit {
            #[aldrin(id = 1)] pub a: u8,
            #[aldrin(id = 2)] pub b: String,
            #[aldrin(id = 70000)] pub c: bool,
        }
        /// explicit ids that happen to be the positions, out of order in the source
        pub struct SExplicitPos {
            #[aldrin(id = 0)] pub a: i64,
            #[aldrin(id = 1)] pub b: f64,
            #[aldrin(id = 2)] pub c: Uuid,
        }

        // ---- structs, mixed
        /// the example of the `id` attribute in the documentation of aldrin-macros
        pub struct SMixed {
            pub age: u8,                                   // 0
            #[aldrin(id = 5)] pub name: String,            // 5
            pub siblings: Vec<Self>,                       // 6
        }
        pub struct SGap {
            #[aldrin(id = 3)] pub a: u16,                  // 3
            pub b: u16,                                    // 4
            #[aldrin(id = 10)] pub c: u16,                 // 10
            pub d: u16,                                    // 11
        }
        pub struct SDesc {
            #[aldrin(id = 9)] pub a: i32,                  // 9
            #[aldrin(id = 3)] pub b: i32,                  // 3
            pub c: i32,                                    // 4
        }
        pub struct SZero {
            #[aldrin(id = 7)] pub a: u32,                  // 7
            #[aldrin(id = 0)] pub b: u32,                  // 0
            pub c: u32,                                    // 1
        }
        pub struct SLarge {
            #[aldrin(id = 4294967294)] pub a: u64,         // u32::MAX - 1
            pub b: u64,                                    // u32::MAX
        }
        pub struct SWrap {
            #[aldrin(id = 4294967295)] pub a: u64,         // u32::MAX
            pub b: u64,                                    // wraps to 0
        }
        /// first field explicit and shifted by one: positions collide with the explicit id
        pub struct SShift {
            #[aldrin(id = 1)] pub a: i8,                   // 1
            pub b: i16,                                    // 2
        }
        pub struct SLate {
            pub a: u8, pub b: u8, pub c: u8,               // 0 1 2
            #[aldrin(id = 1000)] pub d: u8,                // 1000
            #[aldrin(id = 3)] pub e: u8,                   // 3
            pub f: u8,                                     // 4
        }

        // ---- optional fields
        /// the example of the `optional` attribute in the documentation of aldrin-macros
        pub struct SOpt {
            pub required_field_1: i32,
            pub required_field_2: Option<i32>,
            #[aldrin(optional)] pub optional_field: Option<i32>,
        }
        pub struct SOptMixed {
            #[aldrin(id = 2, optional)] pub a: Option<String>,     // 2
            pub b: u8,                                             // 3
            #[aldrin(optional)] pub c: Option<Vec<u8>>,            // 4
            #[aldrin(id = 1)] pub d: bool,                         // 1
        }
        pub struct SOptSplit {
            #[aldrin(id = 6)]
            #[aldrin(optional)]
            pub a: Option<u64>,                                    // 6
            #[aldrin(optional)]
            #[aldrin(id = 2)]
            pub b: Option<Bytes>,                                  // 2
            #[aldrin(optional)] pub c: Option<Option<u8>>,         // 3
        }

        // ---- fallback field
        /// the example of the `fallback` attribute in the documentation of aldrin-macros
        pub struct SFallback {
            pub name: String,
            pub age: u8,
            #[aldrin(fallback)] pub unknown_fields: UnknownFields,
        }
        pub struct SFallbackMixed {
            #[aldrin(id = 4)] pub a: u32,                          // 4
            pub b: u32,                                            // 5
            #[aldrin(optional)] pub c: Option<u32>,                // 6
            #[aldrin(fallback)] pub rest: UnknownFields,
        }
        pub struct SOnlyFb { #[aldrin(fallback)] pub unknown: UnknownFields }

        // ---- tuple structs, unit struct, empty structs
        pub struct STuple(pub u32, #[aldrin(id = 2, optional)] pub Option<String>);       // field0 @ 0, field1 @ 2
        pub struct STupleFb(pub u32, #[aldrin(id = 5)] pub u8, pub i16, #[aldrin(fallback)] pub UnknownFields); // 0 5 6
        pub struct SUnit;
        pub struct SEmpty {}
        pub struct SEmptyTuple();

        // ---- nested types and the std "generics"
        pub struct SNested {
            pub inner: SMixed,                                     // 0
            #[aldrin(id = 3)] pub pet: Pet,                        // 3
            pub list: Vec<SOpt>,                                   // 4
            pub map: HashMap<u32, EPayload>,                       // 5
            #[aldrin(id = 100, optional)] pub next: Option<Box<SNested>>,  // 100
            pub res: Result<SGap, EDesc>,                          // 101
            pub arr: [u8; 3],                                      // 102
            pub set: HashSet<String>,                              // 103
            #[aldrin(id = 8)] pub nt: NTuple,                      // 8
            pub unit: (),                                          // 9
        }

        // ---- raw identifiers (the only renaming the derive does: `r#` is dropped)
        pub struct r#struct {
            pub r#if: u32,                                         // "if" @ 0
            #[aldrin(id = 4, optional)] pub r#else: Option<u32>,   // "else" @ 4
            pub r#type: i8,                                        // "type" @ 5
        }

        // ---- enums, ids all implicit / all explicit
        pub enum EImplicit { A, B, C }
        pub enum EExplicit {
            #[aldrin(id = 1)] A,
            #[aldrin(id = 2)] B(u8),
            #[aldrin(id = 70000)] C,
        }
        pub enum EExplicitPos {
            #[aldrin(id = 0)] A(String),
            #[aldrin(id = 1)] B,
        }

        // ---- enums, mixed
        /// the example of the `id` attribute in the documentation of aldrin-macros
        pub enum Pet {
            Dog,                                           // 0
            #[aldrin(id = 5)] Cat,                         // 5
            Alpaca,                                        // 6
        }
        pub enum EGap {
            #[aldrin(id = 3)] A,                           // 3
            B(String),                                     // 4
            #[aldrin(id = 10)] C,                          // 10
            D(u8),                                         // 11
        }
        pub enum EDesc {
            #[aldrin(id = 9)] A,                           // 9
            #[aldrin(id = 3)] B,                           // 3
            C,                                             // 4
        }
        pub enum EZero {
            #[aldrin(id = 7)] A,                           // 7
            #[aldrin(id = 0)] B,                           // 0
            C,                                             // 1
        }
        pub enum ELarge {
            #[aldrin(id = 4294967294)] A,                  // u32::MAX - 1
            B(u8),                                         // u32::MAX
        }
        pub enum EWrap {
            #[aldrin(id = 4294967295)] Max,                // u32::MAX
            Zero,                                          // wraps to 0
        }
        pub enum EShift {
            #[aldrin(id = 1)] A,                           // 1
            B,                                             // 2
        }
        pub enum ELate {
            A, B, C,                                       // 0 1 2
            #[aldrin(id = 1000)] D,                        // 1000
            #[aldrin(id = 3)] E,                           // 3
            F,                                             // 4
        }

        // ---- fallback variant
        /// the example of the `fallback` attribute in the documentation of aldrin-macros
        pub enum EFallback {
            Alpaca,
            Pig,
            #[aldrin(fallback)] Unkown(UnknownVariant),
        }
        pub enum EFallbackMixed {
            #[aldrin(id = 2)] A,                           // 2
            B(u32),                                        // 3
            #[aldrin(fallback)] Other(UnknownVariant),
        }
        pub enum EOnlyFb { #[aldrin(fallback)] Unknown(UnknownVariant) }
        pub enum EEmpty {}

        // ---- the variant shapes the derive accepts: unit, empty tuple, one-element tuple
        pub enum EKinds {
            Unit,                                          // 0
            Empty(),                                       // 1
            New(u32),                                      // 2
            #[aldrin(id = 8)] Str(String),                 // 8
            Opt(Option<u8>),                               // 9
            Rec(Box<Self>),                                // 10
        }
        pub enum EPayload {
            #[aldrin(id = 1)] S(SMixed),                   // 1
            V(Vec<Pet>),                                   // 2
            #[aldrin(id = 1000)] M(HashMap<String, u8>),   // 1000
            U,                                             // 1001
        }
        pub enum r#enum {
            r#if,                                          // "if" @ 0
            #[aldrin(id = 3)] r#else(u32),                 // "else" @ 3
            r#match,                                       // "match" @ 4
        }
    }

    // ---- container attributes written out: docs, `doc =`, `crate =`, a named ref type, newtypes

    /// A documented struct.
    #[derive(Debug, Clone, PartialEq, Tag, PrimaryTag, RefType, Serialize, Deserialize, Introspectable)]
    #[aldrin(schema = "dv", ref_type = SDocBorrowed)]
    #[aldrin(doc = "Introspection sees this text.")]
    #[aldrin(crate = crate::intro_types::reexp::ac)]
    pub struct SDoc {
        /// The first field.
        pub first: u8,                                             // 0
        /// The second one.
        #[aldrin(id = 4, doc = "Second.")]
        pub second: String,                                        // 4
        #[aldrin(doc = "Third.")]
        #[aldrin(optional)]
        pub third: Option<u8>,                                     // 5
    }

    /// A documented enum.
    #[derive(Debug, Clone, PartialEq, Tag, PrimaryTag, RefType, Serialize, Deserialize, Introspectable)]
    #[aldrin(crate = crate::intro_types::reexp::ac, schema = "dv", ref_type = EDocBorrowed)]
    pub enum EDoc {
        /// Nothing.
        Nothing,                                                   // 0
        /// Something.
        #[aldrin(doc = "Some thing.")]
        #[aldrin(id = 4)]
        Something(SDoc),                                           // 4
        #[aldrin(doc = "More.")]
        More(Vec<EDoc>),                                           // 5
    }

    #[derive(Debug, Clone, PartialEq, Tag, PrimaryTag, RefType, Serialize, Deserialize, Introspectable)]
    #[aldrin(schema = "dv", newtype, ref_type)]
    pub struct NString { pub inner: String }

    #[derive(Debug, Clone, PartialEq, Tag, PrimaryTag, RefType, Serialize, Deserialize, Introspectable)]
    #[aldrin(schema = "dv", newtype, ref_type)]
    pub struct NTuple(pub u32);

    #[derive(Debug, Clone, PartialEq, Tag, PrimaryTag, RefType, Serialize, Deserialize, Introspectable)]
    #[aldrin(schema = "dv", newtype, ref_type)]
    pub struct NNested(#[aldrin(id = 9)] pub SMixed);
}

// ------------------------------------------------------------------ explicit-id twins

pub mod x {
    use aldrin::core::{UnknownFields, UnknownVariant};
    use aldrin::{Deserialize, Introspectable, PrimaryTag, RefType, Serialize, Tag};
    use std::collections::HashMap;

    dv! {
        pub struct SMixed {
            #[aldrin(id = 0)] pub age: u8,
            #[aldrin(id = 5)] pub name: String,
            #[aldrin(id = 6)] pub siblings: Vec<Self>,
        }
        pub struct SGap {
            #[aldrin(id = 3)] pub a: u16,
            #[aldrin(id = 4)] pub b: u16,
            #[aldrin(id = 10)] pub c: u16,
            #[aldrin(id = 11)] pub d: u16,
        }
        pub struct SDesc {
            #[aldrin(id = 9)] pub a: i32,
            #[aldrin(id = 3)] pub b: i32,
            #[aldrin(id = 4)] pub c: i32,
        }
        pub struct SZero {
            #[aldrin(id = 7)] pub a: u32,
            #[aldrin(id = 0)] pub b: u32,
            #[aldrin(id = 1)] pub c: u32,
        }
        pub struct SWrap {
            #[aldrin(id = 4294967295)] pub a: u64,
            #[aldrin(id = 0)] pub b: u64,
        }
        pub struct SShift {
            #[aldrin(id = 1)] pub a: i8,
            #[aldrin(id = 2)] pub b: i16,
        }
        pub struct SLate {
            #[aldrin(id = 0)] pub a: u8,
            #[aldrin(id = 1)] pub b: u8,
            #[aldrin(id = 2)] pub c: u8,
            #[aldrin(id = 1000)] pub d: u8,
            #[aldrin(id = 3)] pub e: u8,
            #[aldrin(id = 4)] pub f: u8,
        }
        pub struct SOptMixed {
            #[aldrin(id = 2, optional)] pub a: Option<String>,
            #[aldrin(id = 3)] pub b: u8,
            #[aldrin(id = 4, optional)] pub c: Option<Vec<u8>>,
            #[aldrin(id = 1)] pub d: bool,
        }
        pub struct SFallbackMixed {
            #[aldrin(id = 4)] pub a: u32,
            #[aldrin(id = 5)] pub b: u32,
            #[aldrin(id = 6, optional)] pub c: Option<u32>,
            #[aldrin(fallback)] pub rest: UnknownFields,
        }
        pub struct STupleFb(
            #[aldrin(id = 0)] pub u32,
            #[aldrin(id = 5)] pub u8,
            #[aldrin(id = 6)] pub i16,
            #[aldrin(fallback)] pub UnknownFields,
        );

        pub enum Pet {
            #[aldrin(id = 0)] Dog,
            #[aldrin(id = 5)] Cat,
            #[aldrin(id = 6)] Alpaca,
        }
        pub enum EGap {
            #[aldrin(id = 3)] A,
            #[aldrin(id = 4)] B(String),
            #[aldrin(id = 10)] C,
            #[aldrin(id = 11)] D(u8),
        }
        pub enum EDesc {
            #[aldrin(id = 9)] A,
            #[aldrin(id = 3)] B,
            #[aldrin(id = 4)] C,
        }
        pub enum EZero {
            #[aldrin(id = 7)] A,
            #[aldrin(id = 0)] B,
            #[aldrin(id = 1)] C,
        }
        pub enum EWrap {
            #[aldrin(id = 4294967295)] Max,
            #[aldrin(id = 0)] Zero,
        }
        pub enum EShift {
            #[aldrin(id = 1)] A,
            #[aldrin(id = 2)] B,
        }
        pub enum ELate {
            #[aldrin(id = 0)] A,
            #[aldrin(id = 1)] B,
            #[aldrin(id = 2)] C,
            #[aldrin(id = 1000)] D,
            #[aldrin(id = 3)] E,
            #[aldrin(id = 4)] F,
        }
        pub enum EFallbackMixed {
            #[aldrin(id = 2)] A,
            #[aldrin(id = 3)] B(u32),
            #[aldrin(fallback)] Other(UnknownVariant),
        }
        pub enum EKinds {
            #[aldrin(id = 0)] Unit,
            #[aldrin(id = 1)] Empty(),
            #[aldrin(id = 2)] New(u32),
            #[aldrin(id = 8)] Str(String),
            #[aldrin(id = 9)] Opt(Option<u8>),
            #[aldrin(id = 10)] Rec(Box<Self>),
        }
        pub enum EPayload {
            #[aldrin(id = 1)] S(SMixed),
            #[aldrin(id = 2)] V(Vec<Pet>),
            #[aldrin(id = 1000)] M(HashMap<String, u8>),
            #[aldrin(id = 1001)] U,
        }
    }
}

// ------------------------------------------------------------------ position twins

pub mod p {
    use aldrin::core::{UnknownFields, UnknownVariant};
    use aldrin::{Deserialize, Introspectable, PrimaryTag, RefType, Serialize, Tag};
    use std::collections::HashMap;

    dv! {
        pub struct SMixed {
            #[aldrin(id = 0)] pub age: u8,
            #[aldrin(id = 1)] pub name: String,
            #[aldrin(id = 2)] pub siblings: Vec<Self>,
        }
        pub struct SGap {
            #[aldrin(id = 0)] pub a: u16,
            #[aldrin(id = 1)] pub b: u16,
            #[aldrin(id = 2)] pub c: u16,
            #[aldrin(id = 3)] pub d: u16,
        }
        pub struct SDesc {
            #[aldrin(id = 0)] pub a: i32,
            #[aldrin(id = 1)] pub b: i32,
            #[aldrin(id = 2)] pub c: i32,
        }
        pub struct SZero {
            #[aldrin(id = 0)] pub a: u32,
            #[aldrin(id = 1)] pub b: u32,
            #[aldrin(id = 2)] pub c: u32,
        }
        pub struct SWrap {
            #[aldrin(id = 0)] pub a: u64,
            #[aldrin(id = 1)] pub b: u64,
        }
        pub struct SShift {
            #[aldrin(id = 0)] pub a: i8,
            #[aldrin(id = 1)] pub b: i16,
        }
        pub struct SLate {
            #[aldrin(id = 0)] pub a: u8,
            #[aldrin(id = 1)] pub b: u8,
            #[aldrin(id = 2)] pub c: u8,
            #[aldrin(id = 3)] pub d: u8,
            #[aldrin(id = 4)] pub e: u8,
            #[aldrin(id = 5)] pub f: u8,
        }
        pub struct SOptMixed {
            #[aldrin(id = 0, optional)] pub a: Option<String>,
            #[aldrin(id = 1)] pub b: u8,
            #[aldrin(id = 2, optional)] pub c: Option<Vec<u8>>,
            #[aldrin(id = 3)] pub d: bool,
        }
        pub struct SFallbackMixed {
            #[aldrin(id = 0)] pub a: u32,
            #[aldrin(id = 1)] pub b: u32,
            #[aldrin(id = 2, optional)] pub c: Option<u32>,
            #[aldrin(fallback)] pub rest: UnknownFields,
        }
        pub struct STupleFb(
            #[aldrin(id = 0)] pub u32,
            #[aldrin(id = 1)] pub u8,
            #[aldrin(id = 2)] pub i16,
            #[aldrin(fallback)] pub UnknownFields,
        );

        pub enum Pet {
            #[aldrin(id = 0)] Dog,
            #[aldrin(id = 1)] Cat,
            #[aldrin(id = 2)] Alpaca,
        }
        pub enum EGap {
            #[aldrin(id = 0)] A,
            #[aldrin(id = 1)] B(String),
            #[aldrin(id = 2)] C,
            #[aldrin(id = 3)] D(u8),
        }
        pub enum EDesc {
            #[aldrin(id = 0)] A,
            #[aldrin(id = 1)] B,
            #[aldrin(id = 2)] C,
        }
        pub enum EZero {
            #[aldrin(id = 0)] A,
            #[aldrin(id = 1)] B,
            #[aldrin(id = 2)] C,
        }
        pub enum EWrap {
            #[aldrin(id = 0)] Max,
            #[aldrin(id = 1)] Zero,
        }
        pub enum EShift {
            #[aldrin(id = 0)] A,
            #[aldrin(id = 1)] B,
        }
        pub enum ELate {
            #[aldrin(id = 0)] A,
            #[aldrin(id = 1)] B,
            #[aldrin(id = 2)] C,
            #[aldrin(id = 3)] D,
            #[aldrin(id = 4)] E,
            #[aldrin(id = 5)] F,
        }
        pub enum EFallbackMixed {
            #[aldrin(id = 0)] A,
            #[aldrin(id = 1)] B(u32),
            #[aldrin(fallback)] Other(UnknownVariant),
        }
        pub enum EKinds {
            #[aldrin(id = 0)] Unit,
            #[aldrin(id = 1)] Empty(),
            #[aldrin(id = 2)] New(u32),
            #[aldrin(id = 3)] Str(String),
            #[aldrin(id = 4)] Opt(Option<u8>),
            #[aldrin(id = 5)] Rec(Box<Self>),
        }
        pub enum EPayload {
            #[aldrin(id = 0)] S(SMixed),
            #[aldrin(id = 1)] V(Vec<Pet>),
            #[aldrin(id = 2)] M(HashMap<String, u8>),
            #[aldrin(id = 3)] U,
        }
    }
}

// ------------------------------------------------------------------ "position as the default" twins

/// what a derive would produce whose DEFAULT id is the declaration position (explicit ids as
/// written in `w`, every other id = position); where that rule would assign an id twice
/// (`SGap`, `SShift`, `SOptMixed`, `EGap`, `EShift`, `EPayload`) the type is the one of `p`
pub mod q {
    use aldrin::core::{UnknownFields, UnknownVariant};
    use aldrin::{Deserialize, Introspectable, PrimaryTag, RefType, Serialize, Tag};
    use std::collections::HashMap;

    dv! {
        pub struct SMixed {
            #[aldrin(id = 0)] pub age: u8,
            #[aldrin(id = 5)] pub name: String,
            #[aldrin(id = 2)] pub siblings: Vec<Self>,
        }
        pub struct SGap {
            #[aldrin(id = 0)] pub a: u16,
            #[aldrin(id = 1)] pub b: u16,
            #[aldrin(id = 2)] pub c: u16,
            #[aldrin(id = 3)] pub d: u16,
        }
        pub struct SDesc {
            #[aldrin(id = 9)] pub a: i32,
            #[aldrin(id = 3)] pub b: i32,
            #[aldrin(id = 2)] pub c: i32,
        }
        pub struct SZero {
            #[aldrin(id = 7)] pub a: u32,
            #[aldrin(id = 0)] pub b: u32,
            #[aldrin(id = 2)] pub c: u32,
        }
        pub struct SWrap {
            #[aldrin(id = 4294967295)] pub a: u64,
            #[aldrin(id = 1)] pub b: u64,
        }
        pub struct SShift {
            #[aldrin(id = 0)] pub a: i8,
            #[aldrin(id = 1)] pub b: i16,
        }
        pub struct SLate {
            #[aldrin(id = 0)] pub a: u8,
            #[aldrin(id = 1)] pub b: u8,
            #[aldrin(id = 2)] pub c: u8,
            #[aldrin(id = 1000)] pub d: u8,
            #[aldrin(id = 3)] pub e: u8,
            #[aldrin(id = 5)] pub f: u8,
        }
        pub struct SOptMixed {
            #[aldrin(id = 0, optional)] pub a: Option<String>,
            #[aldrin(id = 1)] pub b: u8,
            #[aldrin(id = 2, optional)] pub c: Option<Vec<u8>>,
            #[aldrin(id = 3)] pub d: bool,
        }
        pub struct SFallbackMixed {
            #[aldrin(id = 4)] pub a: u32,
            #[aldrin(id = 1)] pub b: u32,
            #[aldrin(id = 2, optional)] pub c: Option<u32>,
            #[aldrin(fallback)] pub rest: UnknownFields,
        }
        pub struct STupleFb(
            #[aldrin(id = 0)] pub u32,
            #[aldrin(id = 5)] pub u8,
            #[aldrin(id = 2)] pub i16,
            #[aldrin(fallback)] pub UnknownFields,
        );

        pub enum Pet {
            #[aldrin(id = 0)] Dog,
            #[aldrin(id = 5)] Cat,
            #[aldrin(id = 2)] Alpaca,
        }
        pub enum EGap {
            #[aldrin(id = 0)] A,
            #[aldrin(id = 1)] B(String),
            #[aldrin(id = 2)] C,
            #[aldrin(id = 3)] D(u8),
        }
        pub enum EDesc {
            #[aldrin(id = 9)] A,
            #[aldrin(id = 3)] B,
            #[aldrin(id = 2)] C,
        }
        pub enum EZero {
            #[aldrin(id = 7)] A,
            #[aldrin(id = 0)] B,
            #[aldrin(id = 2)] C,
        }
        pub enum EWrap {
            #[aldrin(id = 4294967295)] Max,
            #[aldrin(id = 1)] Zero,
        }
        pub enum EShift {
            #[aldrin(id = 0)] A,
            #[aldrin(id = 1)] B,
        }
        pub enum ELate {
            #[aldrin(id = 0)] A,
            #[aldrin(id = 1)] B,
            #[aldrin(id = 2)] C,
            #[aldrin(id = 1000)] D,
            #[aldrin(id = 3)] E,
            #[aldrin(id = 5)] F,
        }
        pub enum EFallbackMixed {
            #[aldrin(id = 2)] A,
            #[aldrin(id = 1)] B(u32),
            #[aldrin(fallback)] Other(UnknownVariant),
        }
        pub enum EKinds {
            #[aldrin(id = 0)] Unit,
            #[aldrin(id = 1)] Empty(),
            #[aldrin(id = 2)] New(u32),
            #[aldrin(id = 8)] Str(String),
            #[aldrin(id = 4)] Opt(Option<u8>),
            #[aldrin(id = 5)] Rec(Box<Self>),
        }
        pub enum EPayload {
            #[aldrin(id = 0)] S(SMixed),
            #[aldrin(id = 1)] V(Vec<Pet>),
            #[aldrin(id = 2)] M(HashMap<String, u8>),
            #[aldrin(id = 3)] U,
        }
    }
}

// ------------------------------------------------------------------ probes

pub enum Probe {
    /// `full`: a value with every optional field set, serialized by the derived `Serialize`
    /// (owned and through `&T`); `fields`: declared name and generic content, declaration order
    Struct { full: SerializedValue, by_ref: SerializedValue, fields: Vec<(&'static str, Value)>, fallback: Option<&'static str> },
    /// one serialized value per declared (non-fallback) variant, declaration order
    Enum { variants: Vec<(&'static str, SerializedValue, SerializedValue)>, fallback: Option<&'static str> },
    /// `#[aldrin(newtype)]`: the value, the same by reference, its field serialized on its own
    Newtype { value: SerializedValue, by_ref: SerializedValue, inner: Value, target: LexicalId },
}

pub struct Typed {
    pub dy: DynIntrospectable,
    /// `TypeId::compute::<T>()`
    pub tid: TypeId,
    pub probe: Probe,
    /// derived `Deserialize`, then derived `Serialize`
    pub redecode: fn(&SerializedValue) -> Option<SerializedValue>,
}

/// `x`: the explicit-id twin (same wire layout); `p`: the position twin; `q`: the
/// position-as-default twin (both: different wire layouts)
pub struct Case { pub name: &'static str, pub w: Typed, pub x: Option<Typed>, pub p: Option<Typed>, pub q: Option<Typed> }

fn redecode<T>(s: &SerializedValue) -> Option<SerializedValue>
where T: PrimaryTagT + SerT<T::Tag> + DeT<T::Tag> {
    s.deserialize::<T>().ok().and_then(|t| SerializedValue::serialize(t).ok())
}

/// the generic `Value` a field's content has on the wire when serialized on its own
pub fn val<T: SerializePrimary>(t: T) -> Value {
    SerializedValue::serialize(t).expect("field serializes").deserialize_as_value().expect("field decodes as Value")
}

fn typed<T>(probe: Probe) -> Typed
where T: Introspectable + PrimaryTagT + SerT<T::Tag> + DeT<T::Tag> {
    Typed { dy: DynIntrospectable::new::<T>(), tid: TypeId::compute::<T>(), probe, redecode: redecode::<T> }
}

fn st<T>(v: T, fields: Vec<(&'static str, Value)>, fallback: Option<&'static str>) -> Typed
where T: Introspectable + PrimaryTagT + SerT<T::Tag> + DeT<T::Tag>, T::Tag: TagT, for<'a> &'a T: SerT<T::Tag> {
    let by_ref = SerializedValue::serialize_as::<T::Tag>(&v).expect("&struct serializes");
    let full = SerializedValue::serialize(v).expect("struct serializes");
    typed::<T>(Probe::Struct { full, by_ref, fields, fallback })
}

fn en<T>(variants: Vec<(&'static str, T)>, fallback: Option<&'static str>) -> Typed
where T: Introspectable + PrimaryTagT + SerT<T::Tag> + DeT<T::Tag>, T::Tag: TagT, for<'a> &'a T: SerT<T::Tag> {
    let variants = variants.into_iter().map(|(n, v)| {
        let by_ref = SerializedValue::serialize_as::<T::Tag>(&v).expect("&variant serializes");
        (n, SerializedValue::serialize(v).expect("variant serializes"), by_ref)
    }).collect();
    typed::<T>(Probe::Enum { variants, fallback })
}

fn nt<T, I>(v: T, inner: I) -> Typed
where T: Introspectable + PrimaryTagT + SerT<T::Tag> + DeT<T::Tag>, T::Tag: TagT, for<'a> &'a T: SerT<T::Tag>,
      I: Introspectable + SerializePrimary {
    let by_ref = SerializedValue::serialize_as::<T::Tag>(&v).expect("&newtype serializes");
    let value = SerializedValue::serialize(v).expect("newtype serializes");
    typed::<T>(Probe::Newtype { value, by_ref, inner: val(inner), target: I::lexical_id() })
}

/// struct probe: `fields!(v; a b c)` = declared names with the content of `v.a`, `v.b`, `v.c`
macro_rules! fields {
    ($v:ident; $($f:tt $(as $n:literal)?),* $(,)?) => { vec![$( (fields!(@name $f $($n)?), val($v.$f.clone())) ),*] };
    (@name $f:tt $n:literal) => { $n };
    (@name $f:tt) => { stringify!($f) };
}

/// the mixed types exist three times (`w`, `x`, `p`); their probes are written once over the module
macro_rules! mixed {
    ($m:ident) => {{
        #[allow(unused_imports)]
        use $m::*;
        let smixed = |age: u8, name: &str| SMixed { age, name: name.to_string(), siblings: vec![SMixed { age: 99, name: "kid".into(), siblings: vec![] }] };
        let mut out: Vec<(&'static str, Typed)> = vec![];
        { let v = smixed(41, "Ann"); let f = fields!(v; age, name, siblings); out.push(("SMixed", st(v, f, None))); }
        { let v = SGap { a: 11, b: 12, c: 13, d: 14 }; let f = fields!(v; a, b, c, d); out.push(("SGap", st(v, f, None))); }
        { let v = SDesc { a: -1, b: -2, c: -3 }; let f = fields!(v; a, b, c); out.push(("SDesc", st(v, f, None))); }
        { let v = SZero { a: 70, b: 71, c: 72 }; let f = fields!(v; a, b, c); out.push(("SZero", st(v, f, None))); }
        { let v = SWrap { a: 1 << 40, b: 2 << 40 }; let f = fields!(v; a, b); out.push(("SWrap", st(v, f, None))); }
        { let v = SShift { a: -5, b: -600 }; let f = fields!(v; a, b); out.push(("SShift", st(v, f, None))); }
        { let v = SLate { a: 1, b: 2, c: 3, d: 4, e: 5, f: 6 }; let f = fields!(v; a, b, c, d, e, f); out.push(("SLate", st(v, f, None))); }
        { let v = SOptMixed { a: Some("opt".into()), b: 3, c: Some(vec![1, 2]), d: true }; let f = fields!(v; a, b, c, d); out.push(("SOptMixed", st(v, f, None))); }
        { let v = SFallbackMixed { a: 40, b: 50, c: Some(60), rest: Default::default() }; let f = fields!(v; a, b, c); out.push(("SFallbackMixed", st(v, f, Some("rest")))); }
        { let v = STupleFb(1000, 5, -6, Default::default()); let f = fields!(v; 0 as "field0", 1 as "field1", 2 as "field2"); out.push(("STupleFb", st(v, f, Some("fallback")))); }
        out.push(("Pet", en(vec![("Dog", Pet::Dog), ("Cat", Pet::Cat), ("Alpaca", Pet::Alpaca)], None)));
        out.push(("EGap", en(vec![("A", EGap::A), ("B", EGap::B("b".into())), ("C", EGap::C), ("D", EGap::D(4))], None)));
        out.push(("EDesc", en(vec![("A", EDesc::A), ("B", EDesc::B), ("C", EDesc::C)], None)));
        out.push(("EZero", en(vec![("A", EZero::A), ("B", EZero::B), ("C", EZero::C)], None)));
        out.push(("EWrap", en(vec![("Max", EWrap::Max), ("Zero", EWrap::Zero)], None)));
        out.push(("EShift", en(vec![("A", EShift::A), ("B", EShift::B)], None)));
        out.push(("ELate", en(vec![("A", ELate::A), ("B", ELate::B), ("C", ELate::C), ("D", ELate::D), ("E", ELate::E), ("F", ELate::F)], None)));
        out.push(("EFallbackMixed", en(vec![("A", EFallbackMixed::A), ("B", EFallbackMixed::B(7))], Some("Other"))));
        out.push(("EKinds", en(vec![("Unit", EKinds::Unit), ("Empty", EKinds::Empty()), ("New", EKinds::New(2)), ("Str", EKinds::Str("s".into())),
            ("Opt", EKinds::Opt(Some(9))), ("Rec", EKinds::Rec(Box::new(EKinds::New(3))))], None)));
        out.push(("EPayload", en(vec![("S", EPayload::S(smixed(7, "p"))), ("V", EPayload::V(vec![Pet::Alpaca, Pet::Dog])),
            ("M", EPayload::M([("k".to_string(), 1u8)].into_iter().collect())), ("U", EPayload::U)], None)));
        out
    }};
}

/// every case of the family; construction runs derived code only (`Serialize`, `Introspectable`)
pub fn cases() -> Vec<Case> {
    use w::*;
    let mut out: Vec<Case> = vec![];
    let (mw, mx, mp, mq) = (mixed!(w), mixed!(x), mixed!(p), mixed!(q));
    for ((((name, tw), (nx, tx)), (np, tp)), (nq, tq)) in mw.into_iter().zip(mx).zip(mp).zip(mq) {
        assert!(name == nx && name == np && name == nq, "harness: twin lists out of step");
        out.push(Case { name, w: tw, x: Some(tx), p: Some(tp), q: Some(tq) });
    }
    let mut plain = |name: &'static str, t: Typed| out.push(Case { name, w: t, x: None, p: None, q: None });
    let smixed = SMixed { age: 8, name: "Bob".into(), siblings: vec![] };

    { let v = SImplicit { a: 1, b: "two".into(), c: true }; let f = fields!(v; a, b, c); plain("SImplicit", st(v, f, None)); }
    { let v = SExplicit { a: 1, b: "two".into(), c: true }; let f = fields!(v; a, b, c); plain("SExplicit", st(v, f, None)); }
    { let v = SExplicitPos { a: -7, b: 2.5, c: uuid::Uuid::from_u128(77) }; let f = fields!(v; a, b, c); plain("SExplicitPos", st(v, f, None)); }
    { let v = SLarge { a: 5, b: 6 }; let f = fields!(v; a, b); plain("SLarge", st(v, f, None)); }
    { let v = SOpt { required_field_1: 1, required_field_2: Some(2), optional_field: Some(3) };
      let f = fields!(v; required_field_1, required_field_2, optional_field); plain("SOpt", st(v, f, None)); }
    { let v = SOptSplit { a: Some(6), b: Some(aldrin::core::Bytes::from(vec![2u8, 2])), c: Some(Some(3)) }; let f = fields!(v; a, b, c); plain("SOptSplit", st(v, f, None)); }
    { let v = SFallback { name: "n".into(), age: 30, unknown_fields: Default::default() }; let f = fields!(v; name, age); plain("SFallback", st(v, f, Some("unknown_fields"))); }
    plain("SOnlyFb", st(SOnlyFb { unknown: Default::default() }, vec![], Some("unknown")));
    { let v = STuple(17, Some("t".into())); let f = fields!(v; 0 as "field0", 1 as "field1"); plain("STuple", st(v, f, None)); }
    plain("SUnit", st(SUnit, vec![], None));
    plain("SEmpty", st(SEmpty {}, vec![], None));
    plain("SEmptyTuple", st(SEmptyTuple(), vec![], None));
    { let v = SNested {
          inner: smixed.clone(), pet: Pet::Cat, list: vec![SOpt { required_field_1: 1, required_field_2: None, optional_field: None }],
          map: [(4u32, EPayload::U)].into_iter().collect(),
          next: Some(Box::new(SNested { inner: smixed.clone(), pet: Pet::Dog, list: vec![], map: Default::default(), next: None,
              res: Err(EDesc::C), arr: [0, 0, 0], set: Default::default(), nt: NTuple(0), unit: () })),
          res: Ok(SGap { a: 1, b: 2, c: 3, d: 4 }), arr: [7, 8, 9], set: ["s".to_string()].into_iter().collect(), nt: NTuple(12345), unit: () };
      let f = fields!(v; inner, pet, list, map, next, res, arr, set, nt, unit); plain("SNested", st(v, f, None)); }
    { let v = r#struct { r#if: 1, r#else: Some(2), r#type: 3 }; let f = fields!(v; r#if as "if", r#else as "else", r#type as "type"); plain("struct", st(v, f, None)); }
    { let v = SDoc { first: 1, second: "2".into(), third: Some(3) }; let f = fields!(v; first, second, third); plain("SDoc", st(v, f, None)); }

    plain("EImplicit", en(vec![("A", EImplicit::A), ("B", EImplicit::B), ("C", EImplicit::C)], None));
    plain("EExplicit", en(vec![("A", EExplicit::A), ("B", EExplicit::B(1)), ("C", EExplicit::C)], None));
    plain("EExplicitPos", en(vec![("A", EExplicitPos::A("a".into())), ("B", EExplicitPos::B)], None));
    plain("ELarge", en(vec![("A", ELarge::A), ("B", ELarge::B(1))], None));
    plain("EFallback", en(vec![("Alpaca", EFallback::Alpaca), ("Pig", EFallback::Pig)], Some("Unkown")));
    plain("EOnlyFb", en(Vec::<(&'static str, EOnlyFb)>::new(), Some("Unknown")));
    plain("EEmpty", en(Vec::<(&'static str, EEmpty)>::new(), None));
    plain("enum", en(vec![("if", r#enum::r#if), ("else", r#enum::r#else(1)), ("match", r#enum::r#match)], None));
    plain("EDoc", en(vec![("Nothing", EDoc::Nothing), ("Something", EDoc::Something(SDoc { first: 1, second: "s".into(), third: None })),
        ("More", EDoc::More(vec![EDoc::Nothing]))], None));

    plain("NString", nt(NString { inner: "text".into() }, "text".to_string()));
    plain("NTuple", nt(NTuple(99), 99u32));
    plain("NNested", nt(NNested(smixed.clone()), smixed));
    out
}
