//! Text format for `Value` shared with the model driver, and the legacy (epoch 1) serializer
//! wrapper built from the public counted-container API.
use crate::hex;
use aldrin_core::tags;
use aldrin_core::{Serialize, SerializeError, Serializer, Value};
use std::collections::{HashMap, HashSet};
use std::fmt::Write;

/// `canon = false`: entries in the collection's own iteration order (the order the serializer
/// visits them); `canon = true`: entries sorted by their printed key.
pub fn fmt_value(v: &Value, canon: bool) -> String {
    let mut s = String::new();
    go(v, canon, &mut s);
    s
}

fn entries<K, F: Fn(&K) -> String>(
    m: &HashMap<K, Value>,
    canon: bool,
    kf: F,
    tag: &str,
    out: &mut String,
) {
    let mut es: Vec<(String, &Value)> = m.iter().map(|(k, v)| (kf(k), v)).collect();
    if canon {
        es.sort_by(|a, b| a.0.cmp(&b.0));
    }
    out.push_str(tag);
    out.push('{');
    for (i, (k, v)) in es.iter().enumerate() {
        if i > 0 {
            out.push(',');
        }
        out.push_str(k);
        out.push('=');
        go(v, canon, out);
    }
    out.push('}');
}

fn keys<K, F: Fn(&K) -> String>(m: &HashSet<K>, canon: bool, kf: F, tag: &str, out: &mut String) {
    let mut es: Vec<String> = m.iter().map(kf).collect();
    if canon {
        es.sort();
    }
    out.push_str(tag);
    out.push('{');
    out.push_str(&es.join(","));
    out.push('}');
}

fn go(v: &Value, canon: bool, out: &mut String) {
    match v {
        Value::None => out.push('n'),
        Value::Some(x) => {
            out.push_str("s(");
            go(x, canon, out);
            out.push(')');
        }
        Value::Bool(b) => out.push_str(if *b { "b1" } else { "b0" }),
        Value::U8(x) => write!(out, "iU8:{}", x).unwrap(),
        Value::I8(x) => write!(out, "iI8:{}", x).unwrap(),
        Value::U16(x) => write!(out, "iU16:{}", x).unwrap(),
        Value::I16(x) => write!(out, "iI16:{}", x).unwrap(),
        Value::U32(x) => write!(out, "iU32:{}", x).unwrap(),
        Value::I32(x) => write!(out, "iI32:{}", x).unwrap(),
        Value::U64(x) => write!(out, "iU64:{}", x).unwrap(),
        Value::I64(x) => write!(out, "iI64:{}", x).unwrap(),
        Value::F32(x) => write!(out, "xF32:{}", hex(&x.to_bits().to_le_bytes())).unwrap(),
        Value::F64(x) => write!(out, "xF64:{}", hex(&x.to_bits().to_le_bytes())).unwrap(),
        Value::String(s) => write!(out, "t:{}", hex(s.as_bytes())).unwrap(),
        Value::Uuid(u) => write!(out, "xUuid:{}", hex(u.as_bytes())).unwrap(),
        Value::ObjectId(o) => write!(
            out,
            "xObjectId:{}{}",
            hex(o.uuid.0.as_bytes()),
            hex(o.cookie.0.as_bytes())
        )
        .unwrap(),
        Value::ServiceId(s) => write!(
            out,
            "xServiceId:{}{}{}{}",
            hex(s.object_id.uuid.0.as_bytes()),
            hex(s.object_id.cookie.0.as_bytes()),
            hex(s.uuid.0.as_bytes()),
            hex(s.cookie.0.as_bytes())
        )
        .unwrap(),
        Value::Vec(l) => {
            out.push_str("v[");
            for (i, x) in l.iter().enumerate() {
                if i > 0 {
                    out.push(',');
                }
                go(x, canon, out);
            }
            out.push(']');
        }
        Value::Bytes(b) => write!(out, "y:{}", hex(&b.0)).unwrap(),
        Value::U8Map(m) => entries(m, canon, |k| k.to_string(), "mU8", out),
        Value::I8Map(m) => entries(m, canon, |k| k.to_string(), "mI8", out),
        Value::U16Map(m) => entries(m, canon, |k| k.to_string(), "mU16", out),
        Value::I16Map(m) => entries(m, canon, |k| k.to_string(), "mI16", out),
        Value::U32Map(m) => entries(m, canon, |k| k.to_string(), "mU32", out),
        Value::I32Map(m) => entries(m, canon, |k| k.to_string(), "mI32", out),
        Value::U64Map(m) => entries(m, canon, |k| k.to_string(), "mU64", out),
        Value::I64Map(m) => entries(m, canon, |k| k.to_string(), "mI64", out),
        Value::StringMap(m) => entries(m, canon, |k| format!("h{}", hex(k.as_bytes())), "mStr", out),
        Value::UuidMap(m) => entries(m, canon, |k| format!("h{}", hex(k.as_bytes())), "mUuid", out),
        Value::U8Set(m) => keys(m, canon, |k| k.to_string(), "eU8", out),
        Value::I8Set(m) => keys(m, canon, |k| k.to_string(), "eI8", out),
        Value::U16Set(m) => keys(m, canon, |k| k.to_string(), "eU16", out),
        Value::I16Set(m) => keys(m, canon, |k| k.to_string(), "eI16", out),
        Value::U32Set(m) => keys(m, canon, |k| k.to_string(), "eU32", out),
        Value::I32Set(m) => keys(m, canon, |k| k.to_string(), "eI32", out),
        Value::U64Set(m) => keys(m, canon, |k| k.to_string(), "eU64", out),
        Value::I64Set(m) => keys(m, canon, |k| k.to_string(), "eI64", out),
        Value::StringSet(m) => keys(m, canon, |k| format!("h{}", hex(k.as_bytes())), "eStr", out),
        Value::UuidSet(m) => keys(m, canon, |k| format!("h{}", hex(k.as_bytes())), "eUuid", out),
        Value::Struct(s) => entries(&s.0, canon, |k| k.to_string(), "r", out),
        Value::Enum(e) => {
            write!(out, "u{}(", e.id).unwrap();
            go(&e.value, canon, out);
            out.push(')');
        }
        Value::Sender(c) => write!(out, "xSender:{}", hex(c.0.as_bytes())).unwrap(),
        Value::Receiver(c) => write!(out, "xReceiver:{}", hex(c.0.as_bytes())).unwrap(),
    }
}

/// Serializes a `Value` through the counted (epoch 1) container API:
/// `serialize_vec1`, `serialize_byte_slice1`, `serialize_map1`, `serialize_set1`,
/// `serialize_struct1`; everything else as `&Value` does.
pub struct Legacy<'a>(pub &'a Value);

macro_rules! map1 {
    ($ser:expr, $tag:ty, $m:expr) => {{
        let mut s = $ser.serialize_map1::<$tag>($m.len())?;
        for (k, v) in $m.iter() {
            s.serialize::<tags::Value>(k, Legacy(v))?;
        }
        s.finish()
    }};
}

macro_rules! set1 {
    ($ser:expr, $tag:ty, $m:expr) => {{
        let mut s = $ser.serialize_set1::<$tag>($m.len())?;
        for k in $m.iter() {
            s.serialize(k)?;
        }
        s.finish()
    }};
}

impl Serialize<tags::Value> for Legacy<'_> {
    fn serialize(self, serializer: Serializer) -> Result<(), SerializeError> {
        match self.0 {
            Value::Some(x) => serializer.serialize_some::<tags::Value>(Legacy(x)),
            Value::Vec(l) => {
                let mut s = serializer.serialize_vec1(l.len())?;
                for x in l {
                    s.serialize::<tags::Value>(Legacy(x))?;
                }
                s.finish()
            }
            Value::Bytes(b) => serializer.serialize_byte_slice1(&b.0),
            Value::U8Map(m) => map1!(serializer, tags::U8, m),
            Value::I8Map(m) => map1!(serializer, tags::I8, m),
            Value::U16Map(m) => map1!(serializer, tags::U16, m),
            Value::I16Map(m) => map1!(serializer, tags::I16, m),
            Value::U32Map(m) => map1!(serializer, tags::U32, m),
            Value::I32Map(m) => map1!(serializer, tags::I32, m),
            Value::U64Map(m) => map1!(serializer, tags::U64, m),
            Value::I64Map(m) => map1!(serializer, tags::I64, m),
            Value::StringMap(m) => map1!(serializer, tags::String, m),
            Value::UuidMap(m) => map1!(serializer, tags::Uuid, m),
            Value::U8Set(m) => set1!(serializer, tags::U8, m),
            Value::I8Set(m) => set1!(serializer, tags::I8, m),
            Value::U16Set(m) => set1!(serializer, tags::U16, m),
            Value::I16Set(m) => set1!(serializer, tags::I16, m),
            Value::U32Set(m) => set1!(serializer, tags::U32, m),
            Value::I32Set(m) => set1!(serializer, tags::I32, m),
            Value::U64Set(m) => set1!(serializer, tags::U64, m),
            Value::I64Set(m) => set1!(serializer, tags::I64, m),
            Value::StringSet(m) => set1!(serializer, tags::String, m),
            Value::UuidSet(m) => set1!(serializer, tags::Uuid, m),
            Value::Struct(st) => {
                let mut s = serializer.serialize_struct1(st.0.len())?;
                for (id, x) in st.0.iter() {
                    s.serialize::<tags::Value>(*id, Legacy(x))?;
                }
                s.finish()
            }
            Value::Enum(e) => serializer.serialize_enum::<tags::Value>(e.id, Legacy(&e.value)),
            other => serializer.serialize(other),
        }
    }
}
