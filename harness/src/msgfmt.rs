//! Text format of protocol messages shared with the broker model driver
//! (`extract/broker_driver.ml`): `Kind field field ...`, options as `-`, uuids as small integers
//! assigned in order of first appearance, payloads as the u8 they encode.
use aldrin_core::message::*;
use aldrin_core::*;
use std::collections::HashMap;
use uuid::Uuid;

#[derive(Default)]
pub struct Ids {
    pub map: HashMap<Uuid, u64>,
    /// reverse lookup (small integer -> uuid), used by `parse_msg`
    pub rev: HashMap<u64, Uuid>,
    pub next: u64,
    pub last_new: Option<u64>,
}

impl Ids {
    pub fn id(&mut self, u: Uuid) -> u64 {
        if let Some(i) = self.map.get(&u) {
            return *i;
        }
        self.next += 1;
        self.map.insert(u, self.next);
        self.rev.insert(self.next, u);
        self.last_new = Some(self.next);
        self.next
    }

    /// the uuid a small integer stands for, if it has been seen or bound
    pub fn uuid_of(&self, id: u64) -> Option<Uuid> {
        self.rev.get(&id).cloned()
    }

    /// bind `u` to exactly `id` (replay: the recorded id of a cookie the implementation just chose,
    /// or of a client-chosen uuid seen for the first time); later automatic ids stay above it
    pub fn bind(&mut self, u: Uuid, id: u64) {
        self.map.insert(u, id);
        self.rev.insert(id, u);
        if self.next < id {
            self.next = id;
        }
    }

    /// inverse of `id` for parsing: an id that is not known yet is a client-chosen (or bogus) uuid
    /// seen for the first time; it gets a deterministic uuid bound to exactly that id
    pub fn resolve(&mut self, id: u64) -> Uuid {
        if let Some(u) = self.rev.get(&id) {
            return *u;
        }
        let u = Uuid::from_u128(0x5eed_0000_0000u128 + id as u128);
        self.bind(u, id);
        u
    }
}

pub fn payload_id(v: &SerializedValueSlice) -> u64 {
    v.deserialize::<u8>().map(|x| x as u64).unwrap_or(999)
}

fn opt(o: Option<u32>) -> String {
    o.map(|x| x.to_string()).unwrap_or_else(|| "-".into())
}

pub fn info_text(i: &ServiceInfo, ids: &mut Ids) -> String {
    format!(
        "I {} {} {}",
        i.version(),
        i.type_id().map(|t| ids.id(t.0).to_string()).unwrap_or_else(|| "-".into()),
        match i.subscribe_all() {
            None => "-",
            Some(false) => "0",
            Some(true) => "1",
        }
    )
}

fn endc(e: ChannelEndWithCapacity) -> String {
    match e {
        ChannelEndWithCapacity::Sender => "S".into(),
        ChannelEndWithCapacity::Receiver(c) => format!("R {c}"),
    }
}

fn end(e: ChannelEnd) -> &'static str {
    match e {
        ChannelEnd::Sender => "S",
        ChannelEnd::Receiver => "R",
    }
}

fn filter(f: BusListenerFilter, ids: &mut Ids) -> String {
    let o = |x: Option<Uuid>, ids: &mut Ids| x.map(|u| ids.id(u).to_string()).unwrap_or_else(|| "-".into());
    match f {
        BusListenerFilter::Object(ob) => format!("O {}", o(ob.map(|x| x.0), ids)),
        BusListenerFilter::Service(s) => {
            format!("S {} {}", o(s.object.map(|x| x.0), ids), o(s.service.map(|x| x.0), ids))
        }
    }
}

fn bus_event(e: BusEvent, ids: &mut Ids) -> String {
    match e {
        BusEvent::ObjectCreated(o) => format!("OC {} {}", ids.id(o.uuid.0), ids.id(o.cookie.0)),
        BusEvent::ObjectDestroyed(o) => format!("OD {} {}", ids.id(o.uuid.0), ids.id(o.cookie.0)),
        BusEvent::ServiceCreated(s) => format!(
            "SC {} {} {} {}",
            ids.id(s.object_id.uuid.0),
            ids.id(s.object_id.cookie.0),
            ids.id(s.uuid.0),
            ids.id(s.cookie.0)
        ),
        BusEvent::ServiceDestroyed(s) => format!(
            "SD {} {} {} {}",
            ids.id(s.object_id.uuid.0),
            ids.id(s.object_id.cookie.0),
            ids.id(s.uuid.0),
            ids.id(s.cookie.0)
        ),
    }
}

pub fn fmt_msg(m: &Message, ids: &mut Ids) -> String {
    use Message as M;
    match m {
        M::CreateObject(r) => format!("CreateObject {} {}", r.serial, ids.id(r.uuid.0)),
        M::CreateObjectReply(r) => format!(
            "CreateObjectReply {} {}",
            r.serial,
            match r.result {
                CreateObjectResult::Ok(c) => format!("Ok {}", ids.id(c.0)),
                CreateObjectResult::DuplicateObject => "Dup".into(),
            }
        ),
        M::DestroyObject(r) => format!("DestroyObject {} {}", r.serial, ids.id(r.cookie.0)),
        M::DestroyObjectReply(r) => format!(
            "DestroyObjectReply {} {}",
            r.serial,
            match r.result {
                DestroyObjectResult::Ok => "Ok",
                DestroyObjectResult::InvalidObject => "Invalid",
                DestroyObjectResult::ForeignObject => "Foreign",
            }
        ),
        M::CreateService(r) => format!(
            "CreateService {} {} {} {}",
            r.serial,
            ids.id(r.object_cookie.0),
            ids.id(r.uuid.0),
            r.version
        ),
        M::CreateService2(r) => format!(
            "CreateService2 {} {} {} {}",
            r.serial,
            ids.id(r.object_cookie.0),
            ids.id(r.uuid.0),
            match r.value.deserialize::<ServiceInfo>() {
                Ok(i) => info_text(&i, ids),
                Err(_) => "BAD".into(),
            }
        ),
        M::CreateServiceReply(r) => format!(
            "CreateServiceReply {} {}",
            r.serial,
            match r.result {
                CreateServiceResult::Ok(c) => format!("Ok {}", ids.id(c.0)),
                CreateServiceResult::DuplicateService => "Dup".into(),
                CreateServiceResult::InvalidObject => "InvalidObject".into(),
                CreateServiceResult::ForeignObject => "Foreign".into(),
            }
        ),
        M::DestroyService(r) => format!("DestroyService {} {}", r.serial, ids.id(r.cookie.0)),
        M::DestroyServiceReply(r) => format!(
            "DestroyServiceReply {} {}",
            r.serial,
            match r.result {
                DestroyServiceResult::Ok => "Ok",
                DestroyServiceResult::InvalidService => "Invalid",
                DestroyServiceResult::ForeignObject => "Foreign",
            }
        ),
        M::CallFunction(r) => format!(
            "CallFunction {} {} {} {}",
            r.serial,
            ids.id(r.service_cookie.0),
            r.function,
            payload_id(&r.value)
        ),
        M::CallFunction2(r) => format!(
            "CallFunction2 {} {} {} {} {}",
            r.serial,
            ids.id(r.service_cookie.0),
            r.function,
            opt(r.version),
            payload_id(&r.value)
        ),
        M::CallFunctionReply(r) => format!(
            "CallFunctionReply {} {}",
            r.serial,
            match &r.result {
                CallFunctionResult::Ok(v) => format!("Ok {}", payload_id(v)),
                CallFunctionResult::Err(v) => format!("Err {}", payload_id(v)),
                CallFunctionResult::Aborted => "Aborted".into(),
                CallFunctionResult::InvalidService => "InvalidService".into(),
                CallFunctionResult::InvalidFunction => "InvalidFunction".into(),
                CallFunctionResult::InvalidArgs => "InvalidArgs".into(),
            }
        ),
        M::SubscribeEvent(r) => format!(
            "SubscribeEvent {} {} {}",
            opt(r.serial),
            ids.id(r.service_cookie.0),
            r.event
        ),
        M::SubscribeEventReply(r) => format!(
            "SubscribeEventReply {} {}",
            r.serial,
            match r.result {
                SubscribeEventResult::Ok => "Ok",
                SubscribeEventResult::InvalidService => "Invalid",
            }
        ),
        M::UnsubscribeEvent(r) => format!("UnsubscribeEvent {} {}", ids.id(r.service_cookie.0), r.event),
        M::EmitEvent(r) => format!(
            "EmitEvent {} {} {}",
            ids.id(r.service_cookie.0),
            r.event,
            payload_id(&r.value)
        ),
        M::QueryServiceVersion(r) => format!("QueryServiceVersion {} {}", r.serial, ids.id(r.cookie.0)),
        M::QueryServiceVersionReply(r) => format!(
            "QueryServiceVersionReply {} {}",
            r.serial,
            match r.result {
                QueryServiceVersionResult::Ok(v) => format!("Ok {v}"),
                QueryServiceVersionResult::InvalidService => "Invalid".into(),
            }
        ),
        M::CreateChannel(r) => format!("CreateChannel {} {}", r.serial, endc(r.end)),
        M::CreateChannelReply(r) => format!("CreateChannelReply {} {}", r.serial, ids.id(r.cookie.0)),
        M::CloseChannelEnd(r) => format!("CloseChannelEnd {} {} {}", r.serial, ids.id(r.cookie.0), end(r.end)),
        M::CloseChannelEndReply(r) => format!(
            "CloseChannelEndReply {} {}",
            r.serial,
            match r.result {
                CloseChannelEndResult::Ok => "Ok",
                CloseChannelEndResult::InvalidChannel => "Invalid",
                CloseChannelEndResult::ForeignChannel => "Foreign",
            }
        ),
        M::ChannelEndClosed(r) => format!("ChannelEndClosed {} {}", ids.id(r.cookie.0), end(r.end)),
        M::ClaimChannelEnd(r) => format!("ClaimChannelEnd {} {} {}", r.serial, ids.id(r.cookie.0), endc(r.end)),
        M::ClaimChannelEndReply(r) => format!(
            "ClaimChannelEndReply {} {}",
            r.serial,
            match r.result {
                ClaimChannelEndResult::SenderClaimed(c) => format!("SenderClaimed {c}"),
                ClaimChannelEndResult::ReceiverClaimed => "ReceiverClaimed".into(),
                ClaimChannelEndResult::InvalidChannel => "Invalid".into(),
                ClaimChannelEndResult::AlreadyClaimed => "Already".into(),
            }
        ),
        M::ChannelEndClaimed(r) => format!("ChannelEndClaimed {} {}", ids.id(r.cookie.0), endc(r.end)),
        M::AddChannelCapacity(r) => format!("AddChannelCapacity {} {}", ids.id(r.cookie.0), r.capacity),
        M::SendItem(r) => format!("SendItem {} {}", ids.id(r.cookie.0), payload_id(&r.value)),
        M::ItemReceived(r) => format!("ItemReceived {} {}", ids.id(r.cookie.0), payload_id(&r.value)),
        M::Sync(r) => format!("Sync {}", r.serial),
        M::SyncReply(r) => format!("SyncReply {}", r.serial),
        M::ServiceDestroyed(r) => format!("ServiceDestroyed {}", ids.id(r.service_cookie.0)),
        M::CreateBusListener(r) => format!("CreateBusListener {}", r.serial),
        M::CreateBusListenerReply(r) => format!("CreateBusListenerReply {} {}", r.serial, ids.id(r.cookie.0)),
        M::DestroyBusListener(r) => format!("DestroyBusListener {} {}", r.serial, ids.id(r.cookie.0)),
        M::DestroyBusListenerReply(r) => format!(
            "DestroyBusListenerReply {} {}",
            r.serial,
            match r.result {
                DestroyBusListenerResult::Ok => "Ok",
                DestroyBusListenerResult::InvalidBusListener => "Invalid",
            }
        ),
        M::AddBusListenerFilter(r) => {
            let c = ids.id(r.cookie.0);
            format!("AddBusListenerFilter {} {}", c, filter(r.filter, ids))
        }
        M::RemoveBusListenerFilter(r) => {
            let c = ids.id(r.cookie.0);
            format!("RemoveBusListenerFilter {} {}", c, filter(r.filter, ids))
        }
        M::ClearBusListenerFilters(r) => format!("ClearBusListenerFilters {}", ids.id(r.cookie.0)),
        M::StartBusListener(r) => format!(
            "StartBusListener {} {} {}",
            r.serial,
            ids.id(r.cookie.0),
            match r.scope {
                BusListenerScope::Current => "Current",
                BusListenerScope::New => "New",
                BusListenerScope::All => "All",
            }
        ),
        M::StartBusListenerReply(r) => format!(
            "StartBusListenerReply {} {}",
            r.serial,
            match r.result {
                StartBusListenerResult::Ok => "Ok",
                StartBusListenerResult::InvalidBusListener => "Invalid",
                StartBusListenerResult::AlreadyStarted => "Already",
            }
        ),
        M::StopBusListener(r) => format!("StopBusListener {} {}", r.serial, ids.id(r.cookie.0)),
        M::StopBusListenerReply(r) => format!(
            "StopBusListenerReply {} {}",
            r.serial,
            match r.result {
                StopBusListenerResult::Ok => "Ok",
                StopBusListenerResult::InvalidBusListener => "Invalid",
                StopBusListenerResult::NotStarted => "NotStarted",
            }
        ),
        M::EmitBusEvent(r) => {
            let c = r.cookie.map(|c| ids.id(c.0).to_string()).unwrap_or_else(|| "-".into());
            format!("EmitBusEvent {} {}", c, bus_event(r.event, ids))
        }
        M::BusListenerCurrentFinished(r) => format!("BusListenerCurrentFinished {}", ids.id(r.cookie.0)),
        M::AbortFunctionCall(r) => format!("AbortFunctionCall {}", r.serial),
        M::RegisterIntrospection(_) => "RegisterIntrospection".into(),
        M::QueryIntrospection(r) => format!("QueryIntrospection {}", r.serial),
        M::QueryIntrospectionReply(r) => format!("QueryIntrospectionReply {}", r.serial),
        M::QueryServiceInfo(r) => format!("QueryServiceInfo {} {}", r.serial, ids.id(r.cookie.0)),
        M::QueryServiceInfoReply(r) => format!(
            "QueryServiceInfoReply {} {}",
            r.serial,
            match &r.result {
                QueryServiceInfoResult::Ok(v) => match v.deserialize::<ServiceInfo>() {
                    Ok(i) => info_text(&i, ids),
                    Err(_) => "BAD".into(),
                },
                QueryServiceInfoResult::InvalidService => "Invalid".into(),
            }
        ),
        M::SubscribeService(r) => format!("SubscribeService {} {}", r.serial, ids.id(r.service_cookie.0)),
        M::SubscribeServiceReply(r) => format!(
            "SubscribeServiceReply {} {}",
            r.serial,
            match r.result {
                SubscribeServiceResult::Ok => "Ok",
                SubscribeServiceResult::InvalidService => "Invalid",
            }
        ),
        M::UnsubscribeService(r) => format!("UnsubscribeService {}", ids.id(r.service_cookie.0)),
        M::SubscribeAllEvents(r) => format!("SubscribeAllEvents {} {}", opt(r.serial), ids.id(r.service_cookie.0)),
        M::SubscribeAllEventsReply(r) => format!(
            "SubscribeAllEventsReply {} {}",
            r.serial,
            match r.result {
                SubscribeAllEventsResult::Ok => "Ok",
                SubscribeAllEventsResult::InvalidService => "Invalid",
                SubscribeAllEventsResult::NotSupported => "NotSupported",
            }
        ),
        M::UnsubscribeAllEvents(r) => format!("UnsubscribeAllEvents {} {}", opt(r.serial), ids.id(r.service_cookie.0)),
        M::UnsubscribeAllEventsReply(r) => format!(
            "UnsubscribeAllEventsReply {} {}",
            r.serial,
            match r.result {
                UnsubscribeAllEventsResult::Ok => "Ok",
                UnsubscribeAllEventsResult::InvalidService => "Invalid",
                UnsubscribeAllEventsResult::NotSupported => "NotSupported",
            }
        ),
        M::Shutdown(_) => "Shutdown".into(),
        M::Connect(_) | M::ConnectReply(_) | M::Connect2(_) | M::ConnectReply2(_) => "Other".into(),
    }
}

// ---------------------------------------------------------------------------------------------
// parsing: the inverse of `fmt_msg` (used by `broker replay` to re-execute a stored history)

/// payload number -> payload: n < 256 is the u8 it encodes, anything else (999) a payload that is
/// not a u8
pub fn payload_of(n: u64) -> SerializedValue {
    if n < 256 {
        SerializedValue::serialize(n as u8).unwrap()
    } else {
        SerializedValue::serialize("not-a-u8").unwrap()
    }
}

struct Toks<'a> {
    it: std::str::Split<'a, char>,
    text: &'a str,
}

impl<'a> Toks<'a> {
    fn word(&mut self) -> Result<&'a str, String> {
        loop {
            match self.it.next() {
                Some("") => continue,
                Some(w) => return Ok(w),
                None => return Err(format!("message text ends early: {:?}", self.text)),
            }
        }
    }
    fn num<T: std::str::FromStr>(&mut self) -> Result<T, String> {
        let w = self.word()?;
        w.parse::<T>().map_err(|_| format!("not a number {:?} in {:?}", w, self.text))
    }
    fn opt_num<T: std::str::FromStr>(&mut self) -> Result<Option<T>, String> {
        let w = self.word()?;
        if w == "-" {
            return Ok(None);
        }
        w.parse::<T>().map(Some).map_err(|_| format!("not a number or '-' {:?} in {:?}", w, self.text))
    }
    fn uuid(&mut self, ids: &mut Ids) -> Result<Uuid, String> {
        Ok(ids.resolve(self.num::<u64>()?))
    }
    fn opt_uuid(&mut self, ids: &mut Ids) -> Result<Option<Uuid>, String> {
        Ok(self.opt_num::<u64>()?.map(|i| ids.resolve(i)))
    }
    fn payload(&mut self) -> Result<SerializedValue, String> {
        Ok(payload_of(self.num::<u64>()?))
    }
    fn endc(&mut self) -> Result<ChannelEndWithCapacity, String> {
        match self.word()? {
            "S" => Ok(ChannelEndWithCapacity::Sender),
            "R" => Ok(ChannelEndWithCapacity::Receiver(self.num()?)),
            w => Err(format!("channel end with capacity {:?} in {:?}", w, self.text)),
        }
    }
    fn end(&mut self) -> Result<ChannelEnd, String> {
        match self.word()? {
            "S" => Ok(ChannelEnd::Sender),
            "R" => Ok(ChannelEnd::Receiver),
            w => Err(format!("channel end {:?} in {:?}", w, self.text)),
        }
    }
    fn filter(&mut self, ids: &mut Ids) -> Result<BusListenerFilter, String> {
        match self.word()? {
            "O" => Ok(BusListenerFilter::Object(self.opt_uuid(ids)?.map(ObjectUuid))),
            "S" => {
                let object = self.opt_uuid(ids)?.map(ObjectUuid);
                let service = self.opt_uuid(ids)?.map(ServiceUuid);
                Ok(BusListenerFilter::Service(BusListenerServiceFilter { object, service }))
            }
            w => Err(format!("filter {:?} in {:?}", w, self.text)),
        }
    }
    /// `I ver tid suball` -> the serialized ServiceInfo; `BAD` -> a payload that is not a ServiceInfo
    fn info(&mut self, ids: &mut Ids) -> Result<SerializedValue, String> {
        match self.word()? {
            "BAD" => Ok(SerializedValue::serialize(0u8).unwrap()),
            "I" => {
                let mut info = ServiceInfo::new(self.num()?);
                if let Some(t) = self.opt_uuid(ids)? {
                    info = info.set_type_id(TypeId(t));
                }
                match self.word()? {
                    "-" => {}
                    "0" => info = info.set_subscribe_all(false),
                    "1" => info = info.set_subscribe_all(true),
                    w => return Err(format!("subscribe-all flag {:?} in {:?}", w, self.text)),
                }
                Ok(SerializedValue::serialize(info).unwrap())
            }
            w => Err(format!("service info {:?} in {:?}", w, self.text)),
        }
    }
    fn object_id(&mut self, ids: &mut Ids) -> Result<ObjectId, String> {
        let u = self.uuid(ids)?;
        let c = self.uuid(ids)?;
        Ok(ObjectId::new(ObjectUuid(u), ObjectCookie(c)))
    }
    fn service_id(&mut self, ids: &mut Ids) -> Result<ServiceId, String> {
        let o = self.object_id(ids)?;
        let u = self.uuid(ids)?;
        let c = self.uuid(ids)?;
        Ok(ServiceId::new(o, ServiceUuid(u), ServiceCookie(c)))
    }
    fn finish(&mut self) -> Result<(), String> {
        loop {
            match self.it.next() {
                Some("") => continue,
                Some(w) => return Err(format!("trailing token {:?} in {:?}", w, self.text)),
                None => return Ok(()),
            }
        }
    }
}

/// Inverse of `fmt_msg`.  Small integers are mapped back to the uuids they stand for (`Ids::rev`);
/// an unknown id gets a deterministic uuid bound to exactly that id.  What the text does not
/// record is filled in as the generator does: the value of RegisterIntrospection (a u8), the type
/// id of QueryIntrospection (uuid 1), the result of QueryIntrospectionReply (Unavailable).
pub fn parse_msg(text: &str, ids: &mut Ids) -> Result<Message, String> {
    let mut t = Toks { it: text.split(' '), text };
    let kind = t.word()?;
    let bad = |what: &str, w: &str| -> String { format!("{} {:?} in {:?}", what, w, text) };
    let m: Message = match kind {
        "CreateObject" => CreateObject { serial: t.num()?, uuid: ObjectUuid(t.uuid(ids)?) }.into(),
        "CreateObjectReply" => {
            let serial = t.num()?;
            let result = match t.word()? {
                "Ok" => CreateObjectResult::Ok(ObjectCookie(t.uuid(ids)?)),
                "Dup" => CreateObjectResult::DuplicateObject,
                w => return Err(bad("result", w)),
            };
            CreateObjectReply { serial, result }.into()
        }
        "DestroyObject" => DestroyObject { serial: t.num()?, cookie: ObjectCookie(t.uuid(ids)?) }.into(),
        "DestroyObjectReply" => {
            let serial = t.num()?;
            let result = match t.word()? {
                "Ok" => DestroyObjectResult::Ok,
                "Invalid" => DestroyObjectResult::InvalidObject,
                "Foreign" => DestroyObjectResult::ForeignObject,
                w => return Err(bad("result", w)),
            };
            DestroyObjectReply { serial, result }.into()
        }
        "CreateService" => CreateService {
            serial: t.num()?,
            object_cookie: ObjectCookie(t.uuid(ids)?),
            uuid: ServiceUuid(t.uuid(ids)?),
            version: t.num()?,
        }
        .into(),
        "CreateService2" => CreateService2 {
            serial: t.num()?,
            object_cookie: ObjectCookie(t.uuid(ids)?),
            uuid: ServiceUuid(t.uuid(ids)?),
            value: t.info(ids)?,
        }
        .into(),
        "CreateServiceReply" => {
            let serial = t.num()?;
            let result = match t.word()? {
                "Ok" => CreateServiceResult::Ok(ServiceCookie(t.uuid(ids)?)),
                "Dup" => CreateServiceResult::DuplicateService,
                "InvalidObject" => CreateServiceResult::InvalidObject,
                "Foreign" => CreateServiceResult::ForeignObject,
                w => return Err(bad("result", w)),
            };
            CreateServiceReply { serial, result }.into()
        }
        "DestroyService" => DestroyService { serial: t.num()?, cookie: ServiceCookie(t.uuid(ids)?) }.into(),
        "DestroyServiceReply" => {
            let serial = t.num()?;
            let result = match t.word()? {
                "Ok" => DestroyServiceResult::Ok,
                "Invalid" => DestroyServiceResult::InvalidService,
                "Foreign" => DestroyServiceResult::ForeignObject,
                w => return Err(bad("result", w)),
            };
            DestroyServiceReply { serial, result }.into()
        }
        "CallFunction" => CallFunction {
            serial: t.num()?,
            service_cookie: ServiceCookie(t.uuid(ids)?),
            function: t.num()?,
            value: t.payload()?,
        }
        .into(),
        "CallFunction2" => CallFunction2 {
            serial: t.num()?,
            service_cookie: ServiceCookie(t.uuid(ids)?),
            function: t.num()?,
            version: t.opt_num()?,
            value: t.payload()?,
        }
        .into(),
        "CallFunctionReply" => {
            let serial = t.num()?;
            let result = match t.word()? {
                "Ok" => CallFunctionResult::Ok(t.payload()?),
                "Err" => CallFunctionResult::Err(t.payload()?),
                "Aborted" => CallFunctionResult::Aborted,
                "InvalidService" => CallFunctionResult::InvalidService,
                "InvalidFunction" => CallFunctionResult::InvalidFunction,
                "InvalidArgs" => CallFunctionResult::InvalidArgs,
                w => return Err(bad("result", w)),
            };
            CallFunctionReply { serial, result }.into()
        }
        "SubscribeEvent" => SubscribeEvent {
            serial: t.opt_num()?,
            service_cookie: ServiceCookie(t.uuid(ids)?),
            event: t.num()?,
        }
        .into(),
        "SubscribeEventReply" => {
            let serial = t.num()?;
            let result = match t.word()? {
                "Ok" => SubscribeEventResult::Ok,
                "Invalid" => SubscribeEventResult::InvalidService,
                w => return Err(bad("result", w)),
            };
            SubscribeEventReply { serial, result }.into()
        }
        "UnsubscribeEvent" => UnsubscribeEvent { service_cookie: ServiceCookie(t.uuid(ids)?), event: t.num()? }.into(),
        "EmitEvent" => EmitEvent { service_cookie: ServiceCookie(t.uuid(ids)?), event: t.num()?, value: t.payload()? }.into(),
        "QueryServiceVersion" => QueryServiceVersion { serial: t.num()?, cookie: ServiceCookie(t.uuid(ids)?) }.into(),
        "QueryServiceVersionReply" => {
            let serial = t.num()?;
            let result = match t.word()? {
                "Ok" => QueryServiceVersionResult::Ok(t.num()?),
                "Invalid" => QueryServiceVersionResult::InvalidService,
                w => return Err(bad("result", w)),
            };
            QueryServiceVersionReply { serial, result }.into()
        }
        "CreateChannel" => CreateChannel { serial: t.num()?, end: t.endc()? }.into(),
        "CreateChannelReply" => CreateChannelReply { serial: t.num()?, cookie: ChannelCookie(t.uuid(ids)?) }.into(),
        "CloseChannelEnd" => CloseChannelEnd { serial: t.num()?, cookie: ChannelCookie(t.uuid(ids)?), end: t.end()? }.into(),
        "CloseChannelEndReply" => {
            let serial = t.num()?;
            let result = match t.word()? {
                "Ok" => CloseChannelEndResult::Ok,
                "Invalid" => CloseChannelEndResult::InvalidChannel,
                "Foreign" => CloseChannelEndResult::ForeignChannel,
                w => return Err(bad("result", w)),
            };
            CloseChannelEndReply { serial, result }.into()
        }
        "ChannelEndClosed" => ChannelEndClosed { cookie: ChannelCookie(t.uuid(ids)?), end: t.end()? }.into(),
        "ClaimChannelEnd" => ClaimChannelEnd { serial: t.num()?, cookie: ChannelCookie(t.uuid(ids)?), end: t.endc()? }.into(),
        "ClaimChannelEndReply" => {
            let serial = t.num()?;
            let result = match t.word()? {
                "SenderClaimed" => ClaimChannelEndResult::SenderClaimed(t.num()?),
                "ReceiverClaimed" => ClaimChannelEndResult::ReceiverClaimed,
                "Invalid" => ClaimChannelEndResult::InvalidChannel,
                "Already" => ClaimChannelEndResult::AlreadyClaimed,
                w => return Err(bad("result", w)),
            };
            ClaimChannelEndReply { serial, result }.into()
        }
        "ChannelEndClaimed" => ChannelEndClaimed { cookie: ChannelCookie(t.uuid(ids)?), end: t.endc()? }.into(),
        "AddChannelCapacity" => AddChannelCapacity { cookie: ChannelCookie(t.uuid(ids)?), capacity: t.num()? }.into(),
        "SendItem" => SendItem { cookie: ChannelCookie(t.uuid(ids)?), value: t.payload()? }.into(),
        "ItemReceived" => ItemReceived { cookie: ChannelCookie(t.uuid(ids)?), value: t.payload()? }.into(),
        "Sync" => Sync { serial: t.num()? }.into(),
        "SyncReply" => SyncReply { serial: t.num()? }.into(),
        "ServiceDestroyed" => ServiceDestroyed { service_cookie: ServiceCookie(t.uuid(ids)?) }.into(),
        "CreateBusListener" => CreateBusListener { serial: t.num()? }.into(),
        "CreateBusListenerReply" => CreateBusListenerReply { serial: t.num()?, cookie: BusListenerCookie(t.uuid(ids)?) }.into(),
        "DestroyBusListener" => DestroyBusListener { serial: t.num()?, cookie: BusListenerCookie(t.uuid(ids)?) }.into(),
        "DestroyBusListenerReply" => {
            let serial = t.num()?;
            let result = match t.word()? {
                "Ok" => DestroyBusListenerResult::Ok,
                "Invalid" => DestroyBusListenerResult::InvalidBusListener,
                w => return Err(bad("result", w)),
            };
            DestroyBusListenerReply { serial, result }.into()
        }
        "AddBusListenerFilter" => AddBusListenerFilter { cookie: BusListenerCookie(t.uuid(ids)?), filter: t.filter(ids)? }.into(),
        "RemoveBusListenerFilter" => RemoveBusListenerFilter { cookie: BusListenerCookie(t.uuid(ids)?), filter: t.filter(ids)? }.into(),
        "ClearBusListenerFilters" => ClearBusListenerFilters { cookie: BusListenerCookie(t.uuid(ids)?) }.into(),
        "StartBusListener" => {
            let serial = t.num()?;
            let cookie = BusListenerCookie(t.uuid(ids)?);
            let scope = match t.word()? {
                "Current" => BusListenerScope::Current,
                "New" => BusListenerScope::New,
                "All" => BusListenerScope::All,
                w => return Err(bad("scope", w)),
            };
            StartBusListener { serial, cookie, scope }.into()
        }
        "StartBusListenerReply" => {
            let serial = t.num()?;
            let result = match t.word()? {
                "Ok" => StartBusListenerResult::Ok,
                "Invalid" => StartBusListenerResult::InvalidBusListener,
                "Already" => StartBusListenerResult::AlreadyStarted,
                w => return Err(bad("result", w)),
            };
            StartBusListenerReply { serial, result }.into()
        }
        "StopBusListener" => StopBusListener { serial: t.num()?, cookie: BusListenerCookie(t.uuid(ids)?) }.into(),
        "StopBusListenerReply" => {
            let serial = t.num()?;
            let result = match t.word()? {
                "Ok" => StopBusListenerResult::Ok,
                "Invalid" => StopBusListenerResult::InvalidBusListener,
                "NotStarted" => StopBusListenerResult::NotStarted,
                w => return Err(bad("result", w)),
            };
            StopBusListenerReply { serial, result }.into()
        }
        "EmitBusEvent" => {
            let cookie = t.opt_uuid(ids)?.map(BusListenerCookie);
            let event = match t.word()? {
                "OC" => BusEvent::ObjectCreated(t.object_id(ids)?),
                "OD" => BusEvent::ObjectDestroyed(t.object_id(ids)?),
                "SC" => BusEvent::ServiceCreated(t.service_id(ids)?),
                "SD" => BusEvent::ServiceDestroyed(t.service_id(ids)?),
                w => return Err(bad("bus event", w)),
            };
            EmitBusEvent { cookie, event }.into()
        }
        "BusListenerCurrentFinished" => BusListenerCurrentFinished { cookie: BusListenerCookie(t.uuid(ids)?) }.into(),
        "AbortFunctionCall" => AbortFunctionCall { serial: t.num()? }.into(),
        "RegisterIntrospection" => RegisterIntrospection { value: payload_of(0) }.into(),
        "QueryIntrospection" => QueryIntrospection { serial: t.num()?, type_id: TypeId(Uuid::from_u128(1)) }.into(),
        "QueryIntrospectionReply" => QueryIntrospectionReply { serial: t.num()?, result: QueryIntrospectionResult::Unavailable }.into(),
        "QueryServiceInfo" => QueryServiceInfo { serial: t.num()?, cookie: ServiceCookie(t.uuid(ids)?) }.into(),
        "QueryServiceInfoReply" => {
            let serial = t.num()?;
            let mut look = Toks { it: t.it.clone(), text };
            let result = if look.word()? == "Invalid" {
                t.word()?;
                QueryServiceInfoResult::InvalidService
            } else {
                QueryServiceInfoResult::Ok(t.info(ids)?)
            };
            QueryServiceInfoReply { serial, result }.into()
        }
        "SubscribeService" => SubscribeService { serial: t.num()?, service_cookie: ServiceCookie(t.uuid(ids)?) }.into(),
        "SubscribeServiceReply" => {
            let serial = t.num()?;
            let result = match t.word()? {
                "Ok" => SubscribeServiceResult::Ok,
                "Invalid" => SubscribeServiceResult::InvalidService,
                w => return Err(bad("result", w)),
            };
            SubscribeServiceReply { serial, result }.into()
        }
        "UnsubscribeService" => UnsubscribeService { service_cookie: ServiceCookie(t.uuid(ids)?) }.into(),
        "SubscribeAllEvents" => SubscribeAllEvents { serial: t.opt_num()?, service_cookie: ServiceCookie(t.uuid(ids)?) }.into(),
        "SubscribeAllEventsReply" => {
            let serial = t.num()?;
            let result = match t.word()? {
                "Ok" => SubscribeAllEventsResult::Ok,
                "Invalid" => SubscribeAllEventsResult::InvalidService,
                "NotSupported" => SubscribeAllEventsResult::NotSupported,
                w => return Err(bad("result", w)),
            };
            SubscribeAllEventsReply { serial, result }.into()
        }
        "UnsubscribeAllEvents" => UnsubscribeAllEvents { serial: t.opt_num()?, service_cookie: ServiceCookie(t.uuid(ids)?) }.into(),
        "UnsubscribeAllEventsReply" => {
            let serial = t.num()?;
            let result = match t.word()? {
                "Ok" => UnsubscribeAllEventsResult::Ok,
                "Invalid" => UnsubscribeAllEventsResult::InvalidService,
                "NotSupported" => UnsubscribeAllEventsResult::NotSupported,
                w => return Err(bad("result", w)),
            };
            UnsubscribeAllEventsReply { serial, result }.into()
        }
        "Shutdown" => Shutdown.into(),
        k => return Err(format!("message kind {:?} cannot be parsed back ({:?})", k, text)),
    };
    t.finish()?;
    Ok(m)
}

#[cfg(test)]
mod tests {
    use super::*;

    fn u(n: u128) -> Uuid {
        Uuid::from_u128(n)
    }

    /// one message (or several, for the variants) of every kind the broker generator injects
    fn samples() -> Vec<Message> {
        let val = |n: u8| SerializedValue::serialize(n).unwrap();
        let oc = ObjectCookie(u(100));
        let sc = ServiceCookie(u(200));
        let cc = ChannelCookie(u(300));
        let lc = BusListenerCookie(u(400));
        let ou = ObjectUuid(u(1));
        let su = ServiceUuid(u(11));
        let info = |i: ServiceInfo| SerializedValue::serialize(i).unwrap();
        let mut v: Vec<Message> = vec![
            CreateObject { serial: 2, uuid: ou }.into(),
            DestroyObject { serial: 1, cookie: oc }.into(),
            CreateService { serial: 0, object_cookie: oc, uuid: su, version: 2 }.into(),
            CreateService2 { serial: 1, object_cookie: oc, uuid: su, value: info(ServiceInfo::new(1)) }.into(),
            CreateService2 { serial: 1, object_cookie: oc, uuid: su, value: info(ServiceInfo::new(2).set_subscribe_all(true)) }.into(),
            CreateService2 { serial: 1, object_cookie: oc, uuid: su, value: info(ServiceInfo::new(0).set_subscribe_all(false)) }.into(),
            CreateService2 {
                serial: 1,
                object_cookie: oc,
                uuid: su,
                value: info(ServiceInfo::new(3).set_type_id(TypeId(u(77))).set_subscribe_all(true)),
            }
            .into(),
            CreateService2 { serial: 2, object_cookie: oc, uuid: su, value: val(7) }.into(),
            DestroyService { serial: 2, cookie: sc }.into(),
            CallFunction { serial: 1, service_cookie: sc, function: 1, value: val(199) }.into(),
            CallFunction2 { serial: 0, service_cookie: sc, function: 2, version: None, value: val(0) }.into(),
            CallFunction2 { serial: 0, service_cookie: sc, function: 2, version: Some(1), value: val(5) }.into(),
            CallFunction { serial: 1, service_cookie: sc, function: 1, value: SerializedValue::serialize("s").unwrap() }.into(),
            CallFunctionReply { serial: 7, result: CallFunctionResult::Ok(val(3)) }.into(),
            CallFunctionReply { serial: 7, result: CallFunctionResult::Err(val(4)) }.into(),
            CallFunctionReply { serial: 7, result: CallFunctionResult::Aborted }.into(),
            CallFunctionReply { serial: 7, result: CallFunctionResult::InvalidService }.into(),
            CallFunctionReply { serial: 7, result: CallFunctionResult::InvalidFunction }.into(),
            CallFunctionReply { serial: 7, result: CallFunctionResult::InvalidArgs }.into(),
            AbortFunctionCall { serial: 2 }.into(),
            SubscribeEvent { serial: Some(1), service_cookie: sc, event: 2 }.into(),
            SubscribeEvent { serial: None, service_cookie: sc, event: 0 }.into(),
            UnsubscribeEvent { service_cookie: sc, event: 1 }.into(),
            EmitEvent { service_cookie: sc, event: 2, value: val(9) }.into(),
            QueryServiceVersion { serial: 1, cookie: sc }.into(),
            QueryServiceInfo { serial: 1, cookie: sc }.into(),
            SubscribeService { serial: 2, service_cookie: sc }.into(),
            UnsubscribeService { service_cookie: sc }.into(),
            SubscribeAllEvents { serial: Some(0), service_cookie: sc }.into(),
            SubscribeAllEvents { serial: None, service_cookie: sc }.into(),
            UnsubscribeAllEvents { serial: Some(2), service_cookie: sc }.into(),
            UnsubscribeAllEvents { serial: None, service_cookie: sc }.into(),
            CreateChannel { serial: 2, end: ChannelEndWithCapacity::Sender }.into(),
            CreateChannel { serial: 2, end: ChannelEndWithCapacity::Receiver(u32::MAX) }.into(),
            ClaimChannelEnd { serial: 1, cookie: cc, end: ChannelEndWithCapacity::Sender }.into(),
            ClaimChannelEnd { serial: 1, cookie: cc, end: ChannelEndWithCapacity::Receiver(0) }.into(),
            CloseChannelEnd { serial: 0, cookie: cc, end: ChannelEnd::Sender }.into(),
            CloseChannelEnd { serial: 0, cookie: cc, end: ChannelEnd::Receiver }.into(),
            SendItem { cookie: cc, value: val(12) }.into(),
            AddChannelCapacity { cookie: cc, capacity: u32::MAX - 1 }.into(),
            CreateBusListener { serial: 3 }.into(),
            AddBusListenerFilter { cookie: lc, filter: BusListenerFilter::any_object() }.into(),
            AddBusListenerFilter { cookie: lc, filter: BusListenerFilter::object(ou) }.into(),
            AddBusListenerFilter { cookie: lc, filter: BusListenerFilter::any_object_any_service() }.into(),
            AddBusListenerFilter { cookie: lc, filter: BusListenerFilter::specific_object_any_service(ou) }.into(),
            AddBusListenerFilter { cookie: lc, filter: BusListenerFilter::any_object_specific_service(su) }.into(),
            AddBusListenerFilter { cookie: lc, filter: BusListenerFilter::specific_object_and_service(ou, su) }.into(),
            RemoveBusListenerFilter { cookie: lc, filter: BusListenerFilter::specific_object_and_service(ou, su) }.into(),
            ClearBusListenerFilters { cookie: lc }.into(),
            DestroyBusListener { serial: 1, cookie: lc }.into(),
            StartBusListener { serial: 0, cookie: lc, scope: BusListenerScope::Current }.into(),
            StartBusListener { serial: 0, cookie: lc, scope: BusListenerScope::New }.into(),
            StartBusListener { serial: 0, cookie: lc, scope: BusListenerScope::All }.into(),
            StopBusListener { serial: 2, cookie: lc }.into(),
            Sync { serial: 1 }.into(),
            SyncReply { serial: 1 }.into(),
            ServiceDestroyed { service_cookie: sc }.into(),
            QueryIntrospection { serial: 2, type_id: TypeId(u(1)) }.into(),
            RegisterIntrospection { value: val(17) }.into(),
            ChannelEndClosed { cookie: cc, end: ChannelEnd::Receiver }.into(),
            CreateObjectReply { serial: 0, result: CreateObjectResult::DuplicateObject }.into(),
            ItemReceived { cookie: cc, value: val(1) }.into(),
        ];
        // kinds only the broker sends (parsed too, so that recorded outputs can be read back)
        let oid = ObjectId::new(ou, oc);
        let sid = ServiceId::new(oid, su, sc);
        v.extend::<Vec<Message>>(vec![
            CreateObjectReply { serial: 0, result: CreateObjectResult::Ok(oc) }.into(),
            CreateServiceReply { serial: 0, result: CreateServiceResult::Ok(sc) }.into(),
            CreateChannelReply { serial: 0, cookie: cc }.into(),
            CreateBusListenerReply { serial: 0, cookie: lc }.into(),
            ClaimChannelEndReply { serial: 1, result: ClaimChannelEndResult::SenderClaimed(4) }.into(),
            ChannelEndClaimed { cookie: cc, end: ChannelEndWithCapacity::Receiver(6) }.into(),
            EmitBusEvent { cookie: None, event: BusEvent::ObjectCreated(oid) }.into(),
            EmitBusEvent { cookie: Some(lc), event: BusEvent::ServiceDestroyed(sid) }.into(),
            BusListenerCurrentFinished { cookie: lc }.into(),
            QueryServiceInfoReply { serial: 1, result: QueryServiceInfoResult::InvalidService }.into(),
            QueryServiceInfoReply { serial: 1, result: QueryServiceInfoResult::Ok(info(ServiceInfo::new(1).set_subscribe_all(true))) }.into(),
            QueryIntrospectionReply { serial: 1, result: QueryIntrospectionResult::Unavailable }.into(),
            Shutdown.into(),
        ]);
        v
    }

    #[test]
    fn parse_is_inverse_of_fmt() {
        let msgs = samples();
        let mut kinds = std::collections::BTreeSet::new();
        for m in &msgs {
            let t1 = fmt_msg(m, &mut Ids::default());
            kinds.insert(t1.split(' ').next().unwrap().to_string());
            // fresh Ids: every id in the text is unknown and gets a synthesized uuid bound to it
            let mut ids2 = Ids::default();
            let m2 = parse_msg(&t1, &mut ids2).unwrap_or_else(|e| panic!("{t1}: {e}"));
            assert_eq!(fmt_msg(&m2, &mut ids2), t1, "same Ids");
            assert_eq!(fmt_msg(&m2, &mut Ids::default()), t1, "fresh Ids");
            assert_eq!(std::mem::discriminant(m), std::mem::discriminant(&m2), "{t1}");
            // known ids resolve to the uuids they were assigned to: exact message equality
            // (except where the text drops information)
            let mut ids3 = Ids::default();
            let t3 = fmt_msg(m, &mut ids3);
            let m3 = parse_msg(&t3, &mut ids3).unwrap();
            if !matches!(m, Message::RegisterIntrospection(_))
                && !matches!(m, Message::CreateService2(c) if c.value.deserialize::<ServiceInfo>().is_err())
                && !t3.ends_with(" 999")
            {
                assert_eq!(&m3, m, "{t3}");
            }
        }
        // every kind of gen_msg_raw in bin/broker.rs
        for k in [
            "CreateObject", "DestroyObject", "CreateService", "CreateService2", "DestroyService", "CallFunction",
            "CallFunction2", "CallFunctionReply", "AbortFunctionCall", "SubscribeEvent", "UnsubscribeEvent", "EmitEvent",
            "QueryServiceVersion", "QueryServiceInfo", "SubscribeService", "UnsubscribeService", "SubscribeAllEvents",
            "UnsubscribeAllEvents", "CreateChannel", "ClaimChannelEnd", "CloseChannelEnd", "SendItem", "AddChannelCapacity",
            "CreateBusListener", "AddBusListenerFilter", "RemoveBusListenerFilter", "ClearBusListenerFilters",
            "DestroyBusListener", "StartBusListener", "StopBusListener", "Sync", "SyncReply", "ServiceDestroyed",
            "QueryIntrospection", "RegisterIntrospection", "ChannelEndClosed", "CreateObjectReply", "ItemReceived",
        ] {
            assert!(kinds.contains(k), "no sample of kind {k}");
        }
    }

    #[test]
    fn unknown_ids_are_bound_and_known_ids_resolve() {
        let mut ids = Ids::default();
        let a = ids.id(u(1));
        assert_eq!(a, 1);
        let m = parse_msg("CreateService 0 9 1 2", &mut ids).unwrap();
        let Message::CreateService(cs) = m else { panic!() };
        assert_eq!(cs.uuid.0, u(1));
        assert_eq!(ids.id(cs.object_cookie.0), 9);
        assert!(ids.next >= 9);
        let fresh = u(0xabcdef);
        ids.bind(fresh, 12);
        assert_eq!(ids.id(fresh), 12);
        assert_eq!(ids.uuid_of(12), Some(fresh));
        assert_eq!(ids.id(u(0x77)), 13);
        assert!(parse_msg("CreateService 0 9 1", &mut ids).is_err());
        assert!(parse_msg("Sync 1 2", &mut ids).is_err());
        assert!(parse_msg("Other", &mut ids).is_err());
    }
}
