//! Text format of protocol messages shared with the broker model driver
//! (`extract/broker_driver.ml`): `Kind field field ...`, options as `-`, uuids as small integers
//! assigned in order of first appearance, payloads as the u8 they encode.
use aldrin_core::message::*;
use aldrin_core::*;
use std::collections::HashMap;
use uuid::Uuid;

#[derive(Default)]
pub struct Ids {
    pub map: HashMap<Uuid, u64>,
    pub next: u64,
    pub last_new: Option<u64>,
}

impl Ids {
    pub fn id(&mut self, u: Uuid) -> u64 {
        if let Some(i) = self.map.get(&u) {
            return *i;
        }
        self.next += 1;
        self.map.insert(u, self.next);
        self.last_new = Some(self.next);
        self.next
    }
}

pub fn payload_id(v: &SerializedValueSlice) -> u64 {
    v.deserialize::<u8>().map(|x| x as u64).unwrap_or(999)
}

fn opt(o: Option<u32>) -> String {
    o.map(|x| x.to_string()).unwrap_or_else(|| "-".into())
}

pub fn info_text(i: &ServiceInfo, ids: &mut Ids) -> String {
    format!(
        "I {} {} {}",
        i.version(),
        i.type_id().map(|t| ids.id(t.0).to_string()).unwrap_or_else(|| "-".into()),
        match i.subscribe_all() {
            None => "-",
            Some(false) => "0",
            Some(true) => "1",
        }
    )
}

fn endc(e: ChannelEndWithCapacity) -> String {
    match e {
        ChannelEndWithCapacity::Sender => "S".into(),
        ChannelEndWithCapacity::Receiver(c) => format!("R {c}"),
    }
}

fn end(e: ChannelEnd) -> &'static str {
    match e {
        ChannelEnd::Sender => "S",
        ChannelEnd::Receiver => "R",
    }
}

fn filter(f: BusListenerFilter, ids: &mut Ids) -> String {
    let o = |x: Option<Uuid>, ids: &mut Ids| x.map(|u| ids.id(u).to_string()).unwrap_or_else(|| "-".into());
    match f {
        BusListenerFilter::Object(ob) => format!("O {}", o(ob.map(|x| x.0), ids)),
        BusListenerFilter::Service(s) => {
            format!("S {} {}", o(s.object.map(|x| x.0), ids), o(s.service.map(|x| x.0), ids))
        }
    }
}

fn bus_event(e: BusEvent, ids: &mut Ids) -> String {
    match e {
        BusEvent::ObjectCreated(o) => format!("OC {} {}", ids.id(o.uuid.0), ids.id(o.cookie.0)),
        BusEvent::ObjectDestroyed(o) => format!("OD {} {}", ids.id(o.uuid.0), ids.id(o.cookie.0)),
        BusEvent::ServiceCreated(s) => format!(
            "SC {} {} {} {}",
            ids.id(s.object_id.uuid.0),
            ids.id(s.object_id.cookie.0),
            ids.id(s.uuid.0),
            ids.id(s.cookie.0)
        ),
        BusEvent::ServiceDestroyed(s) => format!(
            "SD {} {} {} {}",
            ids.id(s.object_id.uuid.0),
            ids.id(s.object_id.cookie.0),
            ids.id(s.uuid.0),
            ids.id(s.cookie.0)
        ),
    }
}

pub fn fmt_msg(m: &Message, ids: &mut Ids) -> String {
    use Message as M;
    match m {
        M::CreateObject(r) => format!("CreateObject {} {}", r.serial, ids.id(r.uuid.0)),
        M::CreateObjectReply(r) => format!(
            "CreateObjectReply {} {}",
            r.serial,
            match r.result {
                CreateObjectResult::Ok(c) => format!("Ok {}", ids.id(c.0)),
                CreateObjectResult::DuplicateObject => "Dup".into(),
            }
        ),
        M::DestroyObject(r) => format!("DestroyObject {} {}", r.serial, ids.id(r.cookie.0)),
        M::DestroyObjectReply(r) => format!(
            "DestroyObjectReply {} {}",
            r.serial,
            match r.result {
                DestroyObjectResult::Ok => "Ok",
                DestroyObjectResult::InvalidObject => "Invalid",
                DestroyObjectResult::ForeignObject => "Foreign",
            }
        ),
        M::CreateService(r) => format!(
            "CreateService {} {} {} {}",
            r.serial,
            ids.id(r.object_cookie.0),
            ids.id(r.uuid.0),
            r.version
        ),
        M::CreateService2(r) => format!(
            "CreateService2 {} {} {} {}",
            r.serial,
            ids.id(r.object_cookie.0),
            ids.id(r.uuid.0),
            match r.value.deserialize::<ServiceInfo>() {
                Ok(i) => info_text(&i, ids),
                Err(_) => "BAD".into(),
            }
        ),
        M::CreateServiceReply(r) => format!(
            "CreateServiceReply {} {}",
            r.serial,
            match r.result {
                CreateServiceResult::Ok(c) => format!("Ok {}", ids.id(c.0)),
                CreateServiceResult::DuplicateService => "Dup".into(),
                CreateServiceResult::InvalidObject => "InvalidObject".into(),
                CreateServiceResult::ForeignObject => "Foreign".into(),
            }
        ),
        M::DestroyService(r) => format!("DestroyService {} {}", r.serial, ids.id(r.cookie.0)),
        M::DestroyServiceReply(r) => format!(
            "DestroyServiceReply {} {}",
            r.serial,
            match r.result {
                DestroyServiceResult::Ok => "Ok",
                DestroyServiceResult::InvalidService => "Invalid",
                DestroyServiceResult::ForeignObject => "Foreign",
            }
        ),
        M::CallFunction(r) => format!(
            "CallFunction {} {} {} {}",
            r.serial,
            ids.id(r.service_cookie.0),
            r.function,
            payload_id(&r.value)
        ),
        M::CallFunction2(r) => format!(
            "CallFunction2 {} {} {} {} {}",
            r.serial,
            ids.id(r.service_cookie.0),
            r.function,
            opt(r.version),
            payload_id(&r.value)
        ),
        M::CallFunctionReply(r) => format!(
            "CallFunctionReply {} {}",
            r.serial,
            match &r.result {
                CallFunctionResult::Ok(v) => format!("Ok {}", payload_id(v)),
                CallFunctionResult::Err(v) => format!("Err {}", payload_id(v)),
                CallFunctionResult::Aborted => "Aborted".into(),
                CallFunctionResult::InvalidService => "InvalidService".into(),
                CallFunctionResult::InvalidFunction => "InvalidFunction".into(),
                CallFunctionResult::InvalidArgs => "InvalidArgs".into(),
            }
        ),
        M::SubscribeEvent(r) => format!(
            "SubscribeEvent {} {} {}",
            opt(r.serial),
            ids.id(r.service_cookie.0),
            r.event
        ),
        M::SubscribeEventReply(r) => format!(
            "SubscribeEventReply {} {}",
            r.serial,
            match r.result {
                SubscribeEventResult::Ok => "Ok",
                SubscribeEventResult::InvalidService => "Invalid",
            }
        ),
        M::UnsubscribeEvent(r) => format!("UnsubscribeEvent {} {}", ids.id(r.service_cookie.0), r.event),
        M::EmitEvent(r) => format!(
            "EmitEvent {} {} {}",
            ids.id(r.service_cookie.0),
            r.event,
            payload_id(&r.value)
        ),
        M::QueryServiceVersion(r) => format!("QueryServiceVersion {} {}", r.serial, ids.id(r.cookie.0)),
        M::QueryServiceVersionReply(r) => format!(
            "QueryServiceVersionReply {} {}",
            r.serial,
            match r.result {
                QueryServiceVersionResult::Ok(v) => format!("Ok {v}"),
                QueryServiceVersionResult::InvalidService => "Invalid".into(),
            }
        ),
        M::CreateChannel(r) => format!("CreateChannel {} {}", r.serial, endc(r.end)),
        M::CreateChannelReply(r) => format!("CreateChannelReply {} {}", r.serial, ids.id(r.cookie.0)),
        M::CloseChannelEnd(r) => format!("CloseChannelEnd {} {} {}", r.serial, ids.id(r.cookie.0), end(r.end)),
        M::CloseChannelEndReply(r) => format!(
            "CloseChannelEndReply {} {}",
            r.serial,
            match r.result {
                CloseChannelEndResult::Ok => "Ok",
                CloseChannelEndResult::InvalidChannel => "Invalid",
                CloseChannelEndResult::ForeignChannel => "Foreign",
            }
        ),
        M::ChannelEndClosed(r) => format!("ChannelEndClosed {} {}", ids.id(r.cookie.0), end(r.end)),
        M::ClaimChannelEnd(r) => format!("ClaimChannelEnd {} {} {}", r.serial, ids.id(r.cookie.0), endc(r.end)),
        M::ClaimChannelEndReply(r) => format!(
            "ClaimChannelEndReply {} {}",
            r.serial,
            match r.result {
                ClaimChannelEndResult::SenderClaimed(c) => format!("SenderClaimed {c}"),
                ClaimChannelEndResult::ReceiverClaimed => "ReceiverClaimed".into(),
                ClaimChannelEndResult::InvalidChannel => "Invalid".into(),
                ClaimChannelEndResult::AlreadyClaimed => "Already".into(),
            }
        ),
        M::ChannelEndClaimed(r) => format!("ChannelEndClaimed {} {}", ids.id(r.cookie.0), endc(r.end)),
        M::AddChannelCapacity(r) => format!("AddChannelCapacity {} {}", ids.id(r.cookie.0), r.capacity),
        M::SendItem(r) => format!("SendItem {} {}", ids.id(r.cookie.0), payload_id(&r.value)),
        M::ItemReceived(r) => format!("ItemReceived {} {}", ids.id(r.cookie.0), payload_id(&r.value)),
        M::Sync(r) => format!("Sync {}", r.serial),
        M::SyncReply(r) => format!("SyncReply {}", r.serial),
        M::ServiceDestroyed(r) => format!("ServiceDestroyed {}", ids.id(r.service_cookie.0)),
        M::CreateBusListener(r) => format!("CreateBusListener {}", r.serial),
        M::CreateBusListenerReply(r) => format!("CreateBusListenerReply {} {}", r.serial, ids.id(r.cookie.0)),
        M::DestroyBusListener(r) => format!("DestroyBusListener {} {}", r.serial, ids.id(r.cookie.0)),
        M::DestroyBusListenerReply(r) => format!(
            "DestroyBusListenerReply {} {}",
            r.serial,
            match r.result {
                DestroyBusListenerResult::Ok => "Ok",
                DestroyBusListenerResult::InvalidBusListener => "Invalid",
            }
        ),
        M::AddBusListenerFilter(r) => {
            let c = ids.id(r.cookie.0);
            format!("AddBusListenerFilter {} {}", c, filter(r.filter, ids))
        }
        M::RemoveBusListenerFilter(r) => {
            let c = ids.id(r.cookie.0);
            format!("RemoveBusListenerFilter {} {}", c, filter(r.filter, ids))
        }
        M::ClearBusListenerFilters(r) => format!("ClearBusListenerFilters {}", ids.id(r.cookie.0)),
        M::StartBusListener(r) => format!(
            "StartBusListener {} {} {}",
            r.serial,
            ids.id(r.cookie.0),
            match r.scope {
                BusListenerScope::Current => "Current",
                BusListenerScope::New => "New",
                BusListenerScope::All => "All",
            }
        ),
        M::StartBusListenerReply(r) => format!(
            "StartBusListenerReply {} {}",
            r.serial,
            match r.result {
                StartBusListenerResult::Ok => "Ok",
                StartBusListenerResult::InvalidBusListener => "Invalid",
                StartBusListenerResult::AlreadyStarted => "Already",
            }
        ),
        M::StopBusListener(r) => format!("StopBusListener {} {}", r.serial, ids.id(r.cookie.0)),
        M::StopBusListenerReply(r) => format!(
            "StopBusListenerReply {} {}",
            r.serial,
            match r.result {
                StopBusListenerResult::Ok => "Ok",
                StopBusListenerResult::InvalidBusListener => "Invalid",
                StopBusListenerResult::NotStarted => "NotStarted",
            }
        ),
        M::EmitBusEvent(r) => {
            let c = r.cookie.map(|c| ids.id(c.0).to_string()).unwrap_or_else(|| "-".into());
            format!("EmitBusEvent {} {}", c, bus_event(r.event, ids))
        }
        M::BusListenerCurrentFinished(r) => format!("BusListenerCurrentFinished {}", ids.id(r.cookie.0)),
        M::AbortFunctionCall(r) => format!("AbortFunctionCall {}", r.serial),
        M::RegisterIntrospection(_) => "RegisterIntrospection".into(),
        M::QueryIntrospection(r) => format!("QueryIntrospection {}", r.serial),
        M::QueryIntrospectionReply(r) => format!("QueryIntrospectionReply {}", r.serial),
        M::QueryServiceInfo(r) => format!("QueryServiceInfo {} {}", r.serial, ids.id(r.cookie.0)),
        M::QueryServiceInfoReply(r) => format!(
            "QueryServiceInfoReply {} {}",
            r.serial,
            match &r.result {
                QueryServiceInfoResult::Ok(v) => match v.deserialize::<ServiceInfo>() {
                    Ok(i) => info_text(&i, ids),
                    Err(_) => "BAD".into(),
                },
                QueryServiceInfoResult::InvalidService => "Invalid".into(),
            }
        ),
        M::SubscribeService(r) => format!("SubscribeService {} {}", r.serial, ids.id(r.service_cookie.0)),
        M::SubscribeServiceReply(r) => format!(
            "SubscribeServiceReply {} {}",
            r.serial,
            match r.result {
                SubscribeServiceResult::Ok => "Ok",
                SubscribeServiceResult::InvalidService => "Invalid",
            }
        ),
        M::UnsubscribeService(r) => format!("UnsubscribeService {}", ids.id(r.service_cookie.0)),
        M::SubscribeAllEvents(r) => format!("SubscribeAllEvents {} {}", opt(r.serial), ids.id(r.service_cookie.0)),
        M::SubscribeAllEventsReply(r) => format!(
            "SubscribeAllEventsReply {} {}",
            r.serial,
            match r.result {
                SubscribeAllEventsResult::Ok => "Ok",
                SubscribeAllEventsResult::InvalidService => "Invalid",
                SubscribeAllEventsResult::NotSupported => "NotSupported",
            }
        ),
        M::UnsubscribeAllEvents(r) => format!("UnsubscribeAllEvents {} {}", opt(r.serial), ids.id(r.service_cookie.0)),
        M::UnsubscribeAllEventsReply(r) => format!(
            "UnsubscribeAllEventsReply {} {}",
            r.serial,
            match r.result {
                UnsubscribeAllEventsResult::Ok => "Ok",
                UnsubscribeAllEventsResult::InvalidService => "Invalid",
                UnsubscribeAllEventsResult::NotSupported => "NotSupported",
            }
        ),
        M::Shutdown(_) => "Shutdown".into(),
        M::Connect(_) | M::ConnectReply(_) | M::Connect2(_) | M::ConnectReply2(_) => "Other".into(),
    }
}
