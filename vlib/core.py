"""vlib.core — shared machinery of ./check: regenerate the translator output, build the Coq
targets of a property, audit them, build harness binaries and extracted model drivers, run
sharded correspondence runs, write evidence, report violations."""
import fcntl
import hashlib
import json
import os
import re
import shutil
import subprocess
import sys
import time

VERIF = os.path.dirname(os.path.dirname(os.path.abspath(__file__)))
REPO = os.environ.get("VERIF_REPO", "/repo")
COQ = os.path.join(VERIF, "coq")
BUILD = os.path.join(VERIF, "build")
WORK = os.path.join(VERIF, "work")
EVID = os.path.join(VERIF, "evidence")
REPLAYS = os.path.join(EVID, "replays")
TARGET = os.path.join(VERIF, "target")
NPROC = 16

FORBIDDEN = re.compile(
    r"\b(Admitted|admit|Axiom|Axioms|Parameter|Parameters|Conjecture|Conjectures|Hypothesis|Variable|"
    r"Unset\s+Guard|bypass_check|Unset\s+Positivity|Unset\s+Universe|type-in-type|impredicative-set|"
    r"Admit\s+Obligations)\b")
STMT = re.compile(r"^\s*(Theorem|Lemma|Example|Corollary|Fact|Remark|Proposition)\s+(\w+)", re.M)

# axioms a Print Assumptions may list (none are needed so far; extended per property when a
# library brings one in, each named in DESIGN.md §2)
ALLOWED_AXIOMS = set()


def log(*a):
    print(*a, file=sys.stderr, flush=True)


def sh(cmd, cwd=None, timeout=3600, env=None, capture=True):
    e = dict(os.environ)
    e["CARGO_NET_OFFLINE"] = "true"
    if env:
        e.update(env)
    t0 = time.time()
    try:
        p = subprocess.run(cmd, cwd=cwd, shell=isinstance(cmd, str), env=e, timeout=timeout,
                           stdout=subprocess.PIPE if capture else None,
                           stderr=subprocess.STDOUT if capture else None, text=True)
        return p.returncode, (p.stdout or ""), time.time() - t0
    except subprocess.TimeoutExpired as ex:
        out = ex.stdout if isinstance(ex.stdout, str) else (ex.stdout or b"").decode("utf-8", "replace")
        return 124, out + "\n[timeout]", time.time() - t0


class BuildLock:
    """builds are serialised so that checks may be launched concurrently"""

    def __enter__(self):
        os.makedirs(BUILD, exist_ok=True)
        self.f = open(os.path.join(VERIF, ".build.lock"), "w")
        fcntl.flock(self.f, fcntl.LOCK_EX)
        return self

    def __exit__(self, *a):
        fcntl.flock(self.f, fcntl.LOCK_UN)
        self.f.close()


# ---------------------------------------------------------------- Coq side

def regenerate():
    """run the translator; returns (all_ok, output, set of gen file names whose tie is broken)"""
    rc, out, _ = sh([sys.executable, os.path.join(VERIF, "tools", "rs2v.py")], timeout=120)
    failed = set(re.findall(r"TIE BROKEN \(([^)]+)\)", out))
    if rc != 0 and not failed:
        failed = {"*"}
    return rc == 0, out, failed


def regen_for(o, gen_files):
    """regenerate; only a broken tie of one of `gen_files` (names like 'Consts.v') concerns the caller"""
    ok, out, failed = regenerate()
    mine = {f for f in failed if f == "*" or f in gen_files}
    if mine:
        o.obligation_broken("translator tools/rs2v.py (tie to /repo sources): " + ", ".join(sorted(mine)), out)
    return not mine


def ensure_makefile():
    sh([sys.executable, os.path.join(VERIF, "tools", "mkproject.py")], timeout=60)
    mk = os.path.join(COQ, "Makefile")
    proj = os.path.join(COQ, "_CoqProject")
    if (not os.path.exists(mk)) or os.path.getmtime(mk) < os.path.getmtime(proj):
        rc, out, _ = sh("coq_makefile -f _CoqProject -o Makefile", cwd=COQ, timeout=120)
        if rc != 0:
            raise RuntimeError("coq_makefile failed: " + out)


def coq_build(targets, timeout=3000):
    """full .vo build (never -vos) of the given .v files and everything they depend on"""
    ensure_makefile()
    vo = [t[:-2] + ".vo" if t.endswith(".v") else t for t in targets]
    rc, out, dt = sh(["make", "-j%d" % NPROC] + vo, cwd=COQ, timeout=timeout)
    return rc == 0, out, dt


def coq_deps(files):
    """transitive closure of project-local dependencies of the given .v files (via coqdep)"""
    rc, out, _ = sh("coqdep -f _CoqProject 2>/dev/null", cwd=COQ, timeout=120)
    deps = {}
    for line in out.splitlines():
        if ":" not in line:
            continue
        lhs, rhs = line.split(":", 1)
        tg = [x for x in lhs.split() if x.endswith(".vo")]
        if not tg:
            continue
        src = tg[0][:-1]
        deps[src] = [x[:-1] for x in rhs.split() if x.endswith(".vo") and not x.startswith("/")]
    seen = set()
    todo = list(files)
    while todo:
        f = todo.pop()
        if f in seen:
            continue
        seen.add(f)
        todo.extend(deps.get(f, []))
    return sorted(seen)


def audit_sources(files):
    """forbidden declarations / switches anywhere in the cone (comments stripped)"""
    bad = []
    for f in files:
        p = os.path.join(COQ, f)
        try:
            src = open(p, encoding="utf-8").read()
        except OSError:
            continue
        src = strip_coq_comments(src)
        for m in FORBIDDEN.finditer(src):
            word = m.group(1)
            # Section-local Variable/Hypothesis are allowed only inside an open Section
            if word in ("Variable", "Hypothesis"):
                stack = []
                for mm in re.finditer(r"^\s*(Section|Module\s+Type|Module|End)\s+(\w+)", src[:m.start()], re.M):
                    if mm.group(1) == "End":
                        if stack and stack[-1][1] == mm.group(2):
                            stack.pop()
                    else:
                        stack.append((mm.group(1), mm.group(2)))
                if any(kind == "Section" for kind, _ in stack):
                    continue
            line = src.count("\n", 0, m.start()) + 1
            bad.append(f"{f}:{line}: {word}")
    return bad


def strip_coq_comments(src):
    out = []
    depth = 0
    i = 0
    n = len(src)
    instr = False
    while i < n:
        if depth == 0 and src[i] == '"':
            instr = not instr
            out.append(src[i])
            i += 1
            continue
        if not instr and src.startswith("(*", i):
            depth += 1
            i += 2
            continue
        if not instr and depth > 0 and src.startswith("*)", i):
            depth -= 1
            i += 2
            continue
        if depth == 0:
            out.append(src[i])
        elif src[i] == "\n":
            out.append("\n")
        i += 1
    return "".join(out)


def count_statements(files):
    names = []
    for f in files:
        try:
            src = strip_coq_comments(open(os.path.join(COQ, f), encoding="utf-8").read())
        except OSError:
            continue
        names += [f"{f}:{m.group(2)}" for m in STMT.finditer(src)]
    return names


def print_assumptions(props_file):
    """re-run coqc on the Props file and parse each `Print Assumptions` answer"""
    rc, out, _ = sh(["coqc", "-Q", ".", "Aldrin", props_file], cwd=COQ, timeout=900)
    src = strip_coq_comments(open(os.path.join(COQ, props_file), encoding="utf-8").read())
    asked = re.findall(r"Print\s+Assumptions\s+(\w+)\s*\.", src)
    answers = []
    cur = None
    for line in out.splitlines():
        if line.startswith("Closed under the global context"):
            answers.append([])
            cur = None
        elif line.startswith("Axioms:"):
            cur = []
            answers.append(cur)
        elif cur is not None and line.strip():
            m = re.match(r"^(\S+)\s*:", line)
            if m and not line.startswith(" " * 4):
                cur.append(m.group(1))
    res = {}
    for i, name in enumerate(asked):
        res[name] = answers[i] if i < len(answers) else None
    return rc == 0, res, out


def pins_ok(props_file, pins):
    """`pins` maps theorem name -> a normalised substring that must occur in its statement in
    the Props file, so that a statement cannot be quietly weakened.  In addition, when
    checks/pins/<Cxx>.json exists (written by tools/mkpins.py), every recorded statement must be
    present unchanged."""
    src = strip_coq_comments(open(os.path.join(COQ, props_file), encoding="utf-8").read())
    flat = re.sub(r"\s+", " ", src)
    cur = {}
    for m in re.finditer(r"(?:Theorem|Example|Corollary|Lemma)\s+(\w+)\s*:(.*?)\.\s*Proof\.", flat):
        cur[m.group(1)] = m.group(2).strip()
    missing = []
    for name, frag in (pins or {}).items():
        if name not in cur or re.sub(r"\s+", " ", frag).strip() not in cur[name]:
            missing.append(name)
    pinfile = os.path.join(VERIF, "checks", "pins", os.path.basename(props_file)[:-2] + ".json")
    if os.path.exists(pinfile):
        for name, stmt in json.load(open(pinfile)).items():
            if cur.get(name) != stmt and name not in missing:
                missing.append(name)
    return missing


# ---------------------------------------------------------------- Rust / OCaml side

def cargo_build(bins, features=None, rustflags=None, timeout=3000):
    h = os.path.join(VERIF, "harness")
    lock = os.path.join(h, "Cargo.lock")
    src_lock = os.path.join(REPO, "Cargo.lock")
    if os.path.exists(src_lock):
        if not os.path.exists(lock) or open(lock, "rb").read() != open(src_lock, "rb").read():
            shutil.copyfile(src_lock, lock)
    cmd = ["cargo", "build", "--offline"]
    for b in bins:
        cmd += ["--bin", b]
    if features:
        cmd += ["--features", ",".join(features)]
    env = {}
    if rustflags:
        env["RUSTFLAGS"] = rustflags
    rc, out, dt = sh(cmd, cwd=h, timeout=timeout, env=env)
    return rc == 0, out, dt


def harness_bin(name):
    return os.path.join(TARGET, "debug", name)


def file_hash(paths):
    h = hashlib.sha256()
    for p in paths:
        with open(p, "rb") as f:
            h.update(f.read())
    return h.hexdigest()


def build_driver(extract_v, model_name, driver_ml, exe, timeout=1200):
    """extract the model (coqc on coq/<extract_v>, which needs the .vo it imports) and compile
    it with the hand-written driver; cached on the hash of the extracted code + driver"""
    os.makedirs(BUILD, exist_ok=True)
    rc, out, _ = sh(["coqc", "-Q", COQ, "Aldrin", "-o", os.path.join(BUILD, extract_v[:-2] + ".vo"),
                     os.path.join(COQ, extract_v)], cwd=BUILD, timeout=timeout)
    if rc != 0:
        return False, out
    ml = os.path.join(BUILD, model_name + ".ml")
    mli = os.path.join(BUILD, model_name + ".mli")
    drv_src = os.path.join(VERIF, "extract", driver_ml)
    stamp = os.path.join(BUILD, exe + ".stamp")
    hsh = file_hash([ml, mli, drv_src])
    exe_path = os.path.join(BUILD, exe)
    if os.path.exists(exe_path) and os.path.exists(stamp) and open(stamp).read() == hsh:
        return True, "cached"
    shutil.copyfile(drv_src, os.path.join(BUILD, driver_ml))
    rc, out, _ = sh(["ocamlfind", "ocamlopt", "-O3", "-w", "-a", model_name + ".mli", model_name + ".ml",
                     driver_ml, "-o", exe], cwd=BUILD, timeout=timeout)
    if rc != 0:
        return False, out
    open(stamp, "w").write(hsh)
    return True, out


def run_driver(exe, cases, out, timeout=3000):
    return sh("ulimit -s unlimited 2>/dev/null || ulimit -s 1000000; exec %s %s %s" % (
        os.path.join(BUILD, exe), cases, out), timeout=timeout)


def parallel(cmds, timeout=3000):
    """run shell commands concurrently (at most NPROC at a time); returns list of (rc, out)"""
    res = [None] * len(cmds)
    running = []
    idx = 0
    e = dict(os.environ)
    e["CARGO_NET_OFFLINE"] = "true"
    t0 = time.time()
    while idx < len(cmds) or running:
        while idx < len(cmds) and len(running) < NPROC:
            p = subprocess.Popen(cmds[idx], shell=True, env=e, stdout=subprocess.PIPE,
                                 stderr=subprocess.STDOUT, text=True)
            running.append((idx, p))
            idx += 1
        still = []
        for i, p in running:
            if p.poll() is None:
                if time.time() - t0 > timeout:
                    p.kill()
                    res[i] = (124, "[timeout]")
                else:
                    still.append((i, p))
            else:
                res[i] = (p.returncode, p.stdout.read())
        running = still
        time.sleep(0.05)
    return res


def diff_lines(cases_path, impl_path, model_path, skip=lambda case, impl: impl == "-", limit=60):
    """line-by-line comparison of implementation and model answers"""
    with open(cases_path, encoding="utf-8", errors="replace") as f:
        cases = f.read().split("\n")
    with open(impl_path, encoding="utf-8", errors="replace") as f:
        impl = f.read().split("\n")
    with open(model_path, encoding="utf-8", errors="replace") as f:
        model = f.read().split("\n")
    n = min(len(cases), len(impl), len(model))
    diffs = []
    compared = 0
    if not (len(cases) == len(impl) == len(model)):
        diffs.append({"line": -1, "case": "length mismatch",
                      "impl": str(len(impl)), "model": str(len(model))})
    for i in range(n):
        if skip(cases[i], impl[i]):
            continue
        if cases[i] == "":
            continue
        compared += 1
        if impl[i] != model[i]:
            if len(diffs) < limit:
                diffs.append({"line": i, "case": cases[i], "impl": impl[i], "model": model[i]})
            else:
                diffs.append(None)
    return compared, diffs


# ---------------------------------------------------------------- outcome

class Outcome:
    def __init__(self, prop, tier, seed):
        self.prop = prop
        self.tier = tier
        self.seed = seed
        self.t0 = time.time()
        self.broken = []         # proof obligations / ties / correspondences that no longer check
        self.violations = []     # (what, replay dict)
        self.coverage = {}
        self.assumptions = []
        self.notes = []

    def obligation_broken(self, name, detail):
        self.broken.append({"obligation": name, "detail": detail[-4000:]})
        log(f"[{self.prop}] BROKEN {name}: {detail[-1500:]}")

    def violation(self, what, replay):
        self.violations.append((what, replay))


def load_known():
    p = os.path.join(VERIF, "known_findings.json")
    if not os.path.exists(p):
        return []
    return json.load(open(p))


def match_known(prop, what, replay):
    """a known finding matches by property AND signature predicate over the replay"""
    for k in load_known():
        if k.get("property") != prop or k.get("status") != "known":
            continue
        sig = k.get("signature", {})
        ok = True
        for key, val in sig.items():
            if key == "what_contains":
                ok = ok and all(v in what for v in (val if isinstance(val, list) else [val]))
            elif key == "replay_field_in":
                for field, allowed in val.items():
                    ok = ok and str(replay.get(field)) in [str(a) for a in allowed]
            elif key == "replay_contains":
                blob = json.dumps(replay, sort_keys=True)
                ok = ok and all(v in blob for v in (val if isinstance(val, list) else [val]))
            else:
                ok = False
        if ok and sig:
            return k
    return None


def finish(o: Outcome, level="proof"):
    os.makedirs(REPLAYS, exist_ok=True)
    exit_code = 0
    lines = []
    real = []
    for what, replay in o.violations:
        k = match_known(o.prop, what, replay)
        if k is not None:
            line = f"KNOWN-FINDING: property={o.prop} {k.get('what', what)}"
            if line not in lines:
                lines.append(line)
        else:
            real.append((what, replay))
    # one VIOLATION line per distinct kind of failure (first replay of each)
    seen = set()
    for what, replay in real:
        key = what.split(":")[0]
        if key in seen:
            continue
        seen.add(key)
        if len(seen) > 12:          # enough distinct kinds printed; the rest is counted in the evidence
            continue
        h = hashlib.sha256(json.dumps(replay, sort_keys=True).encode()).hexdigest()[:12]
        path = os.path.join(REPLAYS, f"{o.prop}-{h}.json")
        with open(path, "w") as f:
            json.dump({"property": o.prop, "kind": "input", "seed": o.seed, "what": what, **replay}, f, indent=1)
        lines.append(f"VIOLATION property={o.prop} replay={path}")
        exit_code = 1
    if o.broken and not real:
        h = hashlib.sha256(json.dumps(o.broken, sort_keys=True).encode()).hexdigest()[:12]
        path = os.path.join(REPLAYS, f"{o.prop}-obligation-{h}.json")
        with open(path, "w") as f:
            json.dump({"property": o.prop, "kind": "obligation", "seed": o.seed,
                       "broken_obligations": o.broken,
                       "search": o.coverage.get("search_note", "the run's monitors found no failing input")},
                      f, indent=1)
        lines.append(f"VIOLATION property={o.prop} replay={path} no-failing-input-found")
        exit_code = 1
    cov = dict(o.coverage)
    cov.setdefault("obligations", 0)
    cov.setdefault("discharged", 0)
    ev = {
        "property_id": o.prop,
        "tier": o.tier,
        "seed": o.seed,
        "level": level,
        "coverage": cov,
        "assumptions": o.assumptions,
        "wall_s": round(time.time() - o.t0, 2),
        "violations": len(real) + (1 if (o.broken and not real) else 0),
    }
    if o.notes:
        ev["coverage"]["notes"] = o.notes
    if o.broken:
        ev["coverage"]["broken_obligations"] = o.broken
    os.makedirs(EVID, exist_ok=True)
    with open(os.path.join(EVID, f"{o.prop}.json"), "w") as f:
        json.dump(ev, f, indent=1)
    for l in lines:
        print(l, flush=True)
    if exit_code == 0:
        print(f"[{o.prop}] ok tier={o.tier} seed={o.seed} wall={ev['wall_s']}s "
              f"obligations={cov.get('discharged')}/{cov.get('obligations')} "
              f"evaluations={cov.get('evaluations')}", flush=True)
    return exit_code


TRUSTED_BASE_COMMON = [
    "Coq 8.16.1 kernel (coqc), vm_compute in Examples/finite sweeps/witnesses; no native_compute",
    "translator tools/rs2v.py (regex scanner of the named Rust tables/constants) and the reflexivity ties that consume its output",
    "extraction: Require Extraction ExtrOcamlBasic only (bool/option/list/prod/unit/sumbool to OCaml), no Extract Constant/Inductive of our own; OCaml 4.13.1 ocamlfind ocamlopt; hand-written line driver in extract/",
    "Rust harness in /verif/harness (generators, canonical printers, catch_unwind) and the Python glue in vlib/ that diffs outputs",
    "rustc/cargo as installed; std HashMap/HashSet iterate every element exactly once; bytes crate",
]


def proof_side(o: Outcome, props_file, pins=None, extra_files=()):
    """steps 1-3 of DESIGN §1.3 for one property: regenerate, build, audit, count"""
    ok, out, failed = regenerate()
    ensure_makefile()
    targets = [props_file] + list(extra_files)
    cone0 = coq_deps(targets)
    mine = {f for f in failed if f == "*" or ("gen/" + f) in cone0}
    if mine:
        o.obligation_broken("translator tools/rs2v.py (tie to /repo sources): " + ", ".join(sorted(mine)), out)
    with BuildLock():
        okb, outb, dt = coq_build(targets)
    cone = coq_deps(targets)
    stmts = count_statements(cone)
    o.coverage["obligations"] = len(stmts)
    o.coverage["checker_cmd"] = ("python3 tools/rs2v.py && cd coq && coq_makefile -f _CoqProject -o Makefile && make "
                                 + " ".join(t[:-2] + ".vo" for t in targets)
                                 + f" && coqc -Q . Aldrin {props_file}  (Print Assumptions)")
    o.coverage["proof_files"] = cone
    if not okb:
        # which file failed
        m = re.findall(r'File "\./([^"]+)", line (\d+)', outb)
        failing = m[-1][0] if m else "?"
        o.obligation_broken(f"coq build of {props_file} (failed in {failing})", outb)
        built = [f for f in cone if os.path.exists(os.path.join(COQ, f[:-2] + ".vo"))
                 and os.path.getmtime(os.path.join(COQ, f[:-2] + ".vo")) >= os.path.getmtime(os.path.join(COQ, f))]
        o.coverage["discharged"] = len(count_statements(built))
        return False
    o.coverage["discharged"] = len(stmts)
    bad = audit_sources(cone)
    if bad:
        o.obligation_broken("audit: forbidden declaration or switch", "\n".join(bad))
    okp, assum, outp = print_assumptions(props_file)
    o.coverage["print_assumptions"] = {k: ("Closed under the global context" if v == [] else v)
                                       for k, v in assum.items()}
    for name, ax in assum.items():
        if ax is None:
            o.obligation_broken(f"Print Assumptions {name}", "no answer parsed\n" + outp)
        else:
            extra = [a for a in ax if a not in ALLOWED_AXIOMS]
            if extra:
                o.obligation_broken(f"Print Assumptions {name}", "unexpected axioms: " + ", ".join(extra))
    if True:
        miss = pins_ok(props_file, pins)
        if miss:
            o.obligation_broken("statement pins", "statement changed or missing: " + ", ".join(miss))
    return not o.broken
