"""vlib.accept — the handshake part of C12: the real Acceptor / ClientBuilder (harness `accept`)
against Proto/Accept.v (extract/accept_driver) on the exhaustive grid
major in {0,1,2,2^32-1} x minor in {0..40, 2^32-1} x {Connect, Connect2}, every reply shape into
the real client, full client-vs-acceptor handshakes, plus seed-dependent random (major, minor)
points; and the monitor that evaluates the property statement on the Rust answers alone."""
import json
import os
import shutil

from . import core
from .core import BuildLock

PROP = "C12"


def build(o):
    ok = True
    with BuildLock():
        core.regen_for(o, {"AcceptConsts.v"})
        okc, outc, _ = core.cargo_build(["accept"])
        if not okc:
            o.obligation_broken("cargo build of the accept harness against /repo", outc)
            ok = False
        # the handshake model depends on nothing but gen/AcceptConsts.v: compile the two files
        # directly (independent of the state of the other subsystems' project fragments)
        for f in ("gen/AcceptConsts.v", "Proto/Accept.v"):
            rc, outb, _ = core.sh(["coqc", "-Q", core.COQ, "Aldrin", os.path.join(core.COQ, f)],
                                  cwd=core.COQ, timeout=600)
            if rc != 0:
                o.obligation_broken("coq build of the executable handshake model (" + f + ")", outb)
                return False
        okd, outd = core.build_driver("ExtractAccept.v", "accept_model", "accept_driver.ml", "accept_driver")
        if not okd:
            o.obligation_broken("extraction/compilation of the handshake model driver", outd)
            ok = False
    return ok


def workdir(name):
    d = os.path.join(core.WORK, PROP, name)
    shutil.rmtree(d, ignore_errors=True)
    os.makedirs(d, exist_ok=True)
    return d


def _expected(op):
    """the C12 handshake statement, independent of both the model and the harness monitor"""
    p = op.split()
    if p[0] == "A1":
        v = int(p[1])
        return "accepted c1 1.14 replyok" if v == 14 else f"incompatible 1.{v} replyinc 14"
    if p[0] == "A2":
        ma, mi = int(p[1]), int(p[2])
        if ma == 1 and mi >= 14:
            m = min(mi, 20)
            return f"accepted c2 1.{m} reply2ok {m}"
        return f"incompatible {ma}.{mi} reply2inc"
    if p[0] == "F2":
        return "full accepted 1.20 | connected 1.20"
    if p[0] == "F1":
        return "full accepted 1.14 | connected 1.14"
    return None


def handshake_correspondence(o, seed, extra=None):
    """run the grid; violations (monitor on the Rust outputs) -> o.violation with the op as the
    replayable input; model/implementation disagreement -> o.obligation_broken.  Returns the
    stats dict (also merged into o.coverage['handshake'])."""
    if not build(o):
        return {}
    if extra is None:
        extra = 400 if o.tier == "quick" else 20000
    d = workdir("accept")
    rc, out, _ = core.sh(f"VERIF_SEED={seed} {core.harness_bin('accept')} gen {d} {extra}", timeout=1200)
    if rc != 0:
        o.obligation_broken(f"harness accept gen (exit {rc})", out)
        return {}
    rc, out, _ = core.run_driver("accept_driver", f"{d}/cases.txt", f"{d}/model.txt", timeout=600)
    if rc != 0:
        o.obligation_broken(f"handshake model driver (exit {rc})", out)
        return {}
    compared, diffs = core.diff_lines(f"{d}/cases.txt", f"{d}/impl.txt", f"{d}/model.txt",
                                      skip=lambda case, impl: False)
    if diffs:
        o.obligation_broken("correspondence handshake: model and implementation differ on %d of %d ops"
                            % (len(diffs), compared), json.dumps([x for x in diffs if x][:5])[:3000])
    # monitors: the harness's own, and the statement re-evaluated here
    seen = set()
    with open(f"{d}/monitor.txt", encoding="utf-8", errors="replace") as f:
        for line in f:
            line = line.strip()
            if line:
                op = line.split("`")[1] if "`" in line else ""
                seen.add(op)
                o.violation("C12 " + line[:300], {"input": {"op": op}, "monitor_line": line[:2000]})
    checked = 0
    with open(f"{d}/cases.txt") as fc, open(f"{d}/impl.txt") as fi:
        for case, r in zip(fc, fi):
            case, r = case.strip(), r.strip()
            exp = _expected(case)
            if exp is None:
                continue
            checked += 1
            if r != exp and case not in seen:
                o.violation(f"C12 handshake: `{case}` gave `{r}`, the property requires `{exp}`",
                            {"input": {"op": case}, "impl_output": r, "expected": exp})
    try:
        st = json.load(open(f"{d}/stats.json"))
    except Exception as e:  # noqa: BLE001
        o.obligation_broken("harness accept stats.json", str(e))
        st = {}
    res = {
        "evaluations": compared,
        "statement_checked_on_impl": checked,
        "distinct_ops": st.get("distinct_ops"),
        "grid_ops": st.get("grid_ops"),
        "classes": st.get("classes"),
        "samples": st.get("samples"),
        "disagreements": len(diffs),
        "rule": "exhaustive grid major {0,1,2,2^32-1} x minor {0..40,2^32-1} x {Connect,Connect2} through "
                "Acceptor::new + accept on a real Broker; every ConnectReply/ConnectReply2 shape into "
                "ClientBuilder::connect/connect1; the real client against the real acceptor; plus random "
                "(major, minor) u32 points from the seed; distinct_ops = distinct op lines",
    }
    o.coverage["handshake"] = res
    return res


def replay_op(op):
    """re-run one op on the implementation and the model; returns (impl, model, expected)"""
    o = core.Outcome(PROP, "quick", 0)
    if not build(o):
        return None
    d = workdir("replay")
    open(f"{d}/cases.txt", "w").write(op.strip() + "\n")
    core.sh(f"{core.harness_bin('accept')} run {d}/cases.txt {d}/impl.txt", timeout=300)
    core.run_driver("accept_driver", f"{d}/cases.txt", f"{d}/model.txt", timeout=300)
    return (open(f"{d}/impl.txt").read().strip(), open(f"{d}/model.txt").read().strip(), _expected(op.strip()))
