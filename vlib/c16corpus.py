"""vlib.c16corpus — run the real code generator on generated schemas, assemble corpus crates in a
scratch directory under work/C16, compile them with cargo and attribute every rustc error to the
schema (module) it comes from.  "The generated code compiles" is decided here by rustc, not by a
theorem."""
import json
import os
import re
import shutil

from . import c16gen
from . import core

ALDRIN_GEN = os.path.join(core.REPO, "target", "debug", "aldrin-gen")
SCRATCH = os.path.join(core.WORK, "C16")
TARGET = os.path.join(SCRATCH, "target")

CARGO_TOML = """[package]
name = "%s"
version = "0.0.0"
edition = "2021"
publish = false

[workspace]

[dependencies]
aldrin = { path = "%s/aldrin", default-features = false, features = ["macros", "introspection", "new-v4-ids"] }
bytes = { version = "1.11.1", default-features = false }

[profile.dev]
opt-level = 0
debug = 0
incremental = false
overflow-checks = true
debug-assertions = true
"""

RUNNER_RS = r"""
mod rt {
    use aldrin::core::message::{Message, MessageKind, MessageOps};
    use aldrin::core::tags::PrimaryTag;
    use aldrin::core::{Deserialize, DeserializeError, Serialize, SerializeError, SerializedValue};

    pub fn hex(b: &[u8]) -> String {
        let mut s = String::with_capacity(b.len() * 2);
        for x in b {
            s.push_str(&format!("{:02x}", x));
        }
        s
    }

    pub fn unhex(s: &str) -> Vec<u8> {
        (0..s.len() / 2).map(|i| u8::from_str_radix(&s[2 * i..2 * i + 2], 16).unwrap()).collect()
    }

    /// a SerializedValue holding arbitrary bytes: payload of a SendItem frame
    pub fn sv_from_bytes(b: &[u8]) -> Option<SerializedValue> {
        if b.is_empty() {
            return None;
        }
        let total = 4 + 1 + 4 + b.len() + 16;
        let mut f = bytes::BytesMut::with_capacity(total);
        f.extend_from_slice(&(total as u32).to_le_bytes());
        f.extend_from_slice(&[u8::from(MessageKind::SendItem)]);
        f.extend_from_slice(&(b.len() as u32).to_le_bytes());
        f.extend_from_slice(b);
        f.extend_from_slice(&[0u8; 16]);
        match Message::deserialize_message(f) {
            Ok(Message::SendItem(m)) => Some(m.value),
            _ => None,
        }
    }

    pub fn de_err(e: DeserializeError) -> &'static str {
        match e {
            DeserializeError::InvalidSerialization => "Invalid",
            DeserializeError::UnexpectedEoi => "Eoi",
            DeserializeError::UnexpectedValue => "UnexpectedValue",
            DeserializeError::TooDeeplyNested => "TooDeep",
            DeserializeError::NoMoreElements => "NoMoreElements",
            DeserializeError::MoreElementsRemain => "MoreElementsRemain",
            DeserializeError::TrailingData => "TrailingData",
        }
    }

    pub fn ser_err(e: SerializeError) -> String {
        format!("{:?}", e)
    }

    pub enum Step {
        /// decoded and re-encoded (by reference); `owned` is the by-value encoding if it differs
        Ok(Vec<u8>, Option<Vec<u8>>),
        DeErr(&'static str),
        SerErr(String),
    }

    /// deserialize the generated type T from `b` and serialize it again
    pub fn cycle<T>(b: &[u8]) -> Step
    where
        T: PrimaryTag + Deserialize<T::Tag> + Serialize<T::Tag>,
        for<'a> &'a T: Serialize<T::Tag>,
    {
        let Some(sv) = sv_from_bytes(b) else { return Step::DeErr("Empty") };
        let x: T = match sv.deserialize_as::<T::Tag, T>() {
            Ok(x) => x,
            Err(e) => return Step::DeErr(de_err(e)),
        };
        let by_ref = match SerializedValue::serialize_as::<T::Tag>(&x) {
            Ok(s) => <SerializedValue as AsRef<[u8]>>::as_ref(&s).to_vec(),
            Err(e) => return Step::SerErr(ser_err(e)),
        };
        let owned = match SerializedValue::serialize_as::<T::Tag>(x) {
            Ok(s) => <SerializedValue as AsRef<[u8]>>::as_ref(&s).to_vec(),
            Err(e) => return Step::SerErr(ser_err(e)),
        };
        if owned == by_ref {
            Step::Ok(by_ref, None)
        } else {
            Step::Ok(by_ref, Some(owned))
        }
    }
}

fn run_line(line: &str) -> String {
    let w: Vec<&str> = line.split(' ').collect();
    match w.as_slice() {
        ["de", key, h] => match step(key, &rt::unhex(h)) {
            None => format!("!NOTYPE {}", key),
            Some(rt::Step::Ok(b, None)) => format!("ok {}", rt::hex(&b)),
            Some(rt::Step::Ok(b, Some(o))) => format!("ok {} OWNED-DIFF {}", rt::hex(&b), rt::hex(&o)),
            Some(rt::Step::DeErr(e)) => format!("err {}", e),
            Some(rt::Step::SerErr(e)) => format!("serr {}", e),
        },
        ["pair", old, new, h] => match step(old, &rt::unhex(h)) {
            None => format!("!NOTYPE {}", old),
            Some(rt::Step::DeErr(e)) => format!("err {}", e),
            Some(rt::Step::SerErr(e)) => format!("serr {}", e),
            Some(rt::Step::Ok(b, _)) => match step(new, &b) {
                None => format!("!NOTYPE {}", new),
                Some(rt::Step::Ok(b2, _)) => format!("ok {} {}", rt::hex(&b), rt::hex(&b2)),
                Some(rt::Step::DeErr(e)) => format!("ok {} err2 {}", rt::hex(&b), e),
                Some(rt::Step::SerErr(e)) => format!("ok {} err2 serr {}", rt::hex(&b), e),
            },
        },
        _ => "!BADLINE".to_string(),
    }
}

fn main() {
    use std::io::{BufRead, Write};
    std::panic::set_hook(Box::new(|_| {}));
    let a: Vec<String> = std::env::args().collect();
    let inp = std::io::BufReader::new(std::fs::File::open(&a[1]).unwrap());
    let mut out = std::io::BufWriter::new(std::fs::File::create(&a[2]).unwrap());
    for line in inp.lines() {
        let line = line.unwrap();
        let r = std::panic::catch_unwind(|| run_line(&line));
        let s = match r {
            Ok(s) => s,
            Err(e) => {
                let m = if let Some(s) = e.downcast_ref::<String>() { s.clone() } else if let Some(s) = e.downcast_ref::<&str>() { s.to_string() } else { "panic".to_string() };
                format!("!PANIC {}", m.replace('\n', " "))
            }
        };
        writeln!(out, "{}", s).unwrap();
    }
}
"""


def ensure_aldrin_gen(o):
    """the CLI is a workspace member of /repo; building it there is allowed (target/ is git-ignored)"""
    rc, out, _ = core.sh(["cargo", "build", "--offline", "-p", "aldrin-gen"], cwd=core.REPO, timeout=1500)
    if rc != 0 or not os.path.exists(ALDRIN_GEN):
        o.obligation_broken("cargo build -p aldrin-gen in /repo", out)
        return False
    return True


def write_schemas(d, schemas):
    os.makedirs(d, exist_ok=True)
    for s in schemas:
        with open(os.path.join(d, s.name + ".aldrin"), "w", encoding="utf-8", newline="") as f:
            f.write(c16gen.render(s))


def codegen_cli(schema_dir, name, outdir, introspection):
    os.makedirs(outdir, exist_ok=True)
    cmd = [ALDRIN_GEN, "rust", "--color", "never", "-I", schema_dir, "-o", outdir]
    if introspection:
        cmd.append("--introspection")
    cmd.append(os.path.join(schema_dir, name + ".aldrin"))
    rc, out, _ = core.sh(cmd, timeout=120)
    ok = rc == 0 and os.path.exists(os.path.join(outdir, name + ".rs"))
    return ok, out


VARIANTS = {
    "plain": "aldrin-gen rust",
    "intro": "aldrin-gen rust --introspection",
    "mac": "aldrin::generate!(.., introspection = true)",
    "macplain": "aldrin::generate!(..)",
}


class Crate:
    """one corpus crate: modules[variant] = [schema names]; types = {key: variant} for the runner"""

    def __init__(self, name, schema_dir):
        self.name = name
        self.dir = os.path.join(SCRATCH, name)
        self.schema_dir = schema_dir
        self.modules = {}
        self.types = {}
        self.mac_lines = {}
        self.expect = {}             # {type key: [trait paths]} compile-time assertions (src/expect.rs)
        self.expect_lines = {}
        self.codegen_failures = []   # (variant, schema, output)

    def generate(self, variant, names):
        ok_names = []
        for n in names:
            if variant in ("plain", "intro"):
                ok, out = codegen_cli(self.schema_dir, n, os.path.join(self.dir, "src", variant), variant == "intro")
                if not ok:
                    self.codegen_failures.append((variant, n, out[-3000:]))
                    continue
            ok_names.append(n)
        self.modules[variant] = ok_names

    def write(self, with_runner):
        src = os.path.join(self.dir, "src")
        os.makedirs(src, exist_ok=True)
        with open(os.path.join(self.dir, "Cargo.toml"), "w") as f:
            f.write(CARGO_TOML % (self.name, core.REPO))
        shutil.copyfile(os.path.join(core.REPO, "Cargo.lock"), os.path.join(self.dir, "Cargo.lock"))
        main = "#![allow(warnings)]\n"
        self.mac_lines = {}
        for variant, names in self.modules.items():
            if variant in ("plain", "intro"):
                main += "pub mod %s {\n%s}\n" % (variant, "".join("    pub mod r#%s;\n" % n for n in names))
            else:
                main += "#[path = \"%s.rs\"]\npub mod %s;\n" % (variant, variant)
                body = ""
                for i, n in enumerate(names):
                    opts = ", introspection = true" if variant == "mac" else ""
                    body += "::aldrin::generate!(\"%s\", include = \"%s\"%s);\n" % (
                        os.path.join(self.schema_dir, n + ".aldrin"), self.schema_dir, opts)
                    self.mac_lines[(variant, i + 1)] = n
                with open(os.path.join(src, variant + ".rs"), "w") as f:
                    f.write(body)
        # what the generated types must implement (c16gen.Env.expected_impls): one assertion per line,
        # for every variant the schema's module is compiled in
        self.expect_lines = {}
        body = ""
        for variant, names in sorted(self.modules.items()):
            for k, traits in sorted(self.expect.items()):
                if k.split(".", 1)[0] in names:
                    self.expect_lines[len(self.expect_lines) + 1] = (variant, k.split(".", 1)[0])
                    body += "const _: fn() = || { fn a<T: %s>() {} a::<%s>(); };\n" % (
                        " + ".join(traits), c16gen.rust_path(k, "crate::" + variant))
        if body:
            with open(os.path.join(src, "expect.rs"), "w") as f:
                f.write(body)
            main += "mod expect;\n"
        if with_runner:
            arms = "".join("        \"%s\" => rt::cycle::<%s>(b),\n" % (k, c16gen.rust_path(k, v))
                           for k, v in sorted(self.types.items()))
            main += "fn step(key: &str, b: &[u8]) -> Option<rt::Step> {\n    Some(match key {\n%s        _ => return None,\n    })\n}\n" % arms
            main += RUNNER_RS
        else:
            main += "fn main() {}\n"
        with open(os.path.join(src, "main.rs"), "w") as f:
            f.write(main)

    def module_of(self, file_name, line):
        """(variant, schema) a diagnostic span belongs to"""
        m = re.search(r"src/(plain|intro)/([A-Za-z0-9_]+)\.rs$", file_name)
        if m:
            return m.group(1), m.group(2)
        m = re.search(r"src/(mac|macplain)\.rs$", file_name)
        if m:
            n = self.mac_lines.get((m.group(1), line))
            if n:
                return m.group(1), n
        if re.search(r"src/expect\.rs$", file_name):
            return self.expect_lines.get(line)
        return None

    def build(self, timeout=2400):
        """cargo build; returns (ok, errors) with errors = [{module, message, line, text, rendered}]"""
        env = {"CARGO_TARGET_DIR": TARGET}
        rc, out, dt = core.sh(["cargo", "build", "--offline", "--message-format=json"], cwd=self.dir,
                              timeout=timeout, env=env)
        errors = []
        for line in out.splitlines():
            if not line.startswith("{"):
                continue
            try:
                j = json.loads(line)
            except ValueError:
                continue
            if j.get("reason") != "compiler-message":
                continue
            msg = j.get("message", {})
            if msg.get("level") not in ("error", "error: internal compiler error"):
                continue
            if msg.get("message", "").startswith("aborting due to"):
                continue
            mod = None
            at = None
            text = ""
            fname = ""
            spans = msg.get("spans", [])
            for sp in sorted(spans, key=lambda s: not s.get("is_primary")):
                chain = sp
                while chain is not None and mod is None:
                    mod = self.module_of(chain.get("file_name", ""), chain.get("line_start", 0))
                    if mod is not None:
                        at = chain.get("line_start")
                        fname = chain.get("file_name", "")
                        if chain.get("text"):
                            text = chain["text"][0].get("text", "")
                    exp = chain.get("expansion")
                    chain = exp.get("span") if exp else None
                if mod is not None:
                    break
            help_msgs = " ".join(c.get("message", "") for c in msg.get("children", []))
            errors.append({"module": mod, "message": msg.get("message", ""), "line": at, "text": text[:300], "file": fname,
                           "help": help_msgs[:300], "rendered": (msg.get("rendered") or "")[:1500]})
        ok = rc == 0
        if not ok and not errors:
            errors.append({"module": None, "message": "cargo failed without a compiler message", "line": None,
                           "text": "", "help": "", "rendered": out[-3000:]})
        return ok, errors, dt

    def exe(self):
        return os.path.join(TARGET, "debug", self.name)

    def remove(self):
        shutil.rmtree(self.dir, ignore_errors=True)


RUST_KEYWORDS = set("""as break const continue crate else enum extern false fn for if impl in let loop match mod move mut
pub ref return self Self static struct super trait true type unsafe use where while async await dyn abstract become box do
final macro override priv typeof unsized virtual yield try gen""".split())


def classify(err, rs_line=""):
    """failure class of one rustc error (classes a-f are the known defects; `impl` = a compile-time assertion
    of src/expect.rs failed: the type compiles but lacks a trait the code generator derives for it; anything
    else is `other`)"""
    m = err["message"]
    t = err.get("text", "") or rs_line
    if err.get("file", "").endswith("expect.rs"):
        return "impl", None
    mm = re.search(r"`(Self|self|crate|super|_)` cannot be a raw identifier", m)
    if mm:
        return "d", mm.group(1)
    if "bare CR not allowed in string" in m:
        return "c", None
    mc = re.match(r"\s*pub const (\w+)\s*:", t)
    if mc and mc.group(1) in RUST_KEYWORDS:
        return "b", mc.group(1)
    if "#[aldrin(doc = " in t and ("expected" in m or "unknown character escape" in m or "unterminated" in m
                                   or "unknown start of token" in m or "prefix" in m or "suffix" in m
                                   or "unescaped" in m or "invalid" in m):
        return "a", None
    mf = re.search(r"(let bindings|function parameters) cannot shadow (tuple structs|constants)", m)
    if mf or "is interpreted as a constant, not a new binding" in err.get("rendered", ""):
        return "f", None
    if "proc-macro derive panicked" in m and "attempt to add with overflow" in (err.get("help", "") + err.get("rendered", "")):
        return "e", None
    return "other", None


def cleanup(keep_target=False, keep_work=False):
    """remove the per-run crates (always), the case directories and tables (unless keep_work) and the
    shared cargo target directory (unless keep_target: it only caches the compiled dependencies)"""
    if not os.path.isdir(SCRATCH):
        return
    for n in os.listdir(SCRATCH):
        p = os.path.join(SCRATCH, n)
        if n == "target":
            if not keep_target:
                shutil.rmtree(p, ignore_errors=True)
        elif n.startswith("crate_"):
            shutil.rmtree(p, ignore_errors=True)
        elif not keep_work and (re.match(r"w\d+_\d+$", n) or n == "replay"):
            shutil.rmtree(p, ignore_errors=True)
        elif not keep_work and re.match(r"(types|pairs)\d*\.txt$", n):
            os.remove(p)
