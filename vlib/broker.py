"""vlib.broker — build and run the broker correspondence (C02 C03 C04 C05 C09 C10 C11 C12):
the real Broker::run + Connection::run on a deterministic executor (harness `broker`) against the
extracted Coq machine (extract/broker_driver.ml), one model step per injected operation."""
import json
import os
import re
import shutil

from . import core
from .core import BuildLock

GEN_FILES = {"BrokerConsts.v"}


def build(o):
    ok = True
    with BuildLock():
        core.regen_for(o, GEN_FILES)
        okc, outc, _ = core.cargo_build(["broker"])
        if not okc:
            o.obligation_broken("cargo build of the broker harness against /repo", outc)
            ok = False
        core.ensure_makefile()
        okb, outb, _ = core.coq_build(["Broker/Model.v", "Broker/GateSpec.v"])
        if not okb:
            o.obligation_broken("coq build of the executable broker model", outb)
            return False
        okd, outd = core.build_driver("ExtractBroker.v", "broker_model", "broker_driver.ml", "broker_driver")
        if not okd:
            o.obligation_broken("extraction/compilation of the broker model driver", outd)
            ok = False
    return ok


def workdir(prop, name):
    d = os.path.join(core.WORK, prop, name)
    shutil.rmtree(d, ignore_errors=True)
    os.makedirs(d, exist_ok=True)
    return d


def run(o, prop, histories, steps, mixes, shards, seed):
    """generate + replay; returns (dirs, verdict lines)"""
    dirs = []
    cmds = []
    per = max(1, histories // shards)
    for i in range(shards):
        d = workdir(prop, f"h{i}")
        dirs.append(d)
        mix = mixes[i % len(mixes)]
        cmds.append(f"VERIF_SEED={seed * 1000 + i} {core.harness_bin('broker')} gen {d} {per} {steps} {mix}"
                    f" && (ulimit -s unlimited 2>/dev/null || ulimit -s 1000000; "
                    f"{os.path.join(core.BUILD, 'broker_driver')} {d}/trace.txt {d}/verdict.txt)")
    res = core.parallel(cmds, timeout=3000)
    for (rc, out), d in zip(res, dirs):
        if rc != 0:
            o.obligation_broken(f"broker harness/driver run in {d} (exit {rc})", out)
    return dirs


DIV = re.compile(r"^DIVERGE (\S+) step=(\d+) what=(\S+) \| ev=(.*?) \| impl=(.*?) \| model=(.*)$")


def read_verdicts(dirs):
    """-> (ok_histories, steps, list of divergences {seed, step, what, ev, impl, model, events})"""
    ok = 0
    steps = 0
    divs = []
    for d in dirs:
        p = os.path.join(d, "verdict.txt")
        if not os.path.exists(p):
            continue
        cur = None
        with open(p, encoding="utf-8", errors="replace") as f:
            for line in f:
                line = line.rstrip("\n")
                if line.startswith("OK "):
                    ok += 1
                    cur = None
                elif line.startswith("DIVERGE "):
                    m = DIV.match(line)
                    if m:
                        cur = {"seed": m.group(1), "step": int(m.group(2)), "what": m.group(3), "ev": m.group(4),
                               "impl": m.group(5), "model": m.group(6), "events": [], "dir": d}
                        divs.append(cur)
                elif line.startswith("  EV ") and cur is not None:
                    cur["events"].append(line[5:])
                elif line.startswith("SUMMARY"):
                    m = re.search(r"steps=(\d+)", line)
                    if m:
                        steps += int(m.group(1))
    return ok, steps, divs


def merge_stats(dirs):
    tot = {"histories": 0, "steps": 0, "panics": 0, "kinds": {}}
    for d in dirs:
        p = os.path.join(d, "stats.json")
        if not os.path.exists(p):
            continue
        try:
            s = json.load(open(p))
        except Exception:
            continue
        for k in ("histories", "steps", "panics"):
            tot[k] += s.get(k, 0)
        for k, v in s.get("kinds", {}).items():
            tot["kinds"][k] = tot["kinds"].get(k, 0) + v
    return tot


def sample_history(dirs, max_lines=40):
    for d in dirs:
        p = os.path.join(d, "trace.txt")
        if os.path.exists(p):
            out = []
            with open(p, encoding="utf-8", errors="replace") as f:
                for line in f:
                    if line.startswith("EV ") or line.startswith("OUT "):
                        out.append(line.strip())
                    if len(out) >= max_lines:
                        break
            return out
    return []


def replay_history(prop, events, timeout=600):
    """re-execute a stored history (list of event texts, the "history" of a replay JSON) against the
    real broker (`broker replay`) and the extracted model (broker_driver).  The binaries must be
    built (build()).  -> (dir, rc, combined output, ok_histories, steps, divergences)"""
    d = workdir(prop, "replay")
    ev = os.path.join(d, "events.txt")
    with open(ev, "w", encoding="utf-8") as f:
        for e in events:
            f.write(e.strip() + "\n")
    rc, out, _ = core.sh(f"{core.harness_bin('broker')} replay {d} {ev}"
                         f" && (ulimit -s unlimited 2>/dev/null || ulimit -s 1000000; "
                         f"{os.path.join(core.BUILD, 'broker_driver')} {d}/trace.txt {d}/verdict.txt)", timeout=timeout)
    ok, steps, divs = read_verdicts([d])
    return d, rc, out, ok, steps, divs


def classes(what):
    """property ids a divergence is attributed to: 'C05+C12:outputs-differ(..)' -> {'C05','C12'}"""
    head = what.split(":", 1)[0]
    return set(x for x in head.split("+") if x.startswith("C"))


def correspondence(o, prop, tier, seed, mixes, sizes):
    """shared body of the broker-family checks.  A divergence whose class contains `prop` is a
    violation of `prop` with the event prefix as replay; divergences of other classes end that
    history for this property (counted, reported in the evidence, not alarmed here: the property
    they belong to raises them)."""
    if not build(o):
        return
    histories, steps, shards = sizes[tier]
    dirs = run(o, prop, histories, steps, mixes, shards, seed)
    ok, nsteps, divs = read_verdicts(dirs)
    mine = [d for d in divs if prop in classes(d["what"]) or d["what"].startswith(("DRIVER", "HARNESS"))]
    other = [d for d in divs if d not in mine]
    mine.sort(key=lambda d: d["step"])
    mix_of = {d: mixes[i % len(mixes)] for i, d in enumerate(dirs)}
    for d in mine[:50]:
        if d["what"].startswith(("DRIVER", "HARNESS")):
            o.obligation_broken("broker correspondence machinery: " + d["what"], json.dumps(d)[:3000])
        else:
            o.violation(d["what"], {"history": d["events"], "failing_step": d["step"], "event": d["ev"],
                                    "impl_output": d["impl"], "model_output": d["model"], "history_seed": d["seed"],
                                    "mix": mix_of.get(d.get("dir"), "?")})
    st = merge_stats(dirs)
    distinct = len({k for k in st["kinds"]})
    o.coverage.update({
        "evaluations": nsteps,
        "histories": st["histories"],
        "histories_fully_agreeing": ok,
        "distinct_nontrivial": ok,
        "rule": "histories of 2-7 connections (protocol versions 1.14-1.20) over small UUID/serial/event pools; one "
                "injected operation (message from a live connection with cookies/serials chosen from live state, "
                "connect, four kinds of disconnect incl. dropping the connection task with its request still queued, "
                "idle shutdown, broker shutdown) = one step of the real broker run to quiescence = one step of the Coq "
                "machine; per step the multiset of messages per connection, the set of closed connections, the gauges "
                "(against the model's gauges AND against the true map sizes) and the exit flag are compared. "
                "distinct_nontrivial = histories (distinct seeds, >= 20 executed steps each on average) that agree on "
                "every step; evaluations = executed steps",
        "samples": [sample_history(dirs)],
        "input_distribution": {"mixes": mixes, "message_kinds_in_and_out": st["kinds"], "distinct_kinds": distinct},
        "divergences_attributed_to_this_property": len(mine),
        "divergences_attributed_to_other_properties": sorted({d["what"] for d in other})[:10],
        "implementation_panics": st["panics"],
    })
    return dirs
