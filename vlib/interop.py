"""vlib.interop — cross-version payload interop through the real broker and connection tasks
(harness `interop`) against the Coq model of the value converter (C12, last clause)."""
import json
import os

from . import codec, core
from .core import BuildLock

SIZES = {"quick": (6, 4), "thorough": (120, 16)}   # payloads per version pair and shard, shards


def run(o, prop, tier, seed):
    with BuildLock():
        okc, outc, _ = core.cargo_build(["interop"])
    if not okc:
        o.obligation_broken("cargo build of the interop harness against /repo", outc)
        return
    if not codec.build(o):
        return
    per, shards = SIZES[tier]
    dirs = []
    cmds = []
    for i in range(shards):
        d = codec.workdir(prop, f"interop{i}")
        dirs.append(d)
        cmds.append(f"VERIF_SEED={seed * 1000 + 500 + i} {core.harness_bin('interop')} {d} {per}")
    for (rc, out), d in zip(core.parallel(cmds, timeout=3000), dirs):
        if rc != 0:
            o.obligation_broken(f"harness interop (exit {rc})", out)
    codec.model_shards(o, dirs)
    compared = 0
    ndiff = 0
    first = []
    for d in dirs:
        try:
            c, diffs = core.diff_lines(f"{d}/cases.txt", f"{d}/impl.txt", f"{d}/model.txt")
        except OSError as e:
            o.obligation_broken("interop correspondence files", str(e))
            continue
        compared += c
        ndiff += len(diffs)
        first += [x for x in diffs if x][:3]
    for line in codec.read_monitor(dirs)[:100]:
        what, _, rest = line.partition(" bytes=")
        kind, _, where = what.partition(" path=")
        # one kind of failure = one VIOLATION line (the path and the version pair are details)
        o.violation((kind.replace(":", ";") + ": path=" + where)[:200],
                    {"input": {"payload": rest[:20000]}, "monitor_line": line[:4000]})
    if ndiff:
        o.obligation_broken("correspondence interop: payload delivered by the real broker differs from convert_api of the "
                            "model on %d of %d deliveries" % (ndiff, compared), json.dumps(first[:4])[:3000])
    st = codec.merge_stats(dirs)
    o.coverage["interop"] = {
        "deliveries_compared": compared, "disagreements": ndiff,
        "converted": st.get("converted"), "paths": st.get("paths"),
        "rule": "for every pair of negotiated versions (1.14..1.20)^2: generated payloads (legacy encoding from peers "
                "< 1.20, current or legacy from 1.20 peers) in calls, replies, events and channel items through the real "
                "broker + connection tasks; delivered bytes compared with convert_api (Coq) and checked to decode to the "
                "same value, without 1.20 encodings for receivers < 1.20",
    }
