"""vlib.schedx — run the scheduler harness (harness/src/bin/sched.rs: real clients + broker + connection
tasks under seeded schedules, C06's harness) on behalf of ANOTHER property whose anchors include client
code, and raise the failures that belong to that property (selected by tag / failure class).

C04: aldrin/src/client/{broker_subscriptions,proxies}.rs are C04 anchors — the per-proxy event oracle.
C12: aldrin/src/client.rs version gates — programs whose clients negotiate 1.14..1.19."""
import os
import shutil

from . import core
from .core import BuildLock


def read_monitor(d):
    out = []
    p = os.path.join(d, "monitor.txt")
    if os.path.exists(p):
        with open(p, encoding="utf-8", errors="replace") as f:
            for line in f:
                parts = line.rstrip("\n").split("\t")
                if len(parts) >= 6:
                    out.append({"class": parts[0], "case": parts[2], "detail": parts[3], "tag": parts[5]})
    return out


def run(o, prop, select, label, per_shard, shards, ops, seed, gen_opts=""):
    """select(m) -> text or None: the violation text for a monitor entry that belongs to `prop`"""
    with BuildLock():
        okc, outc, _ = core.cargo_build(["sched"])
    if not okc:
        o.obligation_broken("cargo build of the sched harness against /repo", outc)
        return
    sched = core.harness_bin("sched")
    cmds, dirs = [], []
    for i in range(shards):
        d = os.path.join(core.WORK, prop, f"sched{i}")
        shutil.rmtree(d, ignore_errors=True)
        os.makedirs(d, exist_ok=True)
        cmds.append(f"VERIF_SEED={seed * 1000 + 700 + i} {sched} gen {d} {per_shard} {ops} --no-cancel-claims {gen_opts}")
        dirs.append(d)
    res = core.parallel(cmds, timeout=3000)
    for (rc, out), d in zip(res, dirs):
        if rc != 0:
            o.obligation_broken(f"harness sched in {d} (exit {rc})", out)
    mine = 0
    other = {}
    cases = 0
    for d in dirs:
        try:
            import json
            cases += json.load(open(os.path.join(d, "stats.json"))).get("cases", 0)
        except (OSError, ValueError):
            pass
        for m in sorted(read_monitor(d), key=lambda m: len(m["case"].split())):
            what = select(m)
            if what is None:
                other[m["tag"]] = other.get(m["tag"], 0) + 1
                continue
            mine += 1
            if mine <= 30:
                o.violation(what, {"input": {"case": m["case"]}, "tag": m["tag"], "failure_class": m["class"],
                                   "impl_output": m["detail"],
                                   "how": "./check C06 --replay <a file with this input.case> runs the program under 300 "
                                          "schedules on the real clients and broker"})
    o.coverage[label] = {"programs": cases, "failures_of_this_property": mine,
                         "failures_left_to_other_properties": other}
