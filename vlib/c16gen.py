"""vlib.c16gen — grammar-directed generator of valid Aldrin schemas for C16 (DESIGN §4 C16, §5 item 7).

MAIN stream: every built-in type, nested generics, arrays (literal and const lengths), optional /
required fields, struct and enum fallbacks, newtypes (key and non-key targets), constants of every
kind, services with inline structs/enums in args/ok/err/events and both fallbacks, imports with
`schema::Type` references, identifiers that are Rust keywords (emitted as r#...), doc comments with
markdown links (so that `#[aldrin(doc = ...)]` attributes are emitted with --introspection), and
recursion through box/vec/map.  It AVOIDS exactly the four known failure classes:
  (a) a doc line containing `"` or `\\`; (b) a const named like a Rust keyword; (c) a string
  constant containing a bare CR; (d) the identifiers Self, self, crate, super, _.
SECOND stream: small schemas that contain exactly one of (a)-(d) each.

The same AST is rendered to schema text and to the wire-type table (types.txt) that the value
generator (harness `derive`), the corpus runner and the model driver share.
"""
import random

INTS = ["u8", "i8", "u16", "i16", "u32", "i32", "u64", "i64"]
KEYS = INTS + ["string", "uuid"]
LEAVES = ["bool"] + INTS + ["f32", "f64", "string", "uuid", "object_id", "service_id", "bytes", "lifetime", "unit",
                            "value"]

# Rust keywords that are legal raw identifiers (strict + reserved, 2021 edition) and do not start
# with a schema type keyword (grammar.pest type keywords have no word boundary, DESIGN §5 item 5)
RAW_OK = ["type", "match", "loop", "move", "ref", "mut", "impl", "trait", "where", "while", "for", "in", "if",
          "else", "let", "pub", "use", "mod", "dyn", "async", "await", "as", "break", "continue", "extern",
          "static", "unsafe", "return", "yield", "abstract", "become", "do", "final", "macro", "override", "priv",
          "typeof", "virtual", "try", "true", "false", "gen"]
RUST_KEYWORDS_FOR_CONST = ["match", "type", "loop", "move", "impl", "fn", "let", "mod", "pub", "ref", "static",
                           "struct", "enum", "trait", "use", "where", "while", "async", "await", "dyn", "try"]
FORBIDDEN_IDENTS = ["Self", "self", "crate", "super", "_"]
TYPE_KW_PREFIXES = ["u8", "i8", "u16", "i16", "u32", "i32", "u64", "i64", "string", "uuid", "object_id",
                    "service_id", "bool", "f32", "f64", "value", "box", "vec", "bytes", "map", "set", "option",
                    "sender", "receiver", "lifetime", "unit", "result"]

WORDS = ["alpha", "bravo", "delta", "echo", "gamma", "hotel", "india", "kilo", "lima", "mike", "nova", "oscar",
         "papa", "quebec", "romeo", "sierra", "tango", "whisky", "xray", "yankee", "zulu", "node", "leaf", "item",
         "entry", "point", "frame", "state", "config", "record"]


def camel(s):
    return "".join(p[:1].upper() + p[1:] for p in s.split("_"))


class Def:
    def __init__(self, kind, name, **kw):
        self.kind = kind
        self.name = name
        self.doc = []
        self.attrs = []
        self.__dict__.update(kw)


class Schema:
    def __init__(self, name):
        self.name = name
        self.doc = []
        self.imports = []
        self.defs = []
        self.label = "main"       # or a-d
        self.detail = {}

    def find(self, name):
        for d in self.defs:
            if d.name == name:
                return d
        return None


# ---------------------------------------------------------------- rendering

def ty_text(t):
    k = t[0]
    if k in ("option", "box", "vec", "set", "sender", "receiver"):
        return "%s<%s>" % (k, ty_text(t[1]))
    if k == "map":
        return "map<%s -> %s>" % (ty_text(t[1]), ty_text(t[2]))
    if k == "result":
        return "result<%s, %s>" % (ty_text(t[1]), ty_text(t[2]))
    if k == "array":
        n = t[2]
        return "[%s; %s]" % (ty_text(t[1]), n if isinstance(n, int) else ref_text(n))
    if k == "ref":
        return ref_text(t)
    return k


def ref_text(t):
    return t[2] if t[1] is None else "%s::%s" % (t[1], t[2])


def doc_lines(doc, ind, inline=False):
    return "".join("%s%s%s\n" % (ind, "//!" if inline else "///", (" " + l) if l else "") for l in doc)


def render_struct_body(d, ind, inline):
    out = ""
    if inline:
        out += doc_lines(d.doc, ind, True)
        for a in d.attrs:
            out += "%s#![rust(%s)]\n" % (ind, ", ".join(a))
    for f in d.fields:
        out += doc_lines(f.get("doc", []), ind)
        out += "%s%s%s @ %d = %s;\n" % (ind, "required " if f["req"] else "", f["name"], f["id"], ty_text(f["ty"]))
    if d.fallback:
        out += doc_lines(getattr(d, "fallback_doc", []), ind)
        out += "%s%s = fallback;\n" % (ind, d.fallback)
    return out


def render_enum_body(d, ind, inline):
    out = ""
    if inline:
        out += doc_lines(d.doc, ind, True)
        for a in d.attrs:
            out += "%s#![rust(%s)]\n" % (ind, ", ".join(a))
    for v in d.variants:
        out += doc_lines(v.get("doc", []), ind)
        if v["ty"] is None:
            out += "%s%s @ %d;\n" % (ind, v["name"], v["id"])
        else:
            out += "%s%s @ %d = %s;\n" % (ind, v["name"], v["id"], ty_text(v["ty"]))
    if d.fallback:
        out += doc_lines(getattr(d, "fallback_doc", []), ind)
        out += "%s%s = fallback;\n" % (ind, d.fallback)
    return out


def render_part(p, ind):
    """type_name_or_inline"""
    if isinstance(p, Def):
        if p.kind == "struct":
            return "struct {\n" + render_struct_body(p, ind + "    ", True) + ind + "}\n"
        return "enum {\n" + render_enum_body(p, ind + "    ", True) + ind + "}\n"
    return ty_text(p) + ";\n"


def render_def(d):
    out = doc_lines(d.doc, "")
    if d.kind in ("struct", "enum", "newtype"):
        for a in d.attrs:
            out += "#[rust(%s)]\n" % ", ".join(a)
    if d.kind == "struct":
        out += "struct %s {\n" % d.name + render_struct_body(d, "    ", False) + "}\n"
    elif d.kind == "enum":
        out += "enum %s {\n" % d.name + render_enum_body(d, "    ", False) + "}\n"
    elif d.kind == "newtype":
        out += "newtype %s = %s;\n" % (d.name, ty_text(d.ty))
    elif d.kind == "const":
        out += "const %s = %s(%s);\n" % (d.name, d.ckind, d.value)
    elif d.kind == "service":
        out += "service %s {\n    uuid = %s;\n    version = %d;\n" % (d.name, d.uuid, d.version)
        for it in d.items:
            out += "\n" + doc_lines(it.get("doc", []), "    ")
            if it["kind"] == "fn":
                parts = [(k, it.get(k)) for k in ("args", "ok", "err") if it.get(k) is not None]
                if not parts:
                    out += "    fn %s @ %d;\n" % (it["name"], it["id"])
                elif [k for k, _ in parts] == ["ok"] and it.get("short"):
                    out += "    fn %s @ %d = %s" % (it["name"], it["id"], render_part(parts[0][1], "    "))
                else:
                    out += "    fn %s @ %d {\n" % (it["name"], it["id"])
                    for k, p in parts:
                        out += "        %s = %s" % (k, render_part(p, "        "))
                    out += "    }\n"
            else:
                if it.get("ty") is None:
                    out += "    event %s @ %d;\n" % (it["name"], it["id"])
                else:
                    out += "    event %s @ %d = %s" % (it["name"], it["id"], render_part(it["ty"], "    "))
        fb = []
        if d.fn_fallback:
            fb.append(doc_lines(getattr(d, "fn_fallback_doc", []), "    ") + "    fn %s = fallback;\n" % d.fn_fallback)
        if d.ev_fallback:
            fb.append(doc_lines(getattr(d, "ev_fallback_doc", []), "    ") + "    event %s = fallback;\n" % d.ev_fallback)
        if getattr(d, "fb_swap", False):
            fb.reverse()
        for x in fb:
            out += "\n" + x
        out += "}\n"
    return out


def render(s):
    out = doc_lines(s.doc, "", True)
    if s.doc:
        out += "\n"
    for i in s.imports:
        out += "import %s;\n" % i
    if s.imports:
        out += "\n"
    return out + "\n".join(render_def(d) for d in s.defs)


# ---------------------------------------------------------------- wire-type table

def all_typedefs(s):
    """(rust type name, Def) for every struct/enum/newtype incl. inline service types"""
    out = []
    for d in s.defs:
        if d.kind in ("struct", "enum", "newtype"):
            out.append((d.name, d))
        elif d.kind == "service":
            for it in d.items:
                if it["kind"] == "fn":
                    for k, suffix in (("args", "Args"), ("ok", "Ok"), ("err", "Error")):
                        p = it.get(k)
                        if isinstance(p, Def):
                            out.append((d.name + camel(it["name"]) + suffix, p))
                else:
                    p = it.get("ty")
                    if isinstance(p, Def):
                        out.append((d.name + camel(it["name"]) + "Args", p))
    return out


class Table:
    def __init__(self, schemas):
        self.by_name = {s.name: s for s in schemas}

    def resolve(self, s, t):
        sch = s if t[1] is None else self.by_name[t[1]]
        return sch, sch.find(t[2])

    def key_kind(self, s, t):
        """the built-in key type a map/set key type resolves to (through newtypes)"""
        while t[0] == "ref":
            s, d = self.resolve(s, t)
            t = d.ty
        return t[0]

    def wire(self, s, t):
        k = t[0]
        if k == "box":
            return self.wire(s, t[1])
        if k == "option":
            return "opt " + self.wire(s, t[1])
        if k == "vec":
            if t[1] == ("u8",):
                return "bytes"
            return "vec " + self.wire(s, t[1])
        if k == "array":
            n = t[2]
            if not isinstance(n, int):
                sch, d = self.resolve(s, n)
                n = int(d.value)
            return "arr %d %s" % (n, self.wire(s, t[1]))
        if k == "map":
            return "map %s %s" % (self.key_kind(s, t[1]), self.wire(s, t[2]))
        if k == "set":
            return "set " + self.key_kind(s, t[1])
        if k == "result":
            return "res %s %s" % (self.wire(s, t[1]), self.wire(s, t[2]))
        if k in ("sender", "receiver"):
            return k
        if k == "lifetime":
            return "object_id"
        if k == "ref":
            sch, d = self.resolve(s, t)
            return "ref %s.%s" % (sch.name, d.name)
        return k

    def lines(self, s):
        out = []
        for name, d in all_typedefs(s):
            key = "%s.%s" % (s.name, name)
            if d.kind == "struct":
                fs = " ".join("%d %d %s" % (f["id"], 1 if f["req"] else 0, self.wire(s, f["ty"])) for f in d.fields)
                out.append("struct %s %d %d %s" % (key, 1 if d.fallback else 0, len(d.fields), fs))
            elif d.kind == "enum":
                vs = " ".join("%d %s" % (v["id"], "-" if v["ty"] is None else self.wire(s, v["ty"])) for v in d.variants)
                out.append("enum %s %d %d %s" % (key, 1 if d.fallback else 0, len(d.variants), vs))
            else:
                out.append("newtype %s %s" % (key, self.wire(s, d.ty)))
        return [l.rstrip() for l in out]


def rust_path(key, parent):
    sch, name = key.split(".", 1)
    return "%s::r#%s::r#%s" % (parent, sch, name)


# ---------------------------------------------------------------- main stream

class Gen:
    def __init__(self, seed):
        self.r = random.Random(seed)
        self.schemas = []
        self.uuid_n = 0

    def uuid(self):
        return "%08x-%04x-4%03x-8%03x-%012x" % (self.r.getrandbits(32), self.r.getrandbits(16), self.r.getrandbits(12),
                                                 self.r.getrandbits(12), self.r.getrandbits(48))

    def chance(self, p):
        return self.r.random() < p

    # -- names
    def fresh(self, used, style):
        for _ in range(1000):
            w = self.r.choice(WORDS)
            if self.chance(0.5):
                w += "_" + self.r.choice(WORDS)
            if self.chance(0.3):
                w += str(self.r.randrange(10))
            if style == "camel":
                w = camel(w)
            elif style == "shouty":
                w = w.upper()
            elif style == "snake" and self.chance(0.18):
                w = self.r.choice(RAW_OK)
            low = w.lower().replace("_", "")
            if low in used:
                continue
            if style == "camel" and (w.endswith("Ref") or w.endswith("Args") or w.endswith("Ok") or w.endswith("Error")
                                     or w.endswith("Proxy") or w.endswith("Event") or w.endswith("Call")
                                     or w.endswith("Handler") or w.endswith("Introspection")):
                continue
            used.add(low)
            return w
        raise RuntimeError("names exhausted")

    # -- docs (never a double quote or a backslash: class a)
    def doc(self, s, target_names, p=0.35):
        if not self.chance(p):
            return []
        lines = []
        for _ in range(self.r.randint(1, 3)):
            parts = []
            for _ in range(self.r.randint(1, 6)):
                c = self.r.random()
                if c < 0.55:
                    parts.append(self.r.choice(WORDS))
                elif c < 0.7 and target_names:
                    parts.append("[%s]" % self.r.choice(target_names))
                elif c < 0.78:
                    parts.append("`%s`" % self.r.choice(WORDS))
                elif c < 0.84:
                    parts.append("*%s*" % self.r.choice(WORDS))
                elif c < 0.9:
                    parts.append("it's %s -- ok..." % self.r.choice(WORDS))
                elif c < 0.95:
                    parts.append("<https://example.org/%s>" % self.r.choice(WORDS))
                else:
                    parts.append("ünï %s — ✓" % self.r.choice(WORDS))
            lines.append(" ".join(parts))
        if self.chance(0.15):
            lines.insert(1, "")
        return lines

    # -- types
    def named(self, s, pred, allow_extern=True):
        """all (schema|None, name) of definitions satisfying pred that `s` may reference"""
        out = [(None, d.name) for d in s.defs if pred(s, d)]
        if allow_extern:
            for imp in s.imports:
                o = self.by_name[imp]
                out += [(imp, d.name) for d in o.defs if pred(o, d)]
        return out

    def is_key_newtype(self, s, d):
        if d.kind != "newtype":
            return False
        t = d.ty
        seen = 0
        while t[0] == "ref" and seen < 10:
            sch = s if t[1] is None else self.by_name[t[1]]
            d2 = sch.find(t[2])
            if d2 is None or d2.kind != "newtype":
                return False
            s, t = sch, d2.ty
            seen += 1
        return t[0] in KEYS

    def key_type(self, s):
        c = self.named(s, self.is_key_newtype)
        if c and self.chance(0.25):
            sc, n = self.r.choice(c)
            return ("ref", sc, n)
        return (self.r.choice(KEYS),)

    def ref_ok(self, name):
        return not any(name.startswith(p) for p in TYPE_KW_PREFIXES)

    def ty(self, s, depth=0, selfname=None, breaker=False):
        """a random type; `selfname` may be referenced only below a recursion breaker"""
        r = self.r.random()
        if depth >= 3 or r < 0.42:
            types = self.named(s, lambda sc, d: d.kind in ("struct", "enum", "newtype") and self.ref_ok(d.name))
            if types and self.chance(0.4):
                sc, n = self.r.choice(types)
                return ("ref", sc, n)
            if selfname and breaker and self.chance(0.5):
                return ("ref", None, selfname)
            return (self.r.choice(LEAVES),)
        r = self.r.random()
        if selfname and depth == 0 and self.chance(0.08):
            return ("option", ("box", ("ref", None, selfname)))
        if r < 0.2:
            return ("option", self.ty(s, depth + 1, selfname, breaker))
        if r < 0.3:
            return ("box", self.ty(s, depth + 1, selfname, breaker))
        if r < 0.48:
            return ("vec", self.ty(s, depth + 1, selfname, True))
        if r < 0.62:
            return ("map", self.key_type(s), self.ty(s, depth + 1, selfname, True))
        if r < 0.7:
            return ("set", self.key_type(s))
        if r < 0.76:
            return (self.r.choice(["sender", "receiver"]), self.ty(s, depth + 1, selfname, True))
        if r < 0.86:
            return ("result", self.ty(s, depth + 1, selfname, breaker), self.ty(s, depth + 1, selfname, breaker))
        consts = self.named(s, lambda sc, d: d.kind == "const" and d.ckind in INTS and 0 < int(d.value) <= 4
                            and self.ref_ok(d.name))
        if consts and self.chance(0.5):
            sc, n = self.r.choice(consts)
            ln = ("ref", sc, n)
        else:
            ln = self.r.randint(1, 4)
        return ("array", self.ty(s, depth + 1, selfname, breaker), ln)

    def struct(self, s, name, inline=False):
        d = Def("struct", name, fields=[], fallback=None)
        used = set()
        ids = self.r.sample(range(0, 40), self.r.randint(0, 6))
        if self.chance(0.1):
            ids.append(self.r.choice([255, 256, 65535, 70000, 4294967293]))
        tn = [x.name for x in s.defs if x.kind in ("struct", "enum", "newtype", "const")]
        for i in ids:
            d.fields.append({"name": self.fresh(used, "snake"), "id": i, "req": self.chance(0.45),
                             "ty": self.ty(s, 0, None if inline else name), "doc": self.doc(s, tn, 0.2)})
        if self.chance(0.5):
            d.fallback = self.fresh(used, "snake")
            d.fallback_doc = self.doc(s, tn, 0.2)
        d.doc = self.doc(s, tn)
        return d

    def enum(self, s, name, inline=False):
        d = Def("enum", name, variants=[], fallback=None)
        used = set()
        ids = self.r.sample(range(0, 40), self.r.randint(1, 5))
        if self.chance(0.1):
            ids.append(self.r.choice([255, 256, 65535, 70000, 4294967293]))
        tn = [x.name for x in s.defs if x.kind in ("struct", "enum", "newtype", "const")]
        for n, i in enumerate(ids):
            # the first variant never refers to the enum itself so that a finite value exists
            t = None if self.chance(0.4) else self.ty(s, 0, None if (inline or n == 0) else name)
            d.variants.append({"name": camel(self.fresh(used, "snake")) if self.chance(0.85) else self.fresh(used, "snake"),
                               "id": i, "ty": t, "doc": self.doc(s, tn, 0.2)})
        if self.chance(0.5):
            d.fallback = camel(self.fresh(used, "snake"))
            d.fallback_doc = self.doc(s, tn, 0.2)
        d.doc = self.doc(s, tn)
        return d

    def const(self, s, used):
        kind = self.r.choice(INTS + ["string", "uuid"])
        name = self.fresh(used, "shouty")
        if kind in INTS:
            bits = int(kind[1:])
            lo, hi = (0, 2 ** bits - 1) if kind[0] == "u" else (-2 ** (bits - 1), 2 ** (bits - 1) - 1)
            v = self.r.choice([lo, hi, 0, 1, 2, 3, 4, self.r.randint(lo, hi)])
            value = str(v)
        elif kind == "string":
            # printable text with the two escapes of the grammar; never a bare CR (class c)
            alphabet = ["a", "B", " ", "{", "}", "'", "\\\\", '\\"', "é", "✓", "\t", "#", "%", "$"]
            value = '"' + "".join(self.r.choice(alphabet) for _ in range(self.r.randint(0, 12))) + '"'
        else:
            value = self.uuid()
        d = Def("const", name, ckind=kind, value=value)
        d.doc = self.doc(s, [], 0.2)
        return d

    def part(self, s, svc, allow_inline=True):
        if allow_inline and self.chance(0.45):
            return self.struct(s, None, True) if self.chance(0.6) else self.enum(s, None, True)
        return self.ty(s, 1)

    def service(self, s, name):
        d = Def("service", name, uuid=self.uuid(), version=self.r.choice([0, 1, 2, 7, 4294967295]), items=[],
                fn_fallback=None, ev_fallback=None)
        used = set()
        tn = [x.name for x in s.defs if x.kind in ("struct", "enum", "newtype", "const")]
        fids = self.r.sample(range(0, 30), self.r.randint(0, 4))
        for i in fids:
            it = {"kind": "fn", "name": self.fresh(used, "snake"), "id": i, "doc": self.doc(s, tn, 0.25)}
            for k in ("args", "ok", "err"):
                if self.chance(0.5):
                    it[k] = self.part(s, d)
            it["short"] = self.chance(0.5)
            d.items.append(it)
        eids = self.r.sample(range(0, 30), self.r.randint(0, 3))
        for i in eids:
            it = {"kind": "event", "name": self.fresh(used, "snake"), "id": i, "doc": self.doc(s, tn, 0.25)}
            if self.chance(0.7):
                it["ty"] = self.part(s, d)
            d.items.append(it)
        self.r.shuffle(d.items)
        if self.chance(0.4):
            d.fn_fallback = self.fresh(used, "snake")
            d.fn_fallback_doc = self.doc(s, tn, 0.25)
        if self.chance(0.4):
            d.ev_fallback = self.fresh(used, "snake")
            d.ev_fallback_doc = self.doc(s, tn, 0.25)
        d.fb_swap = self.chance(0.5)
        d.doc = self.doc(s, tn)
        return d

    def schema(self, name, earlier):
        s = Schema(name)
        if not hasattr(self, "by_name"):
            self.by_name = {}
        self.by_name.update({x.name: x for x in earlier})
        self.by_name[name] = s
        if earlier and self.chance(0.6):
            s.imports = sorted(set(self.r.sample([e.name for e in earlier], min(len(earlier), self.r.randint(1, 2)))))
        used = set()
        n = self.r.randint(3, 9)
        for _ in range(n):
            c = self.r.random()
            if c < 0.32:
                d = self.struct(s, self.fresh(used, "camel"))
            elif c < 0.55:
                d = self.enum(s, self.fresh(used, "camel"))
            elif c < 0.72:
                d = Def("newtype", self.fresh(used, "camel"), ty=None)
                d.ty = (self.r.choice(KEYS),) if self.chance(0.4) else self.ty(s, 0, None)
                d.doc = self.doc(s, [], 0.3)
            elif c < 0.88:
                d = self.const(s, used)
            else:
                d = self.service(s, self.fresh(used, "camel"))
            if d.kind in ("struct", "enum") and self.chance(0.15) and self.simple(s, d):
                d.attrs.append(self.r.sample(["impl_partial_eq", "impl_eq", "impl_partial_ord", "impl_ord", "impl_hash",
                                              "impl_copy"], self.r.randint(1, 6)))
                d.attrs[0] = self.close_derives(d.attrs[0])
            s.defs.append(d)
        # a keyword-named type now and then (raw identifier in type position)
        if self.chance(0.3):
            kw = self.r.choice([k for k in RAW_OK if k.lower() not in used and self.ref_ok(k)])
            used.add(kw)
            d = self.struct(s, kw) if self.chance(0.5) else self.enum(s, kw)
            s.defs.append(d)
            u = Def("struct", self.fresh(used, "camel"), fields=[{"name": "inner", "id": 1, "req": self.chance(0.5),
                                                                  "ty": ("ref", None, kw), "doc": []}], fallback=None)
            s.defs.append(u)
        s.doc = self.doc(s, [], 0.3)
        # imports that nothing refers to are only a warning; keep them
        return s

    def simple(self, s, d):
        """only integer / bool fields: every std derive applies"""
        ok = lambda t: t[0] in INTS + ["bool"]
        if d.kind == "struct":
            return not d.fallback and all(ok(f["ty"]) for f in d.fields)
        return not d.fallback and all(v["ty"] is None or ok(v["ty"]) for v in d.variants)

    def close_derives(self, a):
        a = set(a)
        if "impl_copy" in a:
            pass  # Clone is always derived
        if "impl_eq" in a or "impl_hash" in a:
            a.add("impl_partial_eq")
        if "impl_ord" in a:
            a |= {"impl_partial_ord", "impl_eq", "impl_partial_eq"}
        if "impl_partial_ord" in a:
            a.add("impl_partial_eq")
        return sorted(a)

    def main_stream(self, n, prefix="m"):
        out = []
        for i in range(n):
            out.append(self.schema("%s%d" % (prefix, i), out[-4:]))
        return out


# ---------------------------------------------------------------- old/new pairs

def evolve(g, old, new_name):
    """a newer version of `old`: more fields (optional or required) and more variants"""
    import copy
    new = copy.deepcopy(old)
    new.name = new_name
    for _, d in all_typedefs(new):
        # the added fields are not Copy/Ord/..: #[rust(impl_*)] on the evolved type would be a user error
        d.attrs = []
        if d.kind == "struct":
            used = {f["name"].lower().replace("_", "") for f in d.fields} | ({d.fallback} if d.fallback else set())
            ids = {f["id"] for f in d.fields}
            for _ in range(g.r.randint(0, 3)):
                i = g.r.choice([x for x in range(40, 80) if x not in ids])
                ids.add(i)
                d.fields.append({"name": g.fresh(used, "snake"), "id": i, "req": g.chance(0.25),
                                 "ty": (g.r.choice(["u8", "string", "u32", "bool", "bytes", "i64", "uuid"]),)
                                 if g.chance(0.7) else ("vec", ("u16",)), "doc": []})
            g.r.shuffle(d.fields)
        elif d.kind == "enum":
            used = {v["name"].lower().replace("_", "") for v in d.variants} | ({d.fallback.lower()} if d.fallback else set())
            ids = {v["id"] for v in d.variants}
            for _ in range(g.r.randint(0, 2)):
                i = g.r.choice([x for x in range(40, 80) if x not in ids])
                ids.add(i)
                d.variants.append({"name": camel(g.fresh(used, "snake")), "id": i,
                                   "ty": None if g.chance(0.4) else (g.r.choice(["u8", "string", "u32", "bool"]),),
                                   "doc": []})
    return new


def pair_stream(g, n):
    """n (old, new) schema pairs without imports and without services"""
    out = []
    for i in range(n):
        for _ in range(50):
            old = g.schema("p%d_old" % i, [])
            if any(d.kind in ("struct", "enum") for d in old.defs):
                break
        old.defs = [d for d in old.defs if d.kind != "service"]
        new = evolve(g, old, "p%d_new" % i)
        old.label = new.label = "pair"
        out.append((old, new))
    return out


# ---------------------------------------------------------------- second stream (classes a-d)

DOC_SITES = ["struct", "field", "struct_fallback", "enum", "variant", "enum_fallback", "newtype", "service",
             "function", "event", "fn_fallback", "ev_fallback"]
D_POSITIONS = ["struct_name", "field_name", "struct_fallback", "enum_name", "variant_name", "enum_fallback",
               "newtype_name", "fn_name", "event_name"]


def second_schema(label, idx, **detail):
    s = Schema("x%s%d" % (label, idx))
    s.label = label
    s.detail = detail
    return s


def doc_attr_schema(idx, site, text):
    """class a: with --introspection the doc line is pasted into #[aldrin(doc = "...")]; the
    attribute is only emitted when comrak's re-rendering differs from the original, which smart
    punctuation (") or a link ([T]) guarantees"""
    s = second_schema("a", idx, site=site, doc=text)
    st = Def("struct", "T", fields=[{"name": "x", "id": 1, "req": True, "ty": ("u8",), "doc": []}], fallback="rest")
    en = Def("enum", "E", variants=[{"name": "A", "id": 1, "ty": None, "doc": []}], fallback="Other")
    nt = Def("newtype", "N", ty=("u8",))
    sv = Def("service", "Svc", uuid="6f0e7a52-2f8b-4e0a-a0c9-0d9d3c3b1f1%x" % (idx % 16), version=1,
             items=[{"kind": "fn", "name": "f", "id": 1, "doc": []}, {"kind": "event", "name": "e", "id": 1, "doc": []}],
             fn_fallback="ffb", ev_fallback="efb")
    doc = [text]
    if site == "struct":
        st.doc = doc
    elif site == "field":
        st.fields[0]["doc"] = doc
    elif site == "struct_fallback":
        st.fallback_doc = doc
    elif site == "enum":
        en.doc = doc
    elif site == "variant":
        en.variants[0]["doc"] = doc
    elif site == "enum_fallback":
        en.fallback_doc = doc
    elif site == "newtype":
        nt.doc = doc
    elif site == "service":
        sv.doc = doc
    elif site == "function":
        sv.items[0]["doc"] = doc
    elif site == "event":
        sv.items[1]["doc"] = doc
    elif site == "fn_fallback":
        sv.fn_fallback_doc = doc
    elif site == "ev_fallback":
        sv.ev_fallback_doc = doc
    if site in ("struct", "field", "struct_fallback"):
        s.defs = [st]
    elif site in ("enum", "variant", "enum_fallback"):
        s.defs = [en]
    elif site == "newtype":
        s.defs = [nt]
    else:
        s.defs = [sv]
    return s


def keyword_const_schema(idx, kw, kind):
    s = second_schema("b", idx, keyword=kw, const_kind=kind)
    value = {"string": '"v"', "uuid": "6f0e7a52-2f8b-4e0a-a0c9-0d9d3c3b1f11"}.get(kind, "1")
    s.defs = [Def("const", kw, ckind=kind, value=value)]
    return s


def cr_const_schema(idx, text):
    s = second_schema("c", idx, text=text)
    s.defs = [Def("const", "C", ckind="string", value='"%s"' % text)]
    return s


def forbidden_ident_schema(idx, ident, pos):
    s = second_schema("d", idx, identifier=ident, position=pos)
    st = Def("struct", "T", fields=[{"name": "x", "id": 1, "req": True, "ty": ("u8",), "doc": []}], fallback=None)
    en = Def("enum", "E", variants=[{"name": "A", "id": 1, "ty": None, "doc": []}], fallback=None)
    if pos == "struct_name":
        st.name = ident
        s.defs = [st]
    elif pos == "field_name":
        st.fields[0]["name"] = ident
        s.defs = [st]
    elif pos == "struct_fallback":
        st.fallback = ident
        s.defs = [st]
    elif pos == "enum_name":
        en.name = ident
        s.defs = [en]
    elif pos == "variant_name":
        en.variants[0]["name"] = ident
        s.defs = [en]
    elif pos == "enum_fallback":
        en.fallback = ident
        s.defs = [en]
    elif pos == "newtype_name":
        s.defs = [Def("newtype", ident, ty=("u8",))]
    else:
        sv = Def("service", "Svc", uuid="6f0e7a52-2f8b-4e0a-a0c9-0d9d3c3b1f2%x" % (idx % 16), version=1, items=[],
                 fn_fallback=None, ev_fallback=None)
        if pos == "fn_name":
            sv.items = [{"kind": "fn", "name": ident, "id": 1, "doc": []}]
        else:
            sv.items = [{"kind": "event", "name": ident, "id": 1, "doc": []}]
        s.defs = [sv]
    return s


def overflow_id_schema(idx, where):
    """class e: the derive macros compute `id + 1` for the next default id; with id = u32::MAX
    (or u32::MAX - 1 followed by the fallback, which takes the default id) the proc macro panics
    in builds with overflow checks (the dev profile)"""
    s = second_schema("e", idx, where=where)
    if where == "struct_field":
        s.defs = [
            Def(
                "struct",
                "T",
                fields=[{"name": "x", "id": 4294967295, "req": True, "ty": ("u8",), "doc": []}],
                fallback=None,
            )
        ]
    elif where == "enum_variant":
        s.defs = [Def("enum", "E", variants=[{"name": "A", "id": 4294967295, "ty": None, "doc": []}], fallback=None)]
    elif where == "struct_before_fallback":
        s.defs = [
            Def(
                "struct",
                "T",
                fields=[{"name": "x", "id": 4294967294, "req": False, "ty": ("u8",), "doc": []}],
                fallback="rest",
            )
        ]
    else:
        s.defs = [Def("enum", "E", variants=[{"name": "A", "id": 4294967294, "ty": None, "doc": []}], fallback="Other")]
    return s


E_SITES = ["struct_field", "enum_variant", "struct_before_fallback", "enum_before_fallback"]


def second_stream(seed, tier):
    r = random.Random(seed * 7919 + 13)
    out = []
    texts = ['say "hi"', 'a \\d backslash [T]', 'quote " alone [E]', 'path C:\\q "x"', 'ends with \\ [N]']
    sites = DOC_SITES if tier == "thorough" else r.sample(DOC_SITES, 4)
    for i, site in enumerate(sites):
        t = r.choice(texts)
        # a link only resolves where the target exists; an unresolved [X] is just a warning
        out.append(doc_attr_schema(i, site, t))
    kinds = (INTS + ["string", "uuid"]) if tier == "thorough" else r.sample(INTS + ["string", "uuid"], 3)
    for i, k in enumerate(kinds):
        out.append(keyword_const_schema(i, r.choice(RUST_KEYWORDS_FOR_CONST), k))
    crs = ["a\rb", "\r", "x\ry\rz"] if tier == "thorough" else [r.choice(["a\rb", "\r", "x\ry"])]
    for i, t in enumerate(crs):
        out.append(cr_const_schema(i, t))
    i = 0
    for ident in FORBIDDEN_IDENTS:
        poss = D_POSITIONS if tier == "thorough" else [r.choice(D_POSITIONS)]
        for pos in poss:
            out.append(forbidden_ident_schema(i, ident, pos))
            i += 1
    for i, w in enumerate(E_SITES if tier == "thorough" else r.sample(E_SITES, 2)):
        out.append(overflow_id_schema(i, w))
    return out
