"""vlib.c16gen — grammar-directed generator of valid Aldrin schemas for C16 (DESIGN §4 C16, §5 item 7).

MAIN stream: every built-in type, nested generics, arrays (literal and const lengths), optional /
required fields, struct and enum fallbacks, newtypes (key and non-key targets), constants of every
kind, services with inline structs/enums in args/ok/err/events and both fallbacks, imports with
`schema::Type` references, identifiers that are Rust keywords (emitted as r#...), doc comments with
markdown links (so that `#[aldrin(doc = ...)]` attributes are emitted with --introspection), and
recursion through box/vec/map, and a systematic CROSS-SCHEMA layer (class Gen, `cross`): newtype
chains of 1..4 links whose links are spread over the schema and the schemas it imports (direct,
two-level and mutual imports), ending in every key-capable built-in and in non-key types, used as
map keys / set elements exactly when they resolve to a key type; `#[rust(impl_*)]` towers, recursion
knots, imported array-length constants, services and fallback types whose referenced definition lives
in an imported schema and itself refers to names local to that schema.  What a type derives is
computed from the AST by class Env (the generator's own reading of codegen's rules).
It AVOIDS exactly the four known failure classes:
  (a) a doc line containing `"` or `\\`; (b) a const named like a Rust keyword; (c) a string
  constant containing a bare CR; (d) the identifiers Self, self, crate, super, _; (f) a newtype or
  const whose name equals a struct field name (or the snake-case form of a payload variant name) of
  the same schema.
SECOND stream: small schemas that contain exactly one of (a)-(f) each.

The same AST is rendered to schema text and to the wire-type table (types.txt) that the value
generator (harness `derive`), the corpus runner and the model driver share.
"""
import random

INTS = ["u8", "i8", "u16", "i16", "u32", "i32", "u64", "i64"]
KEYS = INTS + ["string", "uuid"]
LEAVES = ["bool"] + INTS + ["f32", "f64", "string", "uuid", "object_id", "service_id", "bytes", "lifetime", "unit",
                            "value"]

# Rust keywords that are legal raw identifiers (strict + reserved, 2021 edition) and do not start
# with a schema type keyword (grammar.pest type keywords have no word boundary, DESIGN §5 item 5)
RAW_OK = ["type", "match", "loop", "move", "ref", "mut", "impl", "trait", "where", "while", "for", "in", "if",
          "else", "let", "pub", "use", "mod", "dyn", "async", "await", "as", "break", "continue", "extern",
          "static", "unsafe", "return", "yield", "abstract", "become", "do", "final", "macro", "override", "priv",
          "typeof", "virtual", "try", "true", "false", "gen"]
# keywords kept for the names of newtypes: a newtype is a tuple struct, its name also lives in Rust's value
# namespace, and a struct field (or the snake-case form of a payload variant) of the same name in the same
# schema does not compile (class f); so these never become field / variant names
NEWTYPE_KW = ["typeof", "virtual", "priv", "macro", "become", "final"]
FIELD_KW = [k for k in RAW_OK if k not in NEWTYPE_KW]
RUST_KEYWORDS_FOR_CONST = ["match", "type", "loop", "move", "impl", "fn", "let", "mod", "pub", "ref", "static",
                           "struct", "enum", "trait", "use", "where", "while", "async", "await", "dyn", "try"]
FORBIDDEN_IDENTS = ["Self", "self", "crate", "super", "_"]
TYPE_KW_PREFIXES = ["u8", "i8", "u16", "i16", "u32", "i32", "u64", "i64", "string", "uuid", "object_id",
                    "service_id", "bool", "f32", "f64", "value", "box", "vec", "bytes", "map", "set", "option",
                    "sender", "receiver", "lifetime", "unit", "result"]

WORDS = ["alpha", "bravo", "delta", "echo", "gamma", "hotel", "india", "kilo", "lima", "mike", "nova", "oscar",
         "papa", "quebec", "romeo", "sierra", "tango", "whisky", "xray", "yankee", "zulu", "node", "leaf", "item",
         "entry", "point", "frame", "state", "config", "record"]


def camel(s):
    return "".join(p[:1].upper() + p[1:] for p in s.split("_"))


class Def:
    def __init__(self, kind, name, **kw):
        self.kind = kind
        self.name = name
        self.doc = []
        self.attrs = []
        self.__dict__.update(kw)


class Schema:
    def __init__(self, name):
        self.name = name
        self.doc = []
        self.imports = []
        self.defs = []
        self.label = "main"       # or a-d
        self.detail = {}
        self.index = 0            # position in the main stream
        self.used = set()         # definition names taken (lower case, no underscores)
        self.xnames = []          # types added by the cross-schema layer
        self.xuse = None          # the struct collecting use sites of cross-schema newtypes
        self.kit = {}             # small local definitions other schemas' chains end in

    def find(self, name):
        for d in self.defs:
            if d.name == name:
                return d
        return None


# ---------------------------------------------------------------- rendering

def ty_text(t):
    k = t[0]
    if k in ("option", "box", "vec", "set", "sender", "receiver"):
        return "%s<%s>" % (k, ty_text(t[1]))
    if k == "map":
        return "map<%s -> %s>" % (ty_text(t[1]), ty_text(t[2]))
    if k == "result":
        return "result<%s, %s>" % (ty_text(t[1]), ty_text(t[2]))
    if k == "array":
        n = t[2]
        return "[%s; %s]" % (ty_text(t[1]), n if isinstance(n, int) else ref_text(n))
    if k == "ref":
        return ref_text(t)
    return k


def ref_text(t):
    return t[2] if t[1] is None else "%s::%s" % (t[1], t[2])


def doc_lines(doc, ind, inline=False):
    return "".join("%s%s%s\n" % (ind, "//!" if inline else "///", (" " + l) if l else "") for l in doc)


def render_struct_body(d, ind, inline):
    out = ""
    if inline:
        out += doc_lines(d.doc, ind, True)
        for a in d.attrs:
            out += "%s#![rust(%s)]\n" % (ind, ", ".join(a))
    for f in d.fields:
        out += doc_lines(f.get("doc", []), ind)
        out += "%s%s%s @ %d = %s;\n" % (ind, "required " if f["req"] else "", f["name"], f["id"], ty_text(f["ty"]))
    if d.fallback:
        out += doc_lines(getattr(d, "fallback_doc", []), ind)
        out += "%s%s = fallback;\n" % (ind, d.fallback)
    return out


def render_enum_body(d, ind, inline):
    out = ""
    if inline:
        out += doc_lines(d.doc, ind, True)
        for a in d.attrs:
            out += "%s#![rust(%s)]\n" % (ind, ", ".join(a))
    for v in d.variants:
        out += doc_lines(v.get("doc", []), ind)
        if v["ty"] is None:
            out += "%s%s @ %d;\n" % (ind, v["name"], v["id"])
        else:
            out += "%s%s @ %d = %s;\n" % (ind, v["name"], v["id"], ty_text(v["ty"]))
    if d.fallback:
        out += doc_lines(getattr(d, "fallback_doc", []), ind)
        out += "%s%s = fallback;\n" % (ind, d.fallback)
    return out


def render_part(p, ind):
    """type_name_or_inline"""
    if isinstance(p, Def):
        if p.kind == "struct":
            return "struct {\n" + render_struct_body(p, ind + "    ", True) + ind + "}\n"
        return "enum {\n" + render_enum_body(p, ind + "    ", True) + ind + "}\n"
    return ty_text(p) + ";\n"


def render_def(d):
    out = doc_lines(d.doc, "")
    if d.kind in ("struct", "enum", "newtype"):
        for a in d.attrs:
            out += "#[rust(%s)]\n" % ", ".join(a)
    if d.kind == "struct":
        out += "struct %s {\n" % d.name + render_struct_body(d, "    ", False) + "}\n"
    elif d.kind == "enum":
        out += "enum %s {\n" % d.name + render_enum_body(d, "    ", False) + "}\n"
    elif d.kind == "newtype":
        out += "newtype %s = %s;\n" % (d.name, ty_text(d.ty))
    elif d.kind == "const":
        out += "const %s = %s(%s);\n" % (d.name, d.ckind, d.value)
    elif d.kind == "service":
        out += "service %s {\n    uuid = %s;\n    version = %d;\n" % (d.name, d.uuid, d.version)
        for it in d.items:
            out += "\n" + doc_lines(it.get("doc", []), "    ")
            if it["kind"] == "fn":
                parts = [(k, it.get(k)) for k in ("args", "ok", "err") if it.get(k) is not None]
                if not parts:
                    out += "    fn %s @ %d;\n" % (it["name"], it["id"])
                elif [k for k, _ in parts] == ["ok"] and it.get("short"):
                    out += "    fn %s @ %d = %s" % (it["name"], it["id"], render_part(parts[0][1], "    "))
                else:
                    out += "    fn %s @ %d {\n" % (it["name"], it["id"])
                    for k, p in parts:
                        out += "        %s = %s" % (k, render_part(p, "        "))
                    out += "    }\n"
            else:
                if it.get("ty") is None:
                    out += "    event %s @ %d;\n" % (it["name"], it["id"])
                else:
                    out += "    event %s @ %d = %s" % (it["name"], it["id"], render_part(it["ty"], "    "))
        fb = []
        if d.fn_fallback:
            fb.append(doc_lines(getattr(d, "fn_fallback_doc", []), "    ") + "    fn %s = fallback;\n" % d.fn_fallback)
        if d.ev_fallback:
            fb.append(doc_lines(getattr(d, "ev_fallback_doc", []), "    ") + "    event %s = fallback;\n" % d.ev_fallback)
        if getattr(d, "fb_swap", False):
            fb.reverse()
        for x in fb:
            out += "\n" + x
        out += "}\n"
    return out


def render(s):
    out = doc_lines(s.doc, "", True)
    if s.doc:
        out += "\n"
    for i in s.imports:
        out += "import %s;\n" % i
    if s.imports:
        out += "\n"
    return out + "\n".join(render_def(d) for d in s.defs)


# ---------------------------------------------------------------- what a definition derives (from the AST)

STD = ["impl_copy", "impl_partial_eq", "impl_eq", "impl_partial_ord", "impl_ord", "impl_hash"]
STD_ALL = frozenset(STD)
KEY_DERIVES = frozenset(["impl_partial_eq", "impl_eq", "impl_partial_ord", "impl_ord", "impl_hash"])
STD_PATH = {"impl_copy": "::std::marker::Copy", "impl_partial_eq": "::std::cmp::PartialEq", "impl_eq": "::std::cmp::Eq",
            "impl_partial_ord": "::std::cmp::PartialOrd", "impl_ord": "::std::cmp::Ord", "impl_hash": "::std::hash::Hash"}


def close_derives(a):
    """derive(Eq) needs PartialEq, derive(Ord) needs Eq + PartialOrd, derive(PartialOrd) needs PartialEq"""
    a = set(a)
    if "impl_eq" in a or "impl_hash" in a:
        a.add("impl_partial_eq")
    if "impl_ord" in a:
        a |= {"impl_partial_ord", "impl_eq", "impl_partial_eq"}
    if "impl_partial_ord" in a:
        a.add("impl_partial_eq")
    return sorted(a)


class Env:
    """name resolution across schemas and the properties the code generator (codegen/src/rust.rs
    newtype_properties, RustAttributes) and rustc's std derives attach to a type, computed from this
    module's AST alone"""

    def __init__(self, by_name):
        self.by_name = by_name

    def resolve(self, s, t):
        sch = s if t[1] is None else self.by_name.get(t[1])
        return sch, (sch.find(t[2]) if sch is not None else None)

    def chain_end(self, s, t):
        """follow named references through newtypes: (schema, built-in/generic type tuple | the struct
        or enum Def the chain ends in | None)"""
        for _ in range(64):
            if t[0] != "ref":
                return s, t
            sch, d = self.resolve(s, t)
            if d is None:
                return s, None
            if d.kind != "newtype":
                return sch, d
            s, t = sch, d.ty
        return s, None

    def is_key(self, s, t):
        """t (seen from schema s) is a legal map key / set element: a key built-in or a newtype chain
        ending in one (parser util::resolves_to_key_type; codegen derives Hash/Eq/Ord/KeyTag for it)"""
        _, e = self.chain_end(s, t)
        return isinstance(e, tuple) and e[0] in KEYS

    def derives_default(self, s, d):
        """codegen: a struct derives Default iff it has no required field; a newtype iff its chain ends
        in such a struct"""
        if d.kind == "struct":
            return not any(f["req"] for f in d.fields)
        if d.kind != "newtype":
            return False
        _, e = self.chain_end(s, d.ty)
        return isinstance(e, Def) and e.kind == "struct" and not any(f["req"] for f in e.fields)

    def def_traits(self, s, d):
        have = set()
        for a in d.attrs:
            have |= set(x for x in a if x in STD_ALL)
        if d.kind == "newtype" and self.is_key(s, d.ty):
            have |= KEY_DERIVES
        return frozenset(have)

    def std_traits(self, s, t):
        """the std traits (as impl_* names) the Rust type of t is known to implement; conservative:
        library types this module has not looked at count as implementing none"""
        k = t[0]
        if k in INTS or k in ("bool", "unit", "uuid"):
            return STD_ALL
        if k == "string":
            return STD_ALL - {"impl_copy"}
        if k in ("f32", "f64"):
            return frozenset(["impl_copy", "impl_partial_eq", "impl_partial_ord"])
        if k in ("option", "array"):
            return self.std_traits(s, t[1])
        if k == "box":
            return self.std_traits(s, t[1]) - {"impl_copy"}
        if k == "vec":
            return frozenset() if t[1] == ("u8",) else self.std_traits(s, t[1]) - {"impl_copy"}
        if k == "result":
            return self.std_traits(s, t[1]) & self.std_traits(s, t[2])
        if k == "ref":
            sch, d = self.resolve(s, t)
            return self.def_traits(sch, d) if d is not None and d.kind in ("struct", "enum", "newtype") else frozenset()
        return frozenset()

    def expected_impls(self, s):
        """{type key: [Rust trait paths]} the generated types of schema s must implement"""
        out = {}
        for name, d in all_typedefs(s):
            tr = [STD_PATH[x] for x in STD if x in self.def_traits(s, d)]
            if self.derives_default(s, d):
                tr.append("::std::default::Default")
            if d.kind == "newtype" and self.is_key(s, d.ty):
                tr.append("::aldrin::core::tags::PrimaryKeyTag")
            if tr:
                out["%s.%s" % (s.name, name)] = tr
        return out



# ---------------------------------------------------------------- wire-type table

def all_typedefs(s):
    """(rust type name, Def) for every struct/enum/newtype incl. inline service types"""
    out = []
    for d in s.defs:
        if d.kind in ("struct", "enum", "newtype"):
            out.append((d.name, d))
        elif d.kind == "service":
            for it in d.items:
                if it["kind"] == "fn":
                    for k, suffix in (("args", "Args"), ("ok", "Ok"), ("err", "Error")):
                        p = it.get(k)
                        if isinstance(p, Def):
                            out.append((d.name + camel(it["name"]) + suffix, p))
                else:
                    p = it.get("ty")
                    if isinstance(p, Def):
                        out.append((d.name + camel(it["name"]) + "Args", p))
    return out


class Table(Env):
    def __init__(self, schemas):
        Env.__init__(self, {s.name: s for s in schemas})

    def key_kind(self, s, t):
        """the built-in key type a map/set key type resolves to (through newtypes)"""
        _, e = self.chain_end(s, t)
        return e[0]

    def wire(self, s, t):
        k = t[0]
        if k == "box":
            return self.wire(s, t[1])
        if k == "option":
            return "opt " + self.wire(s, t[1])
        if k == "vec":
            if t[1] == ("u8",):
                return "bytes"
            return "vec " + self.wire(s, t[1])
        if k == "array":
            n = t[2]
            if not isinstance(n, int):
                sch, d = self.resolve(s, n)
                n = int(d.value)
            return "arr %d %s" % (n, self.wire(s, t[1]))
        if k == "map":
            return "map %s %s" % (self.key_kind(s, t[1]), self.wire(s, t[2]))
        if k == "set":
            return "set " + self.key_kind(s, t[1])
        if k == "result":
            return "res %s %s" % (self.wire(s, t[1]), self.wire(s, t[2]))
        if k in ("sender", "receiver"):
            return k
        if k == "lifetime":
            return "object_id"
        if k == "ref":
            sch, d = self.resolve(s, t)
            return "ref %s.%s" % (sch.name, d.name)
        return k

    def lines(self, s):
        out = []
        for name, d in all_typedefs(s):
            key = "%s.%s" % (s.name, name)
            if d.kind == "struct":
                fs = " ".join("%d %d %s" % (f["id"], 1 if f["req"] else 0, self.wire(s, f["ty"])) for f in d.fields)
                out.append("struct %s %d %d %s" % (key, 1 if d.fallback else 0, len(d.fields), fs))
            elif d.kind == "enum":
                vs = " ".join("%d %s" % (v["id"], "-" if v["ty"] is None else self.wire(s, v["ty"])) for v in d.variants)
                out.append("enum %s %d %d %s" % (key, 1 if d.fallback else 0, len(d.variants), vs))
            else:
                out.append("newtype %s %s" % (key, self.wire(s, d.ty)))
        return [l.rstrip() for l in out]


def rust_path(key, parent):
    sch, name = key.split(".", 1)
    return "%s::r#%s::r#%s" % (parent, sch, name)


# ---------------------------------------------------------------- main stream

class Gen:
    def __init__(self, seed):
        self.r = random.Random(seed)
        self.schemas = []
        self.uuid_n = 0
        self.by_name = {}
        self.env = Env(self.by_name)
        self.bias = []            # (schema|None, name): cross-schema definitions ty() prefers
        self.bias_keys = []       # the key-capable ones among them
        self.decks = {}
        self.xstats = {}          # what the cross-schema layer produced (for the evidence file)

    def uuid(self):
        return "%08x-%04x-4%03x-8%03x-%012x" % (self.r.getrandbits(32), self.r.getrandbits(16), self.r.getrandbits(12),
                                                 self.r.getrandbits(12), self.r.getrandbits(48))

    def chance(self, p):
        return self.r.random() < p

    # -- names
    def fresh(self, used, style):
        for _ in range(1000):
            w = self.r.choice(WORDS)
            if self.chance(0.5):
                w += "_" + self.r.choice(WORDS)
            if self.chance(0.3):
                w += str(self.r.randrange(10))
            if style == "camel":
                w = camel(w)
            elif style == "shouty":
                w = w.upper()
            elif style == "snake" and self.chance(0.18):
                w = self.r.choice(FIELD_KW)
            low = w.lower().replace("_", "")
            if low in used:
                continue
            if style == "camel" and (w.endswith("Ref") or w.endswith("Args") or w.endswith("Ok") or w.endswith("Error")
                                     or w.endswith("Proxy") or w.endswith("Event") or w.endswith("Call")
                                     or w.endswith("Handler") or w.endswith("Introspection")):
                continue
            used.add(low)
            return w
        raise RuntimeError("names exhausted")

    # -- docs (never a double quote or a backslash: class a)
    def doc(self, s, target_names, p=0.35):
        if not self.chance(p):
            return []
        lines = []
        for _ in range(self.r.randint(1, 3)):
            parts = []
            for _ in range(self.r.randint(1, 6)):
                c = self.r.random()
                if c < 0.55:
                    parts.append(self.r.choice(WORDS))
                elif c < 0.7 and target_names:
                    parts.append("[%s]" % self.r.choice(target_names))
                elif c < 0.78:
                    parts.append("`%s`" % self.r.choice(WORDS))
                elif c < 0.84:
                    parts.append("*%s*" % self.r.choice(WORDS))
                elif c < 0.9:
                    parts.append("it's %s -- ok..." % self.r.choice(WORDS))
                elif c < 0.95:
                    parts.append("<https://example.org/%s>" % self.r.choice(WORDS))
                else:
                    parts.append("ünï %s — ✓" % self.r.choice(WORDS))
            lines.append(" ".join(parts))
        if self.chance(0.15):
            lines.insert(1, "")
        return lines

    # -- types
    def named(self, s, pred, allow_extern=True):
        """all (schema|None, name) of definitions satisfying pred that `s` may reference"""
        out = [(None, d.name) for d in s.defs if pred(s, d)]
        if allow_extern:
            for imp in s.imports:
                o = self.by_name[imp]
                out += [(imp, d.name) for d in o.defs if pred(o, d)]
        return out

    def is_key_newtype(self, s, d):
        return d.kind == "newtype" and self.env.is_key(s, d.ty)

    def key_type(self, s):
        if self.bias_keys and self.chance(0.6):
            sc, n = self.r.choice(self.bias_keys)
            return ("ref", sc, n)
        c = self.named(s, self.is_key_newtype)
        if c and self.chance(0.25):
            sc, n = self.r.choice(c)
            return ("ref", sc, n)
        return (self.r.choice(KEYS),)

    def ref_ok(self, name):
        return not any(name.startswith(p) for p in TYPE_KW_PREFIXES)

    def ty(self, s, depth=0, selfname=None, breaker=False):
        """a random type; `selfname` may be referenced only below a recursion breaker"""
        r = self.r.random()
        if depth >= 3 or r < 0.42:
            if self.bias and self.chance(0.55):
                sc, n = self.r.choice(self.bias)
                return ("ref", sc, n)
            types = self.named(s, lambda sc, d: d.kind in ("struct", "enum", "newtype") and self.ref_ok(d.name))
            if types and self.chance(0.4):
                sc, n = self.r.choice(types)
                return ("ref", sc, n)
            if selfname and breaker and self.chance(0.5):
                return ("ref", None, selfname)
            return (self.r.choice(LEAVES),)
        r = self.r.random()
        if selfname and depth == 0 and self.chance(0.08):
            return ("option", ("box", ("ref", None, selfname)))
        if r < 0.2:
            return ("option", self.ty(s, depth + 1, selfname, breaker))
        if r < 0.3:
            return ("box", self.ty(s, depth + 1, selfname, breaker))
        if r < 0.48:
            return ("vec", self.ty(s, depth + 1, selfname, True))
        if r < 0.62:
            return ("map", self.key_type(s), self.ty(s, depth + 1, selfname, True))
        if r < 0.7:
            return ("set", self.key_type(s))
        if r < 0.76:
            return (self.r.choice(["sender", "receiver"]), self.ty(s, depth + 1, selfname, True))
        if r < 0.86:
            return ("result", self.ty(s, depth + 1, selfname, breaker), self.ty(s, depth + 1, selfname, breaker))
        consts = self.named(s, lambda sc, d: d.kind == "const" and d.ckind in INTS and 0 < int(d.value) <= 4
                            and self.ref_ok(d.name))
        if consts and self.chance(0.5):
            sc, n = self.r.choice(consts)
            ln = ("ref", sc, n)
        else:
            ln = self.r.randint(1, 4)
        return ("array", self.ty(s, depth + 1, selfname, breaker), ln)

    def struct(self, s, name, inline=False):
        d = Def("struct", name, fields=[], fallback=None)
        used = set()
        ids = self.r.sample(range(0, 40), self.r.randint(0, 6))
        if self.chance(0.1):
            ids.append(self.r.choice([255, 256, 65535, 70000, 4294967293]))
        tn = [x.name for x in s.defs if x.kind in ("struct", "enum", "newtype", "const")]
        for i in ids:
            d.fields.append({"name": self.fresh(used, "snake"), "id": i, "req": self.chance(0.45),
                             "ty": self.ty(s, 0, None if inline else name), "doc": self.doc(s, tn, 0.2)})
        if self.chance(0.5):
            d.fallback = self.fresh(used, "snake")
            d.fallback_doc = self.doc(s, tn, 0.2)
        d.doc = self.doc(s, tn)
        return d

    def enum(self, s, name, inline=False):
        d = Def("enum", name, variants=[], fallback=None)
        used = set()
        ids = self.r.sample(range(0, 40), self.r.randint(1, 5))
        if self.chance(0.1):
            ids.append(self.r.choice([255, 256, 65535, 70000, 4294967293]))
        tn = [x.name for x in s.defs if x.kind in ("struct", "enum", "newtype", "const")]
        for n, i in enumerate(ids):
            # the first variant never refers to the enum itself so that a finite value exists
            t = None if self.chance(0.4) else self.ty(s, 0, None if (inline or n == 0) else name)
            d.variants.append({"name": camel(self.fresh(used, "snake")) if self.chance(0.85) else self.fresh(used, "snake"),
                               "id": i, "ty": t, "doc": self.doc(s, tn, 0.2)})
        if self.chance(0.5):
            d.fallback = camel(self.fresh(used, "snake"))
            d.fallback_doc = self.doc(s, tn, 0.2)
        d.doc = self.doc(s, tn)
        return d

    def const(self, s, used):
        kind = self.r.choice(INTS + ["string", "uuid"])
        name = self.fresh(used, "shouty")
        if kind in INTS:
            bits = int(kind[1:])
            lo, hi = (0, 2 ** bits - 1) if kind[0] == "u" else (-2 ** (bits - 1), 2 ** (bits - 1) - 1)
            v = self.r.choice([lo, hi, 0, 1, 2, 3, 4, self.r.randint(lo, hi)])
            value = str(v)
        elif kind == "string":
            # printable text with the two escapes of the grammar; never a bare CR (class c)
            alphabet = ["a", "B", " ", "{", "}", "'", "\\\\", '\\"', "é", "✓", "\t", "#", "%", "$"]
            value = '"' + "".join(self.r.choice(alphabet) for _ in range(self.r.randint(0, 12))) + '"'
        else:
            value = self.uuid()
        d = Def("const", name, ckind=kind, value=value)
        d.doc = self.doc(s, [], 0.2)
        return d

    def part(self, s, svc, allow_inline=True):
        if allow_inline and self.chance(0.45):
            return self.struct(s, None, True) if self.chance(0.6) else self.enum(s, None, True)
        return self.ty(s, 1)

    def service(self, s, name):
        d = Def("service", name, uuid=self.uuid(), version=self.r.choice([0, 1, 2, 7, 4294967295]), items=[],
                fn_fallback=None, ev_fallback=None)
        used = set()
        tn = [x.name for x in s.defs if x.kind in ("struct", "enum", "newtype", "const")]
        fids = self.r.sample(range(0, 30), self.r.randint(0, 4))
        for i in fids:
            it = {"kind": "fn", "name": self.fresh(used, "snake"), "id": i, "doc": self.doc(s, tn, 0.25)}
            for k in ("args", "ok", "err"):
                if self.chance(0.5):
                    it[k] = self.part(s, d)
            it["short"] = self.chance(0.5)
            d.items.append(it)
        eids = self.r.sample(range(0, 30), self.r.randint(0, 3))
        for i in eids:
            it = {"kind": "event", "name": self.fresh(used, "snake"), "id": i, "doc": self.doc(s, tn, 0.25)}
            if self.chance(0.7):
                it["ty"] = self.part(s, d)
            d.items.append(it)
        self.r.shuffle(d.items)
        if self.chance(0.4):
            d.fn_fallback = self.fresh(used, "snake")
            d.fn_fallback_doc = self.doc(s, tn, 0.25)
        if self.chance(0.4):
            d.ev_fallback = self.fresh(used, "snake")
            d.ev_fallback_doc = self.doc(s, tn, 0.25)
        d.fb_swap = self.chance(0.5)
        d.doc = self.doc(s, tn)
        return d

    def schema(self, name, earlier):
        s = Schema(name)
        self.by_name.update({x.name: x for x in earlier})
        self.by_name[name] = s
        if earlier and self.chance(0.6):
            s.imports = sorted(set(self.r.sample([e.name for e in earlier], min(len(earlier), self.r.randint(1, 2)))))
        used = s.used = set()
        n = self.r.randint(3, 9)
        for _ in range(n):
            c = self.r.random()
            if c < 0.32:
                d = self.struct(s, self.fresh(used, "camel"))
            elif c < 0.55:
                d = self.enum(s, self.fresh(used, "camel"))
            elif c < 0.72:
                d = Def("newtype", self.fresh(used, "camel"), ty=None)
                d.ty = (self.r.choice(KEYS),) if self.chance(0.4) else self.ty(s, 0, None)
                d.doc = self.doc(s, [], 0.3)
            elif c < 0.88:
                d = self.const(s, used)
            else:
                d = self.service(s, self.fresh(used, "camel"))
            if d.kind in ("struct", "enum") and self.chance(0.2):
                self.add_attrs(s, d)
            s.defs.append(d)
        # a keyword-named type now and then (raw identifier in type position)
        if self.chance(0.3):
            kw = self.r.choice([k for k in RAW_OK if k.lower() not in used and self.ref_ok(k)])
            used.add(kw)
            d = self.struct(s, kw) if self.chance(0.5) else self.enum(s, kw)
            s.defs.append(d)
            u = Def("struct", self.fresh(used, "camel"), fields=[{"name": "inner", "id": 1, "req": self.chance(0.5),
                                                                  "ty": ("ref", None, kw), "doc": []}], fallback=None)
            s.defs.append(u)
        s.doc = self.doc(s, [], 0.3)
        # imports that nothing refers to are only a warning; keep them
        return s

    def derivable(self, s, d):
        """the #[rust(impl_*)] options that apply to struct/enum d: every field type implements the trait
        (Env.std_traits follows references into other schemas)"""
        tr = STD_ALL
        types = [f["ty"] for f in d.fields] if d.kind == "struct" else [v["ty"] for v in d.variants if v["ty"] is not None]
        for t in types:
            tr = tr & self.env.std_traits(s, t)
        if d.fallback:
            tr = tr & {"impl_partial_eq", "impl_eq"}      # UnknownFields / UnknownVariant: PartialEq + Eq only
        return tr

    def add_attrs(self, s, d):
        av = sorted(self.derivable(s, d))
        if not av:
            return
        a = close_derives(self.r.sample(av, self.r.randint(1, len(av))))
        if len(a) > 1 and self.chance(0.2):
            k = self.r.randint(1, len(a) - 1)
            d.attrs += [a[:k], a[k:]]                     # two #[rust(..)] attributes
        else:
            d.attrs.append(a)

    def close_derives(self, a):
        return close_derives(a)

    def main_stream(self, n, prefix="m"):
        """schema i may import the (up to 4) schemas before it that belong to the same epoch of EPOCH
        schemas: import chains are up to EPOCH deep, and the transitive closure of a schema (what has to be
        compiled next to it) stays bounded however long the stream is"""
        out = []
        for i in range(n):
            window = [w for w in out[-4:] if w.index // self.EPOCH == i // self.EPOCH]
            s = self.schema("%s%d" % (prefix, i), window)
            s.index = i
            self.cross(s, window)
            out.append(s)
        return out

    # ------------------------------------------------------------ cross-schema layer
    #
    # Every main-stream schema s gets, besides its random body, definitions that are spread over s and
    # up to two partner schemas (the `cluster`): a reference from a definition in p to one in q is an
    # Intern name when q is p and `q::Name` (plus `import q;`) otherwise.  Imports point backwards in
    # the stream; inside a cell of CELL consecutive schemas they may also point forwards, which gives
    # mutual imports (the parser and the code generator accept import cycles) and with them chains
    # that alternate s -> x -> s -> x and recursion through another schema.

    CELL = 4
    EPOCH = 8
    SHAPES = [(h, k) for h in ["", "L", "X", "LL", "LX", "XL", "XX", "LLL", "LLX", "LXL", "LXX", "XLL", "XLX", "XXL", "XXX"]
              for k in (True, False)]
    NONKEY_ENDS = ["bool", "f32", "f64", "bytes", "value", "object_id", "service_id", "lifetime", "unit", "vecu8",
                   "option_key", "set_key", "vec_rec", "map_opt", "array_rec", "result_kit", "struct_opt", "struct_rec",
                   "enum_leaf", "sender_leaf", "box_rec"]

    def count(self, k, sub=None, n=1):
        if sub is None:
            self.xstats[k] = self.xstats.get(k, 0) + n
        else:
            d = self.xstats.setdefault(k, {})
            d[sub] = d.get(sub, 0) + n

    def can_import(self, p, q):
        return q.index < p.index or p.index // self.CELL == q.index // self.CELL

    def xref(self, p, q, name):
        """the reference to q's definition `name` as written in schema p"""
        if q is p:
            return ("ref", None, name)
        if q.name not in p.imports:
            p.imports = sorted(p.imports + [q.name])
            self.count("imports_added")
            if q.index > p.index:
                self.count("forward_imports")
        return ("ref", q.name, name)

    def draw(self, deck, items):
        """without replacement from a shuffled deck that is refilled when empty: every item turns up
        once per len(items) draws"""
        d = self.decks.get(deck)
        if not d:
            d = list(items)
            self.r.shuffle(d)
            self.decks[deck] = d
        return d.pop()

    def hop(self, p, kind, cluster):
        """the schema the next definition goes to: L = stays in p, X = another schema of the cluster
        that p may import (stays in p when there is none)"""
        if kind == "X":
            feas = [q for q in cluster if q is not p and self.can_import(p, q)]
            if feas:
                return self.r.choice(feas)
        return p

    def xadd(self, p, d):
        p.defs.append(d)
        if d.kind in ("struct", "enum", "newtype"):
            p.xnames.append(d.name)
        self.count("definitions", d.kind)

    def visible(self, p, pred=None):
        """cross-layer types schema p can name"""
        out = [(None, n) for n in p.xnames]
        for i in p.imports:
            out += [(i, n) for n in self.by_name[i].xnames]
        if pred is not None:
            out = [(sc, n) for sc, n in out if pred(("ref", sc, n))]
        return out

    def type_name(self, p, tuple_struct=False):
        """mostly CamelCase; now and then a Rust keyword (emitted as r#..; for newtypes only keywords that
        are never field names, see NEWTYPE_KW)"""
        if self.chance(0.06):
            kws = [k for k in (NEWTYPE_KW if tuple_struct else RAW_OK) if k.lower() not in p.used and self.ref_ok(k)]
            if kws:
                kw = self.r.choice(kws)
                p.used.add(kw)
                return kw
        return self.fresh(p.used, "camel")

    def kit_def(self, p, what):
        """small definitions local to p that refer to each other by local names (const <- enum <- struct
        with required fields <- struct without); created on demand, at most one of each per schema"""
        if what in p.kit:
            return p.kit[what]
        used = set()
        if what == "len":
            d = Def("const", self.fresh(p.used, "shouty"), ckind=self.r.choice(INTS), value=str(self.r.randint(1, 4)))
        elif what == "leaf":
            d = Def("enum", self.type_name(p), variants=[], fallback=None)
            d.variants.append({"name": camel(self.fresh(used, "snake")), "id": self.r.randint(0, 3), "ty": None, "doc": []})
            d.variants.append({"name": camel(self.fresh(used, "snake")), "id": self.r.randint(4, 9),
                               "ty": (self.r.choice(KEYS),), "doc": []})
            if self.chance(0.5):
                d.variants.append({"name": camel(self.fresh(used, "snake")), "id": self.r.randint(10, 70000),
                                   "ty": ("array", (self.r.choice(["u8", "bool", "string"]),),
                                          ("ref", None, self.kit_def(p, "len"))), "doc": []})
            if self.chance(0.5):
                d.fallback = camel(self.fresh(used, "snake"))
        elif what == "rec":
            d = Def("struct", self.type_name(p), fields=[], fallback=None)
            d.fields.append({"name": self.fresh(used, "snake"), "id": self.r.randint(0, 5), "req": True,
                             "ty": ("ref", None, self.kit_def(p, "leaf")), "doc": []})
            d.fields.append({"name": self.fresh(used, "snake"), "id": self.r.randint(6, 20), "req": self.chance(0.5),
                             "ty": ("array", (self.r.choice(["u16", "i64", "f32", "uuid"]),),
                                    ("ref", None, self.kit_def(p, "len"))), "doc": []})
            if self.chance(0.5):
                d.fallback = self.fresh(used, "snake")
        else:
            d = Def("struct", self.type_name(p), fields=[], fallback=None)
            d.fields.append({"name": self.fresh(used, "snake"), "id": self.r.randint(0, 5), "req": False,
                             "ty": ("ref", None, self.kit_def(p, "leaf")), "doc": []})
            d.fields.append({"name": self.fresh(used, "snake"), "id": self.r.randint(6, 20), "req": False,
                             "ty": self.r.choice([("vec", ("ref", None, self.kit_def(p, "rec"))),
                                                  ("option", ("ref", None, self.kit_def(p, "rec"))),
                                                  (self.r.choice(LEAVES),)]), "doc": []})
            if self.chance(0.5):
                d.fallback = self.fresh(used, "snake")
        p.kit[what] = d.name
        self.xadd(p, d)
        return d.name

    def end_type(self, p, end, cluster):
        """the type a newtype chain ends in, as written in schema p; the composite ends refer to kit
        definitions of p or (one more hop) of a schema p imports"""
        if end in LEAVES:
            return (end,)
        if end == "vecu8":
            return ("vec", ("u8",))
        if end == "option_key":
            return ("option", (self.r.choice(KEYS),))
        if end == "set_key":
            return ("set", (self.r.choice(KEYS),))
        q = self.hop(p, self.r.choice("LX"), cluster)
        ref = lambda what: self.xref(p, q, self.kit_def(q, what))
        if end == "struct_opt":
            return ref("opt")
        if end == "struct_rec":
            return ref("rec")
        if end == "enum_leaf":
            return ref("leaf")
        if end == "vec_rec":
            return ("vec", ref("rec"))
        if end == "box_rec":
            return ("box", ref("rec"))
        if end == "map_opt":
            return ("map", (self.r.choice(KEYS),), ref("opt"))
        if end == "array_rec":
            return ("array", ref("rec"), ref("len"))
        if end == "result_kit":
            return ("result", ref("leaf"), ref("opt"))
        if end == "sender_leaf":
            return (self.r.choice(["sender", "receiver"]), ref("leaf"))
        raise ValueError(end)

    def chain(self, s, cluster):
        """newtype chain of 1..4 links, head in s; shape = where each next link lives (L: same schema,
        Intern name; X: another schema, `q::Name`) x (key end | non-key end), drawn from a deck over all
        30 shapes: every shape turns up once per 30 chains (10 schemas).  Returns [(schema, name)] head
        first."""
        hops, key_end = self.draw("chain_shape", self.SHAPES)
        n = len(hops) + 1
        end = self.draw("key_end", KEYS) if key_end else self.draw("nonkey_end", self.NONKEY_ENDS)
        places = [s]
        for h in hops:
            places.append(self.hop(places[-1], h, cluster))
        ty = self.end_type(places[-1], end, cluster)
        names = [self.type_name(p, True) for p in places]
        tr = self.env.std_traits(places[-1], ty)
        attrs = []
        if key_end:
            # Hash/Eq/Ord come from the code generator's key-type decision; only Copy can be asked for
            if "impl_copy" in tr and self.chance(0.35):
                attrs = ["impl_copy"]
        elif tr and self.chance(0.4):
            attrs = close_derives(self.r.sample(sorted(tr), self.r.randint(1, len(tr))))
        for k in reversed(range(n)):
            p = places[k]
            target = ty if k == n - 1 else self.xref(p, places[k + 1], names[k + 1])
            d = Def("newtype", names[k], ty=target)
            if attrs:
                d.attrs = [list(attrs)]
            if k < n - 1 and self.chance(0.4):
                d.doc = ["%s of [%s]" % (self.r.choice(WORDS), ref_text(target))]
            self.xadd(p, d)
        actual = "".join("L" if places[k + 1] is places[k] else "X" for k in range(n - 1))
        self.count("chains")
        self.count("chain_links", str(n))
        self.count("chain_shapes", (actual or "-") + (":key" if key_end else ":nonkey"))
        self.count("chain_ends", end)
        if key_end and "XL" in actual:
            self.count("key_chains_continuing_locally_in_an_imported_schema")
        if len({p.name for p in places}) >= 3:
            self.count("chains_over_three_schemas")
        return [(places[k], names[k]) for k in range(n)]

    def small_type(self, p):
        v = self.visible(p)
        if v and self.chance(0.5):
            sc, nm = self.r.choice(v)
            return ("ref", sc, nm)
        return (self.r.choice(LEAVES),)

    def use(self, p, ty, req=False):
        """a field of type ty in p's use-site struct"""
        u = p.xuse
        if u is None or len(u.fields) >= 10:
            u = p.xuse = Def("struct", self.fresh(p.used, "camel"), fields=[], fallback=None)
            u.fused = set()
            if self.chance(0.4):
                u.fallback = self.fresh(u.fused, "snake")
            p.defs.append(u)
            self.count("definitions", "struct")
        u.fields.append({"name": self.fresh(u.fused, "snake"), "id": max([f["id"] for f in u.fields] + [-1]) + self.r.randint(1, 3),
                         "req": req, "ty": ty, "doc": []})

    def use_link(self, p, name, head):
        """use sites of the cross-layer newtype `name` in its own schema p: as map key / set element
        exactly when it resolves to a key type"""
        t = ("ref", None, name)
        if self.env.is_key(p, t):
            forms = [("map", t, self.small_type(p)), ("set", t)]
            self.count("key_uses", "head" if head else "link", 2 if head else 1)
            for f in (forms if head else [self.r.choice(forms)]):
                self.use(p, f if self.chance(0.7) else ("option", f), self.chance(0.25))
        else:
            forms = [t, ("option", t), ("vec", t), ("map", (self.r.choice(KEYS),), t), ("result", t, ("u8",)),
                     ("array", t, 2), ("box", t)]
            self.count("nonkey_uses")
            self.use(p, self.r.choice(forms), self.chance(0.25))

    def leaf_with(self, p, want):
        """a field type whose Rust type implements every trait in `want`"""
        vis = self.visible(p, lambda t: want <= self.env.std_traits(p, t))
        if vis and self.chance(0.5):
            sc, nm = self.r.choice(vis)
            t = ("ref", sc, nm)
            self.count("tower_fields_of_cross_newtypes")
        else:
            t = self.r.choice([(k,) for k in INTS + ["bool", "uuid", "unit", "string", "f32", "f64"]
                               if want <= self.env.std_traits(p, (k,))])
        c = self.r.random()
        if c < 0.2:
            return ("option", t)
        if c < 0.3:
            return ("array", t, self.r.randint(1, 3))
        return t

    def tower(self, s, cluster):
        """2..3 structs/enums with #[rust(impl_*)], each holding the next one, spread over the cluster;
        the derives of the upper ones only compile when the lower ones (other schema) have theirs"""
        depth = self.r.randint(2, 3)
        places = [s]
        for _ in range(depth - 1):
            places.append(self.hop(places[-1], self.r.choice("LXX"), cluster))
        wants = [frozenset(close_derives(self.r.sample(STD, self.r.randint(1, 6))))]
        for _ in range(depth - 1):
            w = sorted(wants[-1])
            wants.append(frozenset(close_derives(self.r.sample(w, self.r.randint(1, len(w))))))
        wants.reverse()                       # wants[0] (top) is a subset of wants[1] ...
        lower = None
        for k in reversed(range(depth)):
            p, want = places[k], wants[k]
            types = [self.leaf_with(p, want) for _ in range(self.r.randint(1, 3))]
            if lower is not None:
                t = self.xref(p, lower[0], lower[1])
                wraps = [t, ("option", t), ("array", t, 2)]
                if "impl_copy" not in want:
                    wraps += [("box", t), ("vec", t)]
                types.insert(self.r.randint(0, len(types)), self.r.choice(wraps))
            used = set()
            if self.chance(0.6):
                d = Def("struct", self.type_name(p), fallback=None,
                        fields=[{"name": self.fresh(used, "snake"), "id": 3 * i + self.r.randint(0, 2),
                                 "req": self.chance(0.5), "ty": t, "doc": []} for i, t in enumerate(types)])
            else:
                d = Def("enum", self.type_name(p), fallback=None,
                        variants=[{"name": camel(self.fresh(used, "snake")), "id": 0, "ty": None, "doc": []}] +
                                 [{"name": camel(self.fresh(used, "snake")), "id": 3 * i + self.r.randint(1, 3), "ty": t,
                                   "doc": []} for i, t in enumerate(types)])
            d.attrs = [sorted(want)]
            self.xadd(p, d)
            lower = (p, d.name)
        self.count("towers")
        if len({p.name for p in places}) > 1:
            self.count("towers_across_schemas")

    def knot(self, s, cluster):
        """recursion through another schema: s::Node -> x::Wrap -> x::Inner (local name in x) -> s::Node,
        with at least one of the three edges behind box/vec/map; needs mutual imports"""
        xs = [q for q in cluster if q is not s and self.can_import(s, q) and self.can_import(q, s)]
        if not xs:
            return
        x = self.r.choice(xs)
        node, wrap, inner = self.type_name(s), self.type_name(x, True), self.type_name(x, True)
        breakers = set(self.r.sample([0, 1, 2], self.r.randint(1, 3)))

        def edge(i, t, nullable):
            if i in breakers:
                c = [("option", ("box", t)), ("vec", t), ("map", (self.r.choice(KEYS),), t)]
                if not nullable:
                    c += [("box", t), (self.r.choice(["sender", "receiver"]), t), ("result", ("box", t), ("u8",))]
            else:
                c = [("option", t)]
                if not nullable:
                    c += [t, ("array", t, 2), ("result", t, ("string",))]
            return self.r.choice(c)

        def container(name, t, optional_ok):
            used = set()
            c = self.r.random()
            if c < 0.5:
                return Def("struct", name, fallback=self.fresh(used, "snake") if self.chance(0.4) else None,
                           fields=[{"name": self.fresh(used, "snake"), "id": 1, "req": False, "ty": (self.r.choice(LEAVES),),
                                    "doc": []},
                                   {"name": self.fresh(used, "snake"), "id": 2, "req": not optional_ok or self.chance(0.5),
                                    "ty": t, "doc": []}])
            if c < 0.8:
                return Def("enum", name, fallback=camel(self.fresh(used, "snake")) if self.chance(0.4) else None,
                           variants=[{"name": camel(self.fresh(used, "snake")), "id": 0, "ty": None, "doc": []},
                                     {"name": camel(self.fresh(used, "snake")), "id": 1, "ty": t, "doc": []}])
            return Def("newtype", name, ty=t)

        # the edge back to s::Node always has an empty value (option/vec/map), so finite values exist
        di = container(inner, edge(2, self.xref(x, s, node), True), True)
        dw = container(wrap, edge(1, ("ref", None, inner), False), False)
        dn = container(node, edge(0, self.xref(s, x, wrap), False), False)
        if dn.kind == "newtype":
            dn = Def("struct", node, fallback=None, fields=[{"name": "next", "id": 1, "req": True, "ty": dn.ty, "doc": []}])
        for p, d in ((x, di), (x, dw), (s, dn)):
            self.xadd(p, d)
        self.count("knots")
        self.count("knot_breaker_edges", "".join(str(b) for b in sorted(breakers)))

    def partners(self, s, window):
        pref = [w for w in window if w.name in s.imports]
        rest = [w for w in window if w.name not in s.imports]
        self.r.shuffle(pref)
        self.r.shuffle(rest)
        return (pref + rest)[:2]

    def cross(self, s, window):
        cluster = [s] + self.partners(s, window)
        links = []
        for _ in range(3):
            c = self.chain(s, cluster)
            links += [(p, nm, k == 0) for k, (p, nm) in enumerate(c)]
        for p, nm, head in links:
            self.use_link(p, nm, head)
        if self.chance(0.6):
            self.tower(s, cluster)
        if self.chance(0.5):
            self.knot(s, cluster)
        # definitions of the ordinary grammar (nested generics, fallbacks, inline service types) over the
        # cross-layer names s can see, local and imported
        self.bias = self.visible(s)
        self.bias_keys = self.visible(s, lambda t: self.env.is_key(s, t))
        if self.bias:
            d = self.struct(s, self.fresh(s.used, "camel")) if self.chance(0.6) else self.enum(s, self.fresh(s.used, "camel"))
            if self.chance(0.3):
                self.add_attrs(s, d)
            s.defs.append(d)
            self.count("definitions", d.kind)
            if self.chance(0.35):
                s.defs.append(self.service(s, self.fresh(s.used, "camel")))
                self.count("definitions", "service")
        self.bias, self.bias_keys = [], []
        two = [q for q in cluster[1:] if q.name in s.imports and
               any(i not in s.imports and i != s.name for i in q.imports)]
        if two:
            self.count("schemas_with_two_level_imports")
        if any(s.name in q.imports for q in cluster[1:] if q.name in s.imports):
            self.count("schemas_in_an_import_cycle")


# ---------------------------------------------------------------- old/new pairs

def evolve(g, old, new_name):
    """a newer version of `old`: more fields (optional or required) and more variants"""
    import copy
    new = copy.deepcopy(old)
    new.name = new_name
    for _, d in all_typedefs(new):
        # the added fields are not Copy/Ord/..: #[rust(impl_*)] on the evolved type would be a user error
        d.attrs = []
        if d.kind == "struct":
            used = {f["name"].lower().replace("_", "") for f in d.fields} | ({d.fallback} if d.fallback else set())
            ids = {f["id"] for f in d.fields}
            for _ in range(g.r.randint(0, 3)):
                i = g.r.choice([x for x in range(40, 80) if x not in ids])
                ids.add(i)
                d.fields.append({"name": g.fresh(used, "snake"), "id": i, "req": g.chance(0.25),
                                 "ty": (g.r.choice(["u8", "string", "u32", "bool", "bytes", "i64", "uuid"]),)
                                 if g.chance(0.7) else ("vec", ("u16",)), "doc": []})
            g.r.shuffle(d.fields)
        elif d.kind == "enum":
            used = {v["name"].lower().replace("_", "") for v in d.variants} | ({d.fallback.lower()} if d.fallback else set())
            ids = {v["id"] for v in d.variants}
            for _ in range(g.r.randint(0, 2)):
                i = g.r.choice([x for x in range(40, 80) if x not in ids])
                ids.add(i)
                d.variants.append({"name": camel(g.fresh(used, "snake")), "id": i,
                                   "ty": None if g.chance(0.4) else (g.r.choice(["u8", "string", "u32", "bool"]),),
                                   "doc": []})
    return new


def pair_stream(g, n):
    """n (old, new) schema pairs without imports and without services"""
    out = []
    for i in range(n):
        for _ in range(50):
            old = g.schema("p%d_old" % i, [])
            if any(d.kind in ("struct", "enum") for d in old.defs):
                break
        old.defs = [d for d in old.defs if d.kind != "service"]
        new = evolve(g, old, "p%d_new" % i)
        old.label = new.label = "pair"
        out.append((old, new))
    return out


# ---------------------------------------------------------------- second stream (classes a-d)

DOC_SITES = ["struct", "field", "struct_fallback", "enum", "variant", "enum_fallback", "newtype", "service",
             "function", "event", "fn_fallback", "ev_fallback"]
D_POSITIONS = ["struct_name", "field_name", "struct_fallback", "enum_name", "variant_name", "enum_fallback",
               "newtype_name", "fn_name", "event_name"]


def second_schema(label, idx, **detail):
    s = Schema("x%s%d" % (label, idx))
    s.label = label
    s.detail = detail
    return s


def doc_attr_schema(idx, site, text):
    """class a: with --introspection the doc line is pasted into #[aldrin(doc = "...")]; the
    attribute is only emitted when comrak's re-rendering differs from the original, which smart
    punctuation (") or a link ([T]) guarantees"""
    s = second_schema("a", idx, site=site, doc=text)
    st = Def("struct", "T", fields=[{"name": "x", "id": 1, "req": True, "ty": ("u8",), "doc": []}], fallback="rest")
    en = Def("enum", "E", variants=[{"name": "A", "id": 1, "ty": None, "doc": []}], fallback="Other")
    nt = Def("newtype", "N", ty=("u8",))
    sv = Def("service", "Svc", uuid="6f0e7a52-2f8b-4e0a-a0c9-0d9d3c3b1f1%x" % (idx % 16), version=1,
             items=[{"kind": "fn", "name": "f", "id": 1, "doc": []}, {"kind": "event", "name": "e", "id": 1, "doc": []}],
             fn_fallback="ffb", ev_fallback="efb")
    doc = [text]
    if site == "struct":
        st.doc = doc
    elif site == "field":
        st.fields[0]["doc"] = doc
    elif site == "struct_fallback":
        st.fallback_doc = doc
    elif site == "enum":
        en.doc = doc
    elif site == "variant":
        en.variants[0]["doc"] = doc
    elif site == "enum_fallback":
        en.fallback_doc = doc
    elif site == "newtype":
        nt.doc = doc
    elif site == "service":
        sv.doc = doc
    elif site == "function":
        sv.items[0]["doc"] = doc
    elif site == "event":
        sv.items[1]["doc"] = doc
    elif site == "fn_fallback":
        sv.fn_fallback_doc = doc
    elif site == "ev_fallback":
        sv.ev_fallback_doc = doc
    if site in ("struct", "field", "struct_fallback"):
        s.defs = [st]
    elif site in ("enum", "variant", "enum_fallback"):
        s.defs = [en]
    elif site == "newtype":
        s.defs = [nt]
    else:
        s.defs = [sv]
    return s


def keyword_const_schema(idx, kw, kind):
    s = second_schema("b", idx, keyword=kw, const_kind=kind)
    value = {"string": '"v"', "uuid": "6f0e7a52-2f8b-4e0a-a0c9-0d9d3c3b1f11"}.get(kind, "1")
    s.defs = [Def("const", kw, ckind=kind, value=value)]
    return s


def cr_const_schema(idx, text):
    s = second_schema("c", idx, text=text)
    s.defs = [Def("const", "C", ckind="string", value='"%s"' % text)]
    return s


def forbidden_ident_schema(idx, ident, pos):
    s = second_schema("d", idx, identifier=ident, position=pos)
    st = Def("struct", "T", fields=[{"name": "x", "id": 1, "req": True, "ty": ("u8",), "doc": []}], fallback=None)
    en = Def("enum", "E", variants=[{"name": "A", "id": 1, "ty": None, "doc": []}], fallback=None)
    if pos == "struct_name":
        st.name = ident
        s.defs = [st]
    elif pos == "field_name":
        st.fields[0]["name"] = ident
        s.defs = [st]
    elif pos == "struct_fallback":
        st.fallback = ident
        s.defs = [st]
    elif pos == "enum_name":
        en.name = ident
        s.defs = [en]
    elif pos == "variant_name":
        en.variants[0]["name"] = ident
        s.defs = [en]
    elif pos == "enum_fallback":
        en.fallback = ident
        s.defs = [en]
    elif pos == "newtype_name":
        s.defs = [Def("newtype", ident, ty=("u8",))]
    else:
        sv = Def("service", "Svc", uuid="6f0e7a52-2f8b-4e0a-a0c9-0d9d3c3b1f2%x" % (idx % 16), version=1, items=[],
                 fn_fallback=None, ev_fallback=None)
        if pos == "fn_name":
            sv.items = [{"kind": "fn", "name": ident, "id": 1, "doc": []}]
        else:
            sv.items = [{"kind": "event", "name": ident, "id": 1, "doc": []}]
        s.defs = [sv]
    return s


def overflow_id_schema(idx, where):
    """class e: the derive macros compute `id + 1` for the next default id; with id = u32::MAX
    (or u32::MAX - 1 followed by the fallback, which takes the default id) the proc macro panics
    in builds with overflow checks (the dev profile)"""
    s = second_schema("e", idx, where=where)
    if where == "struct_field":
        s.defs = [
            Def(
                "struct",
                "T",
                fields=[{"name": "x", "id": 4294967295, "req": True, "ty": ("u8",), "doc": []}],
                fallback=None,
            )
        ]
    elif where == "enum_variant":
        s.defs = [Def("enum", "E", variants=[{"name": "A", "id": 4294967295, "ty": None, "doc": []}], fallback=None)]
    elif where == "struct_before_fallback":
        s.defs = [
            Def(
                "struct",
                "T",
                fields=[{"name": "x", "id": 4294967294, "req": False, "ty": ("u8",), "doc": []}],
                fallback="rest",
            )
        ]
    else:
        s.defs = [Def("enum", "E", variants=[{"name": "A", "id": 4294967294, "ty": None, "doc": []}], fallback="Other")]
    return s


E_SITES = ["struct_field", "enum_variant", "struct_before_fallback", "enum_before_fallback"]


def value_namespace_schema(idx, item, site):
    """class f: a newtype is generated as a tuple struct and a const as a const item; both names live in
    Rust's value namespace of the module.  The derive macros bind every struct field to a local of the
    field's name and every payload variant to a parameter named like the snake-case form of the variant,
    and an identifier pattern that names a tuple struct / const in scope is rejected (E0530).  The parser
    only warns about the unconventional case of one of the two names."""
    s = second_schema("f", idx, item=item, site=site)
    name = {"struct_field": "limit", "inline_field": "limit", "variant": "limit", "camel_field": "Limit"}[site]
    first = Def("newtype", name, ty=("u32",)) if item == "newtype" else Def("const", name, ckind="u32", value="5")
    if site in ("struct_field", "camel_field"):
        other = Def("struct", "T", fields=[{"name": name, "id": 1, "req": False, "ty": ("u8",), "doc": []}], fallback=None)
    elif site == "variant":
        other = Def("enum", "E", variants=[{"name": "Limit", "id": 1, "ty": ("u8",), "doc": []}], fallback=None)
    else:
        inline = Def("struct", None, fields=[{"name": name, "id": 1, "req": False, "ty": ("u8",), "doc": []}], fallback=None)
        other = Def("service", "Svc", uuid="6f0e7a52-2f8b-4e0a-a0c9-0d9d3c3b1f3%x" % (idx % 16), version=1,
                    items=[{"kind": "fn", "name": "f", "id": 1, "doc": [], "args": inline}], fn_fallback=None,
                    ev_fallback=None)
    s.defs = [first, other]
    return s


F_SITES = [(i, s) for i in ("newtype", "const") for s in ("struct_field", "camel_field", "variant", "inline_field")]


def second_stream(seed, tier):
    r = random.Random(seed * 7919 + 13)
    out = []
    texts = ['say "hi"', 'a \\d backslash [T]', 'quote " alone [E]', 'path C:\\q "x"', 'ends with \\ [N]']
    sites = DOC_SITES if tier == "thorough" else r.sample(DOC_SITES, 4)
    for i, site in enumerate(sites):
        t = r.choice(texts)
        # a link only resolves where the target exists; an unresolved [X] is just a warning
        out.append(doc_attr_schema(i, site, t))
    kinds = (INTS + ["string", "uuid"]) if tier == "thorough" else r.sample(INTS + ["string", "uuid"], 3)
    for i, k in enumerate(kinds):
        out.append(keyword_const_schema(i, r.choice(RUST_KEYWORDS_FOR_CONST), k))
    crs = ["a\rb", "\r", "x\ry\rz"] if tier == "thorough" else [r.choice(["a\rb", "\r", "x\ry"])]
    for i, t in enumerate(crs):
        out.append(cr_const_schema(i, t))
    i = 0
    for ident in FORBIDDEN_IDENTS:
        poss = D_POSITIONS if tier == "thorough" else [r.choice(D_POSITIONS)]
        for pos in poss:
            out.append(forbidden_ident_schema(i, ident, pos))
            i += 1
    for i, w in enumerate(E_SITES if tier == "thorough" else r.sample(E_SITES, 2)):
        out.append(overflow_id_schema(i, w))
    for i, (item, site) in enumerate(F_SITES if tier == "thorough" else r.sample(F_SITES, 2)):
        out.append(value_namespace_schema(i, item, site))
    return out
