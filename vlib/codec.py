"""vlib.codec — build and run the codec correspondence (shared by C01, C07, C13)."""
import json
import os
import shutil

from . import core
from .core import BuildLock, log


def build(o, need_driver=True):
    ok = True
    with BuildLock():
        core.regen_for(o, {"Consts.v", "Kinds.v", "ConvConsts.v"})
        okc, outc, _ = core.cargo_build(["codec"])
        if not okc:
            o.obligation_broken("cargo build of the codec harness against /repo", outc)
            ok = False
        if need_driver:
            # the extraction needs the compiled model files
            okb, outb, _ = core.coq_build(["Codec/Ser.v", "Codec/De.v", "Codec/Skip.v", "Codec/Convert.v"]
                                          if os.path.exists(os.path.join(core.COQ, "Codec/Convert.v"))
                                          else ["Codec/Ser.v", "Codec/De.v", "Codec/Skip.v"])
            if not okb:
                o.obligation_broken("coq build of the executable codec model", outb)
                return False
            okd, outd = core.build_driver("ExtractCodec.v", "codec_model", "codec_driver.ml", "codec_driver")
            if not okd:
                o.obligation_broken("extraction/compilation of the codec model driver", outd)
                ok = False
    return ok


def workdir(prop, name):
    d = os.path.join(core.WORK, prop, name)
    shutil.rmtree(d, ignore_errors=True)
    os.makedirs(d, exist_ok=True)
    return d


def gen_shards(o, prop, sub, n_total, shards, seed, extra_args=""):
    """run `codec <sub> <dir> <n>` in `shards` processes with derived seeds"""
    dirs = []
    cmds = []
    per = max(1, n_total // shards)
    for i in range(shards):
        d = workdir(prop, f"{sub}{i}")
        dirs.append(d)
        cmds.append(f"VERIF_SEED={seed * 1000 + i} {core.harness_bin('codec')} {sub} {d} {per} {extra_args}")
    res = core.parallel(cmds, timeout=3000)
    for (rc, out), d in zip(res, dirs):
        if rc != 0:
            o.obligation_broken(f"harness codec {sub} (exit {rc})", out)
    return dirs


def model_shards(o, dirs, cases="cases.txt", model="model.txt"):
    cmds = [f"ulimit -s unlimited 2>/dev/null || ulimit -s 1000000; {os.path.join(core.BUILD, 'codec_driver')} {d}/{cases} {d}/{model}"
            for d in dirs]
    res = core.parallel(cmds, timeout=3000)
    for (rc, out), d in zip(res, dirs):
        if rc != 0:
            o.obligation_broken(f"model driver on {d}/{cases} (exit {rc})", out)


def impl_run_shards(o, dirs, cases, impl):
    cmds = [f"{core.harness_bin('codec')} run {d}/{cases} {d}/{impl}" for d in dirs]
    res = core.parallel(cmds, timeout=3000)
    for (rc, out), d in zip(res, dirs):
        if rc != 0:
            o.obligation_broken(f"harness codec run on {d}/{cases} (exit {rc})", out)


def merge_stats(dirs):
    tot = {}
    samples = []
    for d in dirs:
        p = os.path.join(d, "stats.json")
        if not os.path.exists(p):
            continue
        try:
            s = json.load(open(p))
        except Exception:
            continue
        for k, v in s.items():
            if isinstance(v, int) and k != "seed":
                tot[k] = tot.get(k, 0) + v
            elif isinstance(v, dict):
                t = tot.setdefault(k, {})
                for kk, vv in v.items():
                    t[kk] = t.get(kk, 0) + vv
            elif isinstance(v, float):
                tot[k] = max(tot.get(k, 0.0), v)      # ratios (e.g. max_alloc_per_input_byte): worst shard
            elif k == "samples":
                samples += v[:2]
    tot["samples"] = samples[:6]
    return tot


def read_monitor(dirs, name="monitor.txt"):
    out = []
    for d in dirs:
        p = os.path.join(d, name)
        if os.path.exists(p):
            with open(p, encoding="utf-8", errors="replace") as f:
                out += [l.rstrip("\n") for l in f if l.strip()]
    return out
