(* Intro/Ir.v — the introspection IR: core/src/introspection/ir/*.rs (LayoutIr and its parts, the
   builders) and, with type ids in place of lexical ids, the resolved layout types of
   core/src/introspection/*.rs (Layout, Struct, Field, ...).  One family of records serves both:
   the reference type [R] is a parameter ([uuid] for LexicalId/TypeId, [lex] for lexical-id
   terms).  BTreeMap<u32, X> is an id-sorted association list.  No proofs here. *)
From Aldrin Require Export Codec.Base.
Open Scope N_scope.

Definition str := list N.    (* String: its UTF-8 bytes *)
Definition uuid := list N.   (* Uuid / LexicalId / TypeId / ServiceUuid: 16 bytes *)
Definition doc := option str.

(* BuiltInTypeIr without payload *)
Inductive prim := PBool | PU8 | PI8 | PU16 | PI16 | PU32 | PI32 | PU64 | PI64 | PF32 | PF64
| PString | PUuid | PObjectId | PServiceId | PValue | PBytes | PLifetime | PUnit.
(* BuiltInTypeIr with one reference *)
Inductive wrap := WOption | WBox | WVec | WSet | WSender | WReceiver.

Inductive builtin (R : Type) :=
| BPrim (p : prim)
| BWrap (w : wrap) (t : R)
| BMap (k v : R)            (* MapTypeIr *)
| BResult (ok err : R)      (* ResultTypeIr *)
| BArray (t : R) (len : N). (* ArrayTypeIr *)
Arguments BPrim {R} p.
Arguments BWrap {R} w t.
Arguments BMap {R} k v.
Arguments BResult {R} ok err.
Arguments BArray {R} t len.

Record field (R : Type) := mkField { f_id : N; f_name : str; f_doc : doc; f_req : bool; f_ty : R }.
Arguments mkField {R}. Arguments f_id {R}. Arguments f_name {R}. Arguments f_doc {R}.
Arguments f_req {R}. Arguments f_ty {R}.

Record variant (R : Type) := mkVariant { v_id : N; v_name : str; v_doc : doc; v_ty : option R }.
Arguments mkVariant {R}. Arguments v_id {R}. Arguments v_name {R}. Arguments v_doc {R}.
Arguments v_ty {R}.

(* StructFallbackIr, EnumFallbackIr, FunctionFallbackIr, EventFallbackIr: same shape *)
Record fallback := mkFallback { fb_name : str; fb_doc : doc }.

Record func (R : Type) := mkFunc { fn_id : N; fn_name : str; fn_doc : doc;
                                   fn_args : option R; fn_ok : option R; fn_err : option R }.
Arguments mkFunc {R}. Arguments fn_id {R}. Arguments fn_name {R}. Arguments fn_doc {R}.
Arguments fn_args {R}. Arguments fn_ok {R}. Arguments fn_err {R}.

Record event (R : Type) := mkEvent { ev_id : N; ev_name : str; ev_doc : doc; ev_ty : option R }.
Arguments mkEvent {R}. Arguments ev_id {R}. Arguments ev_name {R}. Arguments ev_doc {R}.
Arguments ev_ty {R}.

Record structT (R : Type) := mkStruct { s_schema : str; s_name : str; s_doc : doc;
                                        s_fields : list (N * field R); s_fallback : option fallback }.
Arguments mkStruct {R}. Arguments s_schema {R}. Arguments s_name {R}. Arguments s_doc {R}.
Arguments s_fields {R}. Arguments s_fallback {R}.

Record enumT (R : Type) := mkEnum { e_schema : str; e_name : str; e_doc : doc;
                                    e_variants : list (N * variant R); e_fallback : option fallback }.
Arguments mkEnum {R}. Arguments e_schema {R}. Arguments e_name {R}. Arguments e_doc {R}.
Arguments e_variants {R}. Arguments e_fallback {R}.

Record newtypeT (R : Type) := mkNewtype { n_schema : str; n_name : str; n_doc : doc; n_target : R }.
Arguments mkNewtype {R}. Arguments n_schema {R}. Arguments n_name {R}. Arguments n_doc {R}.
Arguments n_target {R}.

Record serviceT (R : Type) := mkService {
  sv_schema : str; sv_name : str; sv_doc : doc; sv_uuid : uuid; sv_version : N;
  sv_functions : list (N * func R); sv_events : list (N * event R);
  sv_ffallback : option fallback; sv_efallback : option fallback }.
Arguments mkService {R}. Arguments sv_schema {R}. Arguments sv_name {R}. Arguments sv_doc {R}.
Arguments sv_uuid {R}. Arguments sv_version {R}. Arguments sv_functions {R}.
Arguments sv_events {R}. Arguments sv_ffallback {R}. Arguments sv_efallback {R}.

Inductive layout (R : Type) :=
| LBuiltIn (b : builtin R)
| LStruct (s : structT R)
| LEnum (e : enumT R)
| LService (s : serviceT R)
| LNewtype (n : newtypeT R).
Arguments LBuiltIn {R} b.
Arguments LStruct {R} s.
Arguments LEnum {R} e.
Arguments LService {R} s.
Arguments LNewtype {R} n.

(* ---------- BTreeMap<u32, A> ---------- *)
Fixpoint bt_insert {A} (k : N) (v : A) (l : list (N * A)) : list (N * A) :=
  match l with
  | [] => [(k, v)]
  | (k', v') :: r =>
      if k <? k' then (k, v) :: l
      else if k =? k' then (k, v) :: r
      else (k', v') :: bt_insert k v r
  end.
(* inserting a sequence of entries (collect::<BTreeMap>() and repeated builder calls) *)
Definition bt_of_list {A} (l : list (N * A)) : list (N * A) :=
  fold_left (fun acc p => bt_insert (fst p) (snd p) acc) l [].
Fixpoint bt_sorted {A} (l : list (N * A)) : bool :=
  match l with
  | [] => true
  | (k, _) :: r => match r with [] => true | (k', _) :: _ => (k <? k') && bt_sorted r end
  end.
Definition bt_get {A} (k : N) (l : list (N * A)) : option A :=
  option_map snd (find (fun p => fst p =? k) l).

(* ---------- the builders (StructIrBuilder etc.): the entries are inserted under their own id,
   in the order of the calls ---------- *)
Definition build_struct {R} schema name d (fs : list (field R)) fb : structT R :=
  mkStruct schema name d (bt_of_list (map (fun f => (f_id f, f)) fs)) fb.
Definition build_enum {R} schema name d (vs : list (variant R)) fb : enumT R :=
  mkEnum schema name d (bt_of_list (map (fun v => (v_id v, v)) vs)) fb.
Definition build_service {R} schema name d u ver (fs : list (func R)) (es : list (event R)) ffb efb
  : serviceT R :=
  mkService schema name d u ver (bt_of_list (map (fun f => (fn_id f, f)) fs))
            (bt_of_list (map (fun e => (ev_id e, e)) es)) ffb efb.

(* ---------- mapping over the references (Layout::from_ir with a total resolver) ---------- *)
Section Map.
Context {R S : Type} (g : R -> S).
Definition bmap (b : builtin R) : builtin S :=
  match b with
  | BPrim p => BPrim p
  | BWrap w t => BWrap w (g t)
  | BMap k v => BMap (g k) (g v)
  | BResult a b => BResult (g a) (g b)
  | BArray t n => BArray (g t) n
  end.
Definition fmap (f : field R) : field S := mkField (f_id f) (f_name f) (f_doc f) (f_req f) (g (f_ty f)).
Definition vmap (v : variant R) : variant S := mkVariant (v_id v) (v_name v) (v_doc v) (option_map g (v_ty v)).
Definition fnmap (f : func R) : func S :=
  mkFunc (fn_id f) (fn_name f) (fn_doc f) (option_map g (fn_args f)) (option_map g (fn_ok f))
         (option_map g (fn_err f)).
Definition evmap (e : event R) : event S := mkEvent (ev_id e) (ev_name e) (ev_doc e) (option_map g (ev_ty e)).
Definition amap {A B} (h : A -> B) (l : list (N * A)) : list (N * B) := map (fun p => (fst p, h (snd p))) l.
Definition lmap (l : layout R) : layout S :=
  match l with
  | LBuiltIn b => LBuiltIn (bmap b)
  | LStruct s => LStruct (mkStruct (s_schema s) (s_name s) (s_doc s) (amap fmap (s_fields s)) (s_fallback s))
  | LEnum e => LEnum (mkEnum (e_schema e) (e_name e) (e_doc e) (amap vmap (e_variants e)) (e_fallback e))
  | LService s => LService (mkService (sv_schema s) (sv_name s) (sv_doc s) (sv_uuid s) (sv_version s)
                              (amap fnmap (sv_functions s)) (amap evmap (sv_events s))
                              (sv_ffallback s) (sv_efallback s))
  | LNewtype n => LNewtype (mkNewtype (n_schema n) (n_name n) (n_doc n) (g (n_target n)))
  end.
End Map.

(* every reference mentioned by a layout, in field order *)
Section Refs.
Context {R : Type}.
Definition orefs (o : option R) : list R := match o with Some x => [x] | None => [] end.
Definition brefs (b : builtin R) : list R :=
  match b with
  | BPrim _ => [] | BWrap _ t => [t] | BMap k v => [k; v] | BResult a b => [a; b] | BArray t _ => [t]
  end.
Definition lrefs (l : layout R) : list R :=
  match l with
  | LBuiltIn b => brefs b
  | LStruct s => map (fun p => f_ty (snd p)) (s_fields s)
  | LEnum e => flat_map (fun p => orefs (v_ty (snd p))) (e_variants e)
  | LService s =>
      flat_map (fun p => orefs (fn_args (snd p)) ++ orefs (fn_ok (snd p)) ++ orefs (fn_err (snd p)))
               (sv_functions s) ++
      flat_map (fun p => orefs (ev_ty (snd p))) (sv_events s)
  | LNewtype n => [n_target n]
  end.
End Refs.

(* ---------- removing documentation ---------- *)
Section Erase.
Context {R : Type}.
Definition efb (f : fallback) : fallback := mkFallback (fb_name f) None.
Definition efield (f : field R) : field R := mkField (f_id f) (f_name f) None (f_req f) (f_ty f).
Definition evariant (v : variant R) : variant R := mkVariant (v_id v) (v_name v) None (v_ty v).
Definition efunc (f : func R) : func R := mkFunc (fn_id f) (fn_name f) None (fn_args f) (fn_ok f) (fn_err f).
Definition eevent (e : event R) : event R := mkEvent (ev_id e) (ev_name e) None (ev_ty e).
Definition erase_doc (l : layout R) : layout R :=
  match l with
  | LBuiltIn b => LBuiltIn b
  | LStruct s => LStruct (mkStruct (s_schema s) (s_name s) None (amap efield (s_fields s))
                                   (option_map efb (s_fallback s)))
  | LEnum e => LEnum (mkEnum (e_schema e) (e_name e) None (amap evariant (e_variants e))
                             (option_map efb (e_fallback e)))
  | LService s => LService (mkService (sv_schema s) (sv_name s) None (sv_uuid s) (sv_version s)
                              (amap efunc (sv_functions s)) (amap eevent (sv_events s))
                              (option_map efb (sv_ffallback s)) (option_map efb (sv_efallback s)))
  | LNewtype n => LNewtype (mkNewtype (n_schema n) (n_name n) None (n_target n))
  end.
End Erase.

(* ---------- well-formedness = "is the image of a Rust value": valid UTF-8 strings shorter than
   2^32, u32 ids and lengths, 16-byte uuids, strictly sorted maps ---------- *)
Definition str_ok (s : str) : bool := bytes_ok s && (lenN s <=? u32_max) && utf8_valid s.
Definition uuid_ok (u : uuid) : bool := bytes_ok u && (lenN u =? 16).
Definition doc_ok (d : doc) : bool := match d with None => true | Some s => str_ok s end.
Definition ouuid_ok (o : option uuid) : bool := match o with None => true | Some u => uuid_ok u end.
Definition fb_ok (f : fallback) : bool := str_ok (fb_name f) && doc_ok (fb_doc f).
Definition ofb_ok (o : option fallback) : bool := match o with None => true | Some f => fb_ok f end.
Definition bt_ok {A} (ok : A -> bool) (l : list (N * A)) : bool :=
  (lenN l <=? u32_max) && bt_sorted l && forallb (fun p => (fst p <=? u32_max) && ok (snd p)) l.
Definition builtin_ok (b : builtin uuid) : bool :=
  match b with
  | BPrim _ => true
  | BWrap _ t => uuid_ok t
  | BMap k v => uuid_ok k && uuid_ok v
  | BResult a b => uuid_ok a && uuid_ok b
  | BArray t n => uuid_ok t && (n <=? u32_max)
  end.
Definition field_ok (f : field uuid) : bool :=
  (f_id f <=? u32_max) && str_ok (f_name f) && doc_ok (f_doc f) && uuid_ok (f_ty f).
Definition variant_ok (v : variant uuid) : bool :=
  (v_id v <=? u32_max) && str_ok (v_name v) && doc_ok (v_doc v) && ouuid_ok (v_ty v).
Definition func_ok (f : func uuid) : bool :=
  (fn_id f <=? u32_max) && str_ok (fn_name f) && doc_ok (fn_doc f) && ouuid_ok (fn_args f) &&
  ouuid_ok (fn_ok f) && ouuid_ok (fn_err f).
Definition event_ok (e : event uuid) : bool :=
  (ev_id e <=? u32_max) && str_ok (ev_name e) && doc_ok (ev_doc e) && ouuid_ok (ev_ty e).
Definition layout_ok (l : layout uuid) : bool :=
  match l with
  | LBuiltIn b => builtin_ok b
  | LStruct s => str_ok (s_schema s) && str_ok (s_name s) && doc_ok (s_doc s) &&
                 bt_ok field_ok (s_fields s) && ofb_ok (s_fallback s)
  | LEnum e => str_ok (e_schema e) && str_ok (e_name e) && doc_ok (e_doc e) &&
               bt_ok variant_ok (e_variants e) && ofb_ok (e_fallback e)
  | LService s => str_ok (sv_schema s) && str_ok (sv_name s) && doc_ok (sv_doc s) &&
                  uuid_ok (sv_uuid s) && (sv_version s <=? u32_max) &&
                  bt_ok func_ok (sv_functions s) && bt_ok event_ok (sv_events s) &&
                  ofb_ok (sv_ffallback s) && ofb_ok (sv_efallback s)
  | LNewtype n => str_ok (n_schema n) && str_ok (n_name n) && doc_ok (n_doc n) && uuid_ok (n_target n)
  end.
