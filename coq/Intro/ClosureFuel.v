(* Intro/ClosureFuel.v — the loop of compute_from_dyn terminates when finitely many types are
   reachable, with an explicit fuel bound; so the results of ClosureProofs/TypeIdProofs are not
   vacuous: the runs they speak about return Ok. *)
From Aldrin Require Import Codec.BaseProofs Codec.RoundTrip
  Intro.Ir Intro.IrProofs Intro.Canon Intro.CanonProofs Intro.CanonWf Intro.CanonInj Intro.TypeId
  Intro.ClosureProofs Intro.TypeIdProofs.
From Coq Require Import Permutation Lia.
Open Scope N_scope.

Definition bdec : forall a b : list N, {a = b} + {a <> b} := list_eq_dec N.eq_dec.
Definition notin (set : list (list N)) (b : list N) : bool := if in_dec bdec b set then false else true.

Lemma filter_length_le {A} (p q : A -> bool) l : (forall x, q x = true -> p x = true) ->
  (length (filter q l) <= length (filter p l))%nat.
Proof.
  intros H. induction l as [|x l IH]; cbn [filter]; [lia|].
  destruct (q x) eqn:Q; [rewrite (H x Q); cbn [length]; lia|]. destruct (p x); cbn [length]; lia.
Qed.
Lemma filter_length_lt {A} (p q : A -> bool) l x : (forall x, q x = true -> p x = true) ->
  In x l -> p x = true -> q x = false -> (length (filter q l) < length (filter p l))%nat.
Proof.
  intros H. induction l as [|y l IH]; intros Hin Px Qx; [destruct Hin|]. cbn [filter].
  destruct Hin as [->|Hin].
  - rewrite Px, Qx. cbn [length]. pose proof (filter_length_le p q l H). lia.
  - specialize (IH Hin Px Qx). destruct (q y) eqn:Q; [rewrite (H y Q); cbn [length]; lia|].
    destruct (p y); cbn [length]; lia.
Qed.
Lemma filter_length_all {A} (p : A -> bool) l : (length (filter p l) <= length l)%nat.
Proof. induction l as [|x l IH]; cbn [filter length]; [lia|]. destruct (p x); cbn [length]; lia. Qed.

Section Fuel.
Variable T : Type.
Variable lay : T -> layout uuid.
Variable refs : T -> list T.
Variable pi : list T -> list T.
Hypothesis pi_perm : forall l, Permutation (pi l) l.
Variable S0 : list T.
Hypothesis Hok : forall t, reach T refs S0 t -> layout_ok (lay t) = true.
Hypothesis Hcoh : forall t1 t2, reach T refs S0 t1 -> reach T refs S0 t2 -> canon T lay t1 = canon T lay t2 ->
  forall t1', In t1' (refs t1) -> exists t2', In t2' (refs t2) /\ canon T lay t2' = canon T lay t1'.
(* finitely many reachable types *)
Variable all : list T.
Hypothesis Hall : forall t, reach T refs S0 t -> In t all.

Definition kf (t : T) : list N := match canon T lay t with Ok b => b | Err _ => [] end.
Definition keys : list (list N) := map kf all.
Definition mref : nat := fold_right (fun t m => Nat.max (length (refs t)) m) 0%nat all.
Definition pend (set : list (list N)) : nat := length (filter (notin set) keys).
Definition potential (stack : list T) (set : list (list N)) : nat := (length stack + S mref * pend set)%nat.

Lemma refs_le t : In t all -> (length (refs t) <= mref)%nat.
Proof.
  unfold mref. clear Hall. induction all as [|x l IH]; [intros []|]. cbn [fold_right]. intros [->|H]; [lia|].
  specialize (IH H). lia.
Qed.

Theorem closure_terminates fuel : forall stack set, Inv T lay refs S0 stack set ->
  (potential stack set < fuel)%nat -> exists s, closure T lay refs pi fuel stack set = Ok s.
Proof.
  induction fuel as [|f IH]; intros stack set HI Hp; [lia|]. cbn [closure].
  destruct (pi stack) as [|t rest] eqn:Ep; [eexists; reflexivity|].
  assert (E : forall x, In x stack <-> In x (t :: rest)).
  { intros x. pose proof (pi_perm stack) as P. rewrite Ep in P.
    split; [apply Permutation_in, Permutation_sym, P|apply Permutation_in, P]. }
  assert (Hlen : length stack = S (length rest)).
  { pose proof (Permutation_length (pi_perm stack)) as L. rewrite Ep in L. cbn [length] in L. lia. }
  assert (Ht : reach T refs S0 t) by (apply HI, E; left; reflexivity).
  destruct (canon_ok T lay refs S0 Hok t Ht) as [b Hb]. unfold canon in Hb. rewrite Hb. cbn [bind].
  destruct (bset_insert b set) as [set'|] eqn:Hins.
  - pose proof (inv_new T lay refs S0 Hcoh stack set t rest b set' HI E Hb Hins) as HI'.
    apply (IH _ _ HI'). unfold potential in *.
    pose proof (bset_insert_spec b set (inv_sorted _ _ _ _ _ _ HI)) as Sp. rewrite Hins in Sp.
    destruct Sp as (Hnin & _ & Hin').
    assert (Hpend : (pend set' < pend set)%nat).
    { unfold pend. apply (filter_length_lt (notin set) (notin set') keys b).
      - intros x. unfold notin. destruct (in_dec bdec x set') as [|Hn']; [discriminate|].
        destruct (in_dec bdec x set) as [Hi|]; [|reflexivity]. exfalso. apply Hn', Hin'. right. exact Hi.
      - unfold keys. apply in_map_iff. exists t. split; [unfold kf, canon; rewrite Hb; reflexivity|apply Hall, Ht].
      - unfold notin. destruct (in_dec bdec b set); [contradiction|reflexivity].
      - unfold notin. destruct (in_dec bdec b set') as [|Hn']; [reflexivity|]. exfalso. apply Hn', Hin'. left. reflexivity. }
    rewrite app_length, rev_length. pose proof (refs_le t (Hall t Ht)). nia.
  - pose proof (bset_insert_spec b set (inv_sorted _ _ _ _ _ _ HI)) as Sp. rewrite Hins in Sp.
    apply (IH _ _ (inv_dup T lay refs S0 stack set t rest b HI E Hb Sp)). unfold potential in *. lia.
Qed.

Corollary closure_start_terminates fuel stack : (forall t, In t stack <-> In t S0) ->
  (length stack + S mref * length all < fuel)%nat -> exists s, closure T lay refs pi fuel stack [] = Ok s.
Proof.
  intros E Hf. apply closure_terminates; [apply inv_start, E|]. unfold potential, pend.
  pose proof (filter_length_all (notin []) keys). unfold keys in *. rewrite map_length in *. nia.
Qed.
End Fuel.

(* for a universe with finitely many reachable types the run returns Ok once the fuel exceeds
   |refs root| + (1 + max |refs t|) * |all| *)
Theorem compute_bytes_terminates (U : univ) pi (all : list (U_T U)) fuel :
  (forall l, Permutation (pi l) l) -> well_formed U -> coherent U ->
  (forall t, u_reach U t -> In t all) ->
  (length (U_refs U (U_root U)) + S (mref (U_T U) (U_refs U) all) * length all < fuel)%nat ->
  exists x, compute_bytes (U_T U) (U_lay U) (U_refs U) pi fuel (U_root U) = Ok x.
Proof.
  intros PP WF CO Hall Hf. unfold compute_bytes.
  destruct (canon_layout_ok _ (proj1 WF)) as [lb ->]. cbn [bind].
  destruct (closure_start_terminates (U_T U) (U_lay U) (U_refs U) pi PP (U_refs U (U_root U))
              (u_reach_ok U WF) (coherent_canon U WF CO) all Hall fuel (rev (U_refs U (U_root U)))
              (fun t => iff_sym (in_rev _ t))) as [s ->].
  - rewrite rev_length. exact Hf.
  - cbn [bind]. eexists. reflexivity.
Qed.
