(* Intro/CanonWf.v — the value of a well-formed layout is a well-formed codec value of small
   depth, hence it serializes. *)
From Aldrin Require Import Codec.BaseProofs Codec.RoundTrip Codec.DeProofs Codec.Depth
  Intro.Ir Intro.IrProofs Intro.Canon Intro.CanonProofs gen.IntroConsts gen.Consts.
From Coq Require Import ZifyBool ZifyNat ZifyN.
Open Scope N_scope.
Arguments N.add : simpl never.
Arguments N.sub : simpl never.
Arguments N.mul : simpl never.
Arguments N.ltb : simpl never.
Arguments N.leb : simpl never.

(* ================================================================ well-formed, shallow values *)

Lemma wf_vstr s : str_ok s = true -> wf true (VString s) = true.
Proof. unfold str_ok. cbn [wf negb orb]. auto. Qed.
Lemma wf_vuuid u : uuid_ok u = true -> wf true (vuuid u) = true.
Proof. unfold uuid_ok, vuuid. cbn [wf fix_len]. auto. Qed.
Lemma wf_vu32 n : (n <=? u32_max) = true -> wf true (vu32 n) = true.
Proof. unfold vu32, u32_max. cbn [wf]. unfold int_ok. cbn. intros H. lia. Qed.

Lemma wf_struct l : (lenN l <=? u32_max) = true -> ids_nodup (map fst l) = true ->
  Forall (fun p => (fst p <=? u32_max) = true /\ wf true (snd p) = true) l -> wf true (VStruct l) = true.
Proof.
  intros Hl Hn Hf. cbn [wf]. rewrite Hl, Hn. cbn [andb]. apply forallb_forall. intros p Hp.
  rewrite Forall_forall in Hf. destruct (Hf p Hp) as [-> ->]. reflexivity.
Qed.

Lemma nodupb_keys (ks : list N) : NoDup ks -> keys_nodup (map (fun k => KeyZ (Z.of_N k)) ks) = true.
Proof.
  induction 1 as [|k ks Hnin Hnd IH]; [reflexivity|]. cbn [map keys_nodup nodupb]. fold (keys_nodup (map (fun k => KeyZ (Z.of_N k)) ks)).
  rewrite IH, andb_true_r. apply negb_true_iff. apply not_true_is_false. intros E.
  apply existsb_exists in E as (x & Hx & Ex). apply in_map_iff in Hx as (k' & <- & Hk'). cbn [key_eqb] in Ex.
  apply Z.eqb_eq in Ex. apply N2Z.inj in Ex. subst. contradiction.
Qed.

Lemma wf_vmap32 {A} (enc : A -> Value) (ok : A -> bool) (l : list (N * A)) :
  bt_ok ok l = true -> (forall x, ok x = true -> wf true (enc x) = true) -> wf true (vmap32 enc l) = true.
Proof.
  unfold bt_ok. rewrite !andb_true_iff. intros [[Hl Hs] Hf] Henc. unfold vmap32. cbn [wf].
  rewrite map_map. cbn [fst]. rewrite <- (map_map fst (fun k => KeyZ (Z.of_N k))).
  rewrite nodupb_keys by (apply bt_sorted_NoDup, Hs). unfold lenN in *. rewrite map_length, Hl. cbn [andb].
  rewrite forallb_forall in *. intros p Hp. apply in_map_iff in Hp as (q & <- & Hq). cbn [fst snd].
  specialize (Hf q Hq). apply andb_prop in Hf as [Hk Hok]. rewrite (Henc _ Hok), andb_true_r.
  cbn [key_ok]. unfold int_ok, u32_max in *. cbn. lia.
Qed.

Lemma bt_ok_sorted {A} (ok : A -> bool) l : bt_ok ok l = true -> bt_sorted l = true.
Proof. unfold bt_ok. rewrite !andb_true_iff. tauto. Qed.

Lemma wf_vsome v : wf true v = true -> wf true (VSome v) = true.
Proof. exact (fun H => H). Qed.

(* syntax-directed, so that the kernel re-checks no conversion across constructors *)
Ltac wf_val :=
  lazymatch goal with
  | |- wf true (VSome _) = true => apply wf_vsome; wf_val
  | |- wf true (VString _) = true => apply wf_vstr; assumption
  | |- wf true (vuuid _) = true => apply wf_vuuid; assumption
  | |- wf true (vu32 _) = true => apply wf_vu32; assumption
  | |- wf true (VBool _) = true => reflexivity
  | |- wf true VNone = true => reflexivity
  end.
Ltac wf_leaf := cbn [fst snd]; lazymatch goal with |- (_ <=? _) = true => reflexivity | _ => wf_val end.
Ltac wf_forall leaf :=
  lazymatch goal with
  | |- Forall _ [] => apply Forall_nil
  | |- Forall _ (_ :: _) => apply Forall_cons; [split; [leaf|leaf]|wf_forall leaf]
  end.
Ltac wf_fields := apply wf_struct; [reflexivity|reflexivity|wf_forall wf_leaf].

Ltac split_ok H := unfold field_ok, variant_ok, func_ok, event_ok, fb_ok, doc_ok, ouuid_ok, ofb_ok in H;
  cbn [f_id f_name f_doc f_req f_ty v_id v_name v_doc v_ty fn_id fn_name fn_doc fn_args fn_ok fn_err
       ev_id ev_name ev_doc ev_ty fb_name fb_doc] in H;
  repeat (let H1 := fresh "H" in apply andb_prop in H as [H H1]).

Lemma field_value_wf m f : field_ok f = true -> wf true (field_value m f) = true.
Proof. intros H. destruct m, f as [id name [d|] r t]; split_ok H; unfold field_value; cbn [f_id f_name f_doc f_req f_ty docf optf option_map app sel]; wf_fields. Qed.

Lemma variant_value_wf m v : variant_ok v = true -> wf true (variant_value m v) = true.
Proof. intros H. destruct m, v as [id name [d|] [t|]]; split_ok H; unfold variant_value; cbn [v_id v_name v_doc v_ty docf optf option_map app sel vouuid]; wf_fields. Qed.

Lemma func_value_wf m f : func_ok f = true -> wf true (func_value m f) = true.
Proof. intros H. destruct m, f as [id name [d|] [a|] [o|] [e|]]; split_ok H; unfold func_value; cbn [fn_id fn_name fn_doc fn_args fn_ok fn_err docf optf option_map app sel vouuid]; wf_fields. Qed.

Lemma event_value_wf m e : event_ok e = true -> wf true (event_value m e) = true.
Proof. intros H. destruct m, e as [id name [d|] [t|]]; split_ok H; unfold event_value; cbn [ev_id ev_name ev_doc ev_ty docf optf option_map app sel vouuid]; wf_fields. Qed.

Lemma fallback_value_wf m k f : fb_ok f = true -> wf true (fallback_value m k f) = true.
Proof. intros H. destruct m, k, f as [name [d|]]; unfold fb_ok, doc_ok in H; cbn [fb_name fb_doc] in H; apply andb_prop in H as [Hn Hd]; unfold fallback_value; cbn [fb_name fb_doc docf optf option_map app sel fb_name_id fb_doc_id]; wf_fields. Qed.

Ltac wf_val2 :=
  lazymatch goal with
  | |- wf true (VSome _) = true => apply wf_vsome; wf_val2
  | |- wf true (VString _) = true => apply wf_vstr; assumption
  | |- wf true (vuuid _) = true => apply wf_vuuid; assumption
  | |- wf true (vu32 _) = true => apply wf_vu32; assumption
  | |- wf true (VBool _) = true => reflexivity
  | |- wf true (fallback_value _ _ _) = true => apply fallback_value_wf; assumption
  | |- wf true (vmap32 (field_value _) _) = true => apply (wf_vmap32 _ field_ok); [assumption|intros x; apply field_value_wf]
  | |- wf true (vmap32 (variant_value _) _) = true => apply (wf_vmap32 _ variant_ok); [assumption|intros x; apply variant_value_wf]
  | |- wf true (vmap32 (func_value _) _) = true => apply (wf_vmap32 _ func_ok); [assumption|intros x; apply func_value_wf]
  | |- wf true (vmap32 (event_value _) _) = true => apply (wf_vmap32 _ event_ok); [assumption|intros x; apply event_value_wf]
  end.
Ltac wf_leaf2 := cbn [fst snd]; lazymatch goal with |- (_ <=? _) = true => reflexivity | _ => wf_val2 end.
Ltac wf_fields2 := apply wf_struct; [reflexivity|reflexivity|wf_forall wf_leaf2].

Lemma wf_venum id x : (id <=? u32_max) = true -> wf true x = true -> wf true (VEnum id x) = true.
Proof. intros H1 H2. cbn [wf]. rewrite H1, H2. reflexivity. Qed.

Lemma builtin_value_wf m b : builtin_ok b = true -> wf true (builtin_value m b) = true.
Proof.
  intros H. destruct b as [p|w t|k v|a e|t n]; cbn [builtin_ok] in H;
    [| |apply andb_prop in H as [H H']|apply andb_prop in H as [H H']|apply andb_prop in H as [H H']];
    unfold builtin_value; apply wf_venum.
  - destruct m, p; reflexivity.
  - reflexivity.
  - destruct m, w; reflexivity.
  - apply wf_vuuid, H.
  - destruct m; reflexivity.
  - destruct m; cbn [sel]; wf_fields.
  - destruct m; reflexivity.
  - destruct m; cbn [sel]; wf_fields.
  - destruct m; reflexivity.
  - destruct m; cbn [sel]; wf_fields.
Qed.

Lemma struct_value_wf m s :
  str_ok (s_schema s) && str_ok (s_name s) && doc_ok (s_doc s) && bt_ok field_ok (s_fields s) && ofb_ok (s_fallback s) = true ->
  wf true (struct_value m s) = true.
Proof.
  intros H. destruct m, s as [schema name [d|] fields [fb|]];
    cbn [s_schema s_name s_doc s_fields s_fallback doc_ok ofb_ok] in H;
    rewrite !andb_true_iff in H; repeat (match type of H with _ /\ _ => let H1 := fresh "H" in destruct H as [H H1] end);
    unfold struct_value; cbn [s_schema s_name s_doc s_fields s_fallback docf optf option_map app sel vofb]; wf_fields2.
Qed.

Lemma enum_value_wf m e :
  str_ok (e_schema e) && str_ok (e_name e) && doc_ok (e_doc e) && bt_ok variant_ok (e_variants e) && ofb_ok (e_fallback e) = true ->
  wf true (enum_value m e) = true.
Proof.
  intros H. destruct m, e as [schema name [d|] vs [fb|]];
    cbn [e_schema e_name e_doc e_variants e_fallback doc_ok ofb_ok] in H;
    rewrite !andb_true_iff in H; repeat (match type of H with _ /\ _ => let H1 := fresh "H" in destruct H as [H H1] end);
    unfold enum_value; cbn [e_schema e_name e_doc e_variants e_fallback docf optf option_map app sel vofb]; wf_fields2.
Qed.

Lemma newtype_value_wf m n :
  str_ok (n_schema n) && str_ok (n_name n) && doc_ok (n_doc n) && uuid_ok (n_target n) = true ->
  wf true (newtype_value m n) = true.
Proof.
  intros H. destruct m, n as [schema name [d|] t];
    cbn [n_schema n_name n_doc n_target doc_ok] in H;
    rewrite !andb_true_iff in H; repeat (match type of H with _ /\ _ => let H1 := fresh "H" in destruct H as [H H1] end);
    unfold newtype_value; cbn [n_schema n_name n_doc n_target docf optf option_map app sel]; wf_fields2.
Qed.

Lemma service_value_wf m s :
  str_ok (sv_schema s) && str_ok (sv_name s) && doc_ok (sv_doc s) && uuid_ok (sv_uuid s) &&
  (sv_version s <=? u32_max) && bt_ok func_ok (sv_functions s) && bt_ok event_ok (sv_events s) &&
  ofb_ok (sv_ffallback s) && ofb_ok (sv_efallback s) = true ->
  wf true (service_value m s) = true.
Proof.
  intros H. destruct m, s as [schema name [d|] u ver fs es [ffb|] [efb|]];
    cbn [sv_schema sv_name sv_doc sv_uuid sv_version sv_functions sv_events sv_ffallback sv_efallback doc_ok ofb_ok] in H;
    rewrite !andb_true_iff in H; repeat (match type of H with _ /\ _ => let H1 := fresh "H" in destruct H as [H H1] end);
    unfold service_value; cbn [sv_schema sv_name sv_doc sv_uuid sv_version sv_functions sv_events sv_ffallback sv_efallback
                               docf optf option_map app sel vofb]; wf_fields2.
Qed.

Theorem layout_value_wf m l : layout_ok l = true -> wf true (layout_value m l) = true.
Proof.
  intros H. destruct l as [b|s|e|s|n]; cbn [layout_ok] in H; unfold layout_value; apply wf_venum;
    try (destruct m; reflexivity).
  - apply builtin_value_wf, H.
  - apply struct_value_wf, H.
  - apply enum_value_wf, H.
  - apply service_value_wf, H.
  - apply newtype_value_wf, H.
Qed.

Lemma layout_ok_sorted l : layout_ok l = true -> layout_sorted l = true.
Proof.
  destruct l as [b|s|e|s|n]; cbn [layout_ok layout_sorted]; try reflexivity; rewrite !andb_true_iff; intros H.
  - destruct H as [[_ H] _]. eapply bt_ok_sorted, H.
  - destruct H as [[_ H] _]. eapply bt_ok_sorted, H.
  - destruct H as [[[[_ Hf] He] _] _]. split; eapply bt_ok_sorted; eassumption.
Qed.

(* ================================================================ depth *)
Lemma vmap32_depth {A} (enc : A -> Value) (l : list (N * A)) k :
  (forall x, (depth (enc x) <= k)%nat) -> (depth (vmap32 enc l) <= S k)%nat.
Proof.
  intros H. unfold vmap32. rewrite depth_map. apply le_n_S.
  induction l as [|p l IH]; cbn [map maxd fold_right snd]; [lia|]. specialize (H (snd p)). unfold maxd in IH. lia.
Qed.

Ltac dnorm := rewrite ?depth_struct; cbn [maxd fold_right snd depth vuuid vu32].

Lemma field_depth m f : (depth (field_value m f) <= 3)%nat.
Proof. destruct m, f as [id name [d|] r t]; unfold field_value; cbn [f_id f_name f_doc f_req f_ty docf optf option_map app sel]; dnorm; lia. Qed.
Lemma variant_depth m v : (depth (variant_value m v) <= 3)%nat.
Proof. destruct m, v as [id name [d|] [t|]]; unfold variant_value; cbn [v_id v_name v_doc v_ty docf optf option_map app sel vouuid]; dnorm; lia. Qed.
Lemma func_depth m f : (depth (func_value m f) <= 3)%nat.
Proof. destruct m, f as [id name [d|] [a|] [o|] [e|]]; unfold func_value; cbn [fn_id fn_name fn_doc fn_args fn_ok fn_err docf optf option_map app sel vouuid]; dnorm; lia. Qed.
Lemma event_depth m e : (depth (event_value m e) <= 3)%nat.
Proof. destruct m, e as [id name [d|] [t|]]; unfold event_value; cbn [ev_id ev_name ev_doc ev_ty docf optf option_map app sel vouuid]; dnorm; lia. Qed.
Lemma fallback_depth m k f : (depth (fallback_value m k f) <= 3)%nat.
Proof. destruct m, f as [name [d|]]; unfold fallback_value; cbn [fb_name fb_doc docf optf option_map app sel]; dnorm; lia. Qed.
Lemma builtin_depth m b : (depth (builtin_value m b) <= 3)%nat.
Proof. destruct b as [p|w t|k v|a e|t n]; unfold builtin_value; dnorm; lia. Qed.

Lemma struct_depth m s : (depth (struct_value m s) <= 5)%nat.
Proof.
  pose proof (vmap32_depth (field_value m) (s_fields s) 3 (field_depth m)).
  destruct m, s as [schema name [d|] fields [fb|]]; try pose proof (fallback_depth MIr FbStruct fb);
    try pose proof (fallback_depth MRs FbStruct fb); unfold struct_value in *;
    cbn [s_schema s_name s_doc s_fields s_fallback docf optf option_map app sel vofb] in *; dnorm; lia.
Qed.
Lemma enum_depth m e : (depth (enum_value m e) <= 5)%nat.
Proof.
  pose proof (vmap32_depth (variant_value m) (e_variants e) 3 (variant_depth m)).
  destruct m, e as [schema name [d|] vs [fb|]]; try pose proof (fallback_depth MIr FbEnum fb);
    try pose proof (fallback_depth MRs FbEnum fb); unfold enum_value in *;
    cbn [e_schema e_name e_doc e_variants e_fallback docf optf option_map app sel vofb] in *; dnorm; lia.
Qed.
Lemma newtype_depth m n : (depth (newtype_value m n) <= 5)%nat.
Proof. destruct m, n as [schema name [d|] t]; unfold newtype_value; cbn [n_schema n_name n_doc n_target docf optf option_map app sel]; dnorm; lia. Qed.
Lemma service_depth m s : (depth (service_value m s) <= 5)%nat.
Proof.
  pose proof (vmap32_depth (func_value m) (sv_functions s) 3 (func_depth m)).
  pose proof (vmap32_depth (event_value m) (sv_events s) 3 (event_depth m)).
  destruct m, s as [schema name [d|] u ver fs es [ffb|] [efb|]];
    try pose proof (fallback_depth MIr FbFunction ffb); try pose proof (fallback_depth MRs FbFunction ffb);
    try pose proof (fallback_depth MIr FbEvent efb); try pose proof (fallback_depth MRs FbEvent efb);
    unfold service_value in *;
    cbn [sv_schema sv_name sv_doc sv_uuid sv_version sv_functions sv_events sv_ffallback sv_efallback
         docf optf option_map app sel vofb] in *; dnorm; lia.
Qed.

Theorem layout_value_depth m l : (depth (layout_value m l) <= 6)%nat.
Proof.
  destruct l as [b|s|e|s|n]; unfold layout_value; cbn [depth].
  - pose proof (builtin_depth m b). lia.
  - pose proof (struct_depth m s). lia.
  - pose proof (enum_depth m e). lia.
  - pose proof (service_depth m s). lia.
  - pose proof (newtype_depth m n). lia.
Qed.

(* hence a well-formed layout serializes at every depth the code uses (0 for the IR, 1 inside the
   Introspection record) *)
Theorem layout_serializes m l d : layout_ok l = true -> (d <= 26)%nat ->
  exists bs, ser E2 d (layout_value m l) = Ok bs.
Proof.
  intros Hok Hd. apply (ser_total true E2 _ d (layout_value_wf m l Hok)).
  unfold fits. pose proof (layout_value_depth m l). lia.
Qed.

Corollary canon_layout_ok l : layout_ok l = true -> exists bs, canon_layout l = Ok bs.
Proof. intros H. apply (layout_serializes MIr l 0 H). lia. Qed.
