(* Intro/CanonInj.v — the canonical bytes determine the layout up to documentation (from the
   codec round trip [ser_de]), documentation does not enter them, [canon_compute] is injective on
   serialized layouts, and the byte-string order / sorted-set facts behind BTreeSet. *)
From Aldrin Require Import Codec.BaseProofs Codec.RoundTrip Codec.DeProofs Codec.Depth
  Intro.Ir Intro.IrProofs Intro.Canon Intro.CanonProofs Intro.CanonWf gen.IntroConsts gen.Consts.
From Coq Require Import ZifyBool ZifyNat ZifyN.
Open Scope N_scope.
Arguments N.add : simpl never.
Arguments N.sub : simpl never.
Arguments N.mul : simpl never.
Arguments N.ltb : simpl never.
Arguments N.leb : simpl never.

(* ---------- serializations of well-formed values are prefix-free and determine the value ------ *)
Theorem ser_prefix_free e d v v' b b' r r' :
  wf true v = true -> wf true v' = true -> ser e d v = Ok b -> ser e d v' = Ok b' ->
  b ++ r = b' ++ r' -> v = v' /\ b = b' /\ r = r'.
Proof.
  intros Hwf Hwf' Hs Hs' E.
  pose proof (ser_de true e v d b Hwf Hs (fuel_of v + fuel_of v') r ltac:(lia)) as D.
  pose proof (ser_de true e v' d b' Hwf' Hs' (fuel_of v + fuel_of v') r' ltac:(lia)) as D'.
  rewrite E in D. rewrite D in D'. apply Ok_inj in D'. inversion D'; subst v' r'.
  split; [reflexivity|]. split; [|reflexivity]. rewrite Hs in Hs'. apply Ok_inj in Hs'. exact Hs'.
Qed.

(* ---------- documentation does not enter the IR encoding ---------- *)
Lemma vmap32_erase {A} (enc : A -> Value) (er : A -> A) (l : list (N * A)) :
  (forall x, enc (er x) = enc x) -> vmap32 enc (amap er l) = vmap32 enc l.
Proof.
  intros E. unfold vmap32, amap. rewrite map_map. f_equal. apply map_ext. intros [k x]. cbn [fst snd].
  rewrite E. reflexivity.
Qed.

Theorem layout_value_erase l : layout_value MIr (erase_doc l) = layout_value MIr l.
Proof.
  destruct l as [b|s|e|s|n]; cbn [erase_doc layout_value sel]; f_equal.
  - destruct s as [schema name d fields [fb|]]; unfold struct_value;
      cbn [s_schema s_name s_doc s_fields s_fallback docf option_map];
      rewrite (vmap32_erase (field_value MIr) efield) by (intros [? ? ? ? ?]; reflexivity); reflexivity.
  - destruct e as [schema name d vs [fb|]]; unfold enum_value;
      cbn [e_schema e_name e_doc e_variants e_fallback docf option_map];
      rewrite (vmap32_erase (variant_value MIr) evariant) by (intros [? ? ? ?]; reflexivity); reflexivity.
  - destruct s as [schema name d u ver fs es [ffb|] [efb|]]; unfold service_value;
      cbn [sv_schema sv_name sv_doc sv_uuid sv_version sv_functions sv_events sv_ffallback sv_efallback docf option_map];
      rewrite (vmap32_erase (func_value MIr) efunc) by (intros [? ? ? ? ? ?]; reflexivity);
      rewrite (vmap32_erase (event_value MIr) eevent) by (intros [? ? ? ?]; reflexivity); reflexivity.
Qed.

Corollary canon_layout_erase l : canon_layout (erase_doc l) = canon_layout l.
Proof. unfold canon_layout. rewrite layout_value_erase. reflexivity. Qed.

(* ---------- the canonical bytes determine the layout up to documentation ---------- *)
Theorem canon_layout_inj a b x y r r' :
  layout_ok a = true -> layout_ok b = true -> canon_layout a = Ok x -> canon_layout b = Ok y ->
  x ++ r = y ++ r' -> erase_doc a = erase_doc b /\ x = y /\ r = r'.
Proof.
  intros Ha Hb Ca Cb E. unfold canon_layout, serialize in *.
  destruct (ser_prefix_free E2 0 _ _ x y r r' (layout_value_wf MIr a Ha) (layout_value_wf MIr b Hb) Ca Cb E)
    as (Ev & Ex & Er).
  split; [|split; assumption].
  pose proof (layout_inv MIr a (layout_ok_sorted a Ha)) as Ia.
  pose proof (layout_inv MIr b (layout_ok_sorted b Hb)) as Ib.
  rewrite Ev in Ia. rewrite Ia in Ib. cbn [erase] in Ib. congruence.
Qed.

Corollary canon_layout_iff a b : layout_ok a = true -> layout_ok b = true ->
  (canon_layout a = canon_layout b <-> erase_doc a = erase_doc b).
Proof.
  intros Ha Hb. split.
  - intros E. destruct (canon_layout_ok a Ha) as [x Hx]. pose proof Hx as Hy. rewrite E in Hy.
    apply (canon_layout_inj a b x x [] [] Ha Hb Hx Hy eq_refl).
  - intros E. rewrite <- (canon_layout_erase a), <- (canon_layout_erase b), E. reflexivity.
Qed.

(* ---------- Compute ---------- *)
Lemma canon_compute_eq lay refs :
  canon_compute lay refs = [39; 3; 0; 7; 2; 1] ++ lay ++ [2; 43] ++ concat (map (fun b => 1 :: b) refs) ++ [0].
Proof. vm_compute. reflexivity. Qed.

(* a serialized well-formed layout *)
Definition is_canon (x : list N) : Prop := exists l, layout_ok l = true /\ canon_layout l = Ok x.

Lemma canon_prefix x y r r' : is_canon x -> is_canon y -> x ++ r = y ++ r' -> x = y /\ r = r'.
Proof. intros (a & Ha & Ca) (b & Hb & Cb) E. destruct (canon_layout_inj a b x y r r' Ha Hb Ca Cb E) as (_ & H1 & H2). split; assumption. Qed.

Lemma is_canon_nonempty x : is_canon x -> x <> [].
Proof.
  intros (l & Hl & C) ->. unfold canon_layout, serialize in C. destruct l; cbn [layout_value ser] in C;
    destruct (MAX_VALUE_DEPTH <? 1)%nat; try discriminate;
    match type of C with (bind ?e _) = _ => destruct e end; discriminate.
Qed.

Lemma canon_seq_inj xs ys : Forall is_canon xs -> Forall is_canon ys ->
  concat (map (fun b => 1 :: b) xs) ++ [0] = concat (map (fun b => 1 :: b) ys) ++ [0] -> xs = ys.
Proof.
  revert ys. induction xs as [|x xs IH]; intros [|y ys] Hx Hy E; cbn [map concat app] in E.
  - reflexivity.
  - discriminate.
  - discriminate.
  - inversion Hx; subst. inversion Hy; subst. injection E as E. rewrite <- !app_assoc in E.
    destruct (canon_prefix x y _ _ H1 H3 E) as [-> E']. f_equal. apply IH; assumption.
Qed.

Theorem canon_compute_inj lay lay' refs refs' :
  is_canon lay -> is_canon lay' -> Forall is_canon refs -> Forall is_canon refs' ->
  canon_compute lay refs = canon_compute lay' refs' -> lay = lay' /\ refs = refs'.
Proof.
  intros Hl Hl' Hr Hr' E. rewrite !canon_compute_eq in E. cbn [app] in E.
  injection E as E. destruct (canon_prefix _ _ _ _ Hl Hl' E) as [-> E']. split; [reflexivity|].
  cbn [app] in E'. injection E' as E'. apply canon_seq_inj; assumption.
Qed.

(* ---------- byte strings: lexicographic order ---------- *)
Lemma bytes_cmp_eq a : forall b, bytes_cmp a b = Eq <-> a = b.
Proof.
  induction a as [|x a IH]; intros [|y b]; cbn [bytes_cmp]; try (split; [discriminate|discriminate]); [tauto|].
  destruct (N.compare_spec x y) as [->|H|H].
  - rewrite IH. split; [intros ->; reflexivity|intros E; injection E; auto].
  - split; [discriminate|intros E; injection E; intros; lia].
  - split; [discriminate|intros E; injection E; intros; lia].
Qed.
Lemma bytes_cmp_refl a : bytes_cmp a a = Eq. Proof. apply bytes_cmp_eq. reflexivity. Qed.

Lemma bytes_cmp_antisym a : forall b, bytes_cmp b a = CompOpp (bytes_cmp a b).
Proof.
  induction a as [|x a IH]; intros [|y b]; cbn [bytes_cmp CompOpp]; try reflexivity.
  rewrite (N.compare_antisym x y). destruct (x ?= y); cbn [CompOpp]; [apply IH|reflexivity|reflexivity].
Qed.

Lemma bytes_cmp_trans a : forall b c, bytes_cmp a b = Lt -> bytes_cmp b c = Lt -> bytes_cmp a c = Lt.
Proof.
  induction a as [|x a IH]; intros [|y b] [|z c]; cbn [bytes_cmp]; try discriminate; try reflexivity.
  destruct (N.compare_spec x y) as [->|H|H]; try discriminate.
  - destruct (N.compare_spec y z) as [->|H'|H']; try discriminate; [apply IH|reflexivity].
  - destruct (N.compare_spec y z) as [->|H'|H']; try discriminate; intros _ _.
    + destruct (N.compare_spec x z); [lia|reflexivity|lia].
    + destruct (N.compare_spec x z); [lia|reflexivity|lia].
Qed.

Definition blt (a b : list N) : Prop := bytes_cmp a b = Lt.
Fixpoint bsorted (s : list (list N)) : Prop :=
  match s with
  | [] => True
  | x :: r => (forall y, In y r -> blt x y) /\ bsorted r
  end.

Lemma blt_irrefl a : ~ blt a a.
Proof. unfold blt. rewrite bytes_cmp_refl. discriminate. Qed.
Lemma blt_asym a b : blt a b -> ~ blt b a.
Proof. unfold blt. intros H. rewrite bytes_cmp_antisym, H. discriminate. Qed.

Lemma bset_insert_spec b s : bsorted s ->
  match bset_insert b s with
  | None => In b s
  | Some s' => ~ In b s /\ bsorted s' /\ (forall x, In x s' <-> x = b \/ In x s)
  end.
Proof.
  induction s as [|x r IH]; intros Hs; cbn [bset_insert].
  - split; [intros []|]. split; [split; [intros ? []|exact I]|]. intros y. cbn [In]. split; intros [H|[]]; left; auto.
  - destruct Hs as [Hx Hr]. destruct (bytes_cmp b x) eqn:C.
    + apply bytes_cmp_eq in C. left. auto.
    + split; [|split].
      * intros [->|Hin]; [revert C; rewrite bytes_cmp_refl; discriminate|].
        apply (blt_asym b x C). apply Hx, Hin.
      * split; [|split; assumption]. intros y [<-|Hy]; [exact C|]. eapply bytes_cmp_trans; [exact C|apply Hx, Hy].
      * intros y. cbn [In]. split; [intros [H|H]; auto|intros [H|H]; auto].
    + specialize (IH Hr). destruct (bset_insert b r) as [s'|]; cbn [option_map].
      * destruct IH as (Hn & Hs' & Hin). split; [|split].
        -- intros [->|H]; [revert C; rewrite bytes_cmp_refl; discriminate|auto].
        -- split; [|exact Hs']. intros y Hy. apply Hin in Hy as [->|Hy]; [|apply Hx, Hy].
           unfold blt. rewrite bytes_cmp_antisym, C. reflexivity.
        -- intros y. cbn [In]. rewrite Hin. tauto.
      * right. exact IH.
Qed.

(* a strictly sorted list is determined by its elements *)
Theorem bsorted_ext s : forall s', bsorted s -> bsorted s' -> (forall x, In x s <-> In x s') -> s = s'.
Proof.
  induction s as [|x r IH]; intros [|y r'] Hs Hs' E.
  - reflexivity.
  - exfalso. apply (E y). left; reflexivity.
  - exfalso. apply (E x). left; reflexivity.
  - destruct Hs as [Hx Hr], Hs' as [Hy Hr'].
    assert (x = y).
    { destruct (proj1 (E x) (or_introl eq_refl)) as [<-|Hin]; [reflexivity|].
      destruct (proj2 (E y) (or_introl eq_refl)) as [<-|Hin']; [reflexivity|].
      exfalso. apply (blt_asym x y); [apply Hx, Hin'|apply Hy, Hin]. }
    subst y. f_equal. apply IH; [assumption|assumption|]. intros z. split; intros Hz.
    + destruct (proj1 (E z) (or_intror Hz)) as [<-|H]; [|exact H]. exfalso. apply (blt_irrefl x), Hx, Hz.
    + destruct (proj2 (E z) (or_intror Hz)) as [<-|H]; [|exact H]. exfalso. apply (blt_irrefl x), Hy, Hz.
Qed.
