(* Intro/LexProofs.v — lexical ids as terms.  Layouts carry lexical ids, which are themselves
   UUIDv5 hashes of their description ([lex_uuid]).  When [lex_uuid] is injective on the terms that
   occur (the only further use of the hash's collision resistance), equality of wire descriptions
   over uuids is equality of wire descriptions over terms: `referenced types` are compared as
   types, not as opaque ids. *)
From Aldrin Require Import Codec.BaseProofs Codec.RoundTrip
  Intro.Ir Intro.IrProofs Intro.Canon Intro.CanonProofs Intro.CanonWf Intro.CanonInj Intro.TypeId
  Intro.ClosureProofs Intro.TypeIdProofs.
Open Scope N_scope.

Section MapInj.
Context {R S : Type} (f : R -> S) (P : R -> Prop).
Hypothesis f_inj : forall x y, P x -> P y -> f x = f y -> x = y.

Definition lall (l : layout R) : Prop := forall x, In x (lrefs l) -> P x.

Lemma omap_inj (o o' : option R) : (forall x, In x (orefs o) -> P x) -> (forall x, In x (orefs o') -> P x) ->
  option_map f o = option_map f o' -> o = o'.
Proof.
  destruct o as [x|], o' as [y|]; cbn [option_map orefs]; intros Hx Hy E; try discriminate; [|reflexivity].
  injection E as E. f_equal. apply f_inj; [apply Hx; left; reflexivity|apply Hy; left; reflexivity|exact E].
Qed.

Lemma amap_inj {A B} (g : A -> B) (l l' : list (N * A)) :
  (forall p p', In p l -> In p' l' -> g (snd p) = g (snd p') -> snd p = snd p') -> amap g l = amap g l' -> l = l'.
Proof.
  revert l'. induction l as [|[k x] l IH]; intros [|[k' x'] l'] H E; cbn [amap map] in E; try discriminate; [reflexivity|].
  cbn [fst snd] in E. injection E as Ek Ex El. subst k'.
  assert (x = x') by (apply (H (k, x) (k, x')); [left; reflexivity|left; reflexivity|exact Ex]). subst x'.
  f_equal. apply IH; [|exact El]. intros p p' Hp Hp'. apply H; right; assumption.
Qed.

Lemma in_flat {A} (rf : A -> list R) (l : list (N * A)) p x : In p l -> In x (rf (snd p)) ->
  In x (flat_map (fun q => rf (snd q)) l).
Proof. intros Hp Hx. apply in_flat_map. exists p. split; assumption. Qed.

Theorem lmap_inj l l' : lall l -> lall l' -> lmap f l = lmap f l' -> l = l'.
Proof.
  unfold lall. intros Hl Hl' E.
  destruct l as [b|s|e|s|n], l' as [b'|s'|e'|s'|n']; cbn [lmap] in E; try discriminate; injection E as E.
  - f_equal. cbn [lrefs] in Hl, Hl'.
    destruct b as [p|w t|k v|a e|t n], b' as [p'|w' t'|k' v'|a' e'|t' n']; cbn [bmap] in E; try discriminate;
      injection E; intros; subst; cbn [brefs In] in Hl, Hl';
      repeat match goal with
             | H : f ?x = f ?y |- _ => assert (x = y) by (apply f_inj; [apply Hl; tauto|apply Hl'; tauto|exact H]); clear H; subst
             end; reflexivity.
  - f_equal. destruct s as [sc nm d fs fb], s' as [sc' nm' d' fs' fb']. cbn [s_schema s_name s_doc s_fields s_fallback] in *.
    subst. f_equal. cbn [lrefs s_fields] in Hl, Hl'. apply (amap_inj (fmap f)); [|assumption].
    intros p p' Hp Hp' Ef. destruct (snd p) as [i n0 d0 r0 t0] eqn:Sp, (snd p') as [i' n1 d1 r1 t1] eqn:Sp'.
    unfold fmap in Ef. cbn [f_id f_name f_doc f_req f_ty] in Ef. injection Ef; intros; subst.
    f_equal. apply f_inj; [apply Hl|apply Hl'|assumption].
    + apply in_map_iff. exists p. rewrite Sp. split; [reflexivity|exact Hp].
    + apply in_map_iff. exists p'. rewrite Sp'. split; [reflexivity|exact Hp'].
  - f_equal. destruct e as [sc nm d vs fb], e' as [sc' nm' d' vs' fb']. cbn [e_schema e_name e_doc e_variants e_fallback] in *.
    subst. f_equal. cbn [lrefs e_variants] in Hl, Hl'. apply (amap_inj (vmap f)); [|assumption].
    intros p p' Hp Hp' Ef. destruct (snd p) as [i n0 d0 t0] eqn:Sp, (snd p') as [i' n1 d1 t1] eqn:Sp'.
    unfold vmap in Ef. cbn [v_id v_name v_doc v_ty] in Ef. injection Ef; intros; subst. f_equal.
    apply omap_inj; [| |assumption].
    + intros x Hx. apply Hl. apply (in_flat (fun v => orefs (v_ty v)) vs p x Hp). rewrite Sp. exact Hx.
    + intros x Hx. apply Hl'. apply (in_flat (fun v => orefs (v_ty v)) vs' p' x Hp'). rewrite Sp'. exact Hx.
  - f_equal. destruct s as [sc nm d u ver fs es ffb efb], s' as [sc' nm' d' u' ver' fs' es' ffb' efb'].
    cbn [sv_schema sv_name sv_doc sv_uuid sv_version sv_functions sv_events sv_ffallback sv_efallback] in *.
    subst. cbn [lrefs sv_functions sv_events] in Hl, Hl'.
    assert (fs = fs').
    { apply (amap_inj (fnmap f)); [|assumption].
      intros p p' Hp Hp' Ef. destruct (snd p) as [i n0 d0 a0 o0 e0] eqn:Sp, (snd p') as [i' n1 d1 a1 o1 e1] eqn:Sp'.
      unfold fnmap in Ef. cbn [fn_id fn_name fn_doc fn_args fn_ok fn_err] in Ef. injection Ef; intros; subst.
      assert (Hin : forall x, In x (orefs a0 ++ orefs o0 ++ orefs e0) -> P x).
      { intros x Hx. apply Hl, in_or_app. left.
        apply (in_flat (fun q => orefs (fn_args q) ++ orefs (fn_ok q) ++ orefs (fn_err q)) fs p x Hp). rewrite Sp. exact Hx. }
      assert (Hin' : forall x, In x (orefs a1 ++ orefs o1 ++ orefs e1) -> P x).
      { intros x Hx. apply Hl', in_or_app. left.
        apply (in_flat (fun q => orefs (fn_args q) ++ orefs (fn_ok q) ++ orefs (fn_err q)) fs' p' x Hp'). rewrite Sp'. exact Hx. }
      f_equal.
      - apply omap_inj; [intros x Hx; apply Hin, in_or_app; left; exact Hx
                        |intros x Hx; apply Hin', in_or_app; left; exact Hx|assumption].
      - apply omap_inj; [intros x Hx; apply Hin, in_or_app; right; apply in_or_app; left; exact Hx
                        |intros x Hx; apply Hin', in_or_app; right; apply in_or_app; left; exact Hx|assumption].
      - apply omap_inj; [intros x Hx; apply Hin, in_or_app; right; apply in_or_app; right; exact Hx
                        |intros x Hx; apply Hin', in_or_app; right; apply in_or_app; right; exact Hx|assumption]. }
    assert (es = es').
    { apply (amap_inj (evmap f)); [|assumption].
      intros p p' Hp Hp' Ef. destruct (snd p) as [i n0 d0 t0] eqn:Sp, (snd p') as [i' n1 d1 t1] eqn:Sp'.
      unfold evmap in Ef. cbn [ev_id ev_name ev_doc ev_ty] in Ef. injection Ef; intros; subst. f_equal.
      apply omap_inj; [| |assumption].
      + intros x Hx. apply Hl, in_or_app. right. apply (in_flat (fun q => orefs (ev_ty q)) es p x Hp). rewrite Sp. exact Hx.
      + intros x Hx. apply Hl', in_or_app. right. apply (in_flat (fun q => orefs (ev_ty q)) es' p' x Hp'). rewrite Sp'. exact Hx. }
    subst. reflexivity.
  - f_equal. destruct n as [sc nm d t], n' as [sc' nm' d' t']. cbn [n_schema n_name n_doc n_target] in *. subst.
    f_equal. apply f_inj; [apply Hl; left; reflexivity|apply Hl'; left; reflexivity|assumption].
Qed.
End MapInj.

Lemma erase_lmap {R S} (f : R -> S) (l : layout R) : erase_doc (lmap f l) = lmap f (erase_doc l).
Proof.
  destruct l as [b|s|e|s|n]; cbn [lmap erase_doc s_schema s_name s_doc s_fields s_fallback e_schema e_name e_doc
    e_variants e_fallback sv_schema sv_name sv_doc sv_uuid sv_version sv_functions sv_events sv_ffallback
    sv_efallback n_schema n_name n_doc n_target]; try reflexivity; rewrite !amap_amap; reflexivity.
Qed.

Lemma lrefs_erase {R} (l : layout R) : lrefs (erase_doc l) = lrefs l.
Proof.
  destruct l as [b|s|e|s|n]; cbn [lrefs erase_doc s_fields e_variants sv_functions sv_events n_target]; try reflexivity;
    unfold amap; rewrite ?map_map, ?flat_map_concat_map, ?map_map; reflexivity.
Qed.

(* ---------- universes whose layouts carry lexical-id terms ---------- *)
Record univL := mkUnivL { L_T : Type; L_lay : L_T -> layout lex; L_refs : L_T -> list L_T; L_root : L_T }.

Section Terms.
Variable H : uuid -> list N -> uuid.
Definition to_univ (A : univL) : univ :=
  mkUniv (L_T A) (fun t => lmap (lex_uuid H) (L_lay A t)) (L_refs A) (L_root A).
Definition l_reach (A : univL) : L_T A -> Prop := u_reach (to_univ A).
Definition wire_setL (A : univL) (l : layout lex) : Prop := exists t, l_reach A t /\ erase_doc (L_lay A t) = l.
Definition wire_equal_terms (A B : univL) : Prop :=
  erase_doc (L_lay A (L_root A)) = erase_doc (L_lay B (L_root B)) /\ forall l, wire_setL A l <-> wire_setL B l.

(* the lexical-id terms that occur in A *)
Definition occurs (A : univL) (x : lex) : Prop :=
  In x (lrefs (L_lay A (L_root A))) \/ exists t, l_reach A t /\ In x (lrefs (L_lay A t)).

Theorem wire_equal_terms_iff (A B : univL) :
  (forall x y, occurs A x \/ occurs B x -> occurs A y \/ occurs B y -> lex_uuid H x = lex_uuid H y -> x = y) ->
  (wire_equal (to_univ A) (to_univ B) <-> wire_equal_terms A B).
Proof.
  intros Hinj. set (P := fun x => occurs A x \/ occurs B x).
  assert (Hroot : forall C, (C = A \/ C = B) -> lall P (erase_doc (L_lay C (L_root C)))).
  { intros C HC x Hx. rewrite lrefs_erase in Hx. destruct HC as [->| ->]; [left|right]; left; exact Hx. }
  assert (Hreach : forall C t, (C = A \/ C = B) -> l_reach C t -> lall P (erase_doc (L_lay C t))).
  { intros C t HC Hr x Hx. rewrite lrefs_erase in Hx. destruct HC as [->| ->]; [left|right]; right; exists t; split; assumption. }
  split.
  - intros [Er Es]. cbn [to_univ U_lay U_root] in Er. rewrite !erase_lmap in Er. split.
    + apply (lmap_inj (lex_uuid H) P Hinj); [apply Hroot; auto|apply Hroot; auto|exact Er].
    + assert (Hdir : forall C D, (C = A \/ C = B) -> (D = A \/ D = B) ->
                (forall l, wire_set (to_univ C) l -> wire_set (to_univ D) l) -> forall l, wire_setL C l -> wire_setL D l).
      { intros C D HC HD HCD l (t & Hr & <-).
        destruct (HCD (erase_doc (lmap (lex_uuid H) (L_lay C t)))) as (t' & Hr' & E').
        - exists t. split; [exact Hr|reflexivity].
        - exists t'. split; [exact Hr'|]. cbn [to_univ U_lay] in E'. rewrite !erase_lmap in E'.
          apply (lmap_inj (lex_uuid H) P Hinj); [apply Hreach; assumption|apply Hreach; assumption|exact E']. }
      intros l. split; [apply (Hdir A B); auto; intros; apply Es; assumption|apply (Hdir B A); auto; intros; apply Es; assumption].
  - intros [Er Es]. split.
    + cbn [to_univ U_lay U_root]. rewrite !erase_lmap, Er. reflexivity.
    + assert (Hdir : forall C D, (forall l, wire_setL C l -> wire_setL D l) ->
                forall l, wire_set (to_univ C) l -> wire_set (to_univ D) l).
      { intros C D HCD l (t & Hr & <-). destruct (HCD (erase_doc (L_lay C t))) as (t' & Hr' & E').
        - exists t. split; [exact Hr|reflexivity].
        - exists t'. split; [exact Hr'|]. cbn [to_univ U_lay]. rewrite !erase_lmap, E'. reflexivity. }
      intros l. split; [apply (Hdir A B); intros; apply Es; assumption|apply (Hdir B A); intros; apply Es; assumption].
Qed.
End Terms.

(* ---------- when is lex_uuid injective?  A partial answer: for an idealised hash (injective,
   16-byte outputs, never one of the 19 built-in constants) it is injective on the terms without
   type arguments whose schema and type names contain no ':' — `fully_qualified` concatenates
   "{schema}::{name}", so arbitrary strings collide (custom("a::b","c") = custom("a","b::c")).
   Not covered: custom_generic (needs injectivity of the uuid text form) and raw ids. ---------- *)
Section LexInj.
Variable H : uuid -> list N -> uuid.
Hypothesis H_inj : forall ns x ns' x', H ns x = H ns' x' -> ns = ns' /\ x = x'.
Hypothesis H_len : forall ns x, length (H ns x) = 16%nat.
Hypothesis H_fresh : forall ns x p, H ns x <> prim_lex p.

Definition noc (s : str) : Prop := ~ In 58 s.
Fixpoint lex_simple (t : lex) : Prop :=
  match t with
  | XPrim _ => True
  | XWrap _ x => lex_simple x
  | XMap k v => lex_simple k /\ lex_simple v
  | XResult a e => lex_simple a /\ lex_simple e
  | XArray x n => lex_simple x /\ n < 256 ^ 4
  | XCustom s n args => args = [] /\ noc s /\ noc n
  | XService s n => noc s /\ noc n
  | XRaw _ => False
  end.

Lemma prim_lex_inj p p' : prim_lex p = prim_lex p' -> p = p'.
Proof. destruct p, p'; intros E; try reflexivity; discriminate E. Qed.
Lemma wrap_ns_inj w w' : wrap_ns w = wrap_ns w' -> w = w'.
Proof. destruct w, w'; intros E; try reflexivity; discriminate E. Qed.

Lemma lex_uuid_len t : lex_simple t -> length (lex_uuid H t) = 16%nat.
Proof. destruct t; cbn [lex_uuid lex_simple]; intros Hs; try apply H_len; [destruct p; reflexivity|destruct Hs]. Qed.

Lemma app_inj_len {A} (a a' b b' : list A) : length a = length a' -> a ++ b = a' ++ b' -> a = a' /\ b = b'.
Proof.
  revert a'. induction a as [|x a IH]; intros [|y a'] L E; cbn [length app] in *; try discriminate; [split; [reflexivity|exact E]|].
  injection E as -> E. injection L as L. destruct (IH _ L E) as [-> ->]. split; reflexivity.
Qed.

Lemma fq_inj s n s' n' : noc s -> noc s' -> fq_name s n [] = fq_name s' n' [] -> s = s' /\ n = n'.
Proof.
  unfold fq_name, noc. rewrite !app_nil_r. revert s'. induction s as [|c s IH]; intros [|c' s'] Hs Hs' E; cbn [app] in E.
  - injection E as E. split; [reflexivity|exact E].
  - injection E as <- E. exfalso. apply Hs'. left. reflexivity.
  - injection E as -> E. exfalso. apply Hs. left. reflexivity.
  - injection E as -> E. destruct (IH s') as [-> ->]; [intros Hc; apply Hs; right; exact Hc|intros Hc; apply Hs'; right; exact Hc|exact E|].
    split; reflexivity.
Qed.

Theorem lex_uuid_inj_partial : forall t t', lex_simple t -> lex_simple t' -> lex_uuid H t = lex_uuid H t' -> t = t'.
Proof.
  induction t as [p|w x IH|k IHk v IHv|a IHa e IHe|x IH n|s n args|s n|u]; intros t' Hs Hs' E;
    destruct t' as [p'|w' x'|k' v'|a' e'|x' n'|s' n0 args'|s' n0|u']; cbn [lex_uuid lex_simple] in *;
    try (exfalso; exact Hs); try (exfalso; exact Hs');
    try (exfalso; eapply H_fresh; first [exact E|symmetry; exact E]);
    try (apply H_inj in E as [Ens E]; try discriminate Ens; try (destruct w; discriminate Ens); try (destruct w'; discriminate Ens)).
  - f_equal. apply prim_lex_inj, E.
  - apply wrap_ns_inj in Ens. subst. f_equal. apply IH; assumption.
  - destruct Hs as [Hk Hv], Hs' as [Hk' Hv'].
    apply app_inj_len in E as [E1 E2]; [|rewrite !lex_uuid_len by assumption; reflexivity].
    f_equal; [apply IHk|apply IHv]; assumption.
  - destruct Hs as [Ha He], Hs' as [Ha' He'].
    apply app_inj_len in E as [E1 E2]; [|rewrite !lex_uuid_len by assumption; reflexivity].
    f_equal; [apply IHa|apply IHe]; assumption.
  - destruct Hs as [Hx Hn], Hs' as [Hx' Hn'].
    apply app_inj_len in E as [E1 E2]; [|rewrite !lex_uuid_len by assumption; reflexivity].
    f_equal; [apply IH; assumption|].
    rewrite <- (from_to_le 4 n Hn), <- (from_to_le 4 n' Hn'), E2. reflexivity.
  - destruct Hs as (-> & Hc & Hn), Hs' as (-> & Hc' & Hn'). cbn [map] in E.
    destruct (fq_inj _ _ _ _ Hc Hc' E) as [-> ->]. reflexivity.
  - destruct Hs as [Hc Hn], Hs' as [Hc' Hn']. destruct (fq_inj _ _ _ _ Hc Hc' E) as [-> ->]. reflexivity.
Qed.
End LexInj.
