(* Intro/ClosureProofs.v — the worklist loop of TypeId::compute_from_dyn.
   For a universe whose reachable layouts are well formed and coherent (two reachable types with
   the same canonical layout reference the same set of canonical layouts — what holds when types
   are identified by schema and name), the loop returns, for EVERY order in which pending
   references are taken up ([pi]) and every order/multiplicity in which add_references pushes
   them, the strictly sorted list of the canonical layouts of exactly the types reachable from
   the root's references.  Hence the hashed bytes depend only on the root's layout up to
   documentation and on that set. *)
From Aldrin Require Import Codec.BaseProofs Codec.RoundTrip
  Intro.Ir Intro.IrProofs Intro.Canon Intro.CanonProofs Intro.CanonWf Intro.CanonInj Intro.TypeId.
From Coq Require Import Permutation.
Open Scope N_scope.

Section Closure.
Variable T : Type.
Variable lay : T -> layout uuid.
Variable refs : T -> list T.
Variable pi : list T -> list T.
Hypothesis pi_perm : forall l, Permutation (pi l) l.

Definition canon (t : T) : result (list N) := canon_layout (lay t).

(* reachable from a list of start types by following add_references *)
Inductive reach (S0 : list T) : T -> Prop :=
| reach_init t : In t S0 -> reach S0 t
| reach_step t t' : reach S0 t -> In t' (refs t) -> reach S0 t'.

Variable S0 : list T.
Hypothesis Hok : forall t, reach S0 t -> layout_ok (lay t) = true.
Hypothesis Hcoh : forall t1 t2, reach S0 t1 -> reach S0 t2 -> canon t1 = canon t2 ->
  forall t1', In t1' (refs t1) -> exists t2', In t2' (refs t2) /\ canon t2' = canon t1'.

(* the canonical layouts of the reachable types *)
Definition Kset (b : list N) : Prop := exists t, reach S0 t /\ canon t = Ok b.

Definition in_set (t : T) (set : list (list N)) : Prop := exists b, canon t = Ok b /\ In b set.
Definition covered (stack : list T) (set : list (list N)) (t : T) : Prop :=
  in_set t set \/ exists s, In s stack /\ canon s = canon t.

Record Inv (stack : list T) (set : list (list N)) : Prop := {
  inv_sorted : bsorted set;
  inv_sound : forall b, In b set -> Kset b;
  inv_stack : forall t, In t stack -> reach S0 t;
  inv_init : forall t, In t S0 -> covered stack set t;
  inv_closed : forall t, reach S0 t -> in_set t set -> forall t', In t' (refs t) -> covered stack set t'
}.

Lemma inv_start stack : (forall t, In t stack <-> In t S0) -> Inv stack [].
Proof.
  intros E. split.
  - exact I.
  - intros b [].
  - intros t Ht. apply reach_init, E, Ht.
  - intros t Ht. right. exists t. split; [apply E, Ht|reflexivity].
  - intros t _ (b & _ & []).
Qed.

Lemma canon_ok t : reach S0 t -> exists b, canon t = Ok b.
Proof. intros H. apply canon_layout_ok, Hok, H. Qed.

(* one iteration: the popped type is already in the set *)
Lemma inv_dup stack set t rest b : Inv stack set -> (forall x, In x stack <-> In x (t :: rest)) ->
  canon t = Ok b -> In b set -> Inv rest set.
Proof.
  intros [I1 I2 I3 I4 I5] E Hb Hin.
  assert (Hcov : forall x, covered stack set x -> covered rest set x).
  { intros x [H|(s & Hs & Es)]; [left; exact H|]. apply E in Hs as [<-|Hs].
    - left. exists b. split; [rewrite <- Es; exact Hb|exact Hin].
    - right. exists s. split; assumption. }
  split; auto.
  - intros x Hx. apply I3, E. right. exact Hx.
  - intros x Hr Hx x' Hx'. apply Hcov. eapply I5; eassumption.
Qed.

(* one iteration: the popped type is new *)
Lemma inv_new stack set t rest b set' : Inv stack set -> (forall x, In x stack <-> In x (t :: rest)) ->
  canon t = Ok b -> bset_insert b set = Some set' -> Inv (rev (refs t) ++ rest) set'.
Proof.
  intros [I1 I2 I3 I4 I5] E Hb Hins.
  pose proof (bset_insert_spec b set I1) as Sp. rewrite Hins in Sp. destruct Sp as (Hnin & Hs' & Hin').
  assert (Ht : reach S0 t) by (apply I3, E; left; reflexivity).
  assert (Hcov : forall x, covered stack set x -> covered (rev (refs t) ++ rest) set' x).
  { intros x [(bx & Hbx & Hx)|(s & Hs & Es)].
    - left. exists bx. split; [exact Hbx|apply Hin'; right; exact Hx].
    - apply E in Hs as [<-|Hs].
      + left. exists b. split; [rewrite <- Es; exact Hb|apply Hin'; left; reflexivity].
      + right. exists s. split; [apply in_or_app; right; exact Hs|exact Es]. }
  split.
  - exact Hs'.
  - intros x Hx. apply Hin' in Hx as [->|Hx]; [exists t; split; assumption|apply I2, Hx].
  - intros x Hx. apply in_app_or in Hx as [Hx|Hx].
    + apply in_rev in Hx. eapply reach_step; eassumption.
    + apply I3, E. right. exact Hx.
  - intros x Hx. apply Hcov, I4, Hx.
  - intros x Hr (bx & Hbx & Hx) x' Hx'. apply Hin' in Hx as [->|Hx].
    + (* same canonical layout as t: by coherence its references are matched by t's *)
      destruct (Hcoh x t Hr Ht ltac:(rewrite Hbx, Hb; reflexivity) x' Hx') as (t' & Ht' & Et').
      right. exists t'. split; [apply in_or_app; left; apply in_rev; rewrite rev_involutive; exact Ht'|exact Et'].
    + apply Hcov. eapply I5; [exact Hr|exists bx; split; assumption|exact Hx'].
Qed.

(* at the end everything reachable is in the set *)
Lemma inv_final set : Inv [] set -> forall t, reach S0 t -> in_set t set.
Proof.
  intros [I1 I2 I3 I4 I5].
  assert (Hc : forall x, covered [] set x -> in_set x set) by (intros x [H|(s & [] & _)]; exact H).
  induction 1 as [t Ht|t t' Hr IH Ht'].
  - apply Hc, I4, Ht.
  - apply Hc. eapply I5; eassumption.
Qed.

Theorem closure_inv fuel : forall stack set s, Inv stack set ->
  closure T lay refs pi fuel stack set = Ok s -> bsorted s /\ forall b, In b s <-> Kset b.
Proof.
  induction fuel as [|f IH]; intros stack set s HI Hc; cbn [closure] in Hc.
  - destruct (pi stack) as [|t rest] eqn:Ep; [|discriminate]. apply Ok_inj in Hc. subst s.
    pose proof (pi_perm stack) as P. rewrite Ep in P. apply Permutation_nil in P. subst stack.
    split; [apply HI|]. intros b. split; [apply HI|].
    intros (t & Hr & Hb). destruct (inv_final set HI t Hr) as (b' & Hb' & Hin). unfold canon in *. congruence.
  - destruct (pi stack) as [|t rest] eqn:Ep.
    + apply Ok_inj in Hc. subst s.
      pose proof (pi_perm stack) as P. rewrite Ep in P. apply Permutation_nil in P. subst stack.
      split; [apply HI|]. intros b. split; [apply HI|].
      intros (t & Hr & Hb). destruct (inv_final set HI t Hr) as (b' & Hb' & Hin). unfold canon in *. congruence.
    + assert (E : forall x, In x stack <-> In x (t :: rest)).
      { intros x. pose proof (pi_perm stack) as P. rewrite Ep in P.
        split; [apply Permutation_in, Permutation_sym, P|apply Permutation_in, P]. }
      assert (Ht : reach S0 t) by (apply HI, E; left; reflexivity).
      destruct (canon_ok t Ht) as [b Hb]. unfold canon in Hb. rewrite Hb in Hc. cbn [bind] in Hc.
      destruct (bset_insert b set) as [set'|] eqn:Hins.
      * apply (IH _ _ _ (inv_new stack set t rest b set' HI E Hb Hins) Hc).
      * pose proof (bset_insert_spec b set (inv_sorted _ _ HI)) as Sp. rewrite Hins in Sp.
        apply (IH _ _ _ (inv_dup stack set t rest b HI E Hb Sp) Hc).
Qed.

(* the loop of compute_from_dyn started on the references of a root *)
Corollary closure_result fuel stack s : (forall t, In t stack <-> In t S0) ->
  closure T lay refs pi fuel stack [] = Ok s -> bsorted s /\ forall b, In b s <-> Kset b.
Proof. intros E. apply closure_inv, inv_start, E. Qed.
End Closure.
