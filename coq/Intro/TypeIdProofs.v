(* Intro/TypeIdProofs.v — the bytes hashed by TypeId::compute_from_dyn, hence the type id, are a
   function of the wire description and of nothing else; conversely they determine it. *)
From Aldrin Require Import Codec.BaseProofs Codec.RoundTrip
  Intro.Ir Intro.IrProofs Intro.Canon Intro.CanonProofs Intro.CanonWf Intro.CanonInj Intro.TypeId
  Intro.ClosureProofs.
From Coq Require Import Permutation.
Open Scope N_scope.

(* a universe of introspectable types with a root *)
Record univ := mkUniv { U_T : Type; U_lay : U_T -> layout uuid; U_refs : U_T -> list U_T; U_root : U_T }.

Definition u_reach (U : univ) : U_T U -> Prop := reach (U_T U) (U_refs U) (U_refs U (U_root U)).

(* every layout involved is the image of Rust data (strings are UTF-8 shorter than 2^32, ids are
   u32, uuids have 16 bytes, maps are BTreeMaps) *)
Definition well_formed (U : univ) : Prop :=
  layout_ok (U_lay U (U_root U)) = true /\ forall t, u_reach U t -> layout_ok (U_lay U t) = true.

(* types with the same wire layout reference the same set of wire layouts: what holds when a
   type is identified by its schema and name, the assumption behind lexical ids *)
Definition coherent (U : univ) : Prop :=
  forall t1 t2, u_reach U t1 -> u_reach U t2 -> erase_doc (U_lay U t1) = erase_doc (U_lay U t2) ->
  forall t1', In t1' (U_refs U t1) ->
  exists t2', In t2' (U_refs U t2) /\ erase_doc (U_lay U t2') = erase_doc (U_lay U t1').

(* the wire description: the root's layout without documentation, and the set of layouts without
   documentation of everything its references lead to *)
Definition wire_set (U : univ) (l : layout uuid) : Prop := exists t, u_reach U t /\ erase_doc (U_lay U t) = l.
Definition wire_equal (A B : univ) : Prop :=
  erase_doc (U_lay A (U_root A)) = erase_doc (U_lay B (U_root B)) /\ forall l, wire_set A l <-> wire_set B l.

Lemma u_reach_ok U : well_formed U -> forall t, u_reach U t -> layout_ok (U_lay U t) = true.
Proof. intros [_ H]. exact H. Qed.

Lemma coherent_canon U : well_formed U -> coherent U ->
  forall t1 t2, u_reach U t1 -> u_reach U t2 -> canon (U_T U) (U_lay U) t1 = canon (U_T U) (U_lay U) t2 ->
  forall t1', In t1' (U_refs U t1) -> exists t2', In t2' (U_refs U t2) /\ canon (U_T U) (U_lay U) t2' = canon (U_T U) (U_lay U) t1'.
Proof.
  intros Hwf Hc t1 t2 H1 H2 E t1' Hin. unfold canon in *.
  apply canon_layout_iff in E; [|apply (u_reach_ok U Hwf); assumption|apply (u_reach_ok U Hwf); assumption].
  destruct (Hc t1 t2 H1 H2 E t1' Hin) as (t2' & Hin' & E'). exists t2'. split; [exact Hin'|].
  apply canon_layout_iff; [| |exact E'].
  - apply (u_reach_ok U Hwf). exact (reach_step _ _ _ t2 t2' H2 Hin').
  - apply (u_reach_ok U Hwf). exact (reach_step _ _ _ t1 t1' H1 Hin).
Qed.

Section Compute.
Variable U : univ.
Variable pi : list (U_T U) -> list (U_T U).
Hypothesis pi_perm : forall l, Permutation (pi l) l.
Hypothesis Hwf : well_formed U.
Hypothesis Hcoh : coherent U.

Definition KsetU : list N -> Prop := Kset (U_T U) (U_lay U) (U_refs U) (U_refs U (U_root U)).

(* what compute_from_dyn hashes: the root's canonical layout and the strictly sorted list of the
   canonical layouts of the reachable types — for every pop order, push order and fuel *)
Theorem compute_bytes_spec fuel x :
  compute_bytes (U_T U) (U_lay U) (U_refs U) pi fuel (U_root U) = Ok x ->
  exists lb s, canon_layout (U_lay U (U_root U)) = Ok lb /\ bsorted s /\ (forall b, In b s <-> KsetU b) /\
               x = canon_compute lb s.
Proof.
  unfold compute_bytes. intros H.
  destruct (canon_layout (U_lay U (U_root U))) as [lb|] eqn:El; cbn [bind] in H; [|discriminate].
  destruct (closure _ _ _ _ _ _ _) as [s|] eqn:Ec; cbn [bind] in H; [|discriminate].
  apply Ok_inj in H. subst x. exists lb, s. split; [reflexivity|].
  destruct (closure_result (U_T U) (U_lay U) (U_refs U) pi pi_perm (U_refs U (U_root U))
              (u_reach_ok U Hwf) (coherent_canon U Hwf Hcoh) fuel _ s (fun t => iff_sym (in_rev _ t)) Ec) as [Hs Hin].
  split; [exact Hs|]. split; [exact Hin|reflexivity].
Qed.
End Compute.

Lemma Kset_wire U : well_formed U -> forall b, KsetU U b <->
  exists l, wire_set U l /\ canon_layout l = Ok b.
Proof.
  intros Hwf b. split.
  - intros (t & Hr & Hb). exists (erase_doc (U_lay U t)). split; [exists t; split; [exact Hr|reflexivity]|].
    rewrite canon_layout_erase. exact Hb.
  - intros (l & (t & Hr & <-) & Hb). exists t. split; [exact Hr|]. rewrite canon_layout_erase in Hb. exact Hb.
Qed.

Lemma Kset_is_canon U : well_formed U -> forall b, KsetU U b -> is_canon b.
Proof. intros Hwf b (t & Hr & Hb). exists (U_lay U t). split; [apply (u_reach_ok U Hwf), Hr|exact Hb]. Qed.

(* ---------- nothing but the wire description enters the hashed bytes ---------- *)
Theorem compute_bytes_insensitive (A B : univ) piA piB fa fb x y :
  (forall l, Permutation (piA l) l) -> (forall l, Permutation (piB l) l) ->
  well_formed A -> coherent A -> well_formed B -> coherent B -> wire_equal A B ->
  compute_bytes (U_T A) (U_lay A) (U_refs A) piA fa (U_root A) = Ok x ->
  compute_bytes (U_T B) (U_lay B) (U_refs B) piB fb (U_root B) = Ok y -> x = y.
Proof.
  intros PA PB WA CA WB CB [Er Es] HA HB.
  destruct (compute_bytes_spec A piA PA WA CA fa x HA) as (la & sa & Hla & Ssa & Ina & ->).
  destruct (compute_bytes_spec B piB PB WB CB fb y HB) as (lb & sb & Hlb & Ssb & Inb & ->).
  assert (la = lb).
  { pose proof (proj2 (canon_layout_iff _ _ (proj1 WA) (proj1 WB)) Er) as Ec. rewrite Ec in Hla. rewrite Hla in Hlb. apply Ok_inj in Hlb. exact Hlb. }
  subst lb. f_equal. apply bsorted_ext; [assumption|assumption|]. intros b. rewrite Ina, Inb.
  rewrite (Kset_wire A WA), (Kset_wire B WB). split; intros (l & Hl & Hb); exists l; (split; [apply Es, Hl|exact Hb]).
Qed.

(* ---------- and the hashed bytes determine the wire description ---------- *)
Theorem compute_bytes_injective (A B : univ) piA piB fa fb x :
  (forall l, Permutation (piA l) l) -> (forall l, Permutation (piB l) l) ->
  well_formed A -> coherent A -> well_formed B -> coherent B ->
  compute_bytes (U_T A) (U_lay A) (U_refs A) piA fa (U_root A) = Ok x ->
  compute_bytes (U_T B) (U_lay B) (U_refs B) piB fb (U_root B) = Ok x -> wire_equal A B.
Proof.
  intros PA PB WA CA WB CB HA HB.
  destruct (compute_bytes_spec A piA PA WA CA fa x HA) as (la & sa & Hla & Ssa & Ina & Ex).
  destruct (compute_bytes_spec B piB PB WB CB fb x HB) as (lb & sb & Hlb & Ssb & Inb & Ey).
  rewrite Ex in Ey.
  destruct (canon_compute_inj la lb sa sb) as [El Es]; try exact Ey.
  - exists (U_lay A (U_root A)). split; [exact (proj1 WA)|exact Hla].
  - exists (U_lay B (U_root B)). split; [exact (proj1 WB)|exact Hlb].
  - apply Forall_forall. intros b Hb. apply (Kset_is_canon A WA), Ina, Hb.
  - apply Forall_forall. intros b Hb. apply (Kset_is_canon B WB), Inb, Hb.
  - subst lb sb. split.
    + apply (proj1 (canon_layout_iff _ _ (proj1 WA) (proj1 WB))). rewrite Hla, Hlb. reflexivity.
    + assert (Hk : forall b, KsetU A b <-> KsetU B b) by (intros b; rewrite <- Ina, <- Inb; reflexivity).
      assert (Hdir : forall (X Y : univ), well_formed X -> well_formed Y -> (forall b, KsetU X b -> KsetU Y b) ->
                                     forall l, wire_set X l -> wire_set Y l).
      { intros X Y WX WY HXY l (t & Hr & <-).
        destruct (canon_layout_ok (U_lay X t) (u_reach_ok X WX t Hr)) as [b Hb].
        destruct (HXY b (ex_intro _ t (conj Hr Hb))) as (t' & Hr' & Hb').
        exists t'. split; [exact Hr'|].
        apply (proj1 (canon_layout_iff _ _ (u_reach_ok Y WY t' Hr') (u_reach_ok X WX t Hr))).
        unfold canon in Hb'. rewrite Hb, Hb'. reflexivity. }
      intros l. split; [apply (Hdir A B WA WB); intros b; apply Hk|apply (Hdir B A WB WA); intros b; apply Hk].
Qed.

(* ---------- the type id ---------- *)
Section Hash.
Variable H : uuid -> list N -> uuid.

Lemma layout_ns_erase {R} (l : layout R) : layout_ns (erase_doc l) = layout_ns l.
Proof. destruct l; reflexivity. Qed.

Theorem type_id_insensitive (A B : univ) piA piB fa fb ia ib :
  (forall l, Permutation (piA l) l) -> (forall l, Permutation (piB l) l) ->
  well_formed A -> coherent A -> well_formed B -> coherent B -> wire_equal A B ->
  type_id H (U_T A) (U_lay A) (U_refs A) piA fa (U_root A) = Ok ia ->
  type_id H (U_T B) (U_lay B) (U_refs B) piB fb (U_root B) = Ok ib -> ia = ib.
Proof.
  intros PA PB WA CA WB CB We HA HB. unfold type_id in *.
  destruct (compute_bytes _ _ _ piA _ _) as [x|] eqn:Ea; cbn [bind] in HA; [|discriminate].
  destruct (compute_bytes _ _ _ piB _ _) as [y|] eqn:Eb; cbn [bind] in HB; [|discriminate].
  apply Ok_inj in HA. apply Ok_inj in HB. subst ia ib.
  rewrite (compute_bytes_insensitive A B piA piB fa fb x y PA PB WA CA WB CB We Ea Eb).
  destruct We as [Er _]. rewrite <- (layout_ns_erase (U_lay A _)), Er, layout_ns_erase. reflexivity.
Qed.

(* the hash separates the two inputs at hand (the only property of UUIDv5/SHA-1 used) *)
Definition hash_separates (A B : univ) piA piB fa fb : Prop :=
  forall x y, compute_bytes (U_T A) (U_lay A) (U_refs A) piA fa (U_root A) = Ok x ->
              compute_bytes (U_T B) (U_lay B) (U_refs B) piB fb (U_root B) = Ok y ->
              H (layout_ns (U_lay A (U_root A))) x = H (layout_ns (U_lay B (U_root B))) y -> x = y.

Theorem type_id_iff (A B : univ) piA piB fa fb ia ib :
  (forall l, Permutation (piA l) l) -> (forall l, Permutation (piB l) l) ->
  well_formed A -> coherent A -> well_formed B -> coherent B ->
  hash_separates A B piA piB fa fb ->
  type_id H (U_T A) (U_lay A) (U_refs A) piA fa (U_root A) = Ok ia ->
  type_id H (U_T B) (U_lay B) (U_refs B) piB fb (U_root B) = Ok ib ->
  (ia = ib <-> wire_equal A B).
Proof.
  intros PA PB WA CA WB CB Hsep HA HB. split.
  - intros E. unfold type_id in *.
    destruct (compute_bytes _ _ _ piA _ _) as [x|] eqn:Ea; cbn [bind] in HA; [|discriminate].
    destruct (compute_bytes _ _ _ piB _ _) as [y|] eqn:Eb; cbn [bind] in HB; [|discriminate].
    apply Ok_inj in HA. apply Ok_inj in HB. subst ia ib.
    pose proof (Hsep x y Ea Eb E) as Exy. subst y.
    apply (compute_bytes_injective A B piA piB fa fb x PA PB WA CA WB CB Ea Eb).
  - intros We. exact (type_id_insensitive A B piA piB fa fb ia ib PA PB WA CA WB CB We HA HB).
Qed.
End Hash.
