(* Intro/TypeId.v — lexical ids (core/src/introspection/lexical_id.rs) as terms over the UUIDv5
   hash [H], `TypeId::compute_from_dyn` (type_id.rs: the worklist closure over the serialized
   layouts of everything reachable), `IntrospectionIr::from_dyn` (ir.rs), `Introspection::from_ir`
   and the Serialize/Deserialize impls of `Introspection` (introspection.rs).
   [H ns name] stands for `Uuid::new_v5(&ns, name)`; it is a Section variable, every definition
   and theorem is parametric in it (SHA-1 is outside the model). *)
From Aldrin Require Export Intro.Canon.
From Aldrin Require Import gen.IntroConsts.
Open Scope N_scope.

(* ---------- lexical-id terms ---------- *)
Inductive lex :=
| XPrim (p : prim)                               (* LexicalId::BOOL ... UNIT *)
| XWrap (w : wrap) (t : lex)                     (* option, box_ty, vec, set, sender, receiver *)
| XMap (k v : lex)
| XResult (ok err : lex)
| XArray (t : lex) (len : N)
| XCustom (schema name : str) (args : list lex)  (* custom / custom_generic *)
| XService (schema name : str)
| XRaw (u : uuid).                               (* LexicalId(uuid): the tuple field is public *)

Definition prim_lex (p : prim) : uuid :=
  match p with
  | PBool => LEX_BOOL | PU8 => LEX_U8 | PI8 => LEX_I8 | PU16 => LEX_U16 | PI16 => LEX_I16
  | PU32 => LEX_U32 | PI32 => LEX_I32 | PU64 => LEX_U64 | PI64 => LEX_I64 | PF32 => LEX_F32
  | PF64 => LEX_F64 | PString => LEX_STRING | PUuid => LEX_UUID | PObjectId => LEX_OBJECT_ID
  | PServiceId => LEX_SERVICE_ID | PValue => LEX_VALUE | PBytes => LEX_BYTES
  | PLifetime => LEX_LIFETIME | PUnit => LEX_UNIT
  end.
Definition wrap_ns (w : wrap) : uuid :=
  match w with
  | WOption => LEX_NAMESPACE_OPTION | WBox => LEX_NAMESPACE_BOX | WVec => LEX_NAMESPACE_VEC
  | WSet => LEX_NAMESPACE_SET | WSender => LEX_NAMESPACE_SENDER | WReceiver => LEX_NAMESPACE_RECEIVER
  end.

(* Display for Uuid: lower-case hyphenated *)
Definition hexdig (n : N) : N := if n <? 10 then 48 + n else 87 + n.
Definition hex2 (b : N) : list N := [hexdig (b / 16); hexdig (b mod 16)].
Fixpoint uuid_text_go (i : nat) (u : list N) : list N :=
  match u with
  | [] => []
  | b :: r => (match i with 4%nat | 6%nat | 8%nat | 10%nat => [45] | _ => [] end) ++ hex2 b ++ uuid_text_go (S i) r
  end.
Definition uuid_text (u : uuid) : list N := uuid_text_go 0 u.

Fixpoint join (sep : list N) (l : list (list N)) : list N :=
  match l with [] => [] | [x] => x | x :: r => x ++ sep ++ join sep r end.

(* LexicalId::fully_qualified: "{schema}::{name}" + "<id,id,...>" when there are type arguments *)
Definition fq_name (schema name : str) (args : list uuid) : list N :=
  schema ++ [58; 58] ++ name ++
  match args with [] => [] | _ => [60] ++ join [44] (map uuid_text args) ++ [62] end.

Record intro_ir := mkIntroIr { ir_type_id : uuid; ir_layout : layout uuid;
                               ir_refs : list (uuid * uuid) }. (* BTreeMap<LexicalId, TypeId> *)

(* BTreeMap::insert + the assert: None = the assertion fails (same lexical id, other type id) *)
Fixpoint umap_insert (k v : uuid) (m : list (uuid * uuid)) : option (list (uuid * uuid)) :=
  match m with
  | [] => Some [(k, v)]
  | (k', v') :: r =>
      match bytes_cmp k k' with
      | Lt => Some ((k, v) :: m)
      | Eq => if list_eqb v v' then Some m else None
      | Gt => option_map (cons (k', v')) (umap_insert k v r)
      end
  end.
Definition umap_get (k : uuid) (m : list (uuid * uuid)) : option uuid :=
  option_map snd (find (fun p => list_eqb k (fst p)) m).

Section Hash.
Variable H : uuid -> list N -> uuid.

Fixpoint lex_uuid (t : lex) : uuid :=
  match t with
  | XPrim p => prim_lex p
  | XWrap w x => H (wrap_ns w) (lex_uuid x)
  | XMap k v => H LEX_NAMESPACE_MAP (lex_uuid k ++ lex_uuid v)
  | XResult a e => H LEX_NAMESPACE_RESULT (lex_uuid a ++ lex_uuid e)
  | XArray x n => H LEX_NAMESPACE_ARRAY (lex_uuid x ++ to_le 4 n)
  | XCustom s n args => H LEX_NAMESPACE_CUSTOM (fq_name s n (map lex_uuid args))
  | XService s n => H LEX_NAMESPACE_SERVICE (fq_name s n [])
  | XRaw u => u
  end.

(* BuiltInTypeIr::lexical_id, StructIr::lexical_id, ... : the lexical id a layout claims *)
Definition layout_lex (l : layout lex) : lex :=
  match l with
  | LBuiltIn (BPrim p) => XPrim p
  | LBuiltIn (BWrap w t) => XWrap w t
  | LBuiltIn (BMap k v) => XMap k v
  | LBuiltIn (BResult a e) => XResult a e
  | LBuiltIn (BArray t n) => XArray t n
  | LStruct s => XCustom (s_schema s) (s_name s) []
  | LEnum e => XCustom (e_schema e) (e_name e) []
  | LNewtype n => XCustom (n_schema n) (n_name n) []
  | LService s => XService (sv_schema s) (sv_name s)
  end.

(* ---------- a universe of introspectable types: what `DynIntrospectable` exposes ---------- *)
Section Univ.
Variable T : Type.
Variable lay : T -> layout uuid.     (* T::layout(), lexical ids already hashed *)
Variable refs : T -> list T.         (* T::add_references: the types pushed, in call order *)
Variable lexid : T -> uuid.          (* T::lexical_id() *)
(* the order in which pending references are taken up: the code pops the Vec's last element
   ([pi := id] with the stack's head = top); theorems hold for every [pi] that permutes *)
Variable pi : list T -> list T.

(* the loop of compute_from_dyn: [set] = Compute::referenced *)
Fixpoint closure (fuel : nat) (stack : list T) (set : list (list N)) {struct fuel}
  : result (list (list N)) :=
  match pi stack with
  | [] => Ok set
  | t :: rest =>
      match fuel with
      | O => Err Fuel
      | S f =>
          b <- canon_layout (lay t) ;;
          match bset_insert b set with
          | None => closure f rest set
          | Some set' => closure f (rev (refs t) ++ rest) set'
          end
      end
  end.

(* the bytes hashed by compute_from_dyn *)
Definition compute_bytes (fuel : nat) (root : T) : result (list N) :=
  lb <- canon_layout (lay root) ;;
  set <- closure fuel (rev (refs root)) [] ;;
  Ok (canon_compute lb set).

Definition type_id (fuel : nat) (root : T) : result uuid :=
  b <- compute_bytes fuel root ;; Ok (H (layout_ns (lay root)) b).

(* ---------- IntrospectionIr::from_dyn ---------- *)
Fixpoint ref_ids (fuel : nat) (ts : list T) (m : list (uuid * uuid))
  : result (option (list (uuid * uuid))) :=
  match ts with
  | [] => Ok (Some m)
  | t :: r => id <- type_id fuel t ;;
              match umap_insert (lexid t) id m with
              | None => Ok None
              | Some m' => ref_ids fuel r m'
              end
  end.

(* Ok None = panic (assertion) *)
Definition from_dyn (fuel : nat) (root : T) : result (option intro_ir) :=
  om <- ref_ids fuel (refs root) [] ;;
  match om with
  | None => Ok None
  | Some m => id <- type_id fuel root ;; Ok (Some (mkIntroIr id (lay root) m))
  end.
End Univ.
End Hash.

(* ---------- Layout::from_ir: every lexical id is looked up; a missing one panics (None) -------- *)
Section Traverse.
Context {R S : Type} (g : R -> option S).
Definition otrav (o : option R) : option (option S) :=
  match o with None => Some None | Some x => option_map Some (g x) end.
Definition btrav (b : builtin R) : option (builtin S) :=
  match b with
  | BPrim p => Some (BPrim p)
  | BWrap w t => option_map (BWrap w) (g t)
  | BMap k v => k' <-? g k ;; v' <-? g v ;; Some (BMap k' v')
  | BResult a e => a' <-? g a ;; e' <-? g e ;; Some (BResult a' e')
  | BArray t n => t' <-? g t ;; Some (BArray t' n)
  end.
Definition atrav {A B} (h : A -> option B) (l : list (N * A)) : option (list (N * B)) :=
  omapM (fun p => option_map (pair (fst p)) (h (snd p))) l.
Definition ftrav (f : field R) : option (field S) :=
  option_map (mkField (f_id f) (f_name f) (f_doc f) (f_req f)) (g (f_ty f)).
Definition vtrav (v : variant R) : option (variant S) :=
  option_map (mkVariant (v_id v) (v_name v) (v_doc v)) (otrav (v_ty v)).
Definition fntrav (f : func R) : option (func S) :=
  a <-? otrav (fn_args f) ;; o <-? otrav (fn_ok f) ;; e <-? otrav (fn_err f) ;;
  Some (mkFunc (fn_id f) (fn_name f) (fn_doc f) a o e).
Definition evtrav (e : event R) : option (event S) :=
  option_map (mkEvent (ev_id e) (ev_name e) (ev_doc e)) (otrav (ev_ty e)).
Definition ltrav (l : layout R) : option (layout S) :=
  match l with
  | LBuiltIn b => option_map LBuiltIn (btrav b)
  | LStruct s => fs <-? atrav ftrav (s_fields s) ;;
                 Some (LStruct (mkStruct (s_schema s) (s_name s) (s_doc s) fs (s_fallback s)))
  | LEnum e => vs <-? atrav vtrav (e_variants e) ;;
               Some (LEnum (mkEnum (e_schema e) (e_name e) (e_doc e) vs (e_fallback e)))
  | LService s => fs <-? atrav fntrav (sv_functions s) ;;
                  es <-? atrav evtrav (sv_events s) ;;
                  Some (LService (mkService (sv_schema s) (sv_name s) (sv_doc s) (sv_uuid s) (sv_version s)
                                            fs es (sv_ffallback s) (sv_efallback s)))
  | LNewtype n => option_map (fun t => LNewtype (mkNewtype (n_schema n) (n_name n) (n_doc n) t))
                             (g (n_target n))
  end.
End Traverse.

(* ---------- Introspection ---------- *)
Record intro := mkIntro { i_type_id : uuid; i_layout : layout uuid;
                          i_refs : list uuid }. (* HashSet<TypeId>, in iteration order *)

(* HashSet: first occurrence kept *)
Fixpoint udedup (l : list uuid) : list uuid :=
  match l with
  | [] => []
  | x :: r => x :: filter (fun y => negb (list_eqb x y)) (udedup r)
  end.

(* Introspection::from_ir; None = "incomplete introspection references" *)
Definition from_ir (ir : intro_ir) : option intro :=
  l <-? ltrav (fun k => umap_get k (ir_refs ir)) (ir_layout ir) ;;
  Some (mkIntro (ir_type_id ir) l (udedup (map snd (ir_refs ir)))).

(* impl Serialize<Introspection> for &Introspection: serialize_struct1(4), the four fields through
   Serializer::new(buf, depth 1); below that the current encoding *)
Definition intro_fields (r : intro) : list (N * Value) :=
  [(Rs_IntrospectionField_Version, vu32 INTROSPECTION_VERSION);
   (Rs_IntrospectionField_TypeId, vuuid (i_type_id r));
   (Rs_IntrospectionField_Layout, layout_value MRs (i_layout r));
   (Rs_IntrospectionField_References, VSet KUuid (map KeyB (i_refs r)))].
Definition intro_value (r : intro) : Value := VStruct (intro_fields r).
Definition encode_intro (r : intro) : result (list N) :=
  bs <- mapM (fun p => b <- ser E2 1 (snd p) ;; Ok (put_varint 4 (fst p) ++ b)) (intro_fields r) ;;
  Ok (kb (KStruct E1) :: put_varint 4 (lenN (intro_fields r)) ++ concat bs).

(* impl Deserialize for Introspection, read off the generic decoding: version must be VERSION
   when present; type id, layout and references are required *)
Definition as_uuid_set (v : Value) : option (list uuid) :=
  match v with
  | VSet KUuid l => omapM (fun k => match k with KeyB u => Some u | _ => None end) l
  | _ => None
  end.
Definition intro_of_value (v : Value) : option intro :=
  l <-? as_struct v ;;
  okv <-? match sget Rs_IntrospectionField_Version l with
          | None => Some tt
          | Some x => n <-? as_u32 x ;; if n =? INTROSPECTION_VERSION then Some tt else None
          end ;;
  id <-? req as_uuid (sget Rs_IntrospectionField_TypeId l) ;;
  lay <-? req (layout_of_value MRs) (sget Rs_IntrospectionField_Layout l) ;;
  rs <-? req as_uuid_set (sget Rs_IntrospectionField_References l) ;;
  Some (mkIntro id lay rs).
Definition decode_intro (b : list N) : result intro :=
  v <- de_as_value true b ;;
  match intro_of_value v with Some r => Ok r | None => Err Invalid end.

(* every type id mentioned by the layout is among the record's references *)
Definition resolved (r : intro) : Prop := forall u, In u (lrefs (i_layout r)) -> In u (i_refs r).

(* ---------- the executable instance: a universe given as a table ---------- *)
Record node := mkNode { nd_layout : layout lex; nd_lex : lex; nd_refs : list nat }.
Definition dummy_node : node := mkNode (LBuiltIn (BPrim PUnit)) (XPrim PUnit) [].
Section Table.
Variable H : uuid -> list N -> uuid.
Variable tbl : list node.
Definition t_node (i : nat) : node := nth i tbl dummy_node.
Definition t_lay (i : nat) : layout uuid := lmap (lex_uuid H) (nd_layout (t_node i)).
Definition t_refs (i : nat) : list nat := nd_refs (t_node i).
Definition t_lexid (i : nat) : uuid := lex_uuid H (nd_lex (t_node i)).
Definition t_canon (i : nat) : result (list N) := canon_layout (t_lay i).
Definition t_compute_bytes (fuel : nat) (i : nat) := compute_bytes nat t_lay t_refs (fun s => s) fuel i.
Definition t_type_id (fuel : nat) (i : nat) := type_id H nat t_lay t_refs (fun s => s) fuel i.
Definition t_from_dyn (fuel : nat) (i : nat) := from_dyn H nat t_lay t_refs t_lexid (fun s => s) fuel i.
Definition t_intro (fuel : nat) (i : nat) : result (option intro) :=
  o <- t_from_dyn fuel i ;;
  Ok (match o with None => None | Some ir => from_ir ir end).
End Table.
