(* Intro/ConstsTie.v — the tie between the model and the tables the translator reads off
   core/src/introspection/** (gen/IntroConsts.v, regenerated on every check run).
   The [model_*] tables below are the shapes the model was transcribed from: which field id each
   hand-written Serialize impl writes, in which order, with which tag, through `serialize` or
   `serialize_if_some`; the match arms of the enum impls; the lexical-id constructors and
   namespaces; LayoutIr::namespace.  Any drift of the source is a failed [reflexivity] here.
   The numeric constants themselves are imported by the model (Canon.v, TypeId.v), so they need
   no tie; the [*_distinct] examples record the facts about them the proofs rely on. *)
From Coq Require Import NArith List String.
From Aldrin Require Import gen.IntroConsts Intro.Ir Intro.Canon Intro.TypeId.
Import ListNotations.
Open Scope string_scope.
Open Scope N_scope.

Definition model_intro_enum_table : list (string * list (string * N)) := [
  ("Ir_ArrayTypeField", [("ElemType", 0); ("Len", 1)]);
  ("Ir_BuiltInTypeVariant", [("Bool", 0); ("U8", 1); ("I8", 2); ("U16", 3); ("I16", 4); ("U32", 5); ("I32", 6); ("U64", 7); ("I64", 8); ("F32", 9); ("F64", 10); ("String", 11); ("Uuid", 12); ("ObjectId", 13); ("ServiceId", 14); ("Value", 15); ("Option", 16); ("Box", 17); ("Vec", 18); ("Bytes", 19); ("Map", 20); ("Set", 21); ("Sender", 22); ("Receiver", 23); ("Lifetime", 24); ("Unit", 25); ("Result", 26); ("Array", 27)]);
  ("Ir_EnumFallbackField", [("Name", 0)]);
  ("Ir_EnumField", [("Schema", 0); ("Name", 1); ("Variants", 2); ("Fallback", 3)]);
  ("Ir_EventField", [("Id", 0); ("Name", 1); ("EventType", 2)]);
  ("Ir_EventFallbackField", [("Name", 0)]);
  ("Ir_FieldField", [("Id", 0); ("Name", 1); ("IsRequired", 2); ("FieldType", 3)]);
  ("Ir_FunctionField", [("Id", 0); ("Name", 1); ("Args", 2); ("Ok", 3); ("Err", 4)]);
  ("Ir_FunctionFallbackField", [("Name", 0)]);
  ("Ir_LayoutVariant", [("BuiltIn", 0); ("Struct", 1); ("Enum", 2); ("Service", 3); ("Newtype", 4)]);
  ("Ir_MapTypeField", [("Key", 0); ("Value", 1)]);
  ("Ir_NewtypeField", [("Schema", 0); ("Name", 1); ("TargetType", 2)]);
  ("Ir_ResultTypeField", [("Ok", 0); ("Err", 1)]);
  ("Ir_ServiceField", [("Schema", 0); ("Name", 1); ("Uuid", 2); ("Version", 3); ("Functions", 4); ("Events", 5); ("FunctionFallback", 6); ("EventFallback", 7)]);
  ("Ir_StructFallbackField", [("Name", 0)]);
  ("Ir_StructField", [("Schema", 0); ("Name", 1); ("Fields", 2); ("Fallback", 3)]);
  ("Ir_VariantField", [("Id", 0); ("Name", 1); ("VariantType", 2)]);
  ("Rs_ArrayTypeField", [("ElemType", 0); ("Len", 1)]);
  ("Rs_BuiltInTypeVariant", [("Bool", 0); ("U8", 1); ("I8", 2); ("U16", 3); ("I16", 4); ("U32", 5); ("I32", 6); ("U64", 7); ("I64", 8); ("F32", 9); ("F64", 10); ("String", 11); ("Uuid", 12); ("ObjectId", 13); ("ServiceId", 14); ("Value", 15); ("Option", 16); ("Box", 17); ("Vec", 18); ("Bytes", 19); ("Map", 20); ("Set", 21); ("Sender", 22); ("Receiver", 23); ("Lifetime", 24); ("Unit", 25); ("Result", 26); ("Array", 27)]);
  ("Rs_EnumFallbackField", [("Name", 0); ("Doc", 1)]);
  ("Rs_EnumField", [("Schema", 0); ("Name", 1); ("Doc", 2); ("Variants", 3); ("Fallback", 4)]);
  ("Rs_EventField", [("Id", 0); ("Name", 1); ("Doc", 2); ("EventType", 3)]);
  ("Rs_EventFallbackField", [("Name", 0); ("Doc", 1)]);
  ("Rs_FieldField", [("Id", 0); ("Name", 1); ("Doc", 2); ("IsRequired", 3); ("FieldType", 4)]);
  ("Rs_FunctionField", [("Id", 0); ("Name", 1); ("Doc", 2); ("Args", 3); ("Ok", 4); ("Err", 5)]);
  ("Rs_FunctionFallbackField", [("Name", 0); ("Doc", 1)]);
  ("Rs_LayoutVariant", [("BuiltIn", 0); ("Struct", 1); ("Enum", 2); ("Service", 3); ("Newtype", 4)]);
  ("Rs_MapTypeField", [("Key", 0); ("Value", 1)]);
  ("Rs_NewtypeField", [("Schema", 0); ("Name", 1); ("Doc", 2); ("TargetType", 3)]);
  ("Rs_ResultTypeField", [("Ok", 0); ("Err", 1)]);
  ("Rs_ServiceField", [("Schema", 0); ("Name", 1); ("Doc", 2); ("Uuid", 3); ("Version", 4); ("Functions", 5); ("Events", 6); ("FunctionFallback", 7); ("EventFallback", 8)]);
  ("Rs_StructFallbackField", [("Name", 0); ("Doc", 1)]);
  ("Rs_StructField", [("Schema", 0); ("Name", 1); ("Doc", 2); ("Fields", 3); ("Fallback", 4)]);
  ("Rs_VariantField", [("Id", 0); ("Name", 1); ("Doc", 2); ("VariantType", 3)]);
  ("Rs_ComputeField", [("Version", 0); ("Layout", 1); ("Referenced", 2)]);
  ("Rs_IntrospectionField", [("Version", 0); ("TypeId", 1); ("Layout", 2); ("References", 3)])
].
Example tie_intro_enum_table : intro_enum_table = model_intro_enum_table.
Proof. reflexivity. Qed.

Definition model_intro_ser_table : list (string * string * string * list (string * string * string)) := [
  ("Ir", "ArrayTypeIr", "struct", [("open", "serialize_struct2", ""); ("serialize", "LexicalId", "ArrayTypeField::ElemType"); ("serialize", "tags::U32", "ArrayTypeField::Len")]);
  ("Ir", "BuiltInTypeIr", "enum", [("Bool", "unit", "BuiltInTypeVariant::Bool"); ("U8", "unit", "BuiltInTypeVariant::U8"); ("I8", "unit", "BuiltInTypeVariant::I8"); ("U16", "unit", "BuiltInTypeVariant::U16"); ("I16", "unit", "BuiltInTypeVariant::I16"); ("U32", "unit", "BuiltInTypeVariant::U32"); ("I32", "unit", "BuiltInTypeVariant::I32"); ("U64", "unit", "BuiltInTypeVariant::U64"); ("I64", "unit", "BuiltInTypeVariant::I64"); ("F32", "unit", "BuiltInTypeVariant::F32"); ("F64", "unit", "BuiltInTypeVariant::F64"); ("String", "unit", "BuiltInTypeVariant::String"); ("Uuid", "unit", "BuiltInTypeVariant::Uuid"); ("ObjectId", "unit", "BuiltInTypeVariant::ObjectId"); ("ServiceId", "unit", "BuiltInTypeVariant::ServiceId"); ("Value", "unit", "BuiltInTypeVariant::Value"); ("Option", "LexicalId", "BuiltInTypeVariant::Option"); ("Box", "LexicalId", "BuiltInTypeVariant::Box"); ("Vec", "LexicalId", "BuiltInTypeVariant::Vec"); ("Bytes", "unit", "BuiltInTypeVariant::Bytes"); ("Map", "MapTypeIr", "BuiltInTypeVariant::Map"); ("Set", "LexicalId", "BuiltInTypeVariant::Set"); ("Sender", "LexicalId", "BuiltInTypeVariant::Sender"); ("Receiver", "LexicalId", "BuiltInTypeVariant::Receiver"); ("Lifetime", "unit", "BuiltInTypeVariant::Lifetime"); ("Unit", "unit", "BuiltInTypeVariant::Unit"); ("Result", "ResultTypeIr", "BuiltInTypeVariant::Result"); ("Array", "ArrayTypeIr", "BuiltInTypeVariant::Array")]);
  ("Ir", "EnumFallbackIr", "struct", [("open", "serialize_struct2", ""); ("serialize", "tags::String", "EnumFallbackField::Name")]);
  ("Ir", "EnumIr", "struct", [("open", "serialize_struct2", ""); ("serialize", "tags::String", "EnumField::Schema"); ("serialize", "tags::String", "EnumField::Name"); ("serialize", "tags::Map<tags::U32,VariantIr>", "EnumField::Variants"); ("serialize_if_some", "tags::Option<EnumFallbackIr>", "EnumField::Fallback")]);
  ("Ir", "EventIr", "struct", [("open", "serialize_struct2", ""); ("serialize", "tags::U32", "EventField::Id"); ("serialize", "tags::String", "EventField::Name"); ("serialize_if_some", "tags::Option<LexicalId>", "EventField::EventType")]);
  ("Ir", "EventFallbackIr", "struct", [("open", "serialize_struct2", ""); ("serialize", "tags::String", "EventFallbackField::Name")]);
  ("Ir", "FieldIr", "struct", [("open", "serialize_struct2", ""); ("serialize", "tags::U32", "FieldField::Id"); ("serialize", "tags::String", "FieldField::Name"); ("serialize", "tags::Bool", "FieldField::IsRequired"); ("serialize", "LexicalId", "FieldField::FieldType")]);
  ("Ir", "FunctionIr", "struct", [("open", "serialize_struct2", ""); ("serialize", "tags::U32", "FunctionField::Id"); ("serialize", "tags::String", "FunctionField::Name"); ("serialize_if_some", "tags::Option<LexicalId>", "FunctionField::Args"); ("serialize_if_some", "tags::Option<LexicalId>", "FunctionField::Ok"); ("serialize_if_some", "tags::Option<LexicalId>", "FunctionField::Err")]);
  ("Ir", "FunctionFallbackIr", "struct", [("open", "serialize_struct2", ""); ("serialize", "tags::String", "FunctionFallbackField::Name")]);
  ("Ir", "LayoutIr", "enum", [("BuiltIn", "BuiltInTypeIr", "LayoutVariant::BuiltIn"); ("Struct", "StructIr", "LayoutVariant::Struct"); ("Enum", "EnumIr", "LayoutVariant::Enum"); ("Service", "ServiceIr", "LayoutVariant::Service"); ("Newtype", "NewtypeIr", "LayoutVariant::Newtype")]);
  ("Ir", "MapTypeIr", "struct", [("open", "serialize_struct2", ""); ("serialize", "LexicalId", "MapTypeField::Key"); ("serialize", "LexicalId", "MapTypeField::Value")]);
  ("Ir", "NewtypeIr", "struct", [("open", "serialize_struct2", ""); ("serialize", "tags::String", "NewtypeField::Schema"); ("serialize", "tags::String", "NewtypeField::Name"); ("serialize", "LexicalId", "NewtypeField::TargetType")]);
  ("Ir", "ResultTypeIr", "struct", [("open", "serialize_struct2", ""); ("serialize", "LexicalId", "ResultTypeField::Ok"); ("serialize", "LexicalId", "ResultTypeField::Err")]);
  ("Ir", "ServiceIr", "struct", [("open", "serialize_struct2", ""); ("serialize", "tags::String", "ServiceField::Schema"); ("serialize", "tags::String", "ServiceField::Name"); ("serialize", "ServiceUuid", "ServiceField::Uuid"); ("serialize", "tags::U32", "ServiceField::Version"); ("serialize", "tags::Map<tags::U32,FunctionIr>", "ServiceField::Functions"); ("serialize", "tags::Map<tags::U32,EventIr>", "ServiceField::Events"); ("serialize_if_some", "tags::Option<FunctionFallbackIr>", "ServiceField::FunctionFallback"); ("serialize_if_some", "tags::Option<EventFallbackIr>", "ServiceField::EventFallback")]);
  ("Ir", "StructFallbackIr", "struct", [("open", "serialize_struct2", ""); ("serialize", "tags::String", "StructFallbackField::Name")]);
  ("Ir", "StructIr", "struct", [("open", "serialize_struct2", ""); ("serialize", "tags::String", "StructField::Schema"); ("serialize", "tags::String", "StructField::Name"); ("serialize", "tags::Map<tags::U32,FieldIr>", "StructField::Fields"); ("serialize_if_some", "tags::Option<StructFallbackIr>", "StructField::Fallback")]);
  ("Ir", "VariantIr", "struct", [("open", "serialize_struct2", ""); ("serialize", "tags::U32", "VariantField::Id"); ("serialize", "tags::String", "VariantField::Name"); ("serialize_if_some", "tags::Option<LexicalId>", "VariantField::VariantType")]);
  ("Rs", "ArrayType", "struct", [("open", "serialize_struct2", ""); ("serialize", "TypeId", "ArrayTypeField::ElemType"); ("serialize", "tags::U32", "ArrayTypeField::Len")]);
  ("Rs", "BuiltInType", "enum", [("Bool", "unit", "BuiltInTypeVariant::Bool"); ("U8", "unit", "BuiltInTypeVariant::U8"); ("I8", "unit", "BuiltInTypeVariant::I8"); ("U16", "unit", "BuiltInTypeVariant::U16"); ("I16", "unit", "BuiltInTypeVariant::I16"); ("U32", "unit", "BuiltInTypeVariant::U32"); ("I32", "unit", "BuiltInTypeVariant::I32"); ("U64", "unit", "BuiltInTypeVariant::U64"); ("I64", "unit", "BuiltInTypeVariant::I64"); ("F32", "unit", "BuiltInTypeVariant::F32"); ("F64", "unit", "BuiltInTypeVariant::F64"); ("String", "unit", "BuiltInTypeVariant::String"); ("Uuid", "unit", "BuiltInTypeVariant::Uuid"); ("ObjectId", "unit", "BuiltInTypeVariant::ObjectId"); ("ServiceId", "unit", "BuiltInTypeVariant::ServiceId"); ("Value", "unit", "BuiltInTypeVariant::Value"); ("Option", "TypeId", "BuiltInTypeVariant::Option"); ("Box", "TypeId", "BuiltInTypeVariant::Box"); ("Vec", "TypeId", "BuiltInTypeVariant::Vec"); ("Bytes", "unit", "BuiltInTypeVariant::Bytes"); ("Map", "MapType", "BuiltInTypeVariant::Map"); ("Set", "TypeId", "BuiltInTypeVariant::Set"); ("Sender", "TypeId", "BuiltInTypeVariant::Sender"); ("Receiver", "TypeId", "BuiltInTypeVariant::Receiver"); ("Lifetime", "unit", "BuiltInTypeVariant::Lifetime"); ("Unit", "unit", "BuiltInTypeVariant::Unit"); ("Result", "ResultType", "BuiltInTypeVariant::Result"); ("Array", "ArrayType", "BuiltInTypeVariant::Array")]);
  ("Rs", "EnumFallback", "struct", [("open", "serialize_struct2", ""); ("serialize", "tags::String", "EnumFallbackField::Name"); ("serialize_if_some", "tags::Option<tags::String>", "EnumFallbackField::Doc")]);
  ("Rs", "Enum", "struct", [("open", "serialize_struct2", ""); ("serialize", "tags::String", "EnumField::Schema"); ("serialize", "tags::String", "EnumField::Name"); ("serialize_if_some", "tags::Option<tags::String>", "EnumField::Doc"); ("serialize", "tags::Map<tags::U32,Variant>", "EnumField::Variants"); ("serialize_if_some", "tags::Option<EnumFallback>", "EnumField::Fallback")]);
  ("Rs", "Event", "struct", [("open", "serialize_struct2", ""); ("serialize", "tags::U32", "EventField::Id"); ("serialize", "tags::String", "EventField::Name"); ("serialize_if_some", "tags::Option<tags::String>", "EventField::Doc"); ("serialize_if_some", "tags::Option<TypeId>", "EventField::EventType")]);
  ("Rs", "EventFallback", "struct", [("open", "serialize_struct2", ""); ("serialize", "tags::String", "EventFallbackField::Name"); ("serialize_if_some", "tags::Option<tags::String>", "EventFallbackField::Doc")]);
  ("Rs", "Field", "struct", [("open", "serialize_struct2", ""); ("serialize", "tags::U32", "FieldField::Id"); ("serialize", "tags::String", "FieldField::Name"); ("serialize_if_some", "tags::Option<tags::String>", "FieldField::Doc"); ("serialize", "tags::Bool", "FieldField::IsRequired"); ("serialize", "TypeId", "FieldField::FieldType")]);
  ("Rs", "Function", "struct", [("open", "serialize_struct2", ""); ("serialize", "tags::U32", "FunctionField::Id"); ("serialize", "tags::String", "FunctionField::Name"); ("serialize_if_some", "tags::Option<tags::String>", "FunctionField::Doc"); ("serialize_if_some", "tags::Option<TypeId>", "FunctionField::Args"); ("serialize_if_some", "tags::Option<TypeId>", "FunctionField::Ok"); ("serialize_if_some", "tags::Option<TypeId>", "FunctionField::Err")]);
  ("Rs", "FunctionFallback", "struct", [("open", "serialize_struct2", ""); ("serialize", "tags::String", "FunctionFallbackField::Name"); ("serialize_if_some", "tags::Option<tags::String>", "FunctionFallbackField::Doc")]);
  ("Rs", "Layout", "enum", [("BuiltIn", "BuiltInType", "LayoutVariant::BuiltIn"); ("Struct", "Struct", "LayoutVariant::Struct"); ("Enum", "Enum", "LayoutVariant::Enum"); ("Service", "Service", "LayoutVariant::Service"); ("Newtype", "Newtype", "LayoutVariant::Newtype")]);
  ("Rs", "MapType", "struct", [("open", "serialize_struct2", ""); ("serialize", "TypeId", "MapTypeField::Key"); ("serialize", "TypeId", "MapTypeField::Value")]);
  ("Rs", "Newtype", "struct", [("open", "serialize_struct2", ""); ("serialize", "tags::String", "NewtypeField::Schema"); ("serialize", "tags::String", "NewtypeField::Name"); ("serialize_if_some", "tags::Option<tags::String>", "NewtypeField::Doc"); ("serialize", "TypeId", "NewtypeField::TargetType")]);
  ("Rs", "ResultType", "struct", [("open", "serialize_struct2", ""); ("serialize", "TypeId", "ResultTypeField::Ok"); ("serialize", "TypeId", "ResultTypeField::Err")]);
  ("Rs", "Service", "struct", [("open", "serialize_struct2", ""); ("serialize", "tags::String", "ServiceField::Schema"); ("serialize", "tags::String", "ServiceField::Name"); ("serialize_if_some", "tags::Option<tags::String>", "ServiceField::Doc"); ("serialize", "ServiceUuid", "ServiceField::Uuid"); ("serialize", "tags::U32", "ServiceField::Version"); ("serialize", "tags::Map<tags::U32,Function>", "ServiceField::Functions"); ("serialize", "tags::Map<tags::U32,Event>", "ServiceField::Events"); ("serialize_if_some", "tags::Option<FunctionFallback>", "ServiceField::FunctionFallback"); ("serialize_if_some", "tags::Option<EventFallback>", "ServiceField::EventFallback")]);
  ("Rs", "StructFallback", "struct", [("open", "serialize_struct2", ""); ("serialize", "tags::String", "StructFallbackField::Name"); ("serialize_if_some", "tags::Option<tags::String>", "StructFallbackField::Doc")]);
  ("Rs", "Struct", "struct", [("open", "serialize_struct2", ""); ("serialize", "tags::String", "StructField::Schema"); ("serialize", "tags::String", "StructField::Name"); ("serialize_if_some", "tags::Option<tags::String>", "StructField::Doc"); ("serialize", "tags::Map<tags::U32,Field>", "StructField::Fields"); ("serialize_if_some", "tags::Option<StructFallback>", "StructField::Fallback")]);
  ("Rs", "Variant", "struct", [("open", "serialize_struct2", ""); ("serialize", "tags::U32", "VariantField::Id"); ("serialize", "tags::String", "VariantField::Name"); ("serialize_if_some", "tags::Option<tags::String>", "VariantField::Doc"); ("serialize_if_some", "tags::Option<TypeId>", "VariantField::VariantType")]);
  ("Rs", "Compute", "struct", [("open", "serialize_struct1:3", ""); ("serialize", "tags::U32", "ComputeField::Version"); ("serialize", "tags::Value", "ComputeField::Layout"); ("serialize", "tags::Vec<tags::Value>", "ComputeField::Referenced")]);
  ("Rs", "Introspection", "struct", [("open", "serialize_struct1:4", ""); ("serialize", "tags::U32", "IntrospectionField::Version"); ("serialize", "TypeId", "IntrospectionField::TypeId"); ("serialize", "Layout", "IntrospectionField::Layout"); ("serialize", "tags::Set<TypeId>", "IntrospectionField::References")])
].
Example tie_intro_ser_table : intro_ser_table = model_intro_ser_table.
Proof. reflexivity. Qed.

Definition model_lex_ctor_table : list (string * string * string * string) := [
  ("option", "new_v5", "NAMESPACE_OPTION", "ty.0");
  ("box_ty", "new_v5", "NAMESPACE_BOX", "ty.0");
  ("vec", "new_v5", "NAMESPACE_VEC", "ty.0");
  ("map", "new_v5_2", "NAMESPACE_MAP", "key.0,ty.0");
  ("set", "new_v5", "NAMESPACE_SET", "ty.0");
  ("sender", "new_v5", "NAMESPACE_SENDER", "ty.0");
  ("receiver", "new_v5", "NAMESPACE_RECEIVER", "ty.0");
  ("result", "new_v5_2", "NAMESPACE_RESULT", "ok.0,err.0");
  ("array", "uuid_le32", "NAMESPACE_ARRAY", "ty.0,len");
  ("custom", "fully_qualified", "NAMESPACE_CUSTOM", "schema,name,&[]");
  ("custom_generic", "fully_qualified", "NAMESPACE_CUSTOM", "schema,name,types");
  ("service", "fully_qualified", "NAMESPACE_SERVICE", "schema,name,&[]")
].
Example tie_lex_ctor_table : lex_ctor_table = model_lex_ctor_table.
Proof. reflexivity. Qed.

Definition model_layout_namespace_table : list (string * string) := [("BuiltIn", "BuiltInTypeIr"); ("Struct", "StructIr"); ("Enum", "EnumIr"); ("Service", "ServiceIr"); ("Newtype", "NewtypeIr")].
Example tie_layout_namespace_table : layout_namespace_table = model_layout_namespace_table.
Proof. reflexivity. Qed.

Definition model_builtin_lexical_table : list (string * string * string) := [
  ("Bool", "BOOL", "");
  ("U8", "U8", "");
  ("I8", "I8", "");
  ("U16", "U16", "");
  ("I16", "I16", "");
  ("U32", "U32", "");
  ("I32", "I32", "");
  ("U64", "U64", "");
  ("I64", "I64", "");
  ("F32", "F32", "");
  ("F64", "F64", "");
  ("String", "STRING", "");
  ("Uuid", "UUID", "");
  ("ObjectId", "OBJECT_ID", "");
  ("ServiceId", "SERVICE_ID", "");
  ("Value", "VALUE", "");
  ("Option", "option", "(ty)");
  ("Box", "box_ty", "(ty)");
  ("Vec", "vec", "(ty)");
  ("Bytes", "BYTES", "");
  ("Map", "map", "(ty.key(),ty.value())");
  ("Set", "set", "(ty)");
  ("Sender", "sender", "(ty)");
  ("Receiver", "receiver", "(ty)");
  ("Lifetime", "LIFETIME", "");
  ("Unit", "UNIT", "");
  ("Result", "result", "(ty.ok(),ty.err())");
  ("Array", "array", "(arr.elem_type(),arr.len())")
].
Example tie_builtin_lexical_table : builtin_lexical_table = model_builtin_lexical_table.
Proof. reflexivity. Qed.

Definition model_lex_const_names : list string := ["BOOL"; "U8"; "I8"; "U16"; "I16"; "U32"; "I32"; "U64"; "I64"; "F32"; "F64"; "STRING"; "UUID"; "OBJECT_ID"; "SERVICE_ID"; "VALUE"; "BYTES"; "LIFETIME"; "UNIT"].
Example tie_lex_const_names : lex_const_names = model_lex_const_names.
Proof. reflexivity. Qed.

Definition model_lex_ns_names : list string := ["NAMESPACE_OPTION"; "NAMESPACE_BOX"; "NAMESPACE_VEC"; "NAMESPACE_MAP"; "NAMESPACE_SET"; "NAMESPACE_SENDER"; "NAMESPACE_RECEIVER"; "NAMESPACE_RESULT"; "NAMESPACE_ARRAY"; "NAMESPACE_CUSTOM"; "NAMESPACE_SERVICE"].
Example tie_lex_ns_names : lex_ns_names = model_lex_ns_names.
Proof. reflexivity. Qed.

Example tie_version : INTROSPECTION_VERSION = 2.
Proof. reflexivity. Qed.

(* the model's constant selectors follow the tables: prims and wrappers in declaration order *)
Example tie_prim_ids : map (prim_id MIr) prims = [0;1;2;3;4;5;6;7;8;9;10;11;12;13;14;15;19;24;25]
                       /\ map (prim_id MRs) prims = map (prim_id MIr) prims.
Proof. split; reflexivity. Qed.
Example tie_wrap_ids : map (wrap_id MIr) wraps = [16;17;18;21;22;23] /\ map (wrap_id MRs) wraps = map (wrap_id MIr) wraps.
Proof. split; reflexivity. Qed.
Example tie_prim_lex : map prim_lex prims =
  [LEX_BOOL; LEX_U8; LEX_I8; LEX_U16; LEX_I16; LEX_U32; LEX_I32; LEX_U64; LEX_I64; LEX_F32; LEX_F64; LEX_STRING;
   LEX_UUID; LEX_OBJECT_ID; LEX_SERVICE_ID; LEX_VALUE; LEX_BYTES; LEX_LIFETIME; LEX_UNIT].
Proof. reflexivity. Qed.

(* all 19 built-in lexical ids, 11 lexical namespaces and 5 layout namespaces are pairwise
   different 16-byte strings *)
Definition all_uuid_consts : list (list N) :=
  map prim_lex prims ++ map wrap_ns wraps ++
  [LEX_NAMESPACE_MAP; LEX_NAMESPACE_RESULT; LEX_NAMESPACE_ARRAY; LEX_NAMESPACE_CUSTOM; LEX_NAMESPACE_SERVICE;
   NS_BuiltInTypeIr; NS_StructIr; NS_EnumIr; NS_ServiceIr; NS_NewtypeIr].
Example uuid_consts_distinct : nodupb list_eqb all_uuid_consts = true /\ forallb uuid_ok all_uuid_consts = true.
Proof. split; vm_compute; reflexivity. Qed.
