(* Intro/Canon.v — what the hand-written Serialize impls of core/src/introspection/ir/*.rs
   (mode MIr: field ids of the IR enums, documentation NOT written, references are lexical ids)
   and of core/src/introspection/*.rs (mode MRs: the resolved Layout with documentation and type
   ids) put on the wire, as a [Value] of the codec model; [canon_layout] = the bytes
   `SerializedValue::serialize(&LayoutIr)` produces; the `Compute` record of type_id.rs with its
   BTreeSet<SerializedValue>; and the typed decoding of the resolved layout read off a decoded
   [Value].  Field ids, version and namespaces are imported from gen/IntroConsts.v. *)
From Aldrin Require Export Codec.Value Codec.Ser Codec.De Intro.Ir.
From Aldrin Require Import gen.IntroConsts.
Open Scope N_scope.

Inductive mode := MIr | MRs.
Definition sel (m : mode) (ir rs : N) : N := match m with MIr => ir | MRs => rs end.

(* Struct2Serializer::serialize_if_some *)
Definition optf (id : N) (o : option Value) : list (N * Value) :=
  match o with Some v => [(id, v)] | None => [] end.
(* the doc field: absent from the IR encoding *)
Definition docf (m : mode) (id : N) (d : doc) : list (N * Value) :=
  match m with MIr => [] | MRs => optf id (option_map (fun s => VSome (VString s)) d) end.
Definition vuuid (u : uuid) : Value := VFixed FUuid u.
Definition vu32 (n : N) : Value := VInt U32 (Z.of_N n).
Definition vouuid (o : option uuid) : option Value := option_map (fun u => VSome (vuuid u)) o.
(* tags::Map<tags::U32, X> of a BTreeMap<u32, X>: entries in key order *)
Definition vmap32 {A} (g : A -> Value) (l : list (N * A)) : Value :=
  VMap (KInt U32) (map (fun p => (KeyZ (Z.of_N (fst p)), g (snd p))) l).

Definition prim_id (m : mode) (p : prim) : N :=
  match p with
  | PBool => sel m Ir_BuiltInTypeVariant_Bool Rs_BuiltInTypeVariant_Bool
  | PU8 => sel m Ir_BuiltInTypeVariant_U8 Rs_BuiltInTypeVariant_U8
  | PI8 => sel m Ir_BuiltInTypeVariant_I8 Rs_BuiltInTypeVariant_I8
  | PU16 => sel m Ir_BuiltInTypeVariant_U16 Rs_BuiltInTypeVariant_U16
  | PI16 => sel m Ir_BuiltInTypeVariant_I16 Rs_BuiltInTypeVariant_I16
  | PU32 => sel m Ir_BuiltInTypeVariant_U32 Rs_BuiltInTypeVariant_U32
  | PI32 => sel m Ir_BuiltInTypeVariant_I32 Rs_BuiltInTypeVariant_I32
  | PU64 => sel m Ir_BuiltInTypeVariant_U64 Rs_BuiltInTypeVariant_U64
  | PI64 => sel m Ir_BuiltInTypeVariant_I64 Rs_BuiltInTypeVariant_I64
  | PF32 => sel m Ir_BuiltInTypeVariant_F32 Rs_BuiltInTypeVariant_F32
  | PF64 => sel m Ir_BuiltInTypeVariant_F64 Rs_BuiltInTypeVariant_F64
  | PString => sel m Ir_BuiltInTypeVariant_String Rs_BuiltInTypeVariant_String
  | PUuid => sel m Ir_BuiltInTypeVariant_Uuid Rs_BuiltInTypeVariant_Uuid
  | PObjectId => sel m Ir_BuiltInTypeVariant_ObjectId Rs_BuiltInTypeVariant_ObjectId
  | PServiceId => sel m Ir_BuiltInTypeVariant_ServiceId Rs_BuiltInTypeVariant_ServiceId
  | PValue => sel m Ir_BuiltInTypeVariant_Value Rs_BuiltInTypeVariant_Value
  | PBytes => sel m Ir_BuiltInTypeVariant_Bytes Rs_BuiltInTypeVariant_Bytes
  | PLifetime => sel m Ir_BuiltInTypeVariant_Lifetime Rs_BuiltInTypeVariant_Lifetime
  | PUnit => sel m Ir_BuiltInTypeVariant_Unit Rs_BuiltInTypeVariant_Unit
  end.
Definition wrap_id (m : mode) (w : wrap) : N :=
  match w with
  | WOption => sel m Ir_BuiltInTypeVariant_Option Rs_BuiltInTypeVariant_Option
  | WBox => sel m Ir_BuiltInTypeVariant_Box Rs_BuiltInTypeVariant_Box
  | WVec => sel m Ir_BuiltInTypeVariant_Vec Rs_BuiltInTypeVariant_Vec
  | WSet => sel m Ir_BuiltInTypeVariant_Set Rs_BuiltInTypeVariant_Set
  | WSender => sel m Ir_BuiltInTypeVariant_Sender Rs_BuiltInTypeVariant_Sender
  | WReceiver => sel m Ir_BuiltInTypeVariant_Receiver Rs_BuiltInTypeVariant_Receiver
  end.

(* impl Serialize for &BuiltInTypeIr / BuiltInType (serialize_unit_enum = enum with a None) *)
Definition builtin_value (m : mode) (b : builtin uuid) : Value :=
  match b with
  | BPrim p => VEnum (prim_id m p) VNone
  | BWrap w t => VEnum (wrap_id m w) (vuuid t)
  | BMap k v => VEnum (sel m Ir_BuiltInTypeVariant_Map Rs_BuiltInTypeVariant_Map)
      (VStruct [(sel m Ir_MapTypeField_Key Rs_MapTypeField_Key, vuuid k);
                (sel m Ir_MapTypeField_Value Rs_MapTypeField_Value, vuuid v)])
  | BResult a e => VEnum (sel m Ir_BuiltInTypeVariant_Result Rs_BuiltInTypeVariant_Result)
      (VStruct [(sel m Ir_ResultTypeField_Ok Rs_ResultTypeField_Ok, vuuid a);
                (sel m Ir_ResultTypeField_Err Rs_ResultTypeField_Err, vuuid e)])
  | BArray t n => VEnum (sel m Ir_BuiltInTypeVariant_Array Rs_BuiltInTypeVariant_Array)
      (VStruct [(sel m Ir_ArrayTypeField_ElemType Rs_ArrayTypeField_ElemType, vuuid t);
                (sel m Ir_ArrayTypeField_Len Rs_ArrayTypeField_Len, vu32 n)])
  end.

Definition field_value (m : mode) (f : field uuid) : Value :=
  VStruct ([(sel m Ir_FieldField_Id Rs_FieldField_Id, vu32 (f_id f));
            (sel m Ir_FieldField_Name Rs_FieldField_Name, VString (f_name f))] ++
           docf m Rs_FieldField_Doc (f_doc f) ++
           [(sel m Ir_FieldField_IsRequired Rs_FieldField_IsRequired, VBool (f_req f));
            (sel m Ir_FieldField_FieldType Rs_FieldField_FieldType, vuuid (f_ty f))]).

Definition variant_value (m : mode) (v : variant uuid) : Value :=
  VStruct ([(sel m Ir_VariantField_Id Rs_VariantField_Id, vu32 (v_id v));
            (sel m Ir_VariantField_Name Rs_VariantField_Name, VString (v_name v))] ++
           docf m Rs_VariantField_Doc (v_doc v) ++
           optf (sel m Ir_VariantField_VariantType Rs_VariantField_VariantType) (vouuid (v_ty v))).

Definition func_value (m : mode) (f : func uuid) : Value :=
  VStruct ([(sel m Ir_FunctionField_Id Rs_FunctionField_Id, vu32 (fn_id f));
            (sel m Ir_FunctionField_Name Rs_FunctionField_Name, VString (fn_name f))] ++
           docf m Rs_FunctionField_Doc (fn_doc f) ++
           optf (sel m Ir_FunctionField_Args Rs_FunctionField_Args) (vouuid (fn_args f)) ++
           optf (sel m Ir_FunctionField_Ok Rs_FunctionField_Ok) (vouuid (fn_ok f)) ++
           optf (sel m Ir_FunctionField_Err Rs_FunctionField_Err) (vouuid (fn_err f))).

Definition event_value (m : mode) (e : event uuid) : Value :=
  VStruct ([(sel m Ir_EventField_Id Rs_EventField_Id, vu32 (ev_id e));
            (sel m Ir_EventField_Name Rs_EventField_Name, VString (ev_name e))] ++
           docf m Rs_EventField_Doc (ev_doc e) ++
           optf (sel m Ir_EventField_EventType Rs_EventField_EventType) (vouuid (ev_ty e))).

(* the four fallback types differ only in the names of their field-id enums *)
Inductive fbk := FbStruct | FbEnum | FbFunction | FbEvent.
Definition fb_name_id (m : mode) (k : fbk) : N :=
  match k with
  | FbStruct => sel m Ir_StructFallbackField_Name Rs_StructFallbackField_Name
  | FbEnum => sel m Ir_EnumFallbackField_Name Rs_EnumFallbackField_Name
  | FbFunction => sel m Ir_FunctionFallbackField_Name Rs_FunctionFallbackField_Name
  | FbEvent => sel m Ir_EventFallbackField_Name Rs_EventFallbackField_Name
  end.
Definition fb_doc_id (k : fbk) : N :=
  match k with
  | FbStruct => Rs_StructFallbackField_Doc | FbEnum => Rs_EnumFallbackField_Doc
  | FbFunction => Rs_FunctionFallbackField_Doc | FbEvent => Rs_EventFallbackField_Doc
  end.
Definition fallback_value (m : mode) (k : fbk) (f : fallback) : Value :=
  VStruct ([(fb_name_id m k, VString (fb_name f))] ++ docf m (fb_doc_id k) (fb_doc f)).
Definition vofb (m : mode) (k : fbk) (o : option fallback) : option Value :=
  option_map (fun f => VSome (fallback_value m k f)) o.

Definition struct_value (m : mode) (s : structT uuid) : Value :=
  VStruct ([(sel m Ir_StructField_Schema Rs_StructField_Schema, VString (s_schema s));
            (sel m Ir_StructField_Name Rs_StructField_Name, VString (s_name s))] ++
           docf m Rs_StructField_Doc (s_doc s) ++
           [(sel m Ir_StructField_Fields Rs_StructField_Fields, vmap32 (field_value m) (s_fields s))] ++
           optf (sel m Ir_StructField_Fallback Rs_StructField_Fallback) (vofb m FbStruct (s_fallback s))).

Definition enum_value (m : mode) (e : enumT uuid) : Value :=
  VStruct ([(sel m Ir_EnumField_Schema Rs_EnumField_Schema, VString (e_schema e));
            (sel m Ir_EnumField_Name Rs_EnumField_Name, VString (e_name e))] ++
           docf m Rs_EnumField_Doc (e_doc e) ++
           [(sel m Ir_EnumField_Variants Rs_EnumField_Variants, vmap32 (variant_value m) (e_variants e))] ++
           optf (sel m Ir_EnumField_Fallback Rs_EnumField_Fallback) (vofb m FbEnum (e_fallback e))).

Definition newtype_value (m : mode) (n : newtypeT uuid) : Value :=
  VStruct ([(sel m Ir_NewtypeField_Schema Rs_NewtypeField_Schema, VString (n_schema n));
            (sel m Ir_NewtypeField_Name Rs_NewtypeField_Name, VString (n_name n))] ++
           docf m Rs_NewtypeField_Doc (n_doc n) ++
           [(sel m Ir_NewtypeField_TargetType Rs_NewtypeField_TargetType, vuuid (n_target n))]).

Definition service_value (m : mode) (s : serviceT uuid) : Value :=
  VStruct ([(sel m Ir_ServiceField_Schema Rs_ServiceField_Schema, VString (sv_schema s));
            (sel m Ir_ServiceField_Name Rs_ServiceField_Name, VString (sv_name s))] ++
           docf m Rs_ServiceField_Doc (sv_doc s) ++
           [(sel m Ir_ServiceField_Uuid Rs_ServiceField_Uuid, vuuid (sv_uuid s));
            (sel m Ir_ServiceField_Version Rs_ServiceField_Version, vu32 (sv_version s));
            (sel m Ir_ServiceField_Functions Rs_ServiceField_Functions, vmap32 (func_value m) (sv_functions s));
            (sel m Ir_ServiceField_Events Rs_ServiceField_Events, vmap32 (event_value m) (sv_events s))] ++
           optf (sel m Ir_ServiceField_FunctionFallback Rs_ServiceField_FunctionFallback)
                (vofb m FbFunction (sv_ffallback s)) ++
           optf (sel m Ir_ServiceField_EventFallback Rs_ServiceField_EventFallback)
                (vofb m FbEvent (sv_efallback s))).

(* impl Serialize for &LayoutIr / &Layout *)
Definition layout_value (m : mode) (l : layout uuid) : Value :=
  match l with
  | LBuiltIn b => VEnum (sel m Ir_LayoutVariant_BuiltIn Rs_LayoutVariant_BuiltIn) (builtin_value m b)
  | LStruct s => VEnum (sel m Ir_LayoutVariant_Struct Rs_LayoutVariant_Struct) (struct_value m s)
  | LEnum e => VEnum (sel m Ir_LayoutVariant_Enum Rs_LayoutVariant_Enum) (enum_value m e)
  | LService s => VEnum (sel m Ir_LayoutVariant_Service Rs_LayoutVariant_Service) (service_value m s)
  | LNewtype n => VEnum (sel m Ir_LayoutVariant_Newtype Rs_LayoutVariant_Newtype) (newtype_value m n)
  end.

(* SerializedValue::serialize(&layout_ir): everything below is written in the current (E2)
   encoding (serialize_struct2, serialize_map2_iter, ...) *)
Definition canon_layout (l : layout uuid) : result (list N) := serialize E2 (layout_value MIr l).

(* LayoutIr::namespace *)
Definition layout_ns {R} (l : layout R) : uuid :=
  match l with
  | LBuiltIn _ => NS_BuiltInTypeIr
  | LStruct _ => NS_StructIr
  | LEnum _ => NS_EnumIr
  | LService _ => NS_ServiceIr
  | LNewtype _ => NS_NewtypeIr
  end.

(* ---------- BTreeSet<SerializedValue>: Ord for SerializedValue is the byte slices' ---------- *)
Fixpoint bytes_cmp (a b : list N) : comparison :=
  match a, b with
  | [], [] => Eq
  | [], _ :: _ => Lt
  | _ :: _, [] => Gt
  | x :: a', y :: b' => match x ?= y with Eq => bytes_cmp a' b' | c => c end
  end.
(* BTreeSet::insert: None = already present (`false`), Some = the new set (`true`) *)
Fixpoint bset_insert (b : list N) (s : list (list N)) : option (list (list N)) :=
  match s with
  | [] => Some [b]
  | x :: r =>
      match bytes_cmp b x with
      | Lt => Some (b :: s)
      | Eq => None
      | Gt => option_map (cons x) (bset_insert b r)
      end
  end.

(* impl Serialize<Compute> for &Compute: serialize_struct1(3); U32 version; the layout's bytes
   copied (tags::Value of a SerializedValue); the set as a Vec2 of copied values *)
Definition canon_compute (lay : list N) (referenced : list (list N)) : list N :=
  kb (KStruct E1) :: put_varint 4 3 ++
  put_varint 4 Rs_ComputeField_Version ++ (kb (KInt_ U32) :: put_int U32 (Z.of_N INTROSPECTION_VERSION)) ++
  put_varint 4 Rs_ComputeField_Layout ++ lay ++
  put_varint 4 Rs_ComputeField_Referenced ++
  (kb (KVec E2) :: concat (map (fun b => kb KSome :: b) referenced) ++ [kb KNone]).

(* ---------- typed decoding of a resolved layout, read off the generic Value
   (impl Deserialize for Layout, Struct, Field, ...): fields are looked up by id, unknown ids are
   ignored, an optional field may be absent or None.  In mode MIr (no Rust counterpart: LayoutIr
   has no Deserialize) it is the left inverse used to show that the canonical bytes determine the
   layout up to documentation. ---------- *)
Definition obind {A B} (o : option A) (f : A -> option B) : option B :=
  match o with Some a => f a | None => None end.
Notation "x <-? e ;; k" := (obind e (fun x => k)) (at level 61, e at next level, right associativity).

Definition sget (id : N) (l : list (N * Value)) : option Value :=
  option_map snd (find (fun p => fst p =? id) l).
Definition as_str (v : Value) : option str := match v with VString s => Some s | _ => None end.
Definition as_u32 (v : Value) : option N := match v with VInt U32 z => Some (Z.to_N z) | _ => None end.
Definition as_bool (v : Value) : option bool := match v with VBool b => Some b | _ => None end.
Definition as_uuid (v : Value) : option uuid := match v with VFixed FUuid u => Some u | _ => None end.
Definition as_struct (v : Value) : option (list (N * Value)) := match v with VStruct l => Some l | _ => None end.
(* Option<T> field: absent, None or Some *)
Definition as_opt {A} (f : Value -> option A) (o : option Value) : option (option A) :=
  match o with
  | None | Some VNone => Some None
  | Some (VSome v) => option_map Some (f v)
  | Some _ => None
  end.
Definition req {A} (f : Value -> option A) (o : option Value) : option A := obind o f.
Definition get_doc (m : mode) (id : N) (l : list (N * Value)) : option doc :=
  match m with MIr => Some None | MRs => as_opt as_str (sget id l) end.
Fixpoint omapM {A B} (f : A -> option B) (l : list A) : option (list B) :=
  match l with
  | [] => Some []
  | x :: r => y <-? f x ;; ys <-? omapM f r ;; Some (y :: ys)
  end.
Definition as_map32 {A} (f : Value -> option A) (v : Value) : option (list (N * A)) :=
  match v with
  | VMap (KInt U32) l =>
      l' <-? omapM (fun p => match fst p with
                             | KeyZ z => option_map (pair (Z.to_N z)) (f (snd p))
                             | _ => None end) l ;;
      Some (bt_of_list l')
  | _ => None
  end.

Definition prims : list prim :=
  [PBool; PU8; PI8; PU16; PI16; PU32; PI32; PU64; PI64; PF32; PF64; PString; PUuid; PObjectId;
   PServiceId; PValue; PBytes; PLifetime; PUnit].
Definition wraps : list wrap := [WOption; WBox; WVec; WSet; WSender; WReceiver].

Definition builtin_of_value (m : mode) (v : Value) : option (builtin uuid) :=
  match v with
  | VEnum id x =>
      match find (fun p => prim_id m p =? id) prims with
      | Some p => match x with VNone => Some (BPrim p) | _ => None end
      | None =>
      match find (fun w => wrap_id m w =? id) wraps with
      | Some w => option_map (BWrap w) (as_uuid x)
      | None =>
      if id =? sel m Ir_BuiltInTypeVariant_Map Rs_BuiltInTypeVariant_Map then
        l <-? as_struct x ;;
        k <-? req as_uuid (sget (sel m Ir_MapTypeField_Key Rs_MapTypeField_Key) l) ;;
        v <-? req as_uuid (sget (sel m Ir_MapTypeField_Value Rs_MapTypeField_Value) l) ;;
        Some (BMap k v)
      else if id =? sel m Ir_BuiltInTypeVariant_Result Rs_BuiltInTypeVariant_Result then
        l <-? as_struct x ;;
        a <-? req as_uuid (sget (sel m Ir_ResultTypeField_Ok Rs_ResultTypeField_Ok) l) ;;
        e <-? req as_uuid (sget (sel m Ir_ResultTypeField_Err Rs_ResultTypeField_Err) l) ;;
        Some (BResult a e)
      else if id =? sel m Ir_BuiltInTypeVariant_Array Rs_BuiltInTypeVariant_Array then
        l <-? as_struct x ;;
        t <-? req as_uuid (sget (sel m Ir_ArrayTypeField_ElemType Rs_ArrayTypeField_ElemType) l) ;;
        n <-? req as_u32 (sget (sel m Ir_ArrayTypeField_Len Rs_ArrayTypeField_Len) l) ;;
        Some (BArray t n)
      else None
      end end
  | _ => None
  end.

Definition field_of_value (m : mode) (v : Value) : option (field uuid) :=
  l <-? as_struct v ;;
  id <-? req as_u32 (sget (sel m Ir_FieldField_Id Rs_FieldField_Id) l) ;;
  name <-? req as_str (sget (sel m Ir_FieldField_Name Rs_FieldField_Name) l) ;;
  d <-? get_doc m Rs_FieldField_Doc l ;;
  r <-? req as_bool (sget (sel m Ir_FieldField_IsRequired Rs_FieldField_IsRequired) l) ;;
  t <-? req as_uuid (sget (sel m Ir_FieldField_FieldType Rs_FieldField_FieldType) l) ;;
  Some (mkField id name d r t).

Definition variant_of_value (m : mode) (v : Value) : option (variant uuid) :=
  l <-? as_struct v ;;
  id <-? req as_u32 (sget (sel m Ir_VariantField_Id Rs_VariantField_Id) l) ;;
  name <-? req as_str (sget (sel m Ir_VariantField_Name Rs_VariantField_Name) l) ;;
  d <-? get_doc m Rs_VariantField_Doc l ;;
  t <-? as_opt as_uuid (sget (sel m Ir_VariantField_VariantType Rs_VariantField_VariantType) l) ;;
  Some (mkVariant id name d t).

Definition func_of_value (m : mode) (v : Value) : option (func uuid) :=
  l <-? as_struct v ;;
  id <-? req as_u32 (sget (sel m Ir_FunctionField_Id Rs_FunctionField_Id) l) ;;
  name <-? req as_str (sget (sel m Ir_FunctionField_Name Rs_FunctionField_Name) l) ;;
  d <-? get_doc m Rs_FunctionField_Doc l ;;
  a <-? as_opt as_uuid (sget (sel m Ir_FunctionField_Args Rs_FunctionField_Args) l) ;;
  o <-? as_opt as_uuid (sget (sel m Ir_FunctionField_Ok Rs_FunctionField_Ok) l) ;;
  e <-? as_opt as_uuid (sget (sel m Ir_FunctionField_Err Rs_FunctionField_Err) l) ;;
  Some (mkFunc id name d a o e).

Definition event_of_value (m : mode) (v : Value) : option (event uuid) :=
  l <-? as_struct v ;;
  id <-? req as_u32 (sget (sel m Ir_EventField_Id Rs_EventField_Id) l) ;;
  name <-? req as_str (sget (sel m Ir_EventField_Name Rs_EventField_Name) l) ;;
  d <-? get_doc m Rs_EventField_Doc l ;;
  t <-? as_opt as_uuid (sget (sel m Ir_EventField_EventType Rs_EventField_EventType) l) ;;
  Some (mkEvent id name d t).

Definition fallback_of_value (m : mode) (k : fbk) (v : Value) : option fallback :=
  l <-? as_struct v ;;
  name <-? req as_str (sget (fb_name_id m k) l) ;;
  d <-? get_doc m (fb_doc_id k) l ;;
  Some (mkFallback name d).

Definition struct_of_value (m : mode) (v : Value) : option (structT uuid) :=
  l <-? as_struct v ;;
  schema <-? req as_str (sget (sel m Ir_StructField_Schema Rs_StructField_Schema) l) ;;
  name <-? req as_str (sget (sel m Ir_StructField_Name Rs_StructField_Name) l) ;;
  d <-? get_doc m Rs_StructField_Doc l ;;
  fs <-? req (as_map32 (field_of_value m)) (sget (sel m Ir_StructField_Fields Rs_StructField_Fields) l) ;;
  fb <-? as_opt (fallback_of_value m FbStruct) (sget (sel m Ir_StructField_Fallback Rs_StructField_Fallback) l) ;;
  Some (mkStruct schema name d fs fb).

Definition enum_of_value (m : mode) (v : Value) : option (enumT uuid) :=
  l <-? as_struct v ;;
  schema <-? req as_str (sget (sel m Ir_EnumField_Schema Rs_EnumField_Schema) l) ;;
  name <-? req as_str (sget (sel m Ir_EnumField_Name Rs_EnumField_Name) l) ;;
  d <-? get_doc m Rs_EnumField_Doc l ;;
  vs <-? req (as_map32 (variant_of_value m)) (sget (sel m Ir_EnumField_Variants Rs_EnumField_Variants) l) ;;
  fb <-? as_opt (fallback_of_value m FbEnum) (sget (sel m Ir_EnumField_Fallback Rs_EnumField_Fallback) l) ;;
  Some (mkEnum schema name d vs fb).

Definition newtype_of_value (m : mode) (v : Value) : option (newtypeT uuid) :=
  l <-? as_struct v ;;
  schema <-? req as_str (sget (sel m Ir_NewtypeField_Schema Rs_NewtypeField_Schema) l) ;;
  name <-? req as_str (sget (sel m Ir_NewtypeField_Name Rs_NewtypeField_Name) l) ;;
  d <-? get_doc m Rs_NewtypeField_Doc l ;;
  t <-? req as_uuid (sget (sel m Ir_NewtypeField_TargetType Rs_NewtypeField_TargetType) l) ;;
  Some (mkNewtype schema name d t).

Definition service_of_value (m : mode) (v : Value) : option (serviceT uuid) :=
  l <-? as_struct v ;;
  schema <-? req as_str (sget (sel m Ir_ServiceField_Schema Rs_ServiceField_Schema) l) ;;
  name <-? req as_str (sget (sel m Ir_ServiceField_Name Rs_ServiceField_Name) l) ;;
  d <-? get_doc m Rs_ServiceField_Doc l ;;
  u <-? req as_uuid (sget (sel m Ir_ServiceField_Uuid Rs_ServiceField_Uuid) l) ;;
  ver <-? req as_u32 (sget (sel m Ir_ServiceField_Version Rs_ServiceField_Version) l) ;;
  fs <-? req (as_map32 (func_of_value m)) (sget (sel m Ir_ServiceField_Functions Rs_ServiceField_Functions) l) ;;
  es <-? req (as_map32 (event_of_value m)) (sget (sel m Ir_ServiceField_Events Rs_ServiceField_Events) l) ;;
  ffb <-? as_opt (fallback_of_value m FbFunction)
            (sget (sel m Ir_ServiceField_FunctionFallback Rs_ServiceField_FunctionFallback) l) ;;
  efb <-? as_opt (fallback_of_value m FbEvent)
            (sget (sel m Ir_ServiceField_EventFallback Rs_ServiceField_EventFallback) l) ;;
  Some (mkService schema name d u ver fs es ffb efb).

Definition layout_of_value (m : mode) (v : Value) : option (layout uuid) :=
  match v with
  | VEnum id x =>
      if id =? sel m Ir_LayoutVariant_BuiltIn Rs_LayoutVariant_BuiltIn then option_map LBuiltIn (builtin_of_value m x)
      else if id =? sel m Ir_LayoutVariant_Struct Rs_LayoutVariant_Struct then option_map LStruct (struct_of_value m x)
      else if id =? sel m Ir_LayoutVariant_Enum Rs_LayoutVariant_Enum then option_map LEnum (enum_of_value m x)
      else if id =? sel m Ir_LayoutVariant_Service Rs_LayoutVariant_Service then option_map LService (service_of_value m x)
      else if id =? sel m Ir_LayoutVariant_Newtype Rs_LayoutVariant_Newtype then option_map LNewtype (newtype_of_value m x)
      else None
  | _ => None
  end.

(* what a decoded layout is compared with: in mode MIr the documentation is gone *)
Definition erase (m : mode) (l : layout uuid) : layout uuid :=
  match m with MIr => erase_doc l | MRs => l end.
