(* Intro/RecordProofs.v — the Introspection record: a well-formed record serializes, the bytes
   decode (generic decoder + typed reading) to the same record, and the record
   Introspection::from_ir builds has all its references resolved. *)
From Aldrin Require Import Codec.BaseProofs Codec.RoundTrip Codec.DeProofs Codec.Depth
  Intro.Ir Intro.IrProofs Intro.Canon Intro.CanonProofs Intro.CanonWf Intro.TypeId
  gen.IntroConsts gen.Consts.
From Coq Require Import ZifyBool ZifyNat ZifyN.
Open Scope N_scope.
Arguments N.add : simpl never.
Arguments N.sub : simpl never.
Arguments N.mul : simpl never.
Arguments N.ltb : simpl never.
Arguments N.leb : simpl never.

(* ---------- a Struct1 whose fields are written in the current encoding (what
   serialize_struct1(n) followed by Serializer::new(buf, depth) per field produces) decodes to the
   struct of the field values ---------- *)
Lemma struct1_mixed_de (l : list (N * Value)) bss r f :
  (lenN l <=? u32_max) = true -> ids_nodup (map fst l) = true ->
  (forall p, In p l -> (fst p <=? u32_max) = true /\ wf true (snd p) = true) ->
  mapM (fun p => b <- ser E2 1%nat (snd p) ;; Ok (put_varint 4 (fst p) ++ b)) l = Ok bss ->
  (S (S (length l + fold_right (fun p m => fuel_of (snd p) + m) 0 l)) <= f)%nat ->
  de true f 0%nat (kb (KStruct E1) :: put_varint 4 (lenN l) ++ concat bss ++ r) = Ok (VStruct l, r).
Proof.
  intros Hlen Hnd Hall E Hf. destruct f as [|f]; [lia|].
  cbn [de]. unfold de_body. change (MAX_VALUE_DEPTH <? 1)%nat with false. cbn iota.
  change (kind_of_byte (kb (KStruct E1))) with (Some (KStruct E1)). cbn iota. unfold de_kind.
  apply mapM_ok in E. rewrite (Forall2_length_N _ _ _ E) in *.
  rewrite varint_roundtrip by (try lia; apply u32_fits; exact Hlen). cbn [bind].
  erewrite loop1_spec; [cbn [bind]; rewrite dedup_struct_id by exact Hnd; reflexivity| |].
  - rewrite <- (map_id l) at 1. apply Forall2_flip_map.
    eapply Forall2_impl_in; [exact E|]. cbn beta. intros p b Hin Hp r'.
    bind_ok Hp vb Ev. ok_inv Hp.
    destruct (Hall _ Hin) as [Hk Hv].
    unfold field_elem. rewrite <- app_assoc, varint_roundtrip by (try lia; apply u32_fits; exact Hk).
    cbn [bind]. rewrite (ser_de true E2 _ _ _ Hv Ev); [destruct p; reflexivity|].
    pose proof (fuel_in_sum (fun p => fuel_of (snd p)) p l Hin). cbn beta in *. lia.
  - rewrite <- (Forall2_length _ _ _ E). lia.
Qed.

(* ---------- well-formed records ---------- *)
Definition intro_ok (r : intro) : bool :=
  uuid_ok (i_type_id r) && layout_ok (i_layout r) &&
  (lenN (i_refs r) <=? u32_max) && keys_nodup (map KeyB (i_refs r)) && forallb uuid_ok (i_refs r).

Lemma intro_fields_wf r : intro_ok r = true ->
  forall p, In p (intro_fields r) -> (fst p <=? u32_max) = true /\ wf true (snd p) = true.
Proof.
  unfold intro_ok. rewrite !andb_true_iff. intros [[[[Hid Hl] Hn] Hnd] Hu] p Hp.
  unfold intro_fields in Hp. cbn [In] in Hp.
  destruct Hp as [<-|[<-|[<-|[<-|[]]]]]; cbn [fst snd]; (split; [reflexivity|]).
  - reflexivity.
  - apply wf_vuuid, Hid.
  - apply layout_value_wf, Hl.
  - cbn [wf]. unfold lenN, uuid in *. rewrite map_length, Hn, Hnd. cbn [andb].
    rewrite forallb_forall in *. intros k Hk. apply in_map_iff in Hk as (u & <- & Hu'). cbn [key_ok].
    specialize (Hu u Hu'). unfold uuid_ok in Hu. exact Hu.
Qed.

Lemma intro_fields_depth r p : In p (intro_fields r) -> (depth (snd p) <= 6)%nat.
Proof.
  unfold intro_fields. cbn [In]. intros [<-|[<-|[<-|[<-|[]]]]]; cbn [snd].
  - cbn. lia.
  - cbn. lia.
  - apply layout_value_depth.
  - cbn. lia.
Qed.

Theorem encode_intro_ok r : intro_ok r = true -> exists bs, encode_intro r = Ok bs.
Proof.
  intros Hok. unfold encode_intro.
  destruct (mapM_all_ok (fun p => b <- ser E2 1%nat (snd p) ;; Ok (put_varint 4 (fst p) ++ b)) (intro_fields r)) as [bss ->].
  - intros p Hp. destruct (intro_fields_wf r Hok p Hp) as [_ Hwf].
    destruct (proj1 (ser_total true E2 (snd p) 1%nat Hwf)) as [b ->].
    + unfold fits. pose proof (intro_fields_depth r p Hp). lia.
    + eexists. reflexivity.
  - eexists. reflexivity.
Qed.

(* the generic decoder gives back the struct of the four field values *)
Theorem encode_de r bs : intro_ok r = true -> encode_intro r = Ok bs ->
  de_as_value true bs = Ok (intro_value r).
Proof.
  intros Hok He. unfold encode_intro in He. bind_ok He bss E. ok_inv He.
  unfold de_as_value.
  pose proof (struct1_mixed_de (intro_fields r) bss []
                (S (S (length (intro_fields r) + fold_right (fun p m => (fuel_of (snd p) + m)%nat) 0%nat (intro_fields r))))
                eq_refl eq_refl (intro_fields_wf r Hok) E (le_n _)) as D.
  rewrite app_nil_r in D. rewrite (de_value_stable _ _ _ _ D) by discriminate. reflexivity.
Qed.

(* the typed reading of that struct *)
Lemma omapM_keyb l : omapM (fun k => match k with KeyB u => Some u | _ => None end) (map KeyB l) = Some l.
Proof. induction l as [|u l IH]; cbn [map omapM obind]; [reflexivity|]. rewrite IH. reflexivity. Qed.

Theorem intro_of_value_inv r : layout_sorted (i_layout r) = true -> intro_of_value (intro_value r) = Some r.
Proof.
  intros Hs. destruct r as [id l rs]. cbn [i_layout] in Hs.
  pose proof (layout_inv MRs l Hs) as Hl. cbn [erase] in Hl.
  unfold intro_of_value, intro_value, intro_fields. cbn [as_struct obind i_type_id i_layout i_refs].
  change (sget Rs_IntrospectionField_Version _) with (Some (vu32 INTROSPECTION_VERSION)).
  change (sget Rs_IntrospectionField_TypeId _) with (Some (vuuid id)).
  change (sget Rs_IntrospectionField_Layout _) with (Some (layout_value MRs l)).
  change (sget Rs_IntrospectionField_References _) with (Some (VSet KUuid (map KeyB rs))).
  cbn [obind req as_uuid vuuid as_u32 vu32]. rewrite N2Z.id, N.eqb_refl. cbn [obind].
  rewrite Hl. cbn [obind as_uuid_set]. rewrite omapM_keyb. reflexivity.
Qed.

(* C20, last sentence, first half: serialize then deserialize gives an equal record *)
Theorem intro_roundtrip r : intro_ok r = true ->
  exists bs, encode_intro r = Ok bs /\ decode_intro bs = Ok r.
Proof.
  intros Hok. destruct (encode_intro_ok r Hok) as [bs He]. exists bs. split; [exact He|].
  unfold decode_intro. rewrite (encode_de r bs Hok He). cbn [bind].
  rewrite intro_of_value_inv; [reflexivity|].
  unfold intro_ok in Hok. rewrite !andb_true_iff in Hok. apply layout_ok_sorted. tauto.
Qed.

(* ---------- Introspection::from_ir: when it does not panic, every type id of the layout is one
   of the record's references ---------- *)
Lemma list_eqb_eq a : forall b, list_eqb a b = true -> a = b.
Proof.
  unfold list_eqb. induction a as [|x a IH]; intros [|y b]; cbn [length combine forallb Nat.eqb andb fst snd];
    try discriminate; [reflexivity|]. intros H. apply andb_prop in H as [Hl H]. apply andb_prop in H as [Hx H].
  apply N.eqb_eq in Hx. subst. f_equal. apply IH. rewrite Hl, H. reflexivity.
Qed.

Lemma udedup_in x l : In x l -> In x (udedup l).
Proof.
  induction l as [|y l IH]; [intros []|]. cbn [udedup]. intros [->|H]; [left; reflexivity|].
  destruct (list_eqb y x) eqn:E.
  - left. apply list_eqb_eq, E.
  - right. apply filter_In. split; [apply IH, H|]. rewrite E. reflexivity.
Qed.

Lemma umap_get_in k m v : umap_get k m = Some v -> In v (map snd m).
Proof.
  unfold umap_get. destruct (find (fun p => list_eqb k (fst p)) m) as [p|] eqn:F; cbn [option_map]; [|discriminate].
  intros E. injection E as <-. apply find_some in F as [Hin _]. apply in_map, Hin.
Qed.

Section Trav.
Context {R S : Type} (g : R -> option S).
Definition img (u : S) : Prop := exists x, g x = Some u.

Lemma otrav_img o o' : otrav g o = Some o' -> forall u, In u (orefs o') -> img u.
Proof.
  destruct o as [x|]; cbn [otrav].
  - destruct (g x) as [y|] eqn:E; cbn [option_map]; [|discriminate]. intros H; injection H as <-.
    intros u [<-|[]]. exists x. exact E.
  - intros H; injection H as <-. intros u [].
Qed.

Lemma atrav_img {A B} (h : A -> option B) (rf : B -> list S) (l : list (N * A)) l' :
  (forall a b, h a = Some b -> forall u, In u (rf b) -> img u) ->
  atrav h l = Some l' -> forall u, In u (flat_map (fun p => rf (snd p)) l') -> img u.
Proof.
  intros Hh. unfold atrav. revert l'. induction l as [|[k a] l IH]; intros l'; cbn [omapM].
  - intros H; injection H as <-. intros u [].
  - cbn [fst snd]. destruct (h a) as [b|] eqn:E; cbn [option_map obind]; [|discriminate].
    destruct (omapM _ l) as [l2|] eqn:E2; cbn [obind]; [|discriminate]. intros H; injection H as <-.
    intros u Hu. cbn [flat_map snd] in Hu. apply in_app_or in Hu as [Hu|Hu]; [eapply Hh; eassumption|].
    eapply IH; [reflexivity|exact Hu].
Qed.

Theorem ltrav_img l l' : ltrav g l = Some l' -> forall u, In u (lrefs l') -> img u.
Proof.
  destruct l as [b|s|e|s|n]; cbn [ltrav].
  - destruct b as [p|w t|k v|a e|t n]; cbn [btrav];
      repeat match goal with |- context [g ?x] => let E := fresh "E" in destruct (g x) eqn:E; cbn [option_map obind] end;
      try discriminate; intros H; injection H as <-; cbn [lrefs brefs]; intros u Hu; cbn [In] in Hu;
      repeat (destruct Hu as [<-|Hu]; [eexists; eassumption|]); destruct Hu.
  - destruct (atrav _ (s_fields s)) as [fs|] eqn:E; cbn [obind]; [|discriminate]. intros H; injection H as <-.
    cbn [lrefs s_fields]. intros u Hu. rewrite <- flat_map_concat_map in Hu || idtac.
    apply (atrav_img (ftrav g) (fun f => [f_ty f]) _ _) with (u := u) in E; [exact E| |].
    + intros a b Hab v [<-|[]]. unfold ftrav in Hab. destruct (g (f_ty a)) eqn:Eg; cbn [option_map] in Hab; [|discriminate].
      injection Hab as <-. cbn [f_ty]. eexists; exact Eg.
    + clear E. induction fs as [|p fs IH]; cbn [map flat_map app] in *; [exact Hu|]. destruct Hu as [<-|Hu]; [left; reflexivity|right; apply IH, Hu].
  - destruct (atrav _ (e_variants e)) as [vs|] eqn:E; cbn [obind]; [|discriminate]. intros H; injection H as <-.
    cbn [lrefs e_variants]. intros u Hu.
    apply (atrav_img (vtrav g) (fun v => orefs (v_ty v)) _ _) with (u := u) in E; [exact E| |exact Hu].
    intros a b Hab. unfold vtrav in Hab. destruct (otrav g (v_ty a)) eqn:Eo; cbn [option_map] in Hab; [|discriminate].
    injection Hab as <-. cbn [v_ty]. eapply otrav_img, Eo.
  - destruct (atrav _ (sv_functions s)) as [fs|] eqn:E1; cbn [obind]; [|discriminate].
    destruct (atrav _ (sv_events s)) as [es|] eqn:E2; cbn [obind]; [|discriminate]. intros H; injection H as <-.
    cbn [lrefs sv_functions sv_events]. intros u Hu. apply in_app_or in Hu as [Hu|Hu].
    + apply (atrav_img (fntrav g) (fun f => orefs (fn_args f) ++ orefs (fn_ok f) ++ orefs (fn_err f)) _ _) with (u := u) in E1;
        [exact E1| |exact Hu].
      intros a b Hab. unfold fntrav in Hab.
      destruct (otrav g (fn_args a)) eqn:Ea; cbn [obind] in Hab; [|discriminate].
      destruct (otrav g (fn_ok a)) eqn:Eo; cbn [obind] in Hab; [|discriminate].
      destruct (otrav g (fn_err a)) eqn:Ee; cbn [obind] in Hab; [|discriminate].
      injection Hab as <-. cbn [fn_args fn_ok fn_err]. intros v Hv.
      apply in_app_or in Hv as [Hv|Hv]; [eapply otrav_img; [exact Ea|exact Hv]|].
      apply in_app_or in Hv as [Hv|Hv]; [eapply otrav_img; [exact Eo|exact Hv]|eapply otrav_img; [exact Ee|exact Hv]].
    + apply (atrav_img (evtrav g) (fun e => orefs (ev_ty e)) _ _) with (u := u) in E2; [exact E2| |exact Hu].
      intros a b Hab. unfold evtrav in Hab. destruct (otrav g (ev_ty a)) eqn:Eo; cbn [option_map] in Hab; [|discriminate].
      injection Hab as <-. cbn [ev_ty]. eapply otrav_img, Eo.
  - destruct (g (n_target n)) eqn:E; cbn [option_map]; [|discriminate]. intros H; injection H as <-.
    cbn [lrefs n_target]. intros u [<-|[]]. eexists; exact E.
Qed.
End Trav.

(* C20, last sentence, second half: the references of the record resolve *)
Theorem from_ir_resolved ir r : from_ir ir = Some r -> resolved r.
Proof.
  unfold from_ir. destruct (ltrav _ (ir_layout ir)) as [l|] eqn:E; cbn [obind]; [|discriminate].
  intros H; injection H as <-. unfold resolved. cbn [i_layout i_refs]. intros u Hu.
  destruct (ltrav_img _ _ _ E u Hu) as [k Hk]. apply udedup_in. eapply umap_get_in, Hk.
Qed.

Corollary roundtrip_resolved ir r : from_ir ir = Some r -> intro_ok r = true ->
  exists bs, encode_intro r = Ok bs /\ exists r', decode_intro bs = Ok r' /\ r' = r /\ resolved r'.
Proof.
  intros Hir Hok. destruct (intro_roundtrip r Hok) as (bs & He & Hd). exists bs. split; [exact He|].
  exists r. split; [exact Hd|]. split; [reflexivity|]. eapply from_ir_resolved, Hir.
Qed.
