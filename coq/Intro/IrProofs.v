(* Intro/IrProofs.v — BTreeMap-as-sorted-list facts and the builders: the map a builder ends
   with does not depend on the order of the calls (distinct ids), re-inserting a sorted list is
   the identity, erasing documentation is idempotent. *)
From Aldrin Require Import Intro.Ir.
From Coq Require Import Permutation ZifyBool ZifyNat ZifyN.
Open Scope N_scope.
Arguments N.add : simpl never.
Arguments N.sub : simpl never.
Arguments N.mul : simpl never.
Arguments N.ltb : simpl never.
Arguments N.leb : simpl never.
Arguments N.eqb : simpl never.

Section Bt.
Context {A : Type}.
Implicit Types l : list (N * A).

(* every key of l is above k *)
Definition above (k : N) l : Prop := forall p, In p l -> k < fst p.

Lemma bt_sorted_cons k v l : bt_sorted ((k, v) :: l) = true <-> above k l /\ bt_sorted l = true.
Proof.
  revert k v. induction l as [|[k' v'] l IH]; intros k v.
  - cbn. split; [intros _; split; [intros p []|reflexivity]|reflexivity].
  - change (bt_sorted ((k, v) :: (k', v') :: l)) with ((k <? k') && bt_sorted ((k', v') :: l)).
    rewrite andb_true_iff. split.
    + intros [Hk Hs]. split; [|exact Hs]. apply IH in Hs as [Hab _].
      intros p [<-|Hin]; cbn [fst]; [lia|]. specialize (Hab p Hin). lia.
    + intros [Hab Hs]. split; [|exact Hs]. specialize (Hab (k', v') (or_introl eq_refl)). cbn [fst] in Hab. lia.
Qed.

Lemma bt_insert_in k v l p : In p (bt_insert k v l) -> p = (k, v) \/ In p l.
Proof.
  induction l as [|[k' v'] l IH]; cbn [bt_insert].
  - intros [<-|[]]. left; reflexivity.
  - destruct (k <? k'); [intros [<-|H]; [left; reflexivity|right; exact H]|].
    destruct (k =? k'); [intros [<-|H]; [left; reflexivity|right; right; exact H]|].
    intros [<-|H]; [right; left; reflexivity|]. apply IH in H as [->|H]; [left; reflexivity|right; right; exact H].
Qed.

Lemma bt_insert_sorted k v l : bt_sorted l = true -> bt_sorted (bt_insert k v l) = true.
Proof.
  induction l as [|[k' v'] l IH]; intros Hs; cbn [bt_insert]; [reflexivity|].
  apply bt_sorted_cons in Hs as [Hab Hs].
  destruct (N.ltb_spec k k').
  - apply bt_sorted_cons. split; [|apply bt_sorted_cons; split; assumption].
    intros p [<-|Hin]; cbn [fst]; [lia|]. specialize (Hab p Hin). lia.
  - destruct (N.eqb_spec k k') as [->|Hne].
    + apply bt_sorted_cons. split; assumption.
    + apply bt_sorted_cons. split; [|apply IH; exact Hs].
      intros p Hin. apply bt_insert_in in Hin as [->|Hin]; cbn [fst]; [lia|apply Hab; exact Hin].
Qed.

Lemma bt_insert_above k v l : above k l -> bt_insert k v l = (k, v) :: l.
Proof.
  destruct l as [|[k' v'] l]; intros H; cbn [bt_insert]; [reflexivity|].
  specialize (H (k', v') (or_introl eq_refl)). cbn [fst] in H.
  destruct (N.ltb_spec k k'); [reflexivity|lia].
Qed.

Ltac brk := repeat (cbn [bt_insert];
  match goal with
  | |- context [?a <? ?b] => destruct (N.ltb_spec a b); try lia
  | |- context [?a =? ?b] => destruct (N.eqb_spec a b); try lia; subst
  end).

Lemma bt_insert_comm k1 v1 k2 v2 l : k1 <> k2 -> bt_sorted l = true ->
  bt_insert k1 v1 (bt_insert k2 v2 l) = bt_insert k2 v2 (bt_insert k1 v1 l).
Proof.
  intros Hne. induction l as [|[k v] l IH]; intros Hs.
  - brk; try congruence; try reflexivity.
  - apply bt_sorted_cons in Hs as [Hab Hs]. specialize (IH Hs).
    brk; try congruence; try reflexivity.
Qed.

Definition ins (acc : list (N * A)) (p : N * A) := bt_insert (fst p) (snd p) acc.
Lemma bt_of_list_eq l : bt_of_list l = fold_left ins l []. Proof. reflexivity. Qed.

Lemma fold_ins_sorted l : forall acc, bt_sorted acc = true -> bt_sorted (fold_left ins l acc) = true.
Proof. induction l as [|p l IH]; intros acc H; cbn [fold_left]; [exact H|]. apply IH, bt_insert_sorted, H. Qed.

Lemma fold_ins_perm l l' : Permutation l l' -> NoDup (map fst l) ->
  forall acc, bt_sorted acc = true -> fold_left ins l acc = fold_left ins l' acc.
Proof.
  induction 1 as [|x l l' HP IH|x y l|l l' l'' HP1 IH1 HP2 IH2]; intros Hnd acc Hs.
  - reflexivity.
  - cbn [fold_left]. cbn [map] in Hnd. inversion Hnd; subst. apply IH; [assumption|]. apply bt_insert_sorted, Hs.
  - cbn [fold_left]. unfold ins at 2 3 5 6. cbn [map] in Hnd. inversion Hnd as [|? ? Hnin _]; subst.
    rewrite bt_insert_comm; [reflexivity| |exact Hs]. intros E. apply Hnin. left. exact E.
  - rewrite IH1 by assumption. apply IH2; [|assumption].
    eapply Permutation_NoDup; [apply Permutation_map; exact HP1|exact Hnd].
Qed.

(* the order of the builder calls does not matter when the ids are distinct *)
Theorem bt_of_list_perm l l' : Permutation l l' -> NoDup (map fst l) -> bt_of_list l = bt_of_list l'.
Proof. intros HP Hnd. rewrite !bt_of_list_eq. apply fold_ins_perm; [assumption|assumption|reflexivity]. Qed.

(* re-inserting the entries of a sorted list gives the list back *)
Lemma fold_ins_sorted_app l : forall acc, bt_sorted (acc ++ l) = true -> fold_left ins l acc = acc ++ l.
Proof.
  induction l as [|[k v] l IH]; intros acc Hs; cbn [fold_left]; [rewrite app_nil_r; reflexivity|].
  assert (Hins : ins acc (k, v) = acc ++ [(k, v)]).
  { unfold ins. cbn [fst snd]. clear IH. induction acc as [|[k' v'] acc IHa]; [reflexivity|].
    cbn [app] in Hs. apply bt_sorted_cons in Hs as [Hab Hs]. cbn [bt_insert app].
    assert (k' < k) by (apply (Hab (k, v)); apply in_or_app; right; left; reflexivity).
    destruct (N.ltb_spec k k'); try lia. destruct (N.eqb_spec k k'); try lia.
    rewrite IHa by exact Hs. reflexivity. }
  rewrite Hins, IH; rewrite <- app_assoc; [reflexivity|exact Hs].
Qed.

Theorem bt_of_list_sorted l : bt_sorted l = true -> bt_of_list l = l.
Proof. intros H. rewrite bt_of_list_eq. apply (fold_ins_sorted_app l []). exact H. Qed.

Lemma bt_of_list_is_sorted l : bt_sorted (bt_of_list l) = true.
Proof. rewrite bt_of_list_eq. apply fold_ins_sorted. reflexivity. Qed.

Lemma above_NoDup k l : above k l -> ~ In k (map fst l).
Proof. intros H Hin. apply in_map_iff in Hin as (p & <- & Hp). specialize (H p Hp). lia. Qed.

Lemma bt_sorted_NoDup l : bt_sorted l = true -> NoDup (map fst l).
Proof.
  induction l as [|[k v] l IH]; intros Hs; cbn [map]; [constructor|].
  apply bt_sorted_cons in Hs as [Hab Hs]. constructor; [apply above_NoDup, Hab|apply IH, Hs].
Qed.
End Bt.

Lemma bt_sorted_amap {A B} (h : A -> B) (l : list (N * A)) : bt_sorted (amap h l) = bt_sorted l.
Proof.
  induction l as [|[k v] l IH]; [reflexivity|]. destruct l as [|[k' v'] l]; [reflexivity|].
  change (amap h ((k, v) :: (k', v') :: l)) with ((k, h v) :: (k', h v') :: amap h l).
  change (bt_sorted ((k, h v) :: (k', h v') :: amap h l)) with ((k <? k') && bt_sorted (amap h ((k', v') :: l))).
  rewrite IH. reflexivity.
Qed.

(* ---------- the builders ---------- *)
Section Builders.
Context {R : Type}.

Lemma keyed_perm {X} (key : X -> N) (l l' : list X) : Permutation l l' ->
  Permutation (map (fun x => (key x, x)) l) (map (fun x => (key x, x)) l').
Proof. apply Permutation_map. Qed.
Lemma keyed_fst {X} (key : X -> N) (l : list X) : map fst (map (fun x => (key x, x)) l) = map key l.
Proof. rewrite map_map. reflexivity. Qed.

Theorem build_struct_perm schema name d (fs fs' : list (field R)) fb :
  Permutation fs fs' -> NoDup (map f_id fs) -> build_struct schema name d fs fb = build_struct schema name d fs' fb.
Proof.
  intros HP Hnd. unfold build_struct. f_equal. apply bt_of_list_perm; [apply keyed_perm, HP|].
  rewrite keyed_fst. exact Hnd.
Qed.

Theorem build_enum_perm schema name d (vs vs' : list (variant R)) fb :
  Permutation vs vs' -> NoDup (map v_id vs) -> build_enum schema name d vs fb = build_enum schema name d vs' fb.
Proof.
  intros HP Hnd. unfold build_enum. f_equal. apply bt_of_list_perm; [apply keyed_perm, HP|].
  rewrite keyed_fst. exact Hnd.
Qed.

Theorem build_service_perm schema name d u ver (fs fs' : list (func R)) (es es' : list (event R)) ffb efb :
  Permutation fs fs' -> NoDup (map fn_id fs) -> Permutation es es' -> NoDup (map ev_id es) ->
  build_service schema name d u ver fs es ffb efb = build_service schema name d u ver fs' es' ffb efb.
Proof.
  intros HP Hnd HP' Hnd'. unfold build_service. f_equal.
  - apply bt_of_list_perm; [apply keyed_perm, HP|]. rewrite keyed_fst. exact Hnd.
  - apply bt_of_list_perm; [apply keyed_perm, HP'|]. rewrite keyed_fst. exact Hnd'.
Qed.
End Builders.

(* ---------- erasing documentation ---------- *)
Lemma amap_amap {A B C} (g : A -> B) (h : B -> C) (l : list (N * A)) : amap h (amap g l) = amap (fun x => h (g x)) l.
Proof. unfold amap. rewrite map_map. reflexivity. Qed.
Lemma amap_ext {A B} (g h : A -> B) (l : list (N * A)) : (forall x, g x = h x) -> amap g l = amap h l.
Proof. intros E. unfold amap. apply map_ext. intros p. rewrite E. reflexivity. Qed.

Theorem erase_doc_idem {R} (l : layout R) : erase_doc (erase_doc l) = erase_doc l.
Proof.
  destruct l as [b|s|e|s|n]; cbn [erase_doc s_schema s_name s_doc s_fields s_fallback e_schema e_name e_doc
    e_variants e_fallback sv_schema sv_name sv_doc sv_uuid sv_version sv_functions sv_events sv_ffallback
    sv_efallback n_schema n_name n_doc n_target]; try reflexivity.
  - rewrite amap_amap. f_equal. f_equal. destruct (s_fallback s); reflexivity.
  - rewrite amap_amap. f_equal. f_equal. destruct (e_fallback e); reflexivity.
  - rewrite !amap_amap. f_equal. f_equal; [destruct (sv_ffallback s)|destruct (sv_efallback s)]; reflexivity.
Qed.
