(* Intro/CanonProofs.v — the canonical bytes of a layout determine it up to documentation, and
   nothing else enters them:
     * [layout_of_value m] is a left inverse of [layout_value m] (up to [erase m]),
     * the value of a well-formed layout is a well-formed codec value of depth <= 7, so it
       serializes, and by the codec round trip (Codec/RoundTrip.v [ser_de]) its bytes are
       prefix-free and determine the value,
     * [canon_compute] is injective on serialized layouts,
     * [bytes_cmp] is a strict total order and [bset_insert] keeps a strictly sorted set. *)
From Aldrin Require Import Codec.BaseProofs Codec.RoundTrip Codec.DeProofs Codec.Depth
  Intro.Ir Intro.IrProofs Intro.Canon gen.IntroConsts gen.Consts.
From Coq Require Import ZifyBool ZifyNat ZifyN.
Open Scope N_scope.
Arguments N.add : simpl never.
Arguments N.sub : simpl never.
Arguments N.mul : simpl never.
Arguments N.ltb : simpl never.
Arguments N.leb : simpl never.

(* ================================================================ left inverse *)

Lemma as_opt_none {A} (f : Value -> option A) : as_opt f None = Some None. Proof. reflexivity. Qed.

Lemma field_inv m f : field_of_value m (field_value m f) = Some (match m with MIr => efield f | MRs => f end).
Proof. destruct m, f as [[|id] name [d|] r t]; reflexivity. Qed.

Lemma variant_inv m v : variant_of_value m (variant_value m v) = Some (match m with MIr => evariant v | MRs => v end).
Proof. destruct m, v as [[|id] name [d|] [t|]]; reflexivity. Qed.

Lemma func_inv m f : func_of_value m (func_value m f) = Some (match m with MIr => efunc f | MRs => f end).
Proof. destruct m, f as [[|id] name [d|] [a|] [o|] [e|]]; reflexivity. Qed.

Lemma event_inv m e : event_of_value m (event_value m e) = Some (match m with MIr => eevent e | MRs => e end).
Proof. destruct m, e as [[|id] name [d|] [t|]]; reflexivity. Qed.

Lemma fallback_inv m k f : fallback_of_value m k (fallback_value m k f) = Some (match m with MIr => efb f | MRs => f end).
Proof. destruct m, k, f as [name [d|]]; reflexivity. Qed.

Lemma builtin_inv m b : builtin_of_value m (builtin_value m b) = Some b.
Proof.
  destruct m, b as [p|w t|k v|a e|t [|n]]; try (destruct p); try (destruct w); reflexivity.
Qed.

Lemma omapM_map {A B C} (f : B -> option C) (g : A -> B) (h : A -> C) (l : list A) :
  (forall x, f (g x) = Some (h x)) -> omapM f (map g l) = Some (map h l).
Proof. intros E. induction l as [|x l IH]; cbn [map omapM]; [reflexivity|]. rewrite E, IH. reflexivity. Qed.

Lemma map32_inv {A} (dec : Value -> option A) (enc : A -> Value) (er : A -> A) (l : list (N * A)) :
  (forall x, dec (enc x) = Some (er x)) -> bt_sorted l = true ->
  as_map32 dec (vmap32 enc l) = Some (amap er l).
Proof.
  intros E Hs. unfold as_map32, vmap32.
  rewrite (omapM_map _ _ (fun p => (fst p, er (snd p)))).
  - cbn [obind]. change (map (fun p => (fst p, er (snd p))) l) with (amap er l).
    rewrite bt_of_list_sorted; [reflexivity|]. rewrite bt_sorted_amap. exact Hs.
  - intros [k x]. cbn [fst snd]. rewrite E. cbn [option_map]. rewrite N2Z.id. reflexivity.
Qed.

Ltac inv_compute :=
  cbv -[as_map32 vmap32 field_of_value field_value variant_of_value variant_value func_of_value func_value
        event_of_value event_value fallback_of_value fallback_value amap efield evariant efunc eevent efb
        Z.of_N Z.to_N].

Lemma amap_id {A} (l : list (N * A)) : amap (fun x => x) l = l.
Proof. unfold amap. rewrite <- (map_id l) at 2. apply map_ext. intros [k x]. reflexivity. Qed.

Ltac inv_maps Hs :=
  repeat first
    [ rewrite (map32_inv _ _ efield) by (first [exact Hs | assumption | intros x; apply (field_inv MIr)])
    | rewrite (map32_inv _ _ evariant) by (first [exact Hs | assumption | intros x; apply (variant_inv MIr)])
    | rewrite (map32_inv _ _ efunc) by (first [exact Hs | assumption | intros x; apply (func_inv MIr)])
    | rewrite (map32_inv _ _ eevent) by (first [exact Hs | assumption | intros x; apply (event_inv MIr)])
    | rewrite (map32_inv _ _ (fun x => x)) by
        (first [exact Hs | assumption | intros x; first [apply (field_inv MRs) | apply (variant_inv MRs)
                                                        | apply (func_inv MRs) | apply (event_inv MRs)]]) ];
  rewrite ?amap_id.

Lemma struct_inv m s : bt_sorted (s_fields s) = true ->
  struct_of_value m (struct_value m s) =
  Some (match m with
        | MIr => mkStruct (s_schema s) (s_name s) None (amap efield (s_fields s)) (option_map efb (s_fallback s))
        | MRs => s end).
Proof.
  intros Hs. destruct m, s as [schema name [d|] fields [fb|]]; cbn [s_fields] in Hs; inv_compute;
    rewrite ?fallback_inv; inv_maps Hs; reflexivity.
Qed.

Lemma enum_inv m e : bt_sorted (e_variants e) = true ->
  enum_of_value m (enum_value m e) =
  Some (match m with
        | MIr => mkEnum (e_schema e) (e_name e) None (amap evariant (e_variants e)) (option_map efb (e_fallback e))
        | MRs => e end).
Proof.
  intros Hs. destruct m, e as [schema name [d|] vs [fb|]]; cbn [e_variants] in Hs; inv_compute;
    rewrite ?fallback_inv; inv_maps Hs; reflexivity.
Qed.

Lemma newtype_inv m n :
  newtype_of_value m (newtype_value m n) =
  Some (match m with MIr => mkNewtype (n_schema n) (n_name n) None (n_target n) | MRs => n end).
Proof. destruct m, n as [schema name [d|] t]; reflexivity. Qed.

Lemma service_inv m s : bt_sorted (sv_functions s) = true -> bt_sorted (sv_events s) = true ->
  service_of_value m (service_value m s) =
  Some (match m with
        | MIr => mkService (sv_schema s) (sv_name s) None (sv_uuid s) (sv_version s)
                           (amap efunc (sv_functions s)) (amap eevent (sv_events s))
                           (option_map efb (sv_ffallback s)) (option_map efb (sv_efallback s))
        | MRs => s end).
Proof.
  intros Hf He.
  destruct m, s as [schema name [d|] u [|ver] fs es [ffb|] [efb|]]; cbn [sv_functions sv_events] in Hf, He;
    inv_compute; rewrite ?fallback_inv; inv_maps Hf; reflexivity.
Qed.

(* the sortedness part of layout_ok *)
Definition layout_sorted {R} (l : layout R) : bool :=
  match l with
  | LStruct s => bt_sorted (s_fields s)
  | LEnum e => bt_sorted (e_variants e)
  | LService s => bt_sorted (sv_functions s) && bt_sorted (sv_events s)
  | _ => true
  end.

Theorem layout_inv m l : layout_sorted l = true -> layout_of_value m (layout_value m l) = Some (erase m l).
Proof.
  intros Hs. destruct l as [b|s|e|s|n]; cbn [layout_sorted] in Hs.
  - destruct m; cbn; rewrite builtin_inv; reflexivity.
  - destruct m; cbn -[struct_of_value struct_value]; rewrite struct_inv by exact Hs; reflexivity.
  - destruct m; cbn -[enum_of_value enum_value]; rewrite enum_inv by exact Hs; reflexivity.
  - apply andb_prop in Hs as [Hf He].
    destruct m; cbn -[service_of_value service_value]; rewrite service_inv by assumption; reflexivity.
  - destruct m; cbn -[newtype_of_value newtype_value]; rewrite newtype_inv; reflexivity.
Qed.

