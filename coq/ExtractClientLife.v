(* Extraction of the client life-cycle automaton for the C15 correspondence check
   (ExtrOcamlBasic only; numbers stay Coq's inductive positive/N; no Extract Constant). *)
From Aldrin Require Import Proto.ClientLife.
Require Extraction ExtrOcamlBasic.
Extraction Language OCaml.
Extraction "clientlife_model.ml" init step run has_reply lookup pend mws qws is_proxy_of
  select_once poll_select.
