(* Extraction of the derive-contract model for the C16 correspondence check (ExtrOcamlBasic only:
   bool/option/list/prod/unit/sumbool mapped to OCaml's; numbers stay Coq's inductive
   positive/N/Z; no Extract Constant). *)
From Aldrin Require Import Derive.Ty Derive.TDe Derive.TSer Derive.Conforms Derive.Evolve.
Require Extraction ExtrOcamlBasic.
Extraction Language OCaml.
Extraction "derive_model.ml" tde_top tser_top tde_value conforms norm typed de_as_value serialize
  evolves evolves_keeping all_fallback wf_ty N.of_nat N.to_nat lenN.
