(* Stream/PacketizerProofs.v — framing is independent of fragmentation (C14, packetizer part).
   Invariant of the main induction: "buffer ++ bytes still to come = undelivered frames ++ rest". *)
From Aldrin Require Import Codec.Base Codec.BaseProofs gen.StreamConsts Stream.Packetizer.
From Coq Require Import ZifyBool ZifyNat ZifyN.
Open Scope N_scope.
Arguments N.add : simpl never.
Arguments N.sub : simpl never.
Arguments N.mul : simpl never.
Arguments N.ltb : simpl never.
Arguments N.leb : simpl never.
Arguments N.eqb : simpl never.
Arguments N.max : simpl never.
Arguments N.min : simpl never.

(* ---------- helpers ---------- *)
Lemma len_acc_spec {A} (l : list A) : forall acc, len_acc l acc = acc + lenN l.
Proof.
  induction l as [|x l IH]; intros acc; cbn [len_acc].
  - unfold lenN; cbn [length]. lia.
  - rewrite IH, lenN_cons. lia.
Qed.
Lemma llen_spec {A} (l : list A) : llen l = lenN l.
Proof. unfold llen. rewrite len_acc_spec. lia. Qed.

Lemma split_at_spec n l : split_at n l = (firstn (N.to_nat n) l, skipn (N.to_nat n) l).
Proof.
  unfold split_at. rewrite take_spec. destruct (N.leb_spec n (lenN l)) as [H|H]; [reflexivity|].
  unfold lenN in H. rewrite firstn_all2, skipn_all2 by lia. reflexivity.
Qed.
Lemma split_at_app a r : split_at (lenN a) (a ++ r) = (a, r).
Proof. unfold split_at. rewrite take_app. reflexivity. Qed.

Definition hdr (b : list N) : N := from_le (firstn 4 b).

Lemma hdr_app a x : 4 <= lenN a -> hdr (a ++ x) = hdr a.
Proof.
  intros H. unfold hdr. rewrite firstn_app.
  replace (4 - length a)%nat with 0%nat by (unfold lenN in H; lia).
  cbn [firstn]. rewrite app_nil_r. reflexivity.
Qed.

Lemma app_eq_app_le {A} (a x f y : list A) :
  a ++ x = f ++ y -> (length f <= length a)%nat -> exists b, a = f ++ b /\ y = b ++ x.
Proof.
  intros E L. apply app_eq_app in E. destruct E as [l [[E1 E2]|[E1 E2]]].
  - exists l. auto.
  - subst f. rewrite app_length in L. destruct l as [|z l]; [|cbn in L; lia].
    exists []. rewrite !app_nil_r. cbn in E2. split; [reflexivity|symmetry; exact E2].
Qed.

(* ---------- the cached length ---------- *)
Definition lenc_ok (s : pk) : Prop :=
  match lenc s with Some l => 4 <= lenN (buf s) /\ l = hdr (buf s) | None => True end.
Definition cap_ok (s : pk) : Prop := lenN (buf s) <= cap s.

Lemma lenc_ok_new : lenc_ok pk_new.
Proof. exact I. Qed.
Lemma cap_ok_new : cap_ok pk_new.
Proof. unfold cap_ok, pk_new, lenN; cbn. lia. Qed.

Lemma lenc_ok_feed s bs c : lenc_ok s -> lenc_ok (mkPk (buf s ++ bs) (lenc s) c).
Proof.
  unfold lenc_ok; cbn [lenc buf]. destruct (lenc s) as [l|]; [|auto].
  intros [H1 H2]. rewrite lenN_app, hdr_app by assumption. split; [lia|assumption].
Qed.

Lemma next_len s :
  lenc_ok s -> 4 <= lenN (buf s) ->
  match lenc s with Some l => l | None => from_le (firstn 4 (buf s)) end = hdr (buf s).
Proof. unfold lenc_ok. destruct (lenc s); [intros [_ ->] _|]; reflexivity. Qed.

(* a complete frame at the front of the buffer is returned, and only it is removed *)
Lemma next_complete s f tl :
  lenc_ok s -> buf s = f ++ tl -> frame_ok f ->
  next_message s = (mkPk tl None (cap s - lenN f), Some f).
Proof.
  intros Hl Hb [H4 Hh]. unfold next_message. rewrite llen_spec.
  assert (Hn : 4 <= lenN (buf s)) by (rewrite Hb, lenN_app; lia).
  destruct (N.ltb_spec (lenN (buf s)) 4); [lia|].
  rewrite (next_len s Hl Hn), Hb, hdr_app by assumption. fold (hdr f) in Hh. rewrite Hh.
  destruct (N.leb_spec (lenN f) (lenN (f ++ tl))) as [_|C]; [|rewrite lenN_app in C; lia].
  replace (N.max (lenN f) 4) with (lenN f) by lia.
  rewrite split_at_app. destruct (N.leb_spec 4 (lenN f)); [reflexivity|lia].
Qed.

(* the step of the main induction: the buffer is a prefix of "undelivered frames ++ rest" *)
Lemma next_sound s todo rest X :
  lenc_ok s -> Forall frame_ok todo -> incomplete rest -> buf s ++ X = concat todo ++ rest ->
  match next_message s with
  | (s', Some m) => exists todo', todo = m :: todo' /\ buf s' ++ X = concat todo' ++ rest /\
                                  lenc s' = None /\ buf s = m ++ buf s' /\ cap s' = cap s - lenN m
  | (s', None) => buf s' = buf s /\ lenc_ok s' /\ cap s' = cap s /\
                  (lenN (buf s) < 4 \/ exists l, lenc s' = Some l /\ lenN (buf s) < l)
  end.
Proof.
  intros Hl Hf Hr Hb.
  destruct (N.ltb_spec (lenN (buf s)) 4) as [Hn|Hn].
  { unfold next_message. rewrite llen_spec. destruct (N.ltb_spec (lenN (buf s)) 4); [|lia].
    repeat split; auto. }
  destruct (N.leb_spec (hdr (buf s)) (lenN (buf s))) as [Hc|Hc].
  - (* a frame is announced as complete: it is the next undelivered one *)
    destruct todo as [|f todo'].
    + exfalso. cbn [concat app] in Hb. subst rest. unfold incomplete in Hr.
      fold (hdr (buf s ++ X)) in Hr. rewrite lenN_app, hdr_app in Hr by assumption. lia.
    + cbn [concat] in Hb. rewrite <- app_assoc in Hb.
      inversion Hf as [|f' t' Hok Hf']; subst f' t'. pose proof Hok as [H4 Hh]. fold (hdr f) in Hh.
      assert (Hhf : hdr (buf s) = lenN f).
      { rewrite <- (hdr_app (buf s) X) by assumption. rewrite Hb. rewrite hdr_app by assumption. exact Hh. }
      destruct (app_eq_app_le (buf s) X f (concat todo' ++ rest) Hb) as [b' [E1 E2]].
      { unfold lenN in *. lia. }
      rewrite (next_complete s f b' Hl E1 Hok).
      exists todo'. cbn [buf lenc cap]. repeat split; auto.
  - unfold next_message. rewrite llen_spec. destruct (N.ltb_spec (lenN (buf s)) 4); [lia|].
    rewrite (next_len s Hl Hn).
    destruct (N.leb_spec (hdr (buf s)) (lenN (buf s))); [lia|].
    cbn [buf lenc cap]. split; [reflexivity|]. split; [|split; [reflexivity|]].
    + unfold lenc_ok; cbn [buf lenc]. auto.
    + right. eexists; split; [reflexivity|assumption].
Qed.

(* ---------- spare / written / extend do not touch the content ---------- *)
Lemma reserve_buf room a s : buf (reserve room a s) = buf s /\ lenc (reserve room a s) = lenc s.
Proof. split; reflexivity. Qed.
Lemma reserve_for_len_buf room l s :
  buf (reserve_for_len room l s) = buf s /\ lenc (reserve_for_len room l s) = lenc s.
Proof. unfold reserve_for_len. destruct (cap s <? l); split; reflexivity. Qed.
Lemma fallback_buf room s : buf (fallback room s) = buf s /\ lenc (fallback room s) = lenc s.
Proof. unfold fallback. destruct (cap s =? llen (buf s)); split; reflexivity. Qed.
Lemma spare_prep_buf sh room s :
  buf (spare_prep sh room s) = buf s /\ lenc (spare_prep sh room s) = lenc s.
Proof.
  unfold spare_prep, reserve_for_len, fallback.
  destruct sh; destruct (lenc s) as [l|] eqn:El;
    repeat match goal with |- context [if ?c then _ else _] => destruct c end;
    cbn [reserve buf lenc]; rewrite ?El; split; reflexivity.
Qed.
Lemma lenc_ok_same s s' : buf s' = buf s -> lenc s' = lenc s -> lenc_ok s -> lenc_ok s'.
Proof. unfold lenc_ok. intros -> ->. auto. Qed.

(* ---------- the main induction ---------- *)
Lemma run_inv sh : forall ops s todo rest X,
  lenc_ok s -> Forall frame_ok todo -> incomplete rest ->
  buf s ++ snd (snd (run sh ops s)) ++ X = concat todo ++ rest ->
  exists todo',
    todo = fst (snd (run sh ops s)) ++ todo' /\
    lenc_ok (fst (run sh ops s)) /\
    buf (fst (run sh ops s)) ++ X = concat todo' ++ rest /\
    concat (fst (snd (run sh ops s))) ++ buf (fst (run sh ops s)) = buf s ++ snd (snd (run sh ops s)).
Proof.
  induction ops as [|o ops IH]; intros s todo rest X Hl Hf Hr Hb.
  - cbn [run fst snd concat app] in *. exists todo. rewrite app_nil_r. auto.
  - cbn [run] in *.
    destruct (step sh o s) as [s1 ob] eqn:Es.
    destruct (run sh ops s1) as [s2 [ms fd]] eqn:Er.
    cbn [fst snd] in *.
    assert (IH' := fun todo X Hl Hf Hb => IH s1 todo rest X Hl Hf Hr Hb). rewrite Er in IH'.
    cbn [fst snd] in IH'. clear IH.
    destruct o as [room bs|room|bs|]; cbn [step fed_by] in *.
    + (* extend_from_slice *)
      inversion Es; subst s1 ob; clear Es. cbn [msg_of app].
      destruct (IH' todo X) as [todo' [E1 [E2 [E3 E4]]]].
      { apply lenc_ok_feed; assumption. } { assumption. }
      { cbn [extend buf]. rewrite <- app_assoc. rewrite <- app_assoc in Hb. exact Hb. }
      exists todo'. repeat split; auto. rewrite E4. cbn [extend buf]. rewrite <- app_assoc. reflexivity.
    + (* spare_capacity_mut *)
      unfold spare in Es. inversion Es; subst s1 ob; clear Es. cbn [msg_of app] in *.
      destruct (spare_prep_buf sh room s) as [Eb El].
      destruct (IH' todo X) as [todo' [E1 [E2 [E3 E4]]]].
      { eapply lenc_ok_same; eauto. } { assumption. } { rewrite Eb. exact Hb. }
      exists todo'. repeat split; auto. rewrite E4, Eb. reflexivity.
    + (* bytes_written *)
      destruct (written bs s) as [s'|] eqn:Ew.
      * unfold written in Ew. destruct (llen bs <=? room_of s); [|discriminate].
        inversion Ew; subst s'; clear Ew. inversion Es; subst s1 ob; clear Es. cbn [msg_of app].
        destruct (IH' todo X) as [todo' [E1 [E2 [E3 E4]]]].
        { apply lenc_ok_feed; assumption. } { assumption. }
        { cbn [written_unchecked buf]. rewrite <- app_assoc. rewrite <- app_assoc in Hb. exact Hb. }
        exists todo'. repeat split; auto. rewrite E4. cbn [written_unchecked buf].
        rewrite <- app_assoc. reflexivity.
      * inversion Es; subst s1 ob; clear Es. cbn [msg_of app] in *.
        apply IH'; auto.
    + (* next_message *)
      cbn [app] in Hb.
      pose proof (next_sound s todo rest (fd ++ X) Hl Hf Hr Hb) as Hn.
      destruct (next_message s) as [s' [m|]]; inversion Es; subst s1 ob; clear Es; cbn [msg_of app].
      * destruct Hn as [todo1 [E0 [E1 [E2 [E3 _]]]]]. subst todo.
        inversion Hf as [|f' t' Hok Hf']; subst f' t'.
        destruct (IH' todo1 X) as [todo' [F1 [F2 [F3 F4]]]]; auto.
        { unfold lenc_ok. rewrite E2. exact I. }
        exists todo'. repeat split; auto.
        -- rewrite F1. reflexivity.
        -- cbn [concat]. rewrite <- app_assoc, F4, E3, <- app_assoc. reflexivity.
      * destruct Hn as [E1 [E2 [E3 _]]].
        destruct (IH' todo X) as [todo' [F1 [F2 [F3 F4]]]]; auto.
        { rewrite E1. exact Hb. }
        exists todo'. repeat split; auto. rewrite F4, E1. reflexivity.
Qed.

(* ---------- draining ---------- *)
Lemma drain_spec : forall todo fuel s rest,
  lenc_ok s -> Forall frame_ok todo -> incomplete rest -> buf s = concat todo ++ rest ->
  (length todo < fuel)%nat ->
  exists s', drain fuel s = (s', todo) /\ buf s' = rest /\ lenc_ok s' /\
             (lenN rest < 4 \/ exists l, lenc s' = Some l /\ lenN rest < l) /\
             cap s' = cap s - lenN (concat todo).
Proof.
  induction todo as [|f todo IH]; intros fuel s rest Hl Hf Hr Hb Hfu;
    (destruct fuel as [|fuel]; [cbn in Hfu; lia|]); cbn [drain].
  - pose proof (next_sound s [] rest [] Hl Hf Hr) as Hn. rewrite app_nil_r in Hn.
    specialize (Hn Hb). destruct (next_message s) as [s' [m|]].
    + destruct Hn as [t [C _]]. discriminate.
    + destruct Hn as [E1 [E2 [E3 E4]]]. exists s'. cbn [concat app] in Hb.
      rewrite E1, Hb in *. unfold lenN at 3; cbn [concat length]. repeat split; auto. lia.
  - inversion Hf as [|f' t' Hok Hf']; subst f' t'. cbn [concat] in Hb. rewrite <- app_assoc in Hb.
    rewrite (next_complete s f _ Hl Hb Hok).
    destruct (IH fuel (mkPk (concat todo ++ rest) None (cap s - lenN f)) rest) as [s' [E1 [E2 [E3 [E4 E5]]]]];
      auto; try exact I.
    { cbn [length] in Hfu. lia. }
    rewrite E1. exists s'. repeat split; auto. cbn [cap] in E5. cbn [concat]. rewrite lenN_app. lia.
Qed.

Lemma frames_count todo : Forall frame_ok todo -> (length todo <= length (concat todo))%nat.
Proof.
  induction 1 as [|f t [H4 _] _ IH]; cbn [concat length]; [lia|].
  rewrite app_length. unfold lenN in H4. lia.
Qed.

Lemma drain_all_spec s todo rest :
  lenc_ok s -> Forall frame_ok todo -> incomplete rest -> buf s = concat todo ++ rest ->
  exists s', drain_all s = (s', todo) /\ buf s' = rest /\ lenc_ok s' /\
             (lenN rest < 4 \/ exists l, lenc s' = Some l /\ lenN rest < l) /\
             cap s' = cap s - lenN (concat todo).
Proof.
  intros Hl Hf Hr Hb. unfold drain_all. apply drain_spec; auto.
  rewrite Hb, app_length. pose proof (frames_count todo Hf). lia.
Qed.

(* ---------- run over a split operation list ---------- *)
Lemma run_app sh : forall ops1 ops2 s,
  run sh (ops1 ++ ops2) s =
  (fst (run sh ops2 (fst (run sh ops1 s))),
   (fst (snd (run sh ops1 s)) ++ fst (snd (run sh ops2 (fst (run sh ops1 s)))),
    snd (snd (run sh ops1 s)) ++ snd (snd (run sh ops2 (fst (run sh ops1 s)))))).
Proof.
  induction ops1 as [|o ops1 IH]; intros ops2 s; cbn [app run].
  - cbn [fst snd app]. destruct (run sh ops2 s) as [s2 [m f]]. reflexivity.
  - destruct (step sh o s) as [s1 ob]. rewrite IH.
    destruct (run sh ops1 s1) as [s2 [ms fd]]. cbn [fst snd].
    rewrite <- !app_assoc. reflexivity.
Qed.

(* ---------- the framing theorems ---------- *)
Theorem frames_prefix sh ops fs rest :
  Forall frame_ok fs -> incomplete rest ->
  snd (snd (run sh ops pk_new)) = concat fs ++ rest ->
  fst (snd (run sh ops pk_new)) ++ snd (drain_all (fst (run sh ops pk_new))) = fs /\
  buf (fst (drain_all (fst (run sh ops pk_new)))) = rest.
Proof.
  intros Hf Hr Hb.
  destruct (run_inv sh ops pk_new fs rest [] lenc_ok_new Hf Hr) as [todo' [E1 [E2 [E3 E4]]]].
  { cbn [pk_new buf app]. rewrite app_nil_r. exact Hb. }
  rewrite app_nil_r in E3.
  assert (Hf' : Forall frame_ok todo').
  { rewrite E1 in Hf. apply Forall_app in Hf. tauto. }
  destruct (drain_all_spec _ todo' rest E2 Hf' Hr E3) as [s' [D1 [D2 _]]].
  rewrite D1. cbn [fst snd]. split; [symmetry; exact E1|exact D2].
Qed.

Theorem frames_exact sh ops fs :
  Forall frame_ok fs ->
  snd (snd (run sh ops pk_new)) = concat fs ->
  fst (snd (run sh ops pk_new)) ++ snd (drain_all (fst (run sh ops pk_new))) = fs /\
  buf (fst (drain_all (fst (run sh ops pk_new)))) = [].
Proof.
  intros Hf Hb. apply frames_prefix; auto.
  - left. unfold lenN; cbn. lia.
  - rewrite app_nil_r. exact Hb.
Qed.

(* at every point of the run: the frames returned so far are the first k frames of the stream,
   and their bytes followed by the buffer are exactly the bytes fed so far *)
Theorem only_complete sh ops1 ops2 fs rest :
  Forall frame_ok fs -> incomplete rest ->
  snd (snd (run sh (ops1 ++ ops2) pk_new)) = concat fs ++ rest ->
  (exists k, fst (snd (run sh ops1 pk_new)) = firstn k fs) /\
  concat (fst (snd (run sh ops1 pk_new))) ++ buf (fst (run sh ops1 pk_new)) = snd (snd (run sh ops1 pk_new)).
Proof.
  intros Hf Hr Hb. rewrite run_app in Hb. cbn [fst snd] in Hb.
  destruct (run_inv sh ops1 pk_new fs rest
              (snd (snd (run sh ops2 (fst (run sh ops1 pk_new))))) lenc_ok_new Hf Hr)
    as [todo' [E1 [E2 [E3 E4]]]].
  { cbn [pk_new buf app]. exact Hb. }
  split.
  - exists (length (fst (snd (run sh ops1 pk_new)))). rewrite E1.
    rewrite firstn_app, Nat.sub_diag, firstn_all. cbn [firstn]. rewrite app_nil_r. reflexivity.
  - rewrite E4. reflexivity.
Qed.

(* ---------- capacity ---------- *)
Lemma min_pos : 0 < MIN_RESERVE_CAPACITY.
Proof. reflexivity. Qed.
Lemma min_le_max : MIN_RESERVE_CAPACITY <= MAX_RESERVE_CAPACITY.
Proof. discriminate. Qed.
Lemma clamp_ge x : MIN_RESERVE_CAPACITY <= clamp x MIN_RESERVE_CAPACITY MAX_RESERVE_CAPACITY.
Proof.
  pose proof min_le_max. unfold clamp.
  destruct (N.ltb_spec x MIN_RESERVE_CAPACITY); [lia|].
  destruct (N.ltb_spec MAX_RESERVE_CAPACITY x); lia.
Qed.

Lemma spare_prep_cap_ok sh room s : cap_ok s -> cap_ok (spare_prep sh room s).
Proof.
  unfold cap_ok. intros H.
  assert (R : forall a s0, lenN (buf (reserve room a s0)) <= cap (reserve room a s0)).
  { intros; cbn [reserve buf cap]. rewrite llen_spec. lia. }
  assert (RL : forall l s0, lenN (buf s0) <= cap s0 ->
            lenN (buf (reserve_for_len room l s0)) <= cap (reserve_for_len room l s0)).
  { intros l s0 H0. unfold reserve_for_len. destruct (cap s0 <? l); [apply R|exact H0]. }
  assert (FB : forall s0, lenN (buf s0) <= cap s0 ->
            lenN (buf (fallback room s0)) <= cap (fallback room s0)).
  { intros s0 H0. unfold fallback. destruct (cap s0 =? llen (buf s0)); [apply R|exact H0]. }
  destruct sh; cbn [spare_prep]; destruct (lenc s); auto.
  destruct (cap s <? n); auto.
Qed.

Lemma step_cap_ok sh o s : cap_ok s -> lenc_ok s -> cap_ok (fst (step sh o s)).
Proof.
  intros H Hl. destruct o as [room bs|room|bs|]; cbn [step].
  - cbn [fst]. unfold cap_ok; cbn [extend buf cap]. rewrite !llen_spec, lenN_app. lia.
  - unfold spare. cbn [fst]. apply spare_prep_cap_ok. exact H.
  - unfold written, room_of. rewrite !llen_spec.
    destruct (N.leb_spec (lenN bs) (cap s - lenN (buf s))); cbn [fst]; [|exact H].
    unfold cap_ok in *; cbn [written_unchecked buf cap]. rewrite lenN_app. lia.
  - unfold next_message. rewrite llen_spec.
    destruct (N.ltb_spec (lenN (buf s)) 4) as [|Hn]; [exact H|].
    rewrite (next_len s Hl Hn).
    destruct (N.leb_spec (hdr (buf s)) (lenN (buf s))) as [Hc|Hc]; [|exact H].
    rewrite split_at_spec. cbn [fst]. unfold cap_ok in *; cbn [buf cap].
    unfold lenN in *. rewrite skipn_length. lia.
Qed.

Lemma step_lenc_ok sh o s : lenc_ok s -> lenc_ok (fst (step sh o s)).
Proof.
  intros Hl. destruct o as [room bs|room|bs|]; cbn [step].
  - cbn [fst]. apply lenc_ok_feed. exact Hl.
  - unfold spare. cbn [fst]. destruct (spare_prep_buf sh room s). eapply lenc_ok_same; eauto.
  - unfold written. destruct (llen bs <=? room_of s); cbn [fst]; [|exact Hl].
    apply lenc_ok_feed. exact Hl.
  - unfold next_message. rewrite llen_spec.
    destruct (N.ltb_spec (lenN (buf s)) 4) as [|Hn]; [exact Hl|].
    rewrite (next_len s Hl Hn).
    destruct (N.leb_spec (hdr (buf s)) (lenN (buf s))) as [Hc|Hc].
    + destruct (split_at _ _). exact I.
    + cbn [fst]. unfold lenc_ok; cbn [buf lenc]. auto.
Qed.

Definition reachable (sh : spare_shape) (s : pk) : Prop :=
  exists ops, fst (run sh ops pk_new) = s.

Lemma run_ok sh : forall ops s, cap_ok s -> lenc_ok s ->
  cap_ok (fst (run sh ops s)) /\ lenc_ok (fst (run sh ops s)).
Proof.
  induction ops as [|o ops IH]; intros s Hc Hl; cbn [run]; [auto|].
  pose proof (step_cap_ok sh o s Hc Hl). pose proof (step_lenc_ok sh o s Hl).
  destruct (step sh o s) as [s1 ob]. cbn [fst] in *.
  specialize (IH s1 H H0). destruct (run sh ops s1) as [s2 [ms fd]]. exact IH.
Qed.
Lemma reachable_ok sh s : reachable sh s -> cap_ok s /\ lenc_ok s.
Proof. intros [ops <-]. apply run_ok; [apply cap_ok_new|apply lenc_ok_new]. Qed.

(* the slice is non-empty whenever the capacity==len fallback is applied on every path *)
Lemma spare_nonempty_fixed sh room s :
  sh <> ShapeOrig -> cap_ok s -> 0 < snd (spare sh room s).
Proof.
  intros Hs Hc. unfold spare, room_of. cbn [snd]. unfold cap_ok in Hc.
  pose proof min_pos as Hm.
  destruct (spare_prep_buf sh room s) as [Eb _]. rewrite Eb, llen_spec.
  assert (R : forall a s0, 0 < a -> lenN (buf s0) < cap (reserve room a s0)).
  { intros a s0 Ha. cbn [reserve cap]. rewrite llen_spec. lia. }
  assert (FB : forall s0, lenN (buf s0) <= cap s0 -> lenN (buf s0) < cap (fallback room s0)).
  { intros s0 H0. unfold fallback. rewrite llen_spec.
    destruct (N.eqb_spec (cap s0) (lenN (buf s0))); [apply R; exact Hm|lia]. }
  enough (lenN (buf s) < cap (spare_prep sh room s)) by lia.
  destruct sh; [congruence| |]; cbn [spare_prep].
  - destruct (lenc s) as [l|]; [|apply FB; exact Hc].
    destruct (reserve_for_len_buf room l s) as [Eb' _]. rewrite <- Eb'. apply FB.
    rewrite Eb'. unfold reserve_for_len. destruct (cap s <? l); [|exact Hc].
    cbn [reserve cap]. rewrite llen_spec. lia.
  - destruct (lenc s) as [l|]; [|apply FB; exact Hc].
    destruct (N.ltb_spec (cap s) l) as [Hl|Hl]; [|apply FB; exact Hc].
    unfold reserve_for_len. destruct (N.ltb_spec (cap s) l); [|lia].
    apply R. pose proof (clamp_ge (l - llen (buf s))). lia.
Qed.

(* ... and, for every shape, whenever the caller has drained the packetizer first (the
   discipline of TokioTransport::receive_poll) *)
Definition drained (s : pk) : Prop :=
  lenN (buf s) < 4 \/ exists l, lenc s = Some l /\ lenN (buf s) < l.

Lemma spare_nonempty_drained sh room s :
  cap_ok s -> lenc_ok s -> drained s -> 0 < snd (spare sh room s).
Proof.
  intros Hc Hl Hd. destruct sh; [|apply spare_nonempty_fixed; [discriminate|exact Hc] ..].
  unfold spare, room_of. cbn [snd spare_prep]. unfold cap_ok in Hc. unfold lenc_ok in Hl.
  pose proof min_pos as Hm.
  destruct (lenc s) as [l|] eqn:El.
  - destruct Hd as [Hd|[l' [E Hd]]]; [lia|]. rewrite El in E. injection E as <-.
    unfold reserve_for_len. destruct (N.ltb_spec (cap s) l).
    + cbn [reserve buf cap]. rewrite !llen_spec.
      pose proof (clamp_ge (l - lenN (buf s))). lia.
    + rewrite llen_spec. lia.
  - unfold fallback. rewrite llen_spec.
    destruct (N.eqb_spec (cap s) (lenN (buf s))).
    + cbn [reserve buf cap]. rewrite !llen_spec. lia.
    + rewrite llen_spec. lia.
Qed.

Lemma next_none_drained s :
  lenc_ok s -> snd (next_message s) = None -> drained (fst (next_message s)).
Proof.
  intros Hl. unfold next_message, drained. rewrite llen_spec.
  destruct (N.ltb_spec (lenN (buf s)) 4) as [Hn|Hn]; [cbn [fst snd]; auto|].
  rewrite (next_len s Hl Hn).
  destruct (N.leb_spec (hdr (buf s)) (lenN (buf s))) as [Hc|Hc].
  - destruct (split_at _ _). cbn [snd]. discriminate.
  - cbn [fst snd buf lenc]. intros _. right. eexists; split; [reflexivity|exact Hc].
Qed.

(* the faithful model of the code as found (ShapeOrig) refutes non-emptiness: a complete frame
   is buffered, len == capacity, and a length is cached *)
Definition refute_ops : list op := [OExt 4 [8;0;0;0]; ONext; OExt 0 [1;2;3;4]].
Lemma spare_nonempty_refuted :
  exists s room, reachable ShapeOrig s /\ snd (spare ShapeOrig room s) = 0 /\
                 snd (drain_all s) = [[8;0;0;0;1;2;3;4]].
Proof.
  exists (fst (run ShapeOrig refute_ops pk_new)), 0. split; [exists refute_ops; reflexivity|].
  split; vm_compute; reflexivity.
Qed.

(* the same through the second input interface alone: fill the first 64 KiB slice completely *)
Definition refute_ops2 : list op :=
  [OSpare 0; OWr [0;0;1;0]; ONext; OSpare 0; OWr (repeat 7 (N.to_nat 65532))].
Lemma spare_nonempty_refuted2 :
  snd (spare ShapeOrig 0 (fst (run ShapeOrig refute_ops2 pk_new))) = 0 /\
  map (fun o => match o with OWr _ => true | _ => false end) refute_ops2 = [false; true; false; false; true].
Proof. split; vm_compute; reflexivity. Qed.

Lemma spare_dichotomy (sh : spare_shape) :
  match sh with
  | ShapeOrig => exists s room, reachable sh s /\ snd (spare sh room s) = 0
  | _ => forall s room, reachable sh s -> 0 < snd (spare sh room s)
  end.
Proof.
  destruct sh.
  - destruct spare_nonempty_refuted as [s [room [H1 [H2 _]]]]. exists s, room. auto.
  - intros s room H. apply spare_nonempty_fixed; [discriminate|apply reachable_ok in H; tauto].
  - intros s room H. apply spare_nonempty_fixed; [discriminate|apply reachable_ok in H; tauto].
Qed.
