(* Stream/Tokio.v — executable model of core/src/tokio.rs (TokioTransport) over a scripted I/O
   object, and of core/src/transport/buffered.rs (Buffered) in front of it (property C14).

   The I/O object `T: AsyncRead + AsyncWrite` is a pair of scripts: every poll_read consumes the
   head of [rscript], every poll_write and poll_flush the head of [wscript]; an exhausted script
   answers Pending.  [ReadOk bs]: up to |bs| bytes are available; the reader copies as many as fit
   into the ReadBuf and keeps the others for the next poll_read (a short read); [ReadOk []] is
   end-of-stream.  [WriteOk n]: the writer accepts min(n, buf.len()) bytes (short write; n = 0 is
   the zero-length write); for poll_flush [WriteOk _] means Ready(Ok(())).
   Messages are their serialized frames (Message::serialize_message / deserialize_message are the
   C08 model); a received frame is reported as its bytes.
   Every function returns the new state, the poll result, and the bytes that crossed the I/O
   object in this call (consumed from the reader / accepted by the writer). *)
From Aldrin Require Import Codec.Base gen.StreamConsts Stream.Packetizer.
Open Scope N_scope.

Inductive rres := ReadOk (bs : list N) | ReadPending | ReadErr (k : N).
Inductive wres := WriteOk (n : N) | WritePending | WriteErr (k : N).
(* TokioTransportError::Io(e): an error of the I/O object (kind k), or one the transport makes *)
Inductive terr := EIo (k : N) | EUnexpectedEof | EWriteZero.
(* Poll<Result<A, TokioTransportError>>, a panic (the packetizer's debug_assert), out of fuel *)
Inductive poll (A : Type) := PReady (a : A) | PErr (e : terr) | PPending | PPanic | PFuel.
Arguments PReady {A} a.
Arguments PErr {A} e.
Arguments PPending {A}.
Arguments PPanic {A}.
Arguments PFuel {A}.

Record tk := mkTk { pz : pk; wbuf : list N; rscript : list rres; wscript : list wres }.

(* TokioTransport::new: write_buf = BytesMut::with_capacity(INITIAL_CAPACITY), empty *)
Definition tk_new (r : list rres) (w : list wres) : tk := mkTk pk_new [] r w.

Definition script_bytes (rs : list rres) : nat :=
  fold_right (fun r acc => match r with ReadOk bs => (length bs + acc)%nat | _ => acc end) 0%nat rs.
Definition script_data (rs : list rres) : list N :=
  concat (map (fun r => match r with ReadOk bs => bs | _ => [] end) rs).

(* receive_poll: `loop { next_message?; spare_capacity_mut; poll_read; bytes_written }`.
   [rooms]: the spare room chosen by BytesMut::reserve in each spare_capacity_mut call. *)
Fixpoint receive_poll (sh : spare_shape) (fuel : nat) (rooms : list N) (t : tk)
  : tk * poll (list N) * list N :=
  match fuel with
  | O => (t, PFuel, [])
  | S f =>
      let '(p1, m) := next_message (pz t) in
      match m with
      | Some frame => (mkTk p1 (wbuf t) (rscript t) (wscript t), PReady frame, [])
      | None =>
          let '(p2, k) := spare sh (hd 0 rooms) p1 in
          if spare_asserts k then (mkTk p2 (wbuf t) (rscript t) (wscript t), PPanic, []) else
          match rscript t with
          | [] => (mkTk p2 (wbuf t) [] (wscript t), PPending, [])
          | ReadPending :: rs => (mkTk p2 (wbuf t) rs (wscript t), PPending, [])
          | ReadErr e :: rs => (mkTk p2 (wbuf t) rs (wscript t), PErr (EIo e), [])
          | ReadOk bs :: rs =>
              let '(now, later) := split_at k bs in
              let rs' := match later with [] => rs | _ :: _ => ReadOk later :: rs end in
              match now with
              | [] => (mkTk p2 (wbuf t) rs' (wscript t), PErr EUnexpectedEof, [])
              | _ :: _ =>
                  let '(t', r, c) :=
                    receive_poll sh f (tl rooms)
                      (mkTk (written_unchecked now p2) (wbuf t) rs' (wscript t)) in
                  (t', r, now ++ c)
              end
          end
      end
  end.
(* enough fuel: every further iteration consumes at least one byte of the script *)
Definition recv_fuel (t : tk) : nat := S (script_bytes (rscript t)).

(* send_start with the serialized message [m]:
   `if write_buf.is_empty() { write_buf = msg } else { write_buf.extend_from_slice(&msg) }` *)
Definition send_start (m : list N) (t : tk) : tk :=
  mkTk (pz t) (match wbuf t with [] => m | _ :: _ => wbuf t ++ m end) (rscript t) (wscript t).

(* io.poll_flush *)
Definition io_flush (w : list wres) : list wres * poll unit :=
  match w with
  | [] => ([], PPending)
  | WriteOk _ :: w' => (w', PReady tt)
  | WritePending :: w' => (w', PPending)
  | WriteErr k :: w' => (w', PErr (EIo k))
  end.

(* `while !write_buf.is_empty() { poll_write; advance }` then `io.poll_flush` *)
Fixpoint flush_loop (w : list wres) (wb : list N) {struct w}
  : list wres * list N * poll unit * list N :=
  match wb with
  | [] => let '(w', r) := io_flush w in (w', [], r, [])
  | _ :: _ =>
      match w with
      | [] => ([], wb, PPending, [])
      | WriteOk n :: w' =>
          if n =? 0 then (w', wb, PErr EWriteZero, []) else
          let '(a, b) := split_at n wb in
          let '(w'', wb', r, out) := flush_loop w' b in
          (w'', wb', r, a ++ out)
      | WritePending :: w' => (w', wb, PPending, [])
      | WriteErr k :: w' => (w', wb, PErr (EIo k), [])
      end
  end.

Definition send_poll_flush (t : tk) : tk * poll unit * list N :=
  let '(w', wb', r, out) := flush_loop (wscript t) (wbuf t) in
  (mkTk (pz t) wb' (rscript t) w', r, out).

Definition send_poll_ready (t : tk) : tk * poll unit * list N :=
  if BACKPRESSURE_BOUNDARY <=? llen (wbuf t) then send_poll_flush t else (t, PReady tt, []).

(* ---- operation sequences on the transport ---- *)
Inductive top := TRecv (rooms : list N) | TSend (m : list N) | TReady | TFlush.
Inductive tobs := TObsRecv (r : poll (list N)) | TObsSend | TObsPoll (r : poll unit).

(* new state, observation, bytes consumed from the reader, bytes accepted by the writer *)
Definition tstep (sh : spare_shape) (o : top) (t : tk) : tk * tobs * list N * list N :=
  match o with
  | TRecv rooms => let '(t', r, c) := receive_poll sh (recv_fuel t) rooms t in (t', TObsRecv r, c, [])
  | TSend m => (send_start m t, TObsSend, [], [])
  | TReady => let '(t', r, out) := send_poll_ready t in (t', TObsPoll r, [], out)
  | TFlush => let '(t', r, out) := send_poll_flush t in (t', TObsPoll r, [], out)
  end.

Fixpoint trun (sh : spare_shape) (ops : list top) (t : tk) : tk * list tobs * list N * list N :=
  match ops with
  | [] => (t, [], [], [])
  | o :: r =>
      let '(t1, ob, c1, o1) := tstep sh o t in
      let '(t2, obs, c2, o2) := trun sh r t1 in
      (t2, ob :: obs, c1 ++ c2, o1 ++ o2)
  end.

Definition sent_of (ops : list top) : list N :=
  concat (map (fun o => match o with TSend m => m | _ => [] end) ops).
Definition recv_frames (obs : list tobs) : list (list N) :=
  concat (map (fun o => match o with TObsRecv (PReady f) => [f] | _ => [] end) obs).

(* ---- Buffered<TokioTransport>: a queue of messages in front of the transport ---- *)
Record bf := mkBf { inner : tk; queue : list (list N) }.
Definition bf_new (r : list rres) (w : list wres) : bf := mkBf (tk_new r w) [].

Definition b_receive_poll sh fuel rooms (b : bf) : bf * poll (list N) * list N :=
  let '(t', r, c) := receive_poll sh fuel rooms (inner b) in (mkBf t' (queue b), r, c).
Definition b_send_poll_ready (b : bf) : bf * poll unit * list N := (b, PReady tt, []).
Definition b_send_start (m : list N) (b : bf) : bf := mkBf (inner b) (queue b ++ [m]).

(* `while !buffer.is_empty() { inner.send_poll_ready?; pop_front; inner.send_start }` then
   `inner.send_poll_flush` *)
Fixpoint b_flush_loop (q : list (list N)) (t : tk) : bf * poll unit * list N :=
  match q with
  | [] => let '(t', r, out) := send_poll_flush t in (mkBf t' [], r, out)
  | m :: q' =>
      let '(t1, r, out) := send_poll_ready t in
      match r with
      | PReady _ =>
          let '(b', r', out') := b_flush_loop q' (send_start m t1) in (b', r', out ++ out')
      | _ => (mkBf t1 q, r, out)
      end
  end.
Definition b_send_poll_flush (b : bf) : bf * poll unit * list N := b_flush_loop (queue b) (inner b).

Inductive bop := BSend (m : list N) | BReady | BFlush.
Definition bstep (o : bop) (b : bf) : bf * option (poll unit) * list N :=
  match o with
  | BSend m => (b_send_start m b, None, [])
  | BReady => let '(b', r, out) := b_send_poll_ready b in (b', Some r, out)
  | BFlush => let '(b', r, out) := b_send_poll_flush b in (b', Some r, out)
  end.
Fixpoint brun (ops : list bop) (b : bf) : bf * list (option (poll unit)) * list N :=
  match ops with
  | [] => (b, [], [])
  | o :: r =>
      let '(b1, ob, o1) := bstep o b in
      let '(b2, obs, o2) := brun r b1 in
      (b2, ob :: obs, o1 ++ o2)
  end.
Definition bsent_of (ops : list bop) : list N :=
  concat (map (fun o => match o with BSend m => m | _ => [] end) ops).
