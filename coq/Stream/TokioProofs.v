(* Stream/TokioProofs.v — TokioTransport and Buffered over every I/O script (C14, transport part).
   Receive side: every receive_poll is a run of packetizer operations (next / spare / written),
   so the framing theorems of PacketizerProofs.v transfer.  Send side: "accepted ++ write_buf =
   everything passed to send_start" is an invariant. *)
From Aldrin Require Import Codec.Base Codec.BaseProofs gen.StreamConsts Stream.Packetizer
  Stream.PacketizerProofs Stream.Tokio.
From Coq Require Import ZifyBool ZifyNat ZifyN.
Open Scope N_scope.
Arguments N.add : simpl never.
Arguments N.sub : simpl never.
Arguments N.mul : simpl never.
Arguments N.ltb : simpl never.
Arguments N.leb : simpl never.
Arguments N.eqb : simpl never.
Arguments N.max : simpl never.
Arguments N.min : simpl never.

(* ================= send side ================= *)

Lemma split_at_app_eq n l a b : split_at n l = (a, b) -> a ++ b = l.
Proof. rewrite split_at_spec. intros E; inversion E; subst. apply firstn_skipn. Qed.

Lemma flush_loop_out : forall w wb w' wb' r out,
  flush_loop w wb = (w', wb', r, out) -> out ++ wb' = wb.
Proof.
  induction w as [|x w IH]; intros wb w' wb' r out E; destruct wb as [|b0 wb0]; cbn [flush_loop] in E.
  - cbn in E. inversion E; reflexivity.
  - inversion E; reflexivity.
  - destruct (io_flush (x :: w)) as [w1 r1]. inversion E; reflexivity.
  - destruct x as [n| |k]; try (inversion E; reflexivity).
    destruct (n =? 0); [inversion E; reflexivity|].
    destruct (split_at n (b0 :: wb0)) as [a b] eqn:Es.
    destruct (flush_loop w b) as [[[w2 wb2] r2] out2] eqn:Er. inversion E; subst.
    rewrite <- app_assoc, (IH _ _ _ _ _ Er). eapply split_at_app_eq; eassumption.
Qed.

(* Ready(Ok) only with an empty write buffer and after the I/O object's flush answered Ok *)
Lemma flush_loop_ready : forall w wb w' wb' out,
  flush_loop w wb = (w', wb', PReady tt, out) ->
  wb' = [] /\ out = wb /\ exists pre n, w = pre ++ WriteOk n :: w'.
Proof.
  assert (H : forall w wb w' wb' out, flush_loop w wb = (w', wb', PReady tt, out) ->
              wb' = [] /\ exists pre n, w = pre ++ WriteOk n :: w').
  { induction w as [|x w IH]; intros wb w' wb' out E; destruct wb as [|b0 wb0]; cbn [flush_loop] in E.
    - cbn in E. inversion E.
    - inversion E.
    - destruct x as [n| |k]; cbn [io_flush] in E; inversion E; subst.
      split; [reflexivity|]. exists [], n. reflexivity.
    - destruct x as [n| |k]; try (inversion E; fail).
      destruct (n =? 0); [inversion E|].
      destruct (split_at n (b0 :: wb0)) as [a b] eqn:Es.
      destruct (flush_loop w b) as [[[w2 wb2] r2] out2] eqn:Er. inversion E; subst.
      destruct (IH _ _ _ _ Er) as [E1 [pre [m E2]]]. split; [exact E1|].
      exists (WriteOk n :: pre), m. rewrite E2. reflexivity. }
  intros w wb w' wb' out E. destruct (H _ _ _ _ _ E) as [E1 E2].
  pose proof (flush_loop_out _ _ _ _ _ _ E) as Eo. subst wb'. rewrite app_nil_r in Eo. auto.
Qed.

(* a zero-length write while bytes are pending is the WriteZero error ... *)
Lemma flush_loop_zero w wb : wb <> [] -> flush_loop (WriteOk 0 :: w) wb = (w, wb, PErr EWriteZero, []).
Proof. destruct wb; [congruence|reflexivity]. Qed.
(* ... and WriteZero is reported in no other situation *)
Lemma flush_loop_zero_only : forall w wb w' wb' out,
  flush_loop w wb = (w', wb', PErr EWriteZero, out) ->
  wb' <> [] /\ exists pre, w = pre ++ WriteOk 0 :: w'.
Proof.
  induction w as [|x w IH]; intros wb w' wb' out E; destruct wb as [|b0 wb0]; cbn [flush_loop] in E.
  - cbn in E. inversion E.
  - inversion E.
  - destruct x as [n| |k]; cbn [io_flush] in E; inversion E.
  - destruct x as [n| |k]; try (inversion E; fail).
    destruct (N.eqb_spec n 0) as [->|Hn].
    + inversion E; subst. split; [discriminate|]. exists []. reflexivity.
    + destruct (split_at n (b0 :: wb0)) as [a b] eqn:Es.
      destruct (flush_loop w b) as [[[w2 wb2] r2] out2] eqn:Er. inversion E; subst.
      destruct (IH _ _ _ _ Er) as [E1 [pre E2]]. split; [exact E1|].
      exists (WriteOk n :: pre). rewrite E2. reflexivity.
Qed.

Lemma send_poll_flush_out t t' r out :
  send_poll_flush t = (t', r, out) ->
  out ++ wbuf t' = wbuf t /\ pz t' = pz t /\ rscript t' = rscript t.
Proof.
  unfold send_poll_flush. destruct (flush_loop (wscript t) (wbuf t)) as [[[w' wb'] r'] out'] eqn:E.
  intros H; inversion H; subst. cbn [wbuf pz rscript]. split; [|auto].
  eapply flush_loop_out; eassumption.
Qed.
Lemma send_poll_ready_out t t' r out :
  send_poll_ready t = (t', r, out) ->
  out ++ wbuf t' = wbuf t /\ pz t' = pz t /\ rscript t' = rscript t.
Proof.
  unfold send_poll_ready. destruct (BACKPRESSURE_BOUNDARY <=? llen (wbuf t)).
  - apply send_poll_flush_out.
  - intros H; inversion H; subst. auto.
Qed.
Lemma send_start_wbuf m t : wbuf (send_start m t) = wbuf t ++ m.
Proof. unfold send_start; cbn [wbuf]. destruct (wbuf t); reflexivity. Qed.

Lemma send_poll_flush_ready t t' out :
  send_poll_flush t = (t', PReady tt, out) ->
  wbuf t' = [] /\ out = wbuf t /\ exists pre n, wscript t = pre ++ WriteOk n :: wscript t'.
Proof.
  unfold send_poll_flush. destruct (flush_loop (wscript t) (wbuf t)) as [[[w' wb'] r'] out'] eqn:E.
  intros H; inversion H; subst. cbn [wbuf wscript]. eapply flush_loop_ready; eassumption.
Qed.

(* below the boundary send_poll_ready does no I/O; at or above it, it is a flush *)
Lemma send_poll_ready_spec t :
  send_poll_ready t =
  if BACKPRESSURE_BOUNDARY <=? lenN (wbuf t) then send_poll_flush t else (t, PReady tt, []).
Proof. unfold send_poll_ready. rewrite llen_spec. reflexivity. Qed.

(* ================= receive side ================= *)

Definition frames_of_poll (r : poll (list N)) : list (list N) :=
  match r with PReady f => [f] | _ => [] end.

Lemma script_data_cons r rs :
  script_data (r :: rs) = match r with ReadOk bs => bs | _ => [] end ++ script_data rs.
Proof. reflexivity. Qed.

Lemma script_data_ok bs rs : script_data (ReadOk bs :: rs) = bs ++ script_data rs.
Proof. reflexivity. Qed.

Lemma split_at_len n l a b : split_at n l = (a, b) -> lenN a <= n.
Proof.
  rewrite split_at_spec. intros E; inversion E; subst. unfold lenN. rewrite firstn_length. lia.
Qed.

(* one receive_poll is a run of packetizer operations; nothing else of the transport changes *)
Lemma recv_as_run sh : forall fuel rooms t t' r c,
  receive_poll sh fuel rooms t = (t', r, c) ->
  (exists pops, run sh pops (pz t) = (pz t', (frames_of_poll r, c))) /\
  wbuf t' = wbuf t /\ wscript t' = wscript t /\
  script_data (rscript t) = c ++ script_data (rscript t').
Proof.
  induction fuel as [|fuel IH]; intros rooms t t' r c E; cbn [receive_poll] in E.
  - inversion E; subst. split; [exists []; reflexivity|auto].
  - destruct (next_message (pz t)) as [p1 m] eqn:En. destruct m as [frame|].
    { inversion E; subst. cbn [pz wbuf wscript rscript frames_of_poll app]. split; [|auto].
      exists [ONext]. cbn [run step]. rewrite En. reflexivity. }
    destruct (spare sh (hd 0 rooms) p1) as [p2 k] eqn:Es.
    assert (R2 : run sh [ONext; OSpare (hd 0 rooms)] (pz t) = (p2, ([], []))).
    { cbn [run step]. rewrite En. cbn [run step]. rewrite Es. reflexivity. }
    destruct (spare_asserts k).
    { inversion E; subst. cbn [pz wbuf wscript rscript frames_of_poll app]. split; [|auto].
      eexists; exact R2. }
    destruct (rscript t) as [|x rs] eqn:Er.
    { inversion E; subst. cbn [pz wbuf wscript rscript frames_of_poll app]. split; [|auto].
      eexists; exact R2. }
    destruct x as [bs| |e].
    + destruct (split_at k bs) as [now later] eqn:Esp.
      pose proof (split_at_app_eq _ _ _ _ Esp) as Eapp.
      set (rs' := match later with [] => rs | _ :: _ => ReadOk later :: rs end) in *.
      assert (Esd : script_data (ReadOk bs :: rs) = now ++ script_data rs').
      { rewrite script_data_ok, <- Eapp, <- app_assoc. f_equal.
        subst rs'. destruct later; [reflexivity|]. rewrite script_data_ok. reflexivity. }
      destruct now as [|n0 now0].
      * inversion E; subst. cbn [pz wbuf wscript rscript frames_of_poll app]. split; [|auto].
        eexists; exact R2.
      * destruct (receive_poll sh fuel (tl rooms)
                    (mkTk (written_unchecked (n0 :: now0) p2) (wbuf t) rs' (wscript t)))
          as [[t2 r2] c2] eqn:Erec.
        inversion E; subst t' r c; clear E.
        destruct (IH _ _ _ _ _ Erec) as [[pops Hp] [E1 [E2 E3]]]. cbn [pz wbuf wscript rscript] in *.
        split; [|split; [exact E1|split; [exact E2|]]].
        -- exists (ONext :: OSpare (hd 0 rooms) :: OWr (n0 :: now0) :: pops).
           assert (Hw : written (n0 :: now0) p2 = Some (written_unchecked (n0 :: now0) p2)).
           { unfold written. unfold spare in Es. inversion Es; subst p2 k.
             pose proof (split_at_len _ _ _ _ Esp). rewrite llen_spec.
             destruct (N.leb_spec (lenN (n0 :: now0)) (room_of (spare_prep sh (hd 0 rooms) p1)));
               [reflexivity|lia]. }
           cbn [run step]. rewrite En. cbn [run step]. rewrite Es. cbn [run step fed_by].
           rewrite Hw, Hp. reflexivity.
        -- rewrite Esd, E3, ?app_assoc. reflexivity.
    + inversion E; subst. cbn [pz wbuf wscript rscript frames_of_poll app]. split; [|auto].
      eexists; exact R2.
    + inversion E; subst. cbn [pz wbuf wscript rscript frames_of_poll app]. split; [|auto].
      eexists; exact R2.
Qed.

Lemma script_bytes_cons r rs :
  script_bytes (r :: rs) = (match r with ReadOk bs => length bs | _ => 0 end + script_bytes rs)%nat.
Proof. destruct r; reflexivity. Qed.

Definition pz_ok (t : tk) : Prop := cap_ok (pz t) /\ lenc_ok (pz t).

Lemma next_ok s : cap_ok s -> lenc_ok s ->
  cap_ok (fst (next_message s)) /\ lenc_ok (fst (next_message s)).
Proof.
  intros Hc Hl. split.
  - apply (step_cap_ok ShapeOrig ONext s Hc Hl) || (pose proof (step_cap_ok ShapeOrig ONext s Hc Hl) as H;
      cbn [step] in H; destruct (next_message s); exact H).
  - pose proof (step_lenc_ok ShapeOrig ONext s Hl) as H. cbn [step] in H.
    destruct (next_message s); exact H.
Qed.

(* with enough fuel receive_poll neither runs out of fuel nor trips the packetizer's
   debug assertion (it drains before asking for room), for every shape of spare_capacity_mut;
   a result other than Ready leaves no complete frame in the packetizer *)
Lemma recv_total sh : forall fuel rooms t t' r c,
  pz_ok t -> (script_bytes (rscript t) < fuel)%nat ->
  receive_poll sh fuel rooms t = (t', r, c) ->
  r <> PPanic /\ r <> PFuel /\ pz_ok t' /\
  (frames_of_poll r = [] -> drained (pz t')) /\
  (r = PErr EUnexpectedEof -> In (ReadOk []) (rscript t)).
Proof.
  induction fuel as [|fuel IH]; intros rooms t t' r c [Hc Hl] Hf E; [lia|].
  cbn [receive_poll] in E.
  pose proof (next_ok (pz t) Hc Hl) as [Hc1 Hl1].
  pose proof (next_none_drained (pz t) Hl) as Hd.
  destruct (next_message (pz t)) as [p1 m] eqn:En. cbn [fst snd] in *. destruct m as [frame|].
  { inversion E; subst. unfold pz_ok; cbn [pz frames_of_poll].
    repeat split; auto; try discriminate. }
  specialize (Hd eq_refl).
  pose proof (spare_nonempty_drained sh (hd 0 rooms) p1 Hc1 Hl1 Hd) as Hk.
  destruct (spare sh (hd 0 rooms) p1) as [p2 k] eqn:Es. cbn [snd] in Hk.
  assert (Hp2 : cap_ok p2 /\ lenc_ok p2 /\ drained p2 /\ k = cap p2 - lenN (buf p2)).
  { unfold spare in Es. inversion Es; subst p2 k. destruct (spare_prep_buf sh (hd 0 rooms) p1) as [Eb El].
    split; [apply spare_prep_cap_ok; exact Hc1|]. split; [eapply lenc_ok_same; eauto|].
    split; [unfold drained; rewrite Eb, El; exact Hd|]. unfold room_of. rewrite llen_spec. reflexivity. }
  destruct Hp2 as [Hc2 [Hl2 [Hd2 Hk2]]].
  unfold spare_asserts in E. destruct (N.eqb_spec k 0) as [|_]; [lia|]. rewrite andb_false_r in E.
  destruct (rscript t) as [|x rs] eqn:Er.
  { inversion E; subst. unfold pz_ok; cbn [pz]. repeat split; auto; discriminate. }
  destruct x as [bs| |e].
  - destruct (split_at k bs) as [now later] eqn:Esp.
    pose proof (split_at_app_eq _ _ _ _ Esp) as Eapp.
    pose proof (split_at_len _ _ _ _ Esp) as Elen.
    set (rs' := match later with [] => rs | _ :: _ => ReadOk later :: rs end) in *.
    destruct now as [|n0 now0].
    + assert (Hbs : bs = []).
      { rewrite split_at_spec in Esp. injection Esp as E1 E2.
        destruct bs as [|b0 bs0]; [reflexivity|].
        replace (N.to_nat k) with (S (N.to_nat (N.pred k))) in E1 by lia. discriminate. }
      clear Esp Eapp Elen. subst bs.
      inversion E; subst. unfold pz_ok; cbn [pz]. repeat split; auto; try discriminate.
      intros _. left; reflexivity.
    + destruct (receive_poll sh fuel (tl rooms)
                  (mkTk (written_unchecked (n0 :: now0) p2) (wbuf t) rs' (wscript t)))
        as [[t2 r2] c2] eqn:Erec.
      inversion E; subst t' r c; clear E.
      assert (Hsb : (script_bytes rs' + length (n0 :: now0) = script_bytes (ReadOk bs :: rs))%nat).
      { rewrite script_bytes_cons, <- Eapp, app_length. subst rs'.
        destruct later; [cbn [length]; lia|]. rewrite script_bytes_cons. lia. }
      destruct (IH _ _ _ _ _ (conj
                 (ltac:(unfold cap_ok in *; cbn [written_unchecked buf cap pz]; rewrite lenN_app; lia)
                   : cap_ok (pz (mkTk (written_unchecked (n0 :: now0) p2) (wbuf t) rs' (wscript t))))
                 (lenc_ok_feed p2 (n0 :: now0) (cap p2) Hl2))
                 ltac:(cbn [rscript]; cbn [length] in Hsb; lia) Erec)
        as [F1 [F2 [F3 [F4 F5]]]].
      split; [exact F1|split; [exact F2|split; [exact F3|split; [exact F4|]]]].
      intros Heof. specialize (F5 Heof). cbn [rscript] in F5. subst rs'.
      destruct later as [|l0 later0]; [right; exact F5|].
      destruct F5 as [C|F5]; [discriminate|right; exact F5].
  - inversion E; subst. unfold pz_ok; cbn [pz]. repeat split; auto; discriminate.
  - inversion E; subst. unfold pz_ok; cbn [pz]. repeat split; auto; discriminate.
Qed.

(* end-of-stream (a read of zero bytes) while no complete frame is buffered: UnexpectedEof *)
Lemma recv_eof sh fuel rooms t rs :
  pz_ok t -> snd (next_message (pz t)) = None -> rscript t = ReadOk [] :: rs ->
  snd (fst (receive_poll sh (S fuel) rooms t)) = PErr EUnexpectedEof.
Proof.
  intros [Hc Hl] Hn Er. cbn [receive_poll].
  pose proof (next_ok (pz t) Hc Hl) as [Hc1 Hl1].
  pose proof (next_none_drained (pz t) Hl Hn) as Hd.
  destruct (next_message (pz t)) as [p1 m]. cbn [fst snd] in *. subst m.
  pose proof (spare_nonempty_drained sh (hd 0 rooms) p1 Hc1 Hl1 Hd) as Hk.
  destruct (spare sh (hd 0 rooms) p1) as [p2 k]. cbn [snd] in Hk.
  unfold spare_asserts. destruct (N.eqb_spec k 0) as [|_]; [lia|]. rewrite andb_false_r.
  rewrite Er, split_at_spec. destruct (N.to_nat k); reflexivity.
Qed.

(* ================= operation sequences ================= *)

Lemma tstep_inv sh o t t' ob c out :
  pz_ok t -> tstep sh o t = (t', ob, c, out) ->
  pz_ok t' /\
  (exists pops, run sh pops (pz t) =
                (pz t', (match ob with TObsRecv r => frames_of_poll r | _ => [] end, c))) /\
  script_data (rscript t) = c ++ script_data (rscript t') /\
  out ++ wbuf t' = wbuf t ++ match o with TSend m => m | _ => [] end /\
  ob <> TObsRecv PPanic /\ ob <> TObsRecv PFuel.
Proof.
  intros Hok E. destruct o as [rooms|m| |]; cbn [tstep] in E.
  - destruct (receive_poll sh (recv_fuel t) rooms t) as [[t1 r] c1] eqn:Er.
    destruct (recv_as_run sh _ _ _ _ _ _ Er) as [Hp [E1 [E2 E3]]].
    destruct (recv_total sh (recv_fuel t) rooms t t1 r c1 Hok ltac:(unfold recv_fuel; lia) Er) as [F1 [F2 [F3 _]]].
    inversion E; subst.
    rewrite app_nil_r, E1. destruct F3. repeat split; auto; congruence.
  - inversion E; subst. unfold pz_ok in *. cbn [send_start pz rscript app].
    rewrite send_start_wbuf. repeat split; try tauto; try discriminate.
    exists []. reflexivity.
  - destruct (send_poll_ready t) as [[t1 r] o1] eqn:Er. inversion E; subst.
    destruct (send_poll_ready_out _ _ _ _ Er) as [E1 [E2 E3]].
    unfold pz_ok in *. rewrite E2, E3, E1, app_nil_r. cbn [app].
    repeat split; try tauto; try discriminate. exists []. reflexivity.
  - destruct (send_poll_flush t) as [[t1 r] o1] eqn:Er. inversion E; subst.
    destruct (send_poll_flush_out _ _ _ _ Er) as [E1 [E2 E3]].
    unfold pz_ok in *. rewrite E2, E3, E1, app_nil_r. cbn [app].
    repeat split; try tauto; try discriminate. exists []. reflexivity.
Qed.

Lemma run_app_eq sh ops1 ops2 s s1 d1 f1 s2 d2 f2 :
  run sh ops1 s = (s1, (d1, f1)) -> run sh ops2 s1 = (s2, (d2, f2)) ->
  run sh (ops1 ++ ops2) s = (s2, (d1 ++ d2, f1 ++ f2)).
Proof. intros E1 E2. rewrite run_app, E1. cbn [fst snd]. rewrite E2. reflexivity. Qed.

Lemma trun_inv sh : forall ops t t' obs cin wout,
  pz_ok t -> trun sh ops t = (t', obs, cin, wout) ->
  pz_ok t' /\
  (exists pops, run sh pops (pz t) = (pz t', (recv_frames obs, cin))) /\
  script_data (rscript t) = cin ++ script_data (rscript t') /\
  wout ++ wbuf t' = wbuf t ++ sent_of ops /\
  Forall (fun ob => ob <> TObsRecv PPanic /\ ob <> TObsRecv PFuel) obs.
Proof.
  induction ops as [|o ops IH]; intros t t' obs cin wout Hok E; cbn [trun] in E.
  - inversion E; subst. split; [exact Hok|]. split; [exists []; reflexivity|].
    split; [reflexivity|]. split; [|constructor].
    unfold sent_of. cbn [map concat app]. rewrite app_nil_r. reflexivity.
  - destruct (tstep sh o t) as [[[t1 ob] c1] o1] eqn:Es.
    destruct (trun sh ops t1) as [[[t2 obs2] c2] o2] eqn:Er. inversion E; subst.
    destruct (tstep_inv sh _ _ _ _ _ _ Hok Es) as [H1 [[p1 Hp1] [H3 [H4 [H5 H6]]]]].
    destruct (IH _ _ _ _ _ H1 Er) as [G1 [[p2 Hp2] [G3 [G4 G5]]]].
    split; [exact G1|]. split; [|split; [|split]].
    + exists (p1 ++ p2). rewrite (run_app_eq sh _ _ _ _ _ _ _ _ _ Hp1 Hp2).
      unfold recv_frames. cbn [map concat]. destruct ob as [r| |r]; try destruct r; reflexivity.
    + rewrite H3, G3, <- app_assoc. reflexivity.
    + unfold sent_of. cbn [map concat]. fold (sent_of ops).
      rewrite <- app_assoc, G4, app_assoc, H4, <- app_assoc. reflexivity.
    + constructor; [split; assumption|exact G5].
Qed.

Lemma tk_new_ok r w : pz_ok (tk_new r w).
Proof. split; [apply cap_ok_new|apply lenc_ok_new]. Qed.

(* ---- the transport theorems ---- *)

(* bytes accepted by the I/O object are a prefix of the serialized messages in send order;
   what is missing is exactly the write buffer *)
Theorem tokio_send sh ops r w :
  snd (trun sh ops (tk_new r w)) ++ wbuf (fst (fst (fst (trun sh ops (tk_new r w))))) = sent_of ops.
Proof.
  destruct (trun sh ops (tk_new r w)) as [[[t' obs] cin] wout] eqn:E. cbn [fst snd].
  destruct (trun_inv sh _ _ _ _ _ _ (tk_new_ok r w) E) as [_ [_ [_ [H _]]]]. exact H.
Qed.

Lemma trun_app sh : forall ops1 ops2 t,
  trun sh (ops1 ++ ops2) t =
  let '(t1, obs1, c1, o1) := trun sh ops1 t in
  let '(t2, obs2, c2, o2) := trun sh ops2 t1 in
  (t2, obs1 ++ obs2, c1 ++ c2, o1 ++ o2).
Proof.
  induction ops1 as [|o ops1 IH]; intros ops2 t; cbn [app trun].
  - destruct (trun sh ops2 t) as [[[t2 obs2] c2] o2]. reflexivity.
  - destruct (tstep sh o t) as [[[t1 ob] c1] o1]. rewrite IH.
    destruct (trun sh ops1 t1) as [[[t2 obs2] c2] o2].
    destruct (trun sh ops2 t2) as [[[t3 obs3] c3] o3]. rewrite <- !app_assoc. reflexivity.
Qed.

(* a flush that returns Ready(Ok) has written every message sent before it, and the flush of the
   I/O object was the last thing it did and answered Ok *)
Theorem tokio_flush sh ops r w t1 obs1 c1 o1 t2 out :
  trun sh ops (tk_new r w) = (t1, obs1, c1, o1) ->
  send_poll_flush t1 = (t2, PReady tt, out) ->
  o1 ++ out = sent_of ops /\ wbuf t2 = [] /\
  exists pre n, wscript t1 = pre ++ WriteOk n :: wscript t2.
Proof.
  intros E1 E2. destruct (trun_inv sh _ _ _ _ _ _ (tk_new_ok r w) E1) as [_ [_ [_ [H _]]]].
  destruct (send_poll_flush_ready _ _ _ E2) as [F1 [F2 F3]]. cbn [tk_new wbuf app] in H.
  subst out. auto.
Qed.

Theorem tokio_write_zero t w :
  wbuf t <> [] -> wscript t = WriteOk 0 :: w ->
  send_poll_flush t = (mkTk (pz t) (wbuf t) (rscript t) w, PErr EWriteZero, []).
Proof.
  intros Hb Hw. unfold send_poll_flush. rewrite Hw, flush_loop_zero by assumption. reflexivity.
Qed.
Theorem tokio_write_zero_only t t' out :
  send_poll_flush t = (t', PErr EWriteZero, out) ->
  wbuf t' <> [] /\ exists pre, wscript t = pre ++ WriteOk 0 :: wscript t'.
Proof.
  unfold send_poll_flush. destruct (flush_loop (wscript t) (wbuf t)) as [[[w' wb'] r'] out'] eqn:E.
  intros H; inversion H; subst. cbn [wbuf wscript]. eapply flush_loop_zero_only; eassumption.
Qed.

(* receive side: delivered frames are the first k frames of the stream the reader supplies;
   their bytes followed by the packetizer's buffer are exactly the bytes read so far; no panic,
   never out of fuel *)
Theorem tokio_recv sh ops r w fs rest t' obs cin wout :
  Forall frame_ok fs -> incomplete rest -> script_data r = concat fs ++ rest ->
  trun sh ops (tk_new r w) = (t', obs, cin, wout) ->
  (exists k, recv_frames obs = firstn k fs) /\
  concat (recv_frames obs) ++ buf (pz t') = cin /\
  cin ++ script_data (rscript t') = script_data r /\
  Forall (fun ob => ob <> TObsRecv PPanic /\ ob <> TObsRecv PFuel) obs.
Proof.
  intros Hf Hr Hs E.
  destruct (trun_inv sh _ _ _ _ _ _ (tk_new_ok r w) E) as [_ [[pops Hp] [H3 [_ H5]]]].
  cbn [tk_new pz rscript] in *.
  destruct (run_inv sh pops pk_new fs rest (script_data (rscript t')) lenc_ok_new Hf Hr)
    as [todo' [E1 [E2 [E3 E4]]]].
  { rewrite Hp. cbn [fst snd pk_new buf app]. rewrite <- H3. exact Hs. }
  rewrite Hp in *. cbn [fst snd pk_new buf app] in *.
  split; [|split; [exact E4|split; [symmetry; exact H3|exact H5]]].
  exists (length (recv_frames obs)). rewrite E1.
  rewrite firstn_app, Nat.sub_diag, firstn_all. cbn [firstn]. rewrite app_nil_r. reflexivity.
Qed.

(* every message is delivered: once the reader has nothing more to give and receive_poll answers
   anything but a frame, all frames of the stream have been delivered *)
Theorem tokio_recv_complete sh ops rooms r w fs rest t' obs cin wout :
  Forall frame_ok fs -> incomplete rest -> script_data r = concat fs ++ rest ->
  trun sh (ops ++ [TRecv rooms]) (tk_new r w) = (t', obs, cin, wout) ->
  (forall f, last obs TObsSend <> TObsRecv (PReady f)) ->
  script_data (rscript t') = [] ->
  recv_frames obs = fs /\ buf (pz t') = rest.
Proof.
  intros Hf Hr Hs E Hlast Hx.
  destruct (trun_inv sh _ _ _ _ _ _ (tk_new_ok r w) E) as [_ [[pops Hp] [H3 _]]].
  cbn [tk_new pz rscript] in *.
  destruct (run_inv sh pops pk_new fs rest (script_data (rscript t')) lenc_ok_new Hf Hr)
    as [todo' [E1 [E2 [E3 E4]]]].
  { rewrite Hp. cbn [fst snd pk_new buf app]. rewrite <- H3. exact Hs. }
  rewrite Hp in *. cbn [fst snd pk_new buf app] in *. rewrite Hx, app_nil_r in E3.
  (* the last step left the packetizer drained *)
  rewrite trun_app in E.
  destruct (trun sh ops (tk_new r w)) as [[[t1 obs1] c1] o1] eqn:E0.
  destruct (trun_inv sh _ _ _ _ _ _ (tk_new_ok r w) E0) as [Hok1 _].
  cbn [trun tstep] in E.
  destruct (receive_poll sh (recv_fuel t1) rooms t1) as [[t2 r2] c2] eqn:Er.
  inversion E; subst t' obs cin wout; clear E.
  destruct (recv_total sh (recv_fuel t1) rooms t1 t2 r2 c2 Hok1 ltac:(unfold recv_fuel; lia) Er) as [_ [_ [_ [Hd _]]]].
  rewrite last_last in Hlast.
  assert (Hdr : drained (pz t2)).
  { apply Hd. destruct r2; try reflexivity. exfalso. apply (Hlast a). reflexivity. }
  destruct todo' as [|f todo''].
  - rewrite app_nil_r in E1. cbn [concat app] in E3. auto.
  - exfalso. assert (Hf' : Forall frame_ok (f :: todo'')).
    { rewrite E1 in Hf. apply Forall_app in Hf. tauto. }
    inversion Hf' as [|f' t'' [H4 Hh] _]; subst f' t''.
    cbn [concat] in E3. rewrite <- app_assoc in E3. unfold lenc_ok in E2.
    destruct Hdr as [Hd4|[l [El Hdl]]].
    + rewrite E3, lenN_app in Hd4. lia.
    + rewrite El in E2. destruct E2 as [_ E2]. rewrite E3, hdr_app in E2 by assumption.
      fold (hdr f) in Hh. rewrite E3, lenN_app in Hdl. lia.
Qed.

Theorem tokio_recv_eof sh fuel rooms t rs :
  pz_ok t -> snd (next_message (pz t)) = None -> rscript t = ReadOk [] :: rs ->
  snd (fst (receive_poll sh (S fuel) rooms t)) = PErr EUnexpectedEof.
Proof. apply recv_eof. Qed.

Theorem tokio_recv_eof_only sh fuel rooms t t' c :
  pz_ok t -> (script_bytes (rscript t) < fuel)%nat ->
  receive_poll sh fuel rooms t = (t', PErr EUnexpectedEof, c) -> In (ReadOk []) (rscript t).
Proof.
  intros Hok Hf E. destruct (recv_total sh _ _ _ _ _ _ Hok Hf E) as [_ [_ [_ [_ H]]]]. auto.
Qed.

(* ================= Buffered ================= *)

Lemma b_flush_loop_out : forall q t b' r out,
  b_flush_loop q t = (b', r, out) ->
  out ++ wbuf (inner b') ++ concat (queue b') = wbuf t ++ concat q /\
  (r = PReady tt -> wbuf (inner b') = [] /\ queue b' = []).
Proof.
  induction q as [|m q IH]; intros t b' r out E; cbn [b_flush_loop] in E.
  - destruct (send_poll_flush t) as [[t1 r1] o1] eqn:Ef. inversion E; subst.
    destruct (send_poll_flush_out _ _ _ _ Ef) as [E1 _]. cbn [inner queue concat].
    rewrite !app_nil_r. split; [exact E1|]. intros ->.
    destruct (send_poll_flush_ready _ _ _ Ef) as [F1 _]. auto.
  - destruct (send_poll_ready t) as [[t1 r1] o1] eqn:Ep.
    destruct (send_poll_ready_out _ _ _ _ Ep) as [E1 _].
    destruct r1 as [u|e| | |].
    + destruct (b_flush_loop q (send_start m t1)) as [[b2 r2] o2] eqn:Eb. inversion E; subst.
      destruct (IH _ _ _ _ Eb) as [F1 F2]. rewrite send_start_wbuf in F1. split; [|exact F2].
      cbn [concat]. rewrite <- app_assoc, F1, <- E1, <- !app_assoc. reflexivity.
    + inversion E; subst. cbn [inner queue]. split; [|discriminate].
      rewrite <- E1, <- app_assoc. reflexivity.
    + inversion E; subst. cbn [inner queue]. split; [|discriminate].
      rewrite <- E1, <- app_assoc. reflexivity.
    + inversion E; subst. cbn [inner queue]. split; [|discriminate].
      rewrite <- E1, <- app_assoc. reflexivity.
    + inversion E; subst. cbn [inner queue]. split; [|discriminate].
      rewrite <- E1, <- app_assoc. reflexivity.
Qed.

Lemma concat_snoc {A} (q : list (list A)) m : concat (q ++ [m]) = concat q ++ m.
Proof. rewrite concat_app. cbn [concat]. rewrite app_nil_r. reflexivity. Qed.

(* accepted bytes ++ inner write buffer ++ queued messages = everything sent, in order *)
Theorem buffered_fifo : forall ops b b' obs wout,
  brun ops b = (b', obs, wout) ->
  wout ++ wbuf (inner b') ++ concat (queue b') = wbuf (inner b) ++ concat (queue b) ++ bsent_of ops.
Proof.
  induction ops as [|o ops IH]; intros b b' obs wout E; cbn [brun] in E.
  - inversion E; subst. cbn [bsent_of map concat app]. rewrite app_nil_r. reflexivity.
  - destruct (bstep o b) as [[b1 ob] o1] eqn:Es.
    destruct (brun ops b1) as [[b2 obs2] o2] eqn:Er. inversion E; subst.
    specialize (IH _ _ _ _ Er). unfold bsent_of. cbn [map concat]. fold (bsent_of ops).
    rewrite <- app_assoc, IH.
    destruct o as [m| |]; cbn [bstep] in Es.
    + inversion Es; subst. cbn [b_send_start inner queue app]. rewrite concat_snoc, <- !app_assoc.
      reflexivity.
    + inversion Es; subst. reflexivity.
    + unfold b_send_poll_flush in Es. destruct (b_flush_loop (queue b) (inner b)) as [[b3 r3] o3] eqn:Ef.
      inversion Es; subst. destruct (b_flush_loop_out _ _ _ _ _ Ef) as [F _].
      cbn [app]. rewrite !app_assoc. rewrite !app_assoc in F. rewrite F. reflexivity.
Qed.

Theorem buffered_flush b b' out :
  b_send_poll_flush b = (b', PReady tt, out) ->
  out = wbuf (inner b) ++ concat (queue b) /\ wbuf (inner b') = [] /\ queue b' = [].
Proof.
  unfold b_send_poll_flush. intros E. destruct (b_flush_loop_out _ _ _ _ _ E) as [F1 F2].
  destruct (F2 eq_refl) as [G1 G2]. rewrite G1, G2 in F1. cbn [concat] in F1.
  rewrite !app_nil_r in F1. auto.
Qed.
