(* Stream/StreamTie.v — the numbers and shapes the translator reads from
   core/src/message/packetizer.rs and core/src/tokio.rs, compared with what the model
   transcribes.  (The function bodies themselves are compared text-for-text by tools/rs2v.py,
   which fails loudly on any other shape.) *)
From Aldrin Require Import Codec.Base gen.StreamConsts Stream.Packetizer Stream.Tokio.
Open Scope N_scope.

(* next_message: `buf.len() < 4`, `&buf[..4]`, `split_to(len.max(4))` *)
Example pk_numbers_tie : (PK_HEADER_LEN, PK_HEADER_SLICE, PK_SPLIT_MIN) = (4, 4, 4).
Proof. reflexivity. Qed.
(* the shape of spare_capacity_mut is one the model knows *)
Example spare_shape_tie : shape_of_code SPARE_SHAPE = Some this_shape.
Proof. reflexivity. Qed.
Example reserve_consts_tie : 0 < MIN_RESERVE_CAPACITY /\ MIN_RESERVE_CAPACITY <= MAX_RESERVE_CAPACITY.
Proof. split; [reflexivity|discriminate]. Qed.
