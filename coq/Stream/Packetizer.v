(* Stream/Packetizer.v — executable model of core/src/message/packetizer.rs (property C14).

   struct Packetizer { buf: BytesMut, len: Option<usize> }   ~~>   Record pk {buf; lenc; cap}

   [buf] is the content of the BytesMut, [lenc] the cached length prefix, [cap] a GHOST for
   BytesMut::capacity().  The ghost is governed only by the contract of the bytes crate:
     * reserve(additional): afterwards capacity >= len + additional, otherwise unspecified.  Every
       operation that calls reserve (directly, or through extend_from_slice) takes a [room]
       argument chosen by the environment: the new spare room is [max room additional], i.e. ANY
       capacity the contract allows (theorems quantify over all of them; the correspondence run
       feeds the spare room observed on the real BytesMut).
     * set_len(len + n) (bytes_written) keeps the capacity; it is only legal for n <= spare room.
     * split_to(at) moves the start of the buffer: capacity decreases by [at] (spare room is kept).
   No proofs here (see PacketizerProofs.v). *)
From Aldrin Require Import Codec.Base gen.StreamConsts.
Open Scope N_scope.

(* length in N without an intermediate unary number; llen_spec: llen l = lenN l *)
Fixpoint len_acc {A} (l : list A) (acc : N) : N :=
  match l with [] => acc | _ :: r => len_acc r (N.succ acc) end.
Definition llen {A} (l : list A) : N := len_acc l 0.

(* (firstn n l, skipn n l) walking at most n elements; split_at_spec in the proofs file *)
Definition split_at (n : N) (l : list N) : list N * list N :=
  match take n l with Ok p => p | Err _ => (l, []) end.

(* The control-flow shape of spare_capacity_mut found in the source by tools/rs2v.py
   (gen/StreamConsts.v SPARE_SHAPE): 0 = the `capacity == len` fallback sits in the `else` of
   `if let Some(len)`; 1 = it runs after that `if let` unconditionally; 2 = it is an inner
   `else if` of the Some branch as well. *)
Inductive spare_shape := ShapeOrig | ShapeSeqFallback | ShapeNestedFallback.
Definition shape_of_code (n : N) : option spare_shape :=
  match n with
  | 0 => Some ShapeOrig | 1 => Some ShapeSeqFallback | 2 => Some ShapeNestedFallback
  | _ => None
  end.
Definition this_shape : spare_shape :=
  match shape_of_code SPARE_SHAPE with Some s => s | None => ShapeOrig end.

Record pk := mkPk { buf : list N; lenc : option N; cap : N }.

(* Packetizer::new: BytesMut::new() has capacity 0 *)
Definition pk_new : pk := mkPk [] None 0.

Definition room_of (s : pk) : N := cap s - llen (buf s).

(* BytesMut::reserve(additional) *)
Definition reserve (room additional : N) (s : pk) : pk :=
  mkPk (buf s) (lenc s) (llen (buf s) + N.max room additional).

(* extend_from_slice: BytesMut::extend_from_slice = reserve(bytes.len()) + copy + advance_mut;
   [room] is the spare room left after the copy *)
Definition extend (room : N) (bs : list N) (s : pk) : pk :=
  mkPk (buf s ++ bs) (lenc s) (llen (buf s) + llen bs + room).

(* Ord::clamp(self, min, max) *)
Definition clamp (x lo hi : N) : N := if x <? lo then lo else if hi <? x then hi else x.

(* `if self.buf.capacity() < len { reserve((len - buf.len()).clamp(MIN, MAX)) }` *)
Definition reserve_for_len (room l : N) (s : pk) : pk :=
  if cap s <? l
  then reserve room (clamp (l - llen (buf s)) MIN_RESERVE_CAPACITY MAX_RESERVE_CAPACITY) s
  else s.
(* `if self.buf.capacity() == self.buf.len() { reserve(MIN) }` *)
Definition fallback (room : N) (s : pk) : pk :=
  if cap s =? llen (buf s) then reserve room MIN_RESERVE_CAPACITY s else s.

Definition spare_prep (sh : spare_shape) (room : N) (s : pk) : pk :=
  match sh with
  | ShapeOrig =>
      match lenc s with
      | Some l => reserve_for_len room l s
      | None => fallback room s
      end
  | ShapeSeqFallback =>
      fallback room (match lenc s with Some l => reserve_for_len room l s | None => s end)
  | ShapeNestedFallback =>
      match lenc s with
      | Some l => if cap s <? l then reserve_for_len room l s else fallback room s
      | None => fallback room s
      end
  end.

(* spare_capacity_mut: the new state and the length of the returned slice
   (BytesMut::spare_capacity_mut has capacity - len elements) *)
Definition spare (sh : spare_shape) (room : N) (s : pk) : pk * N :=
  let s' := spare_prep sh room s in (s', room_of s').
(* `debug_assert!(!slice.is_empty())` (only when the source has it and debug assertions are on) *)
Definition spare_asserts (k : N) : bool := SPARE_DEBUG_ASSERT && (k =? 0).

(* bytes_written(n) after the caller initialised the first n bytes of the slice with [bs] *)
Definition written_unchecked (bs : list N) (s : pk) : pk := mkPk (buf s ++ bs) (lenc s) (cap s).
(* None: the safety precondition (n <= slice length) is violated; not part of any behaviour *)
Definition written (bs : list N) (s : pk) : option pk :=
  if llen bs <=? room_of s then Some (written_unchecked bs s) else None.

Definition next_message (s : pk) : pk * option (list N) :=
  let n := llen (buf s) in
  if n <? 4 then (s, None) else
  let l := match lenc s with Some l => l | None => from_le (firstn 4 (buf s)) end in
  if l <=? n then
    let a := N.max l 4 in
    let '(msg, rest) := split_at a (buf s) in
    (mkPk rest None (cap s - a),
     Some (if 4 <=? l then msg else firstn (N.to_nat l) msg))   (* msg.truncate(len) *)
  else (mkPk (buf s) (Some l) (cap s), None).

(* ---- operation sequences: either input interface, next_message interleaved arbitrarily ---- *)
Inductive op :=
| OExt (room : N) (bs : list N)     (* extend_from_slice(bs) *)
| OSpare (room : N)                 (* spare_capacity_mut() *)
| OWr (bs : list N)                 (* write bs into the slice, bytes_written(len bs) *)
| ONext.                            (* next_message() *)

Inductive obs :=
| ObsUnit | ObsSlice (k : N) | ObsWritten (ok : bool) | ObsMsg (m : option (list N)).

Definition step (sh : spare_shape) (o : op) (s : pk) : pk * obs :=
  match o with
  | OExt room bs => (extend room bs s, ObsUnit)
  | OSpare room => let '(s', k) := spare sh room s in (s', ObsSlice k)
  | OWr bs => match written bs s with Some s' => (s', ObsWritten true) | None => (s, ObsWritten false) end
  | ONext => let '(s', m) := next_message s in (s', ObsMsg m)
  end.

(* bytes the operation puts into the packetizer *)
Definition fed_by (o : op) (s : pk) : list N :=
  match o with
  | OExt _ bs => bs
  | OWr bs => match written bs s with Some _ => bs | None => [] end
  | _ => []
  end.
Definition msg_of (o : obs) : list (list N) :=
  match o with ObsMsg (Some m) => [m] | _ => [] end.

(* final state, frames returned by the next_message calls in order, bytes fed in order *)
Fixpoint run (sh : spare_shape) (ops : list op) (s : pk) : pk * (list (list N) * list N) :=
  match ops with
  | [] => (s, ([], []))
  | o :: r =>
      let '(s1, ob) := step sh o s in
      let '(s2, (ms, fd)) := run sh r s1 in
      (s2, (msg_of ob ++ ms, fed_by o s ++ fd))
  end.

(* call next_message until it returns None *)
Fixpoint drain (fuel : nat) (s : pk) : pk * list (list N) :=
  match fuel with
  | O => (s, [])
  | S f =>
      match next_message s with
      | (s', Some m) => let '(s'', ms) := drain f s' in (s'', m :: ms)
      | (s', None) => (s', [])
      end
  end.
Definition drain_all (s : pk) : pk * list (list N) := drain (S (length (buf s))) s.

(* a frame: 4-byte little-endian total length, then the rest (kind byte, body) *)
Definition frame_ok (f : list N) : Prop := 4 <= lenN f /\ from_le (firstn 4 f) = lenN f.
(* a proper prefix of a frame: fewer than 4 bytes, or fewer bytes than the prefix announces *)
Definition incomplete (r : list N) : Prop := lenN r < 4 \/ lenN r < from_le (firstn 4 r).
Definition frame_okb (f : list N) : bool := (4 <=? llen f) && (from_le (firstn 4 f) =? llen f).
