(* Extraction of the client-side discovery / lifetime folds for the C19 correspondence check
   (ExtrOcamlBasic only; numbers stay Coq's inductive positive/N; no Extract Constant). *)
From Aldrin Require Import ClientFold.Discoverer ClientFold.Lifetime.
Require Extraction ExtrOcamlBasic.
Extraction Language OCaml.
Extraction "clientfold_model.ml" mkSpec disc_new disc_step disc_reset entry_iter entry_object_id
  entry_service_ids entry_key t_empty trun first_illegal deliverableb matchingb sget is_creation
  find_object lt_new lt_run lt_stream lt_ended about disc_filters matches_filters.
