(* Broker/ListenerProofs.v — C10 on the abstract broker machine: what a bus event delivers
   (emit_bus_event), what starting a listener delivers (start_bus_listener), and when nothing is
   delivered. *)
From stdpp Require Import gmap list.
From RecordUpdate Require Import RecordSet.
Import RecordSetNotations.
From Aldrin Require Import gen.BrokerConsts Broker.Model Broker.Run.
Local Open Scope N_scope.

(* ================================================================ helpers on sending *)
Definition alive (s : state) (c : conn) : bool :=
  match conns s !! c with Some cs => cs_alive cs | None => false end.

Lemma send_alive m c x from cs :
  conns (ms m) !! c = Some cs -> cs_alive cs = true ->
  send m c x from = Done (m <| mo := mo m ++ [(c, x, from)] |>).
Proof. intros H1 H2. unfold send. rewrite H1, H2. reflexivity. Qed.

Lemma M_eta m : {| ms := ms m; mw := mw m; mo := mo m |} = m.
Proof. destruct m; reflexivity. Qed.

Lemma M_ext a b : ms a = ms b -> mw a = mw b -> mo a = mo b -> a = b.
Proof. destruct a, b; cbn; intros -> -> ->; reflexivity. Qed.

(* a run of sends to one live connection appends exactly the mapped list *)
Lemma foldO_send_alive {A} (g : A -> msg) c cs (l : list A) : forall m,
  conns (ms m) !! c = Some cs -> cs_alive cs = true ->
  foldO (fun m p => send m c (g p) None) l m =
  Done (m <| mo := mo m ++ ((fun p => (c, g p, None)) <$> l) |>).
Proof.
  induction l as [|a l IH]; intros m H1 H2; cbn [foldO fmap list_fmap].
  - rewrite app_nil_r. destruct m; reflexivity.
  - rewrite (send_alive m c (g a) None cs H1 H2). rewrite IH by assumption.
    cbn. rewrite <- app_assoc. reflexivity.
Qed.

(* ================================================================ C10_new: emit_bus_event *)
(* a listener reports [ev] as a NEW event *)
Definition reports_new (l : lis) (ev : bus_event) : bool :=
  match l_scope l with
  | Some sc => includes_new sc && existsb (fun f => matches_event f ev) (l_filters l)
  | None => false
  end.

(* the connections emit_bus_event addresses *)
Definition bus_targets (s : state) (ev : bus_event) : gset conn :=
  list_to_set ((fun p => l_owner p.2) <$>
    List.filter (fun p : uuid * lis => reports_new p.2 ev) (map_to_list (listeners s))).

Lemma bus_targets_spec s ev c :
  c ∈ bus_targets s ev <->
  exists k l, listeners s !! k = Some l /\ l_owner l = c /\ reports_new l ev = true.
Proof.
  unfold bus_targets. rewrite elem_of_list_to_set, elem_of_list_fmap. split.
  - intros ([k l] & -> & Hin). apply elem_of_list_In, filter_In in Hin as [Hin Hr].
    apply elem_of_list_In, elem_of_map_to_list in Hin. exists k, l. auto.
  - intros (k & l & Hk & <- & Hr). exists (k, l). split; [reflexivity|].
    apply elem_of_list_In, filter_In. split; [|exact Hr].
    apply elem_of_list_In, elem_of_map_to_list. exact Hk.
Qed.

Lemma bus_unfold m ev :
  bus m ev = foldO (fun m (c : conn) => if has m c then send_or_remove m c (EmitBusEvent None ev) None else Done m)
                   (elements (bus_targets (ms m) ev)) m.
Proof. reflexivity. Qed.

Lemma filter_all_id {A} (f : A -> bool) l : (forall a, In a l -> f a = true) -> List.filter f l = l.
Proof.
  induction l as [|a l IH]; intros H; cbn; [reflexivity|].
  rewrite (H a) by (left; reflexivity). f_equal. apply IH. intros b Hb. apply H. right. exact Hb.
Qed.

Definition bus_out (ev : bus_event) (c : conn) : out := (c, EmitBusEvent None ev, None).

Lemma bus_fold_spec ev (l : list conn) : forall m,
  exists m', foldO (fun m (c : conn) => if has m c then send_or_remove m c (EmitBusEvent None ev) None else Done m) l m = Done m' /\
             ms m' = ms m /\ mo m' = mo m ++ (bus_out ev <$> List.filter (alive (ms m)) l).
Proof.
  induction l as [|c l IH]; intros m; cbn [foldO List.filter].
  - exists m. rewrite app_nil_r. auto.
  - unfold has, send_or_remove, send, alive at 1.
    destruct (conns (ms m) !! c) as [cs|] eqn:Ec.
    + rewrite bool_decide_eq_true_2 by eauto. destruct (cs_alive cs).
      * destruct (IH (m <| mo := mo m ++ [(c, EmitBusEvent None ev, None)] |>)) as (m' & E & Hs & Ho).
        exists m'. split; [exact E|]. split; [exact Hs|]. rewrite Ho. cbn. rewrite <- app_assoc. reflexivity.
      * destruct (IH (push_remove m c false)) as (m' & E & Hs & Ho). exists m'. auto.
    + rewrite bool_decide_eq_false_2 by (intros [? ?]; discriminate). apply IH.
Qed.

(* emit_bus_event never fails, leaves the state alone, and appends exactly one untagged event per
   addressed connection whose receiver is alive *)
Theorem bus_spec m ev :
  exists m', bus m ev = Done m' /\ ms m' = ms m /\
    mo m' = mo m ++ (bus_out ev <$> List.filter (alive (ms m)) (elements (bus_targets (ms m) ev))).
Proof. rewrite bus_unfold. apply bus_fold_spec. Qed.

(* C10_new: with all addressed connections alive, the outputs added are exactly one
   (c, EmitBusEvent None ev, None) per connection owning at least one started, new-including,
   matching listener — per connection, however many of its listeners match *)
Theorem bus_new m ev :
  (forall c, c ∈ bus_targets (ms m) ev -> alive (ms m) c = true) ->
  exists m' new, bus m ev = Done m' /\ ms m' = ms m /\ mo m' = mo m ++ new /\
    NoDup new /\
    (forall o, o ∈ new <-> exists c, o = (c, EmitBusEvent None ev, None) /\
        exists k l, listeners (ms m) !! k = Some l /\ l_owner l = c /\ reports_new l ev = true).
Proof.
  intros Hal. destruct (bus_spec m ev) as (m' & E & Hs & Ho).
  assert (Hf : List.filter (alive (ms m)) (elements (bus_targets (ms m) ev)) = elements (bus_targets (ms m) ev)).
  { apply filter_all_id. intros c Hc. apply Hal. apply elem_of_elements, elem_of_list_In. exact Hc. }
  rewrite Hf in Ho. exists m', (bus_out ev <$> elements (bus_targets (ms m) ev)).
  split; [exact E|]. split; [exact Hs|]. split; [exact Ho|]. split.
  - apply NoDup_fmap_2; [|apply NoDup_elements]. intros a b [=]. assumption.
  - intros o. rewrite elem_of_list_fmap. split.
    + intros (c & -> & Hc). exists c. split; [reflexivity|]. apply bus_targets_spec, elem_of_elements, Hc.
    + intros (c & -> & Hc). exists c. split; [reflexivity|]. apply elem_of_elements, bus_targets_spec, Hc.
Qed.

(* a connection none of whose listeners reports the event (not started, stopped, destroyed,
   scope without new events, or no matching filter) receives nothing *)
Theorem bus_silent m ev c :
  (forall k l, listeners (ms m) !! k = Some l -> l_owner l = c -> reports_new l ev = false) ->
  forall m', bus m ev = Done m' -> forall x from, (c, x, from) ∈ mo m' -> (c, x, from) ∈ mo m.
Proof.
  intros Hno m' E x from Hin. destruct (bus_spec m ev) as (m'' & E' & _ & Ho).
  rewrite E in E'. injection E' as <-. rewrite Ho in Hin. apply elem_of_app in Hin as [Hin|Hin]; [exact Hin|].
  exfalso. apply elem_of_list_fmap in Hin as (c' & Heq & Hc'). injection Heq as <- _ _.
  apply elem_of_list_In, filter_In in Hc' as [Hc' _].
  apply elem_of_list_In, elem_of_elements, bus_targets_spec in Hc' as (k & l & Hk & Ho' & Hr).
  rewrite (Hno k l Hk Ho') in Hr. discriminate.
Qed.

Lemma reports_new_unstarted l ev : l_scope l = None -> reports_new l ev = false.
Proof. unfold reports_new. intros ->. reflexivity. Qed.
Lemma reports_new_current_only l ev : l_scope l = Some SCurrent -> reports_new l ev = false.
Proof. unfold reports_new. intros ->. reflexivity. Qed.
Lemma reports_new_nomatch l ev :
  (forall f, In f (l_filters l) -> matches_event f ev = false) -> reports_new l ev = false.
Proof.
  intros H. unfold reports_new. destruct (l_scope l); [|reflexivity].
  replace (existsb _ _) with false; [apply andb_false_r|].
  symmetry. apply not_true_is_false. intros He. apply existsb_exists in He as (f & Hf & Hm).
  rewrite (H f Hf) in Hm. discriminate.
Qed.

(* ================================================================ C10_current: start_bus_listener *)
Definition obj_matches (l : lis) (p : uuid * obj) : bool :=
  existsb (fun f => matches_object f p.1) (l_filters l).
Definition svc_matches (l : lis) (p : (uuid * uuid) * svc) : bool :=
  existsb (fun f => matches_service f p.1.1 p.1.2) (l_filters l).
Definition obj_created_out (c : conn) (cookie : uuid) (p : uuid * obj) : out :=
  (c, EmitBusEvent (Some cookie) (EvObjectCreated p.1 (o_cookie p.2)), None).
Definition svc_created_out (c : conn) (cookie : uuid) (p : (uuid * uuid) * svc) : out :=
  (c, EmitBusEvent (Some cookie) (EvServiceCreated p.1.1 (s_obj_cookie p.2) p.1.2 (s_cookie p.2)), None).

(* everything a successful start outputs, in order *)
Definition start_outputs (s : state) (c : conn) (serial : N) (cookie : uuid) (sc : scope) (l : lis) : list out :=
  (c, StartBusListenerReply serial STOk, None) ::
  (if includes_current sc then
     (obj_created_out c cookie <$> List.filter (obj_matches l) (map_to_list (objs s))) ++
     (svc_created_out c cookie <$> List.filter (svc_matches l) (map_to_list (svcs s))) ++
     [(c, BusListenerCurrentFinished cookie, None)]
   else []).

Theorem start_current m c cs serial cookie sc l fresh b :
  conns (ms m) !! c = Some cs -> cs_alive cs = true ->
  listeners (ms m) !! cookie = Some l -> l_owner l = c -> l_scope l = None ->
  handle m c (StartBusListener serial cookie sc) fresh b =
  Done (m <| ms; listeners ::= <[cookie := l <| l_scope := Some sc |>]> |>
          <| mo := mo m ++ start_outputs (ms m) c serial cookie sc l |>).
Proof.
  intros Hc Ha Hl Ho Hs. unfold handle. rewrite Hc, Hl, Hs.
  rewrite bool_decide_eq_true_2 by exact Ho. cbn [negb].
  set (m1 := m <| ms; listeners ::= <[cookie := l <| l_scope := Some sc |>]> |>).
  assert (Hc1 : conns (ms m1) !! c = Some cs) by exact Hc.
  rewrite (send_alive m1 c _ None cs Hc1 Ha). cbn [andThen]. unfold start_outputs.
  destruct (includes_current sc).
  - set (m2 := m1 <| mo := _ |>).
    assert (Hc2 : conns (ms m2) !! c = Some cs) by exact Hc.
    rewrite (foldO_send_alive (fun p : uuid * obj => EmitBusEvent (Some cookie) (EvObjectCreated p.1 (o_cookie p.2))) c cs _ m2 Hc2 Ha).
    cbn [andThen].
    set (m3 := m2 <| mo := _ |>).
    assert (Hc3 : conns (ms m3) !! c = Some cs) by exact Hc.
    rewrite (foldO_send_alive (fun p : (uuid * uuid) * svc => EmitBusEvent (Some cookie) (EvServiceCreated p.1.1 (s_obj_cookie p.2) p.1.2 (s_cookie p.2))) c cs _ m3 Hc3 Ha).
    cbn [andThen].
    set (m4 := m3 <| mo := _ |>).
    assert (Hc4 : conns (ms m4) !! c = Some cs) by exact Hc.
    rewrite (send_alive m4 c _ None cs Hc4 Ha).
    clear Hc1 Hc2 Hc3 Hc4. subst m4 m3 m2 m1. f_equal. apply M_ext; cbn; try reflexivity.
    rewrite <- !app_assoc. reflexivity.
  - subst m1. f_equal.
Qed.

(* the object part: exactly the matching objects, each once *)
Lemma start_outputs_object s c serial cookie sc l u oc d from :
  (d, EmitBusEvent (Some cookie) (EvObjectCreated u oc), from) ∈ start_outputs s c serial cookie sc l <->
  d = c /\ from = None /\ includes_current sc = true /\
  exists o, objs s !! u = Some o /\ o_cookie o = oc /\ existsb (fun f => matches_object f u) (l_filters l) = true.
Proof.
  unfold start_outputs. rewrite elem_of_cons. split.
  - intros [Heq|Hin]; [discriminate Heq|]. destruct (includes_current sc); [|apply elem_of_nil in Hin; contradiction].
    rewrite !elem_of_app in Hin. destruct Hin as [Hin|[Hin|Hin]].
    + apply elem_of_list_fmap in Hin as ([u' o] & Heq & Hin). injection Heq as -> -> -> ->.
      apply elem_of_list_In, filter_In in Hin as [Hin Hm]. apply elem_of_list_In, elem_of_map_to_list in Hin.
      repeat split; try reflexivity. exists o. auto.
    + apply elem_of_list_fmap in Hin as (p & Heq & _). discriminate Heq.
    + apply elem_of_list_singleton in Hin. discriminate Hin.
  - intros (-> & -> & -> & o & Ho & <- & Hm). right. rewrite elem_of_app. left.
    apply elem_of_list_fmap. exists (u, o). split; [reflexivity|].
    apply elem_of_list_In, filter_In. split; [|exact Hm]. apply elem_of_list_In, elem_of_map_to_list. exact Ho.
Qed.

Lemma start_outputs_service s c serial cookie sc l ou oc su scookie d from :
  (d, EmitBusEvent (Some cookie) (EvServiceCreated ou oc su scookie), from) ∈ start_outputs s c serial cookie sc l <->
  d = c /\ from = None /\ includes_current sc = true /\
  exists sv, svcs s !! (ou, su) = Some sv /\ s_obj_cookie sv = oc /\ s_cookie sv = scookie /\
             existsb (fun f => matches_service f ou su) (l_filters l) = true.
Proof.
  unfold start_outputs. rewrite elem_of_cons. split.
  - intros [Heq|Hin]; [discriminate Heq|]. destruct (includes_current sc); [|apply elem_of_nil in Hin; contradiction].
    rewrite !elem_of_app in Hin. destruct Hin as [Hin|[Hin|Hin]].
    + apply elem_of_list_fmap in Hin as (p & Heq & _). discriminate Heq.
    + apply elem_of_list_fmap in Hin as ([[ou' su'] sv] & Heq & Hin). injection Heq as -> -> -> -> -> ->.
      apply elem_of_list_In, filter_In in Hin as [Hin Hm]. apply elem_of_list_In, elem_of_map_to_list in Hin.
      repeat split; try reflexivity. exists sv. auto.
    + apply elem_of_list_singleton in Hin. discriminate Hin.
  - intros (-> & -> & -> & sv & Hs & <- & <- & Hm). right. rewrite elem_of_app. right. rewrite elem_of_app. left.
    apply elem_of_list_fmap. exists ((ou, su), sv). split; [reflexivity|].
    apply elem_of_list_In, filter_In. split; [|exact Hm]. apply elem_of_list_In, elem_of_map_to_list. exact Hs.
Qed.

Lemma NoDup_filter {A} (f : A -> bool) l : NoDup l -> NoDup (List.filter f l).
Proof.
  induction 1 as [|a l Hn _ IH]; cbn; [constructor|]. destruct (f a); [|exact IH].
  constructor; [|exact IH]. intros Hin. apply Hn. apply elem_of_list_In. apply elem_of_list_In, filter_In in Hin as [Hin _]. exact Hin.
Qed.

(* no output of a start is repeated: each entity is reported exactly once *)
Lemma start_outputs_NoDup s c serial cookie sc l : NoDup (start_outputs s c serial cookie sc l).
Proof.
  unfold start_outputs. apply NoDup_cons. split.
  - destruct (includes_current sc); [|apply not_elem_of_nil]. rewrite !elem_of_app.
    intros [H|[H|H]].
    + apply elem_of_list_fmap in H as (p & Heq & _). discriminate Heq.
    + apply elem_of_list_fmap in H as (p & Heq & _). discriminate Heq.
    + apply elem_of_list_singleton in H. discriminate H.
  - destruct (includes_current sc); [|constructor].
    apply NoDup_app. split; [|split].
    + apply NoDup_fmap_2_strong; [|apply NoDup_filter, NoDup_map_to_list].
      intros [u1 o1] [u2 o2] H1 H2 Heq. injection Heq as -> Hc.
      apply elem_of_list_In, filter_In in H1 as [H1 _]. apply elem_of_list_In, filter_In in H2 as [H2 _].
      apply elem_of_list_In, elem_of_map_to_list in H1. apply elem_of_list_In, elem_of_map_to_list in H2.
      cbn in *. congruence.
    + intros o Ho. rewrite elem_of_app. intros [H|H].
      * apply elem_of_list_fmap in Ho as (p & -> & _). apply elem_of_list_fmap in H as (q & Heq & _). discriminate Heq.
      * apply elem_of_list_fmap in Ho as (p & -> & _). apply elem_of_list_singleton in H. discriminate H.
    + apply NoDup_app. split; [|split].
      * apply NoDup_fmap_2_strong; [|apply NoDup_filter, NoDup_map_to_list].
        intros [[a1 b1] s1] [[a2 b2] s2] H1 H2 Heq. injection Heq as -> _ -> _.
        apply elem_of_list_In, filter_In in H1 as [H1 _]. apply elem_of_list_In, filter_In in H2 as [H2 _].
        apply elem_of_list_In, elem_of_map_to_list in H1. apply elem_of_list_In, elem_of_map_to_list in H2.
        cbn in *. congruence.
      * intros o Ho H. apply elem_of_list_fmap in Ho as (p & -> & _). apply elem_of_list_singleton in H. discriminate H.
      * apply NoDup_singleton.
Qed.

(* the order: the reply first, the end-of-current marker last, and everything carrying the
   listener's tag in between *)
Lemma start_outputs_shape s c serial cookie sc l :
  includes_current sc = true ->
  exists mid, start_outputs s c serial cookie sc l =
    (c, StartBusListenerReply serial STOk, None) :: mid ++ [(c, BusListenerCurrentFinished cookie, None)] /\
    Forall (fun o => exists ev, o = (c, EmitBusEvent (Some cookie) ev, None) /\
                       match ev with EvObjectCreated _ _ | EvServiceCreated _ _ _ _ => True | _ => False end) mid.
Proof.
  intros Hi. unfold start_outputs. rewrite Hi. eexists. split; [rewrite app_assoc; reflexivity|].
  apply Forall_app. split; apply Forall_fmap, Forall_forall; intros p _; eexists; (split; [reflexivity|exact I]).
Qed.

Lemma start_outputs_not_current s c serial cookie sc l :
  includes_current sc = false ->
  start_outputs s c serial cookie sc l = [(c, StartBusListenerReply serial STOk, None)].
Proof. intros Hi. unfold start_outputs. rewrite Hi. reflexivity. Qed.

(* ================================================================ C10_silent *)
(* start on an unknown or foreign listener: only the Invalid reply, nothing changes *)
Theorem start_invalid m c cs serial cookie sc fresh b :
  conns (ms m) !! c = Some cs ->
  (listeners (ms m) !! cookie = None \/ exists l, listeners (ms m) !! cookie = Some l /\ l_owner l <> c) ->
  handle m c (StartBusListener serial cookie sc) fresh b = send m c (StartBusListenerReply serial STInvalid) None.
Proof.
  intros Hc H. unfold handle. rewrite Hc. destruct H as [->|(l & -> & Hne)]; [reflexivity|].
  rewrite bool_decide_eq_false_2 by exact Hne. reflexivity.
Qed.

Theorem start_already m c cs serial cookie sc l sc0 fresh b :
  conns (ms m) !! c = Some cs -> listeners (ms m) !! cookie = Some l -> l_owner l = c ->
  l_scope l = Some sc0 ->
  handle m c (StartBusListener serial cookie sc) fresh b = send m c (StartBusListenerReply serial STAlready) None.
Proof.
  intros Hc Hl Ho Hs. unfold handle. rewrite Hc, Hl, Hs. rewrite bool_decide_eq_true_2 by exact Ho. reflexivity.
Qed.

(* stop: the scope is cleared (so the listener reports nothing from now on, see
   reports_new_unstarted), and the reply says whether it had been started *)
Theorem stop_owned m c cs serial cookie l fresh b :
  conns (ms m) !! c = Some cs -> listeners (ms m) !! cookie = Some l -> l_owner l = c ->
  handle m c (StopBusListener serial cookie) fresh b =
  send (m <| ms; listeners ::= <[cookie := l <| l_scope := None |>]> |>) c
       (StopBusListenerReply serial (match l_scope l with Some _ => SPOk | None => SPNotStarted end)) None.
Proof.
  intros Hc Hl Ho. unfold handle. rewrite Hc, Hl. rewrite bool_decide_eq_true_2 by exact Ho. reflexivity.
Qed.

Theorem stop_invalid m c cs serial cookie fresh b :
  conns (ms m) !! c = Some cs ->
  (listeners (ms m) !! cookie = None \/ exists l, listeners (ms m) !! cookie = Some l /\ l_owner l <> c) ->
  handle m c (StopBusListener serial cookie) fresh b = send m c (StopBusListenerReply serial SPInvalid) None.
Proof.
  intros Hc H. unfold handle. rewrite Hc. destruct H as [->|(l & -> & Hne)]; [reflexivity|].
  rewrite bool_decide_eq_false_2 by exact Hne. reflexivity.
Qed.

(* a send adds at most the one message *)
Lemma send_outputs m c x from m' :
  send m c x from = Done m' \/ send m c x from = Fail m' ->
  ms m' = ms m /\ (mo m' = mo m \/ mo m' = mo m ++ [(c, x, from)]).
Proof.
  unfold send. destruct (conns (ms m) !! c) as [cs|]; [|intros [H|H]; discriminate H].
  destruct (cs_alive cs); intros [H|H]; try discriminate H; injection H as <-; cbn; auto.
Qed.
