(* Broker/InvProofsTerm.v — the work loop terminates: from every [MI] machine some amount of fuel
   lets [settle] finish with Done.  Measure (lexicographic): number of connections, total length
   of the work queues other than w_remove_conns, length of w_remove_conns.  Removing a connected
   connection decreases the first; every other work item only ever queues connection removals.
   The EXPLICIT bound (the model's own [fuel_for] suffices, fuel site 0 unreachable) is proved in
   Broker/FuelProofs.v with a numeric potential; this file gives existence and fuel-independence. *)
From stdpp Require Import gmap list.
From RecordUpdate Require Import RecordSet.
Import RecordSetNotations.
From Aldrin Require Import gen.BrokerConsts Broker.Model Broker.Run Broker.ChannelProofs Broker.Inv
  Broker.InvProofsBase Broker.InvProofsShutdown2 Broker.InvProofsSettle Broker.InvProofsHandle3
  Broker.InvProofsStep.
From Coq Require Import Lia Arith.
Local Open Scope N_scope.

(* the work queues other than w_remove_conns *)
Definition nonrm (w : work) : work := w <| w_remove_conns := [] |>.

Definition nq (w : work) : nat :=
  (length (w_unsub_ev w) + length (w_unsub_all w) + length (w_svc_destroyed w) + length (w_rm_call w) +
   length (w_create_obj w) + length (w_create_svc w) + length (w_destroy_svc w) + length (w_destroy_obj w) +
   length (w_abort w))%nat.

Lemma nq_nonrm w w' : nonrm w' = nonrm w → nq w' = nq w.
Proof.
  intros H. unfold nq.
  pose proof (f_equal w_unsub_ev H) as E1. pose proof (f_equal w_unsub_all H) as E2.
  pose proof (f_equal w_svc_destroyed H) as E3. pose proof (f_equal w_rm_call H) as E4.
  pose proof (f_equal w_create_obj H) as E5. pose proof (f_equal w_create_svc H) as E6.
  pose proof (f_equal w_destroy_svc H) as E7. pose proof (f_equal w_destroy_obj H) as E8.
  pose proof (f_equal w_abort H) as E9. cbn in *. congruence.
Qed.

(* only connection removals were queued, and the set of connections is the same *)
Definition only_rm (m m' : M) : Prop :=
  nonrm (mw m') = nonrm (mw m) ∧ dom (conns (ms m')) = dom (conns (ms m)).
Definition oonly (m : M) (r : outcome M) : Prop :=
  match r with Done m' | Fail m' => only_rm m m' | Panic _ => True end.

Lemma only_rm_refl m : only_rm m m.
Proof. done. Qed.
Lemma only_rm_trans m1 m2 m3 : only_rm m1 m2 → only_rm m2 m3 → only_rm m1 m3.
Proof. intros [A1 A2] [B1 B2]. split; congruence. Qed.
Lemma oonly_trans m m1 r : only_rm m m1 → oonly m1 r → oonly m r.
Proof. destruct r; cbn; eauto using only_rm_trans. Qed.

Lemma oonly_bind m x k : oonly m x → (∀ m1, oonly m1 (k m1)) → oonly m (x >>> k).
Proof. destruct x as [m1|m1|]; cbn; [|done..]. intros H Hk. eapply oonly_trans; eauto. Qed.

Lemma foldO_oonly {A} (f : M → A → outcome M) l : (∀ m x, oonly m (f m x)) → ∀ m, oonly m (foldO f l m).
Proof.
  intros Hf. induction l as [|x l IH]; intros m; cbn; [apply only_rm_refl|].
  specialize (Hf m x). destruct (f m x) as [m1|m1|]; cbn in *; [|done..]. eapply oonly_trans; eauto.
Qed.

Lemma send_or_remove_oonly m c x from : oonly m (send_or_remove m c x from).
Proof.
  unfold send_or_remove, send. destruct (conns (ms m) !! c) as [cs|]; [|done].
  destruct (cs_alive cs); cbn; done.
Qed.

Lemma guarded_oonly m c x from : oonly m (if has m c then send_or_remove m c x from else Done m).
Proof. destruct (has m c); [apply send_or_remove_oonly|apply only_rm_refl]. Qed.

Lemma bus_oonly m ev : oonly m (bus m ev).
Proof. unfold bus. apply foldO_oonly. intros. apply guarded_oonly. Qed.

Lemma abort_call_oonly m b callee : oonly m (abort_call m b callee).
Proof.
  unfold abort_call. destruct (calls (ms m) !! b) as [cl|]; [|apply only_rm_refl].
  destruct (c_aborted cl); [apply only_rm_refl|]. cbn zeta.
  set (m1 := m <| ms; calls ::= _ |>). assert (only_rm m m1) as H1 by done.
  eapply oonly_trans; [exact H1|]. apply oonly_bind.
  - destruct (conns (ms m1) !! callee); [|apply only_rm_refl]. destruct (_ <=? _); [|apply only_rm_refl].
    apply send_or_remove_oonly.
  - intros m2. destruct (conns (ms m2) !! c_caller cl) as [cs|] eqn:Ec; [|apply only_rm_refl].
    destruct (cs_calls cs !! c_serial cl); [|done]. cbn zeta.
    match goal with |- oonly _ (send_or_remove ?a _ _ _) => apply (oonly_trans _ a); [|apply send_or_remove_oonly] end.
    split; [done|]. cbn. rewrite dom_insert_L. apply elem_of_dom_2 in Ec. set_solver.
Qed.

(* ---------------------------------------------------------------- the measure decreases *)
Definition mu (m : M) : nat * nat * nat :=
  (size (conns (ms m)), nq (mw m), length (w_remove_conns (mw m))).

Definition lex3 (a b : nat * nat * nat) : Prop :=
  (a.1.1 < b.1.1)%nat ∨ (a.1.1 = b.1.1 ∧ (a.1.2 < b.1.2)%nat) ∨
  (a.1.1 = b.1.1 ∧ a.1.2 = b.1.2 ∧ (a.2 < b.2)%nat).

Lemma size_dom_eq (a b : gmap conn cstate) : dom a = dom b → size a = size b.
Proof. intros H. by rewrite <- !size_dom, H. Qed.

(* a non-removal item was popped and only removals were queued: the second component decreases *)
Lemma pop_item_lex m mp r :
  ms mp = ms m → S (nq (mw mp)) = nq (mw m) → oonly mp r →
  match r with Done m' | Fail m' => lex3 (mu m') (mu m) | Panic _ => True end.
Proof.
  intros Hs Hn Hr. destruct r as [m'|m'|]; [| |done]; destruct Hr as [H1 H2]; right; left; cbn;
    (split; [rewrite <- Hs; by apply size_dom_eq|]); rewrite (nq_nonrm _ _ H1); lia.
Qed.

Lemma settle_one_decreases m r :
  MI m → settle_one m = Some r →
  match r with Done m' | Fail m' => lex3 (mu m') (mu m) | Panic _ => True end.
Proof.
  intros H. unfold settle_one.
  destruct (w_remove_conns (mw m)) as [|[c sd] q] eqn:E1.
  2:{ intros [= <-]. set (mp := m <| mw; w_remove_conns := q |>).
      destruct (conns (ms m) !! c) as [cs|] eqn:Ec.
      - destruct (shutdown_conn_spec mp c sd) as (m' & -> & _ & S1 & _); [by eapply MI_quiet; [|exact H]|].
        left. cbn. rewrite S1. cbn. rewrite map_size_delete, Ec.
        assert (size (conns (ms m)) ≠ 0%nat); [|lia]. intros Hz. apply map_size_empty_inv in Hz.
        rewrite Hz in Ec. by rewrite lookup_empty in Ec.
      - unfold shutdown_conn. cbn. rewrite Ec. right. right. cbn. rewrite E1. cbn. split; [done|]. split; [done|lia]. }
  destruct (w_unsub_ev (mw m)) as [|[[c s] e] q] eqn:E2.
  2:{ intros [= <-]. eapply pop_item_lex; [| |apply guarded_oonly]; [done|]. unfold nq. cbn. rewrite E2. cbn. lia. }
  destruct (w_unsub_all (mw m)) as [|[c s] q] eqn:E3.
  2:{ intros [= <-]. eapply pop_item_lex; [| |apply guarded_oonly]; [done|]. unfold nq. cbn. rewrite E3. cbn. lia. }
  destruct (w_svc_destroyed (mw m)) as [|[c s] q] eqn:E4.
  2:{ intros [= <-]. eapply pop_item_lex; [| |apply guarded_oonly]; [done|]. unfold nq. cbn. rewrite E4. cbn. lia. }
  destruct (w_rm_call (mw m)) as [|[[serial c] result] q] eqn:E5.
  2:{ intros [= <-]. set (mp := m <| mw; w_rm_call := q |>).
      eapply (pop_item_lex m mp); [done| |].
      - unfold nq. subst mp. cbn. rewrite E5. cbn. lia.
      - cbn. destruct (conns (ms m) !! c) as [cs|] eqn:Ec; [|apply only_rm_refl].
        destruct (cs_calls cs !! serial); [|done].
        match goal with |- oonly _ (send_or_remove ?a _ _ _) => apply (oonly_trans _ a); [|apply send_or_remove_oonly] end.
        split; [done|]. cbn. rewrite dom_insert_L. apply elem_of_dom_2 in Ec. set_solver. }
  destruct (w_create_obj (mw m)) as [|[u c] q] eqn:E6.
  2:{ intros [= <-]. eapply pop_item_lex; [| |apply bus_oonly]; [done|]. unfold nq. cbn. rewrite E6. cbn. lia. }
  destruct (w_create_svc (mw m)) as [|[[[ou oc] su] sc] q] eqn:E7.
  2:{ intros [= <-]. eapply pop_item_lex; [| |apply bus_oonly]; [done|]. unfold nq. cbn. rewrite E7. cbn. lia. }
  destruct (w_destroy_svc (mw m)) as [|[[[ou oc] su] sc] q] eqn:E8.
  2:{ intros [= <-]. eapply pop_item_lex; [| |apply bus_oonly]; [done|]. unfold nq. cbn. rewrite E8. cbn. lia. }
  destruct (w_destroy_obj (mw m)) as [|[u c] q] eqn:E9.
  2:{ intros [= <-]. eapply pop_item_lex; [| |apply bus_oonly]; [done|]. unfold nq. cbn. rewrite E9. cbn. lia. }
  destruct (w_abort (mw m)) as [|[b callee] q] eqn:E10; [done|].
  intros [= <-]. eapply pop_item_lex; [| |apply abort_call_oonly]; [done|]. unfold nq. cbn. rewrite E10. cbn. lia.
Qed.

(* ---------------------------------------------------------------- termination *)
Lemma lex3_wf_ind (P : nat * nat * nat → Prop) :
  (∀ x, (∀ y, lex3 y x → P y) → P x) → ∀ x, P x.
Proof.
  intros IH [[a b] c]. revert b c. induction a as [a IHa] using lt_wf_ind. intros b.
  induction b as [b IHb] using lt_wf_ind. intros c. induction c as [c IHc] using lt_wf_ind.
  apply IH. intros [[a' b'] c'] Hl. unfold lex3 in Hl. cbn in Hl.
  destruct Hl as [Hl|[[Heq Hl]|(Heq1 & Heq2 & Hl)]]; subst; eauto.
Qed.

Theorem settle_terminates m : MI m → ∃ fuel m', settle fuel m = Done m'.
Proof.
  remember (mu m) as x eqn:Hx. revert m Hx. induction x as [x IH] using lex3_wf_ind. intros m -> H.
  pose proof (settle_one_spec m H) as Hs. pose proof (settle_one_decreases m) as Hd.
  destruct (settle_one m) as [r|] eqn:E.
  - destruct Hs as (m1 & -> & H1 & _). specialize (Hd _ H eq_refl). cbn in Hd.
    destruct (IH _ Hd m1 eq_refl H1) as (fuel & m' & Hf). exists (S fuel), m'. cbn. by rewrite E.
  - exists 0%nat, m. cbn. by rewrite E.
Qed.

(* more fuel does not change a finished run *)
Lemma settle_more fuel : ∀ m m' k, settle fuel m = Done m' → settle (fuel + k) m = Done m'.
Proof.
  induction fuel as [|fuel IH]; intros m m' k; cbn.
  - destruct (settle_one m) as [[m1|m1|]|] eqn:E; try done. intros [= <-].
    destruct k; cbn; by rewrite E.
  - destruct (settle_one m) as [[m1|m1|]|] eqn:E; try done; eauto.
Qed.

(* ---------------------------------------------------------------- a step terminates *)
(* with enough fuel for the work loop every legal step from an [Inv] state is Done; the amount
   needed exists, and any larger amount gives the same result *)
Theorem step_terminates s e fresh bserial :
  Inv s → fresh ∉ cookies_in_use s → bserial_ok s bserial → event_ok s e →
  ∃ n s' o, Inv s' ∧ ∀ F : M → nat, (∀ m, n ≤ F m)%nat → step_fuel F s e fresh bserial = Done (s', o).
Proof.
  intros H Hf Hb He. destruct (handler_good s e fresh bserial H Hf Hb He) as (m & Hh & Hr).
  destruct (settle_terminates m Hr) as (n & m' & Hs).
  exists n, (ms m'), (mo m'). split.
  - pose proof (step_fuel_spec (fun _ => n) s e fresh bserial H Hf Hb He) as Hsp.
    unfold step_fuel in Hsp. rewrite Hh, Hs in Hsp. exact Hsp.
  - intros F HF. unfold step_fuel. rewrite Hh.
    replace (F m) with (n + (F m - n))%nat by (specialize (HF m); lia).
    by rewrite (settle_more _ _ _ _ Hs).
Qed.

(* the model's own [step] (fuel [fuel_for]) either returns that result or stops at the fuel site *)
Corollary step_done_or_fuel s e fresh bserial :
  Inv s → fresh ∉ cookies_in_use s → bserial_ok s bserial → event_ok s e →
  step s e fresh bserial = Panic 0 ∨ ∃ s' o, step s e fresh bserial = Done (s', o) ∧ Inv s'.
Proof.
  intros H Hf Hb He. pose proof (step_spec s e fresh bserial H Hf Hb He) as Hsp.
  destruct (step s e fresh bserial) as [[s' o]|?|site]; [right; eauto|done|left; by subst].
Qed.
