(* Broker/InvProofsCalls.v — clause-level lemmas for the call bookkeeping: the pending maps
   (cs_calls), the call table and the w_rm_call / w_abort queues. *)
From stdpp Require Import gmap list.
From RecordUpdate Require Import RecordSet.
Import RecordSetNotations.
From Aldrin Require Import gen.BrokerConsts Broker.Model Broker.Run Broker.ChannelProofs Broker.Inv
  Broker.InvProofsBase.
From Coq Require Import Lia.
Local Open Scope N_scope.

(* ---------------------------------------------------------------- monotonicity *)
Lemma call_entry_mono Cn K K' : K' ⊆ K → call_entry Cn K → call_entry Cn K'.
Proof. intros Hs H b cl cs Hb. eapply H, lookup_weaken; eauto. Qed.

Lemma caller_live_mono wa wa' X K K' :
  K' ⊆ K → (∀ x, x ∈ wa → x ∈ wa') → caller_live wa X K → caller_live wa' X K'.
Proof.
  intros Hs Hw H b cl Hb Ha. destruct (H b cl) as [?|[ce ?]]; eauto using lookup_weaken.
Qed.

Lemma calls_bound_mono K K' n n' : K' ⊆ K → n = n' → calls_bound K n → calls_bound K' n'.
Proof.
  intros Hs <- [Hn H]. split; [done|]. intros b [cl Hb]. apply H. exists cl. eapply lookup_weaken; eauto.
Qed.

Lemma rmq_nodup_mono Cn Cn' q :
  (∀ c, is_Some (Cn' !! c) → is_Some (Cn !! c)) → rmq_nodup Cn q → rmq_nodup Cn' q.
Proof.
  intros Hs. induction q as [|[[serial c] r] q IH]; cbn; [done|]. intros [H1 H2]. split; eauto.
Qed.

(* removing a connection *)
Lemma call_entry_del_conn Cn K c : call_entry Cn K → call_entry (delete c Cn) K.
Proof. intros H b cl cs Hb Ha Hc. apply lookup_delete_Some in Hc as [_ Hc]. eauto. Qed.
Lemma entry_call_del_conn q Cn K c : entry_call q Cn K → entry_call q (delete c Cn) K.
Proof. intros H c' cs serial b callee Hc. apply lookup_delete_Some in Hc as [_ Hc]. eauto. Qed.
Lemma rmq_entry_del_conn q Cn K c : rmq_entry q Cn K → rmq_entry q (delete c Cn) K.
Proof. intros H serial c' r cs Hq Hc. apply lookup_delete_Some in Hc as [_ Hc]. eauto. Qed.
Lemma rmq_nodup_del_conn q Cn c : rmq_nodup Cn q → rmq_nodup (delete c Cn) q.
Proof.
  apply rmq_nodup_mono. intros c' [cs Hc]. apply lookup_delete_Some in Hc as [_ Hc]. eauto.
Qed.

(* ---------------------------------------------------------------- deleting a call (remove_service) *)
Lemma rmq_entry_delete q Cn K b : rmq_entry q Cn K → rmq_entry q Cn (delete b K).
Proof.
  intros H serial c r cs Hq Hc. destruct (H _ _ _ _ Hq Hc) as (b0 & ce & H1 & H2).
  exists b0, ce. split; [done|]. rewrite lookup_delete_None. by right.
Qed.

Lemma entry_call_delete_aborted q Cn K b cl :
  K !! b = Some cl → c_aborted cl = true → entry_call q Cn K → entry_call q Cn (delete b K).
Proof.
  intros Hb Ha H c cs serial b0 ce Hc He.
  destruct (H _ _ _ _ _ Hc He) as [(cl0 & H1 & H2 & H3 & H4)|[H1 H2]].
  - left. exists cl0. split; [|done]. rewrite lookup_delete_Some. split; [|done].
    intros <-. rewrite Hb in H1. inversion H1; subst. congruence.
  - right. split; [|done]. rewrite lookup_delete_None. by right.
Qed.

Lemma rm_step_live q Cn K b cl r :
  call_entry Cn K → entry_call q Cn K → rmq_entry q Cn K → rmq_nodup Cn q →
  K !! b = Some cl → c_aborted cl = false →
  let q' := (c_serial cl, c_caller cl, r) :: q in
  entry_call q' Cn (delete b K) ∧ rmq_entry q' Cn (delete b K) ∧ rmq_nodup Cn q'.
Proof.
  intros Hce Hec Hqe Hqn Hb Ha q'. split; [|split].
  - intros c cs serial b0 ce Hc He.
    destruct (Hec _ _ _ _ _ Hc He) as [(cl0 & H1 & H2 & H3 & H4)|[H1 [r0 H2]]].
    + destruct (decide (b0 = b)) as [->|Hne].
      * right. rewrite Hb in H1. inversion H1; subst cl0. split; [apply lookup_delete|].
        exists r. subst. left.
      * left. exists cl0. split; [|done]. by rewrite lookup_delete_ne.
    + right. split; [rewrite lookup_delete_None; by right|]. exists r0. by right.
  - intros serial c r0 cs Hq Hc. apply elem_of_cons in Hq as [Hq|Hq].
    + inversion Hq; subst. destruct (Hce _ _ _ Hb Ha Hc) as (ce & He).
      exists b, ce. split; [done|apply lookup_delete].
    + by eapply rmq_entry_delete.
  - cbn. split; [|done]. intros [cs Hc] r0 Hin.
    destruct (Hqe _ _ _ _ Hin Hc) as (b0 & ce0 & H1 & H2).
    destruct (Hce _ _ _ Hb Ha Hc) as (ce & He). rewrite He in H1. inversion H1; subst. congruence.
Qed.

(* ---------------------------------------------------------------- popping w_rm_call (settle) *)
Lemma rm_pop_skip q Cn K serial c r :
  Cn !! c = None → entry_call ((serial, c, r) :: q) Cn K → rmq_entry ((serial, c, r) :: q) Cn K →
  entry_call q Cn K ∧ rmq_entry q Cn K.
Proof.
  intros Hn Hec Hqe. split.
  - intros c' cs' serial' b ce Hc He.
    destruct (Hec _ _ _ _ _ Hc He) as [?|[H1 [r0 H2]]]; [by left|]. right. split; [done|].
    apply elem_of_cons in H2 as [H2|H2]; [|eauto]. inversion H2; subst. congruence.
  - intros serial' c' r' cs' Hq Hc. eapply Hqe; [|done]. by right.
Qed.

Lemma rm_pop_live q Cn K serial c r cs :
  Cn !! c = Some cs →
  call_entry Cn K → entry_call ((serial, c, r) :: q) Cn K → rmq_entry ((serial, c, r) :: q) Cn K →
  rmq_nodup Cn ((serial, c, r) :: q) →
  is_Some (cs_calls cs !! serial) ∧
  let Cn' := <[c := cs <| cs_calls ::= delete serial |>]> Cn in
  call_entry Cn' K ∧ entry_call q Cn' K ∧ rmq_entry q Cn' K ∧ rmq_nodup Cn' q.
Proof.
  intros Hc Hce Hec Hqe [Hnd Hqn].
  destruct (Hqe serial c r cs ltac:(left) Hc) as (b0 & ce0 & He0 & Hb0).
  split; [eauto|]. intros Cn'. split; [|split; [|split]].
  - intros b cl cs' Hb Ha Hc'. unfold Cn' in Hc'. apply lookup_insert_Some in Hc' as [[Heq <-]|[Hne Hc']]; [|eauto].
    rewrite Heq in Hc. destruct (Hce _ _ _ Hb Ha Hc) as (ce & He). exists ce. cbn.
    rewrite lookup_delete_ne; [done|]. intros Hs. rewrite <- Hs in He. rewrite He in He0. inversion He0; subst. congruence.
  - intros c' cs' serial' b ce Hc' He. unfold Cn' in Hc'.
    apply lookup_insert_Some in Hc' as [[<- <-]|[Hne Hc']].
    + cbn in He. apply lookup_delete_Some in He as [Hns He].
      destruct (Hec _ _ _ _ _ Hc He) as [?|[H1 [r0 H2]]]; [by left|]. right. split; [done|].
      apply elem_of_cons in H2 as [H2|H2]; [|eauto]. inversion H2; subst. done.
    + destruct (Hec _ _ _ _ _ Hc' He) as [?|[H1 [r0 H2]]]; [by left|]. right. split; [done|].
      apply elem_of_cons in H2 as [H2|H2]; [|eauto]. inversion H2; subst. done.
  - intros serial' c' r' cs' Hq Hc'. unfold Cn' in Hc'.
    apply lookup_insert_Some in Hc' as [[<- <-]|[Hne Hc']].
    + destruct (Hqe serial' c r' cs ltac:(by right) Hc) as (b & ce & He & Hb).
      exists b, ce. split; [|done]. cbn. rewrite lookup_delete_ne; [done|].
      intros <-. eapply Hnd; eauto.
    + eapply Hqe; [by right|done].
  - eapply rmq_nodup_mono; [|done]. intros c' [cs' Hc']. unfold Cn' in Hc'.
    apply lookup_insert_Some in Hc' as [[<- <-]|[Hne Hc']]; eauto.
Qed.

(* ---------------------------------------------------------------- the pending-call bundle *)
Definition PC (q : list (N * conn * call_result)) (Cn : gmap conn cstate) (K : gmap N call) : Prop :=
  call_entry Cn K ∧ entry_call q Cn K ∧ rmq_entry q Cn K ∧ rmq_nodup Cn q.

(* ---------------------------------------------------------------- abort_call *)
Section mark.
  Context (K : gmap N call) (b : N) (cl : call).
  Hypothesis Hb : K !! b = Some cl.
  Hypothesis Ha : c_aborted cl = false.
  Let K' := <[b := cl <| c_aborted := true |>]> K.

  Lemma mark_calls_svc S : calls_svc S K → calls_svc S K'.
  Proof.
    intros H b0 cl0. unfold K'. rewrite lookup_insert_Some. intros [[<- <-]|[_ H0]]; [|eauto].
    apply (H _ _ Hb).
  Qed.
  Lemma mark_svc_calls S : svc_calls S K → svc_calls S K'.
  Proof.
    intros H k sv b0 Hk Hin. destruct (H _ _ _ Hk Hin) as (cl0 & H0 & Hs). unfold K'.
    destruct (decide (b0 = b)) as [->|Hne].
    - rewrite lookup_insert. eexists. split; [done|]. cbn. congruence.
    - rewrite lookup_insert_ne by done. eauto.
  Qed.
  Lemma mark_calls_bound n : calls_bound K n → calls_bound K' n.
  Proof.
    intros [Hn H]. split; [done|]. intros b0 Hs. apply H. unfold K' in Hs. apply lookup_insert_is_Some in Hs as [<-|[_ ?]]; eauto.
  Qed.
  Lemma mark_caller_live wa X callee : caller_live ((b, callee) :: wa) X K → caller_live wa X K'.
  Proof.
    intros H b0 cl0. unfold K'. rewrite lookup_insert_Some. intros [[<- <-]|[Hne H0]] Ha0; [done|].
    destruct (H _ _ H0 Ha0) as [?|[ce Hin]]; [by left|]. right. exists ce.
    apply elem_of_cons in Hin as [Hin|?]; [|done]. inversion Hin; subst. done.
  Qed.

  Lemma mark_pend q Cn : PC q Cn K →
    match Cn !! c_caller cl with
    | None => PC q Cn K'
    | Some cs => is_Some (cs_calls cs !! c_serial cl) ∧
                 PC q (<[c_caller cl := cs <| cs_calls ::= delete (c_serial cl) |>]> Cn) K'
    end.
  Proof.
    intros (Hce & Hec & Hqe & Hqn). destruct (Cn !! c_caller cl) as [cs|] eqn:Ec.
    - destruct (Hce _ _ _ Hb Ha Ec) as (ce & He). split; [eauto|].
      set (Cn' := <[c_caller cl := cs <| cs_calls ::= delete (c_serial cl) |>]> Cn).
      assert (∀ c' cs' serial b0 ce0, Cn' !! c' = Some cs' → cs_calls cs' !! serial = Some (b0, ce0) →
                ∃ cs0, Cn !! c' = Some cs0 ∧ cs_calls cs0 !! serial = Some (b0, ce0) ∧ b0 ≠ b) as Hold.
      { intros c' cs' serial b0 ce0 Hc' He'. unfold Cn' in Hc'.
        apply lookup_insert_Some in Hc' as [[<- <-]|[Hne Hc']].
        - cbn in He'. apply lookup_delete_Some in He' as [Hns He']. exists cs. split; [done|]. split; [done|].
          intros ->. destruct (Hec _ _ _ _ _ Ec He') as [(cl0 & H1 & H2 & H3 & H4)|[H1 _]]; [|congruence].
          rewrite Hb in H1. inversion H1; subst. done.
        - exists cs'. split; [done|]. split; [done|].
          intros ->. destruct (Hec _ _ _ _ _ Hc' He') as [(cl0 & H1 & H2 & H3 & H4)|[H1 _]]; [|congruence].
          rewrite Hb in H1. inversion H1; subst. done. }
      split; [|split; [|split]].
      + intros b0 cl0 cs'. unfold K'. rewrite lookup_insert_Some. intros [[<- <-]|[Hne H0]] Ha0 Hc'; [done|].
        unfold Cn' in Hc'. apply lookup_insert_Some in Hc' as [[Heq <-]|[Hnc Hc']]; [|eauto].
        rewrite Heq in Ec. destruct (Hce _ _ _ H0 Ha0 Ec) as (ce0 & He0). exists ce0. cbn.
        rewrite lookup_delete_ne; [done|]. intros Hs. rewrite Hs in He. rewrite He in He0. inversion He0. done.
      + intros c' cs' serial b0 ce0 Hc' He'. destruct (Hold _ _ _ _ _ Hc' He') as (cs0 & G1 & G2 & G3).
        destruct (Hec _ _ _ _ _ G1 G2) as [(cl0 & H1 & H2)|[H1 H2]].
        * left. exists cl0. split; [|done]. unfold K'. by rewrite lookup_insert_ne.
        * right. split; [|done]. unfold K'. by rewrite lookup_insert_ne.
      + intros serial c' r cs' Hq Hc'. unfold Cn' in Hc'.
        apply lookup_insert_Some in Hc' as [[<- <-]|[Hnc Hc']].
        * destruct (Hqe _ _ _ _ Hq Ec) as (b0 & ce0 & G1 & G2). exists b0, ce0.
          assert (b0 ≠ b) by congruence. split; [|unfold K'; by rewrite lookup_insert_ne].
          cbn. rewrite lookup_delete_ne; [done|]. intros Hs. rewrite Hs in He. congruence.
        * destruct (Hqe _ _ _ _ Hq Hc') as (b0 & ce0 & G1 & G2). exists b0, ce0.
          assert (b0 ≠ b) by congruence. split; [done|unfold K'; by rewrite lookup_insert_ne].
      + eapply rmq_nodup_mono; [|done]. intros c' [cs' Hc']. unfold Cn' in Hc'.
        apply lookup_insert_Some in Hc' as [[<- <-]|[Hnc Hc']]; eauto.
    - split; [|split; [|split]]; [| | |done].
      + intros b0 cl0 cs'. unfold K'. rewrite lookup_insert_Some. intros [[<- <-]|[Hne H0]] Ha0 Hc'; [done|eauto].
      + intros c' cs' serial b0 ce0 Hc' He'.
        destruct (Hec _ _ _ _ _ Hc' He') as [(cl0 & H1 & H2 & H3)|[H1 H2]].
        * left. exists cl0. split; [|done]. unfold K'. rewrite lookup_insert_ne; [done|].
          intros <-. rewrite Hb in H1. inversion H1; subst. congruence.
        * right. split; [|done]. unfold K'. rewrite lookup_insert_ne; [done|]. congruence.
      + intros serial c' r cs' Hq Hc'. destruct (Hqe _ _ _ _ Hq Hc') as (b0 & ce0 & G1 & G2).
        exists b0, ce0. split; [done|]. unfold K'. rewrite lookup_insert_ne; [done|]. congruence.
  Qed.
End mark.

(* popping a w_abort item whose call is gone or already aborted *)
Lemma caller_live_pop wa X K b callee :
  (∀ cl, K !! b = Some cl → c_aborted cl = true) →
  caller_live ((b, callee) :: wa) X K → caller_live wa X K.
Proof.
  intros Hd H b0 cl0 H0 Ha0. destruct (H _ _ H0 Ha0) as [?|[ce Hin]]; [by left|]. right. exists ce.
  apply elem_of_cons in Hin as [Hin|?]; [|done]. inversion Hin; subst. rewrite (Hd _ H0) in Ha0. done.
Qed.
