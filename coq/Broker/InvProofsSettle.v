(* Broker/InvProofsSettle.v — the work loop: bus, abort_call, settle_one and settle preserve the
   invariant, reach no panic site other than the fuel site 0, and leave w_rm_call / w_abort empty. *)
From stdpp Require Import gmap list.
From RecordUpdate Require Import RecordSet.
Import RecordSetNotations.
From Aldrin Require Import gen.BrokerConsts Broker.Model Broker.Run Broker.ChannelProofs Broker.Inv
  Broker.InvProofsBase Broker.InvProofsCalls Broker.InvProofsRemove Broker.InvProofsRemoveSvc
  Broker.InvProofsShutdown Broker.InvProofsShutdown2.
From Coq Require Import Lia.
Local Open Scope N_scope.

(* nothing is added to the registry *)
(* ... and an object disappears only together with its owner's connection *)
Definition shrinks (m m' : M) : Prop :=
  objs (ms m') ⊆ objs (ms m) ∧
  (∀ k, is_Some (svcs (ms m') !! k) → is_Some (svcs (ms m) !! k)) ∧
  dom (conns (ms m')) ⊆ dom (conns (ms m)) ∧
  (∀ u o, objs (ms m) !! u = Some o → objs (ms m') !! u = Some o ∨ conns (ms m') !! o_owner o = None).

Lemma shrinks_refl m : shrinks m m.
Proof. split; [done|]. split; [done|]. split; [done|]. eauto. Qed.
Lemma shrinks_trans m1 m2 m3 : shrinks m1 m2 → shrinks m2 m3 → shrinks m1 m3.
Proof.
  intros (A1 & A2 & A3 & A4) (B1 & B2 & B3 & B4). split; [etrans; eauto|]. split; [eauto|]. split; [set_solver|].
  intros u o Hu. destruct (A4 _ _ Hu) as [H2|H2]; [eauto|]. right.
  apply not_elem_of_dom. apply not_elem_of_dom in H2. set_solver.
Qed.
Lemma shrinks_ms m m' : ms m' = ms m → shrinks m m'.
Proof. unfold shrinks. intros ->. split; [done|]. split; [done|]. split; [done|]. eauto. Qed.
Lemma quiet_shrinks m m' : quiet m m' → shrinks m m'.
Proof. unfold shrinks. intros (-> & _). split; [done|]. split; [done|]. split; [done|]. eauto. Qed.

(* ---------------------------------------------------------------- quiet folds that cannot fail *)
Definition doneq (m : M) (r : outcome M) : Prop := ∃ m', r = Done m' ∧ quiet m m'.

Lemma foldO_doneq {A} (f : M → A → outcome M) l m :
  (∀ m' x, quiet m m' → doneq m' (f m' x)) → doneq m (foldO f l m).
Proof.
  revert m. induction l as [|x l IH]; intros m Hf; cbn; [by exists m|].
  destruct (Hf m x (quiet_refl m)) as (m1 & -> & Hq1).
  destruct (IH m1) as (m2 & -> & Hq2).
  { intros m' y Hq. apply Hf. eauto using quiet_trans. }
  exists m2. eauto using quiet_trans.
Qed.

Lemma guarded_send_doneq m c x from :
  doneq m (if has m c then send_or_remove m c x from else Done m).
Proof.
  destruct (has m c) eqn:E; [|by exists m]. apply has_spec in E. by apply send_or_remove_done.
Qed.

Lemma bus_doneq m ev : doneq m (bus m ev).
Proof. unfold bus. apply foldO_doneq. intros m' c _. apply guarded_send_doneq. Qed.

(* ---------------------------------------------------------------- abort_call *)
Lemma InvO_dom_eq O X X' q wa s : X = X' → InvO O X q wa s → InvO O X' q wa s.
Proof. by intros ->. Qed.

Lemma abort_call_spec m b callee :
  InvW (w_rm_call (mw m)) ((b, callee) :: w_abort (mw m)) (ms m) →
  ∃ m', abort_call m b callee = Done m' ∧ MI m' ∧ blank_cc (ms m') = blank_cc (ms m) ∧
        dom (conns (ms m')) = dom (conns (ms m)).
Proof.
  intros H. unfold abort_call. destruct (calls (ms m) !! b) as [cl|] eqn:Eb.
  2:{ exists m. split; [done|]. split; [|done]. unfold MI, MX, MO, InvW, InvX in *. mx_frame H.
      eapply caller_live_pop; [|done]. intros cl. rewrite Eb. done. }
  destruct (c_aborted cl) eqn:Ea.
  { exists m. split; [done|]. split; [|done]. unfold MI, MX, MO, InvW, InvX in *. mx_frame H.
    eapply caller_live_pop; [|done]. intros cl0. rewrite Eb. by intros [= <-]. }
  set (m1 := m <| ms; calls ::= <[b := cl <| c_aborted := true |>]> |>).
  assert (∃ m2, match conns (ms m1) !! callee with
                | Some cc => if MIN_ABORT_FUNCTION_CALL_OUT <=? cs_ver cc
                             then send_or_remove m1 callee (AbortFunctionCall b) None else Done m1
                | None => Done m1 end = Done m2 ∧ quiet m1 m2) as (m2 & -> & Hs2 & Hq2 & Ha2).
  { destruct (conns (ms m1) !! callee) as [cc|] eqn:Ecc; [|by exists m1].
    destruct (_ <=? _); [|by exists m1]. apply send_or_remove_done. eauto. }
  cbn [andThen]. rewrite Hs2. subst m1. cbn [ms conns set]. cbn.
  pose proof (mark_pend _ _ _ Eb Ea _ _ (conj (iv_ce _ _ _ _ _ H) (conj (iv_ec _ _ _ _ _ H)
                (conj (iv_qe _ _ _ _ _ H) (iv_qn _ _ _ _ _ H))))) as Hp.
  destruct (conns (ms m) !! c_caller cl) as [cs|] eqn:Ec.
  - destruct Hp as ([p Hp1] & P1 & P2 & P3 & P4). rewrite Hp1.
    match goal with |- ∃ m', send_or_remove ?a ?c ?x ?f = _ ∧ _ =>
      destruct (send_or_remove_done a c x f) as (m3 & -> & Hs3 & Hq3 & Ha3) end.
    { cbn. rewrite Hs2. cbn. rewrite lookup_insert. eauto. }
    exists m3. split; [done|].
    assert (dom (conns (ms m3)) = dom (conns (ms m))) as Hdom.
    { rewrite Hs3. cbn. rewrite Hs2. cbn. rewrite dom_insert_L. apply elem_of_dom_2 in Ec. set_solver. }
    split; [|split; [|done]].
    + unfold MI, MX, MO. rewrite Hdom, Hs3, Hq3, Ha3. cbn. rewrite Hs2, Hq2, Ha2. cbn.
      unfold InvW, InvX in H. mx_frame H.
      * by apply mark_calls_svc.
      * by apply mark_svc_calls.
      * by apply mark_calls_bound.
      * by eapply mark_caller_live.
    + rewrite Hs3. cbn. rewrite Hs2. cbn. done.
  - destruct Hp as (P1 & P2 & P3 & P4). exists m2. split; [done|].
    split; [|split; [by rewrite Hs2|by rewrite Hs2]].
    unfold MI, MX, MO. rewrite Hs2, Hq2, Ha2. cbn. unfold InvW, InvX in H. mx_frame H.
    * by apply mark_calls_svc.
    * by apply mark_svc_calls.
    * by apply mark_calls_bound.
    * by eapply mark_caller_live.
Qed.

(* ---------------------------------------------------------------- settle_one *)
Lemma MI_pop_quiet m m' r :
  MI m → quiet m m' → doneq m' r → ∃ m'', r = Done m'' ∧ MI m'' ∧ shrinks m m''.
Proof.
  intros H Hq (m'' & -> & Hq'). exists m''. split; [done|].
  split; [eapply MI_quiet; [|exact H]; eauto using quiet_trans|].
  apply quiet_shrinks. eauto using quiet_trans.
Qed.

Lemma settle_one_spec m :
  MI m →
  match settle_one m with
  | None => w_rm_call (mw m) = [] ∧ w_abort (mw m) = []
  | Some r => ∃ m', r = Done m' ∧ MI m' ∧ shrinks m m'
  end.
Proof.
  intros H. unfold settle_one.
  destruct (w_remove_conns (mw m)) as [|[c sd] r] eqn:E1.
  2:{ set (mp := m <| mw; w_remove_conns := r |>).
      assert (quiet m mp) as Hq by done.
      destruct (shutdown_conn_spec mp c sd (MI_quiet _ _ Hq H)) as (m' & -> & H' & S1 & S2 & S3 & S4).
      exists m'. split; [done|]. split; [done|]. split; [done|]. split; [done|].
      split; [rewrite S1, dom_delete_L; set_solver|].
      intros u o Hu. destruct (decide (o_owner o = c)) as [->|Hne]; [right; rewrite S1; apply lookup_delete|].
      left. by apply S4. }
  destruct (w_unsub_ev (mw m)) as [|[[c s] e] r] eqn:E2.
  2:{ eapply MI_pop_quiet; [done| |apply guarded_send_doneq]. done. }
  destruct (w_unsub_all (mw m)) as [|[c s] r] eqn:E3.
  2:{ eapply MI_pop_quiet; [done| |apply guarded_send_doneq]. done. }
  destruct (w_svc_destroyed (mw m)) as [|[c s] r] eqn:E4.
  2:{ eapply MI_pop_quiet; [done| |apply guarded_send_doneq]. done. }
  destruct (w_rm_call (mw m)) as [|[[serial c] result] r] eqn:E5.
  2:{ set (mp := m <| mw; w_rm_call := r |>). cbn.
      unfold MI, MX, MO in H. rewrite E5 in H.
      destruct (conns (ms m) !! c) as [cs|] eqn:Ec.
      - destruct (rm_pop_live _ _ _ _ _ _ _ Ec (iv_ce _ _ _ _ _ H) (iv_ec _ _ _ _ _ H)
                    (iv_qe _ _ _ _ _ H) (iv_qn _ _ _ _ _ H)) as ([p Hp] & P1 & P2 & P3 & P4).
        rewrite Hp.
        match goal with |- ∃ m', send_or_remove ?a ?c ?x ?f = _ ∧ _ =>
          destruct (send_or_remove_done a c x f) as (m3 & -> & Hs3 & Hq3 & Ha3) end.
        { cbn. rewrite lookup_insert. eauto. }
        exists m3. split; [done|].
        assert (dom (conns (ms m3)) = dom (conns (ms m))) as Hdom.
        { rewrite Hs3. cbn. rewrite dom_insert_L. apply elem_of_dom_2 in Ec. set_solver. }
        split.
        + unfold MI, MX, MO. rewrite Hdom, Hs3, Hq3, Ha3. cbn. mx_frame H.
        + unfold shrinks. rewrite Hdom, Hs3. cbn. split; [done|]. split; [done|]. split; [done|]. eauto.
      - destruct (rm_pop_skip _ _ _ _ _ _ Ec (iv_ec _ _ _ _ _ H) (iv_qe _ _ _ _ _ H)) as [P1 P2].
        exists mp. split; [done|]. split; [|by apply shrinks_ms]. unfold MI, MX, MO. subst mp. cbn. mx_frame H.
        apply Hqn. }
  destruct (w_create_obj (mw m)) as [|[u c] r] eqn:E6.
  2:{ eapply MI_pop_quiet; [done| |apply bus_doneq]. done. }
  destruct (w_create_svc (mw m)) as [|[[[ou oc] su] sc] r] eqn:E7.
  2:{ eapply MI_pop_quiet; [done| |apply bus_doneq]. done. }
  destruct (w_destroy_svc (mw m)) as [|[[[ou oc] su] sc] r] eqn:E8.
  2:{ eapply MI_pop_quiet; [done| |apply bus_doneq]. done. }
  destruct (w_destroy_obj (mw m)) as [|[u c] r] eqn:E9.
  2:{ eapply MI_pop_quiet; [done| |apply bus_doneq]. done. }
  destruct (w_abort (mw m)) as [|[b callee] r] eqn:E10; [done|].
  set (mp := m <| mw; w_abort := r |>).
  destruct (abort_call_spec mp b callee) as (m' & -> & H' & Hb & Hd).
  { subst mp. cbn. unfold MI, MX, MO in H. rewrite E5, E10 in H. rewrite E5. exact H. }
  exists m'. split; [done|]. split; [done|]. unfold shrinks. rw_fields Hb. rewrite Hd.
  split; [done|]. split; [done|]. split; [done|]. eauto.
Qed.

(* ---------------------------------------------------------------- settle *)
Lemma settle_spec fuel : ∀ m,
  MI m →
  match settle fuel m with
  | Done m' => MI m' ∧ shrinks m m' ∧ w_rm_call (mw m') = [] ∧ w_abort (mw m') = []
  | Fail _ => False
  | Panic s => s = 0
  end.
Proof.
  induction fuel as [|fuel IH]; intros m H; cbn; pose proof (settle_one_spec m H) as Hs;
    (destruct (settle_one m) as [r|];
     [|destruct Hs as [? ?]; split; [done|]; split; [apply shrinks_refl|done]]);
    destruct Hs as (m' & -> & H' & Hsh); [done|].
  specialize (IH m' H'). destruct (settle fuel m'); [|done..].
  destruct IH as (I1 & I2 & I3 & I4). eauto using shrinks_trans.
Qed.
