(* Broker/InvProofsSettle.v — the work loop: bus, abort_call, settle_one and settle preserve the
   invariant, reach no panic site other than the fuel site 0, and leave w_rm_call / w_abort empty. *)
From stdpp Require Import gmap list.
From RecordUpdate Require Import RecordSet.
Import RecordSetNotations.
From Aldrin Require Import gen.BrokerConsts Broker.Model Broker.Run Broker.ChannelProofs Broker.Inv
  Broker.InvProofsBase Broker.InvProofsCalls Broker.InvProofsRemove Broker.InvProofsRemoveSvc
  Broker.InvProofsShutdown Broker.InvProofsShutdown2.
From Coq Require Import Lia.
Local Open Scope N_scope.

(* nothing is added to the registry *)
Definition shrinks (m m' : M) : Prop :=
  objs (ms m') ⊆ objs (ms m) ∧
  (∀ k, is_Some (svcs (ms m') !! k) → is_Some (svcs (ms m) !! k)) ∧
  dom (conns (ms m')) ⊆ dom (conns (ms m)).

Lemma shrinks_refl m : shrinks m m.
Proof. done. Qed.
Lemma shrinks_trans m1 m2 m3 : shrinks m1 m2 → shrinks m2 m3 → shrinks m1 m3.
Proof. intros (A1 & A2 & A3) (B1 & B2 & B3). split; [etrans; eauto|]. split; [eauto|]. set_solver. Qed.
Lemma quiet_shrinks m m' : quiet m m' → shrinks m m'.
Proof. intros (-> & _). done. Qed.

(* ---------------------------------------------------------------- quiet folds that cannot fail *)
Definition doneq (m : M) (r : outcome M) : Prop := ∃ m', r = Done m' ∧ quiet m m'.

Lemma foldO_doneq {A} (f : M → A → outcome M) l m :
  (∀ m' x, quiet m m' → doneq m' (f m' x)) → doneq m (foldO f l m).
Proof.
  revert m. induction l as [|x l IH]; intros m Hf; cbn; [by exists m|].
  destruct (Hf m x (quiet_refl m)) as (m1 & -> & Hq1).
  destruct (IH m1) as (m2 & -> & Hq2).
  { intros m' y Hq. apply Hf. eauto using quiet_trans. }
  exists m2. eauto using quiet_trans.
Qed.

Lemma guarded_send_doneq m c x from :
  doneq m (if has m c then send_or_remove m c x from else Done m).
Proof.
  destruct (has m c) eqn:E; [|by exists m]. apply has_spec in E. by apply send_or_remove_done.
Qed.

Lemma bus_doneq m ev : doneq m (bus m ev).
Proof. unfold bus. apply foldO_doneq. intros m' c _. apply guarded_send_doneq. Qed.

(* ---------------------------------------------------------------- abort_call *)
Lemma InvO_dom_eq O X X' q wa s : X = X' → InvO O X q wa s → InvO O X' q wa s.
Proof. by intros ->. Qed.

Lemma abort_call_spec m b callee :
  InvW (w_rm_call (mw m)) ((b, callee) :: w_abort (mw m)) (ms m) →
  ∃ m', abort_call m b callee = Done m' ∧ MI m' ∧ blank_cc (ms m') = blank_cc (ms m) ∧
        dom (conns (ms m')) = dom (conns (ms m)).
Proof.
  intros H. unfold abort_call. destruct (calls (ms m) !! b) as [cl|] eqn:Eb.
  2:{ exists m. split; [done|]. split; [|done]. unfold MI, MX, MO, InvW, InvX in *. mx_frame H.
      eapply caller_live_pop; [|done]. intros cl. rewrite Eb. done. }
  destruct (c_aborted cl) eqn:Ea.
  { exists m. split; [done|]. split; [|done]. unfold MI, MX, MO, InvW, InvX in *. mx_frame H.
    eapply caller_live_pop; [|done]. intros cl0. rewrite Eb. by intros [= <-]. }
  set (m1 := m <| ms; calls ::= <[b := cl <| c_aborted := true |>]> |>).
  assert (∃ m2, match conns (ms m1) !! callee with
                | Some cc => if MIN_ABORT_FUNCTION_CALL_OUT <=? cs_ver cc
                             then send_or_remove m1 callee (AbortFunctionCall b) None else Done m1
                | None => Done m1 end = Done m2 ∧ quiet m1 m2) as (m2 & -> & Hs2 & Hq2 & Ha2).
  { destruct (conns (ms m1) !! callee) as [cc|] eqn:Ecc; [|by exists m1].
    destruct (_ <=? _); [|by exists m1]. apply send_or_remove_done. eauto. }
  cbn [andThen]. rewrite Hs2. subst m1. cbn [ms conns set]. cbn.
  pose proof (mark_pend _ _ _ Eb Ea _ _ (conj (iv_ce _ _ _ _ _ H) (conj (iv_ec _ _ _ _ _ H)
                (conj (iv_qe _ _ _ _ _ H) (iv_qn _ _ _ _ _ H))))) as Hp.
  destruct (conns (ms m) !! c_caller cl) as [cs|] eqn:Ec.
  - destruct Hp as ([p Hp1] & P1 & P2 & P3 & P4). rewrite Hp1.
    match goal with |- ∃ m', send_or_remove ?a ?c ?x ?f = _ ∧ _ =>
      destruct (send_or_remove_done a c x f) as (m3 & -> & Hs3 & Hq3 & Ha3) end.
    { cbn. rewrite Hs2. cbn. rewrite lookup_insert. eauto. }
    exists m3. split; [done|].
    assert (dom (conns (ms m3)) = dom (conns (ms m))) as Hdom.
    { rewrite Hs3. cbn. rewrite Hs2. cbn. rewrite dom_insert_L. apply elem_of_dom_2 in Ec. set_solver. }
    split; [|split; [|done]].
    + unfold MI, MX, MO. rewrite Hdom, Hs3, Hq3, Ha3. cbn. rewrite Hs2, Hq2, Ha2. cbn.
      unfold InvW, InvX in H. mx_frame H.
      * by apply mark_calls_svc.
      * by apply mark_svc_calls.
      * by apply mark_calls_bound.
      * by eapply mark_caller_live.
    + rewrite Hs3. cbn. rewrite Hs2. cbn. done.
  - destruct Hp as (P1 & P2 & P3 & P4). exists m2. split; [done|].
    split; [|split; [by rewrite Hs2|by rewrite Hs2]].
    unfold MI, MX, MO. rewrite Hs2, Hq2, Ha2. cbn. unfold InvW, InvX in H. mx_frame H.
    * by apply mark_calls_svc.
    * by apply mark_svc_calls.
    * by apply mark_calls_bound.
    * by eapply mark_caller_live.
Qed.
