(* Broker/InvProofsAlive.v — a bystander stays: a connection whose receiver is alive and which is
   not queued for removal is still connected, alive and not queued after any handler run for
   another connection and after the whole work loop.  The broker queues a connection for removal
   only when a send to it fails (receiver gone), when its own handler fails, or on an explicit
   shutdown event.  Needs no invariant: a traversal of the model's code. *)
From stdpp Require Import gmap list.
From RecordUpdate Require Import RecordSet.
Import RecordSetNotations.
From Aldrin Require Import gen.BrokerConsts Broker.Model Broker.Run.
Local Open Scope N_scope.

Definition stays' (c : conn) (Cn : gmap conn cstate) (q : list (conn * bool)) : Prop :=
  (∃ cs, Cn !! c = Some cs ∧ cs_alive cs = true) ∧ ∀ sd, (c, sd) ∉ q.
Definition stays (c : conn) (m : M) : Prop := stays' c (conns (ms m)) (w_remove_conns (mw m)).

Lemma stays_insert c Cn q c1 cs1 cs1' :
  Cn !! c1 = Some cs1 → cs_alive cs1' = cs_alive cs1 → stays' c Cn q → stays' c (<[c1 := cs1']> Cn) q.
Proof.
  intros H1 Ha [(cs & Hc & Hal) Hq]. split; [|done]. destruct (decide (c = c1)) as [->|Hne].
  - exists cs1'. rewrite lookup_insert. split; [done|]. rewrite Ha. congruence.
  - exists cs. by rewrite lookup_insert_ne.
Qed.

Lemma stays_push c Cn q c' cs' sd :
  Cn !! c' = Some cs' → cs_alive cs' = false → stays' c Cn q → stays' c Cn ((c', sd) :: q).
Proof.
  intros H1 Ha [(cs & Hc & Hal) Hq]. split; [eauto|]. intros sd' Hin.
  apply elem_of_cons in Hin as [Heq|Hin]; [|by eapply Hq]. inversion Heq; subst. congruence.
Qed.

Lemma stays_push_ne c Cn q c' sd : c' ≠ c → stays' c Cn q → stays' c Cn ((c', sd) :: q).
Proof.
  intros Hne [Hc Hq]. split; [done|]. intros sd' Hin.
  apply elem_of_cons in Hin as [Heq|Hin]; [|by eapply Hq]. inversion Heq; subst. done.
Qed.

Lemma stays_delete c Cn q c' : c' ≠ c → stays' c Cn q → stays' c (delete c' Cn) q.
Proof. intros Hne [(cs & Hc & Hal) Hq]. split; [|done]. exists cs. by rewrite lookup_delete_ne. Qed.

(* ---------------------------------------------------------------- traversal *)
Definition opr (P : M → Prop) (r : outcome M) : Prop :=
  match r with Done m | Fail m => P m | Panic _ => True end.

Lemma opr_bind (P : M → Prop) x f : opr P x → (∀ m1, P m1 → opr P (f m1)) → opr P (x >>> f).
Proof. destruct x; cbn; auto. Qed.
Lemma opr_foldO {A} (P : M → Prop) (f : M → A → outcome M) l m :
  (∀ m a, P m → opr P (f m a)) → P m → opr P (foldO f l m).
Proof.
  intros Hf. revert m. induction l as [|a l IH]; intros m Hm; cbn; [exact Hm|].
  specialize (Hf m a Hm). destruct (f m a); cbn in *; auto.
Qed.
Lemma pr_foldl {A} (P : M → Prop) (f : M → A → M) l m : (∀ m a, P m → P (f m a)) → P m → P (foldl f m l).
Proof. intros Hf. revert m. induction l as [|a l IH]; intros m Hm; cbn; auto. Qed.
Lemma pr_foldr {A} (P : M → Prop) (f : A → M → M) l m : (∀ m a, P m → P (f a m)) → P m → P (foldr f m l).
Proof. intros Hf Hm. induction l as [|a l IH]; cbn; auto. Qed.

Section Stays.
  Context (c : conn).
  Local Notation P := (stays c).

  Lemma send_stays m c' x from : P m → opr P (send m c' x from).
  Proof. intros H. unfold send. destruct (conns (ms m) !! c'); [|done]. destruct (cs_alive _); exact H. Qed.
  Lemma send_or_remove_stays m c' x from : P m → opr P (send_or_remove m c' x from).
  Proof.
    intros H. unfold send_or_remove, send. destruct (conns (ms m) !! c') as [cs'|] eqn:E; [|done].
    destruct (cs_alive cs') eqn:Ea; cbn; [exact H|]. unfold stays. cbn. by eapply stays_push.
  Qed.
  Lemma send_ignore_stays m c' x from : P m → opr P (send_ignore m c' x from).
  Proof. intros H. unfold send_ignore, send. destruct (conns (ms m) !! c'); [|done]. destruct (cs_alive _); exact H. Qed.

  (* leaves: the machine with record updates that keep conns up to pending-map changes *)
  Ltac leaf :=
    first
      [ assumption
      | match goal with H : stays c ?m |- stays c _ => exact H end
      | match goal with H : stays c ?m |- stays c _ =>
          unfold stays in *; cbn;
          first [ exact H
                | eapply stays_insert; [eassumption|reflexivity|exact H] ]
        end ].

  Ltac step1 :=
    match goal with
    | |- opr _ (Panic _) => exact I
    | |- opr _ (Done _) => cbn [opr]
    | |- opr _ (Fail _) => cbn [opr]
    | |- opr _ (_ >>> _) => apply opr_bind; [|intros ? ?]
    | |- opr _ (foldO _ _ _) => apply opr_foldO; [intros ? ? ?; cbv beta|]
    | |- opr _ (send_or_remove _ _ _ _) => apply send_or_remove_stays
    | |- opr _ (send_ignore _ _ _ _) => apply send_ignore_stays
    | |- opr _ (send _ _ _ _) => apply send_stays
    | |- opr _ (let _ := _ in _) => cbv zeta
    | |- opr _ (match ?x with _ => _ end) => destruct x eqn:?
    | |- opr _ (if ?x then _ else _) => destruct x eqn:?
    | |- ?Q (foldl ?f ?m ?l) => apply (pr_foldl Q f l m); [intros ? ? ?; cbv beta|]
    | |- ?Q (foldr ?f ?m ?l) => apply (pr_foldr Q f l m); [intros ? ? ?; cbv beta|]
    | |- stays _ (match ?x with _ => _ end) => destruct x eqn:?
    | |- stays _ (if ?x then _ else _) => destruct x eqn:?
    | |- stays _ (let _ := _ in _) => cbv zeta
    | |- stays ?c0 (set _ _ ?x) => change (stays c0 x)
    | |- _ => leaf
    end.

  Lemma remove_listener_stays m k : P m → P (remove_listener m k).
  Proof. intros H. unfold remove_listener. destruct (listeners (ms m) !! k); exact H. Qed.

  Lemma remove_end_stays m k e : P m → opr P (remove_end m k e).
  Proof. intros H. unfold remove_end. repeat step1. Qed.

  Lemma remove_service_stays m k : P m → opr P (remove_service m k).
  Proof. intros H. unfold remove_service. repeat step1. Qed.

  Lemma remove_object_stays m k : P m → opr P (remove_object m k).
  Proof.
    intros H. unfold remove_object.
    repeat first [ match goal with |- opr _ (remove_service _ _) => apply remove_service_stays end | step1 ].
  Qed.

  Lemma bus_stays m ev : P m → opr P (bus m ev).
  Proof. intros H. unfold bus. repeat step1. Qed.

  Lemma abort_call_stays m b callee : P m → opr P (abort_call m b callee).
  Proof. intros H. unfold abort_call. repeat step1. Qed.

  Lemma shutdown_conn_stays m c' sd : c' ≠ c → P m → opr P (shutdown_conn m c' sd).
  Proof.
    intros Hne H. unfold shutdown_conn. destruct (conns (ms m) !! c') as [cs|] eqn:Hc; [|exact H].
    cbv zeta.
    match goal with |- opr _ (foldO _ _ (foldl _ ?a _) >>> _) => assert (P a) as H1 end.
    { destruct (sd && cs_alive cs); unfold stays in *; cbn; by apply stays_delete. }
    match goal with |- opr _ (foldO _ _ (foldl _ ?a _) >>> _) => generalize dependent a; intros m1 H1 end.
    repeat first
      [ match goal with
        | |- opr _ (remove_object _ _) => apply remove_object_stays
        | |- opr _ (remove_end _ _ _) => apply remove_end_stays
        | |- stays _ (remove_listener _ _) => apply remove_listener_stays
        end
      | step1 ].
  Qed.

  Lemma settle_one_stays m r : P m → settle_one m = Some r → opr P r.
  Proof.
    intros H. unfold settle_one. destruct (w_remove_conns (mw m)) as [|[c' sd] q] eqn:Eq.
    - assert (∀ m', w_remove_conns (mw m') = w_remove_conns (mw m) → conns (ms m') = conns (ms m) → P m') as H'.
      { intros m' Hw Hs. unfold stays. by rewrite Hw, Hs. }
      repeat match goal with
             | |- match ?l with [] => _ | _ :: _ => _ end = Some _ → _ => destruct l as [|? ?]
             | |- (let '(_, _) := ?p in _) = Some _ → _ => destruct p
             end; try discriminate; intros [= <-];
        repeat first
          [ match goal with
            | |- opr _ (abort_call _ _ _) => apply abort_call_stays
            | |- opr _ (bus _ _) => apply bus_stays
            | |- stays _ _ => solve [apply H'; reflexivity]
            end
          | step1 ].
    - intros [= <-]. destruct H as [Hc Hq]. apply shutdown_conn_stays.
      + intros ->. apply (Hq sd). rewrite Eq. left.
      + split; [exact Hc|]. cbn. intros sd' Hin. apply (Hq sd'). rewrite Eq. by right.
  Qed.

  Lemma settle_stays fuel : ∀ m, P m → opr P (settle fuel m).
  Proof.
    induction fuel as [|fuel IH]; intros m H; cbn [settle];
      destruct (settle_one m) as [r|] eqn:E; try exact H;
      pose proof (settle_one_stays m r H E) as Hr; destruct r; cbn in Hr |- *; trivial; apply IH; assumption.
  Qed.

  (* the handlers: whoever sends the message *)
  Lemma create_service_impl_stays m c' serial oc u i fresh : P m → opr P (create_service_impl m c' serial oc u i fresh).
  Proof. intros H. unfold create_service_impl. repeat step1. Qed.

  Lemma call_impl_stays m c' serial sc fn ver v bserial : P m → opr P (call_impl m c' serial sc fn ver v bserial).
  Proof. intros H. unfold call_impl. repeat step1. Qed.

  Lemma gate_stays m c' minv k : P m → (∀ m, P m → opr P (k m)) → opr P (gate m c' minv k).
  Proof. intros H Hk. unfold gate. destruct (ver_of m c'); [|exact H]. destruct (_ <? _); [exact H|by apply Hk]. Qed.

  Lemma claim_tail_stays m1 c' reply other msg :
    P m1 →
    opr P (match send m1 c' reply None with
           | Panic s => Panic s
           | Done m2 => send_or_remove m2 other msg None
           | Fail m2 =>
               match send_or_remove m2 other msg None with
               | Done m3 => Fail m3
               | x => x
               end
           end).
  Proof.
    intros H. pose proof (send_stays m1 c' reply None H) as Hs.
    destruct (send m1 c' reply None) as [m2|m2|]; cbn in Hs; [by apply send_or_remove_stays| |done].
    pose proof (send_or_remove_stays m2 other msg None Hs) as Hs2.
    destruct (send_or_remove m2 other msg None); done.
  Qed.

  Lemma handle_stays m c' x fresh bserial : P m → opr P (handle m c' x fresh bserial).
  Proof.
    intros H. unfold handle. destruct (conns (ms m) !! c') as [cs|] eqn:Hc; [|exact H].
    cbv zeta. destruct x;
    repeat first
      [ match goal with
        | |- opr _ (match send _ _ _ _ with _ => _ end) => apply claim_tail_stays
        | |- opr _ (gate _ _ _ _) => apply gate_stays; [|intros ? ?]
        | |- opr _ (create_service_impl _ _ _ _ _ _ _) => apply create_service_impl_stays
        | |- opr _ (call_impl _ _ _ _ _ _ _ _) => apply call_impl_stays
        | |- opr _ (remove_object _ _) => apply remove_object_stays
        | |- opr _ (remove_service _ _) => apply remove_service_stays
        | |- opr _ (remove_end _ _ _) => apply remove_end_stays
        | |- stays _ (remove_listener _ _) => apply remove_listener_stays
        end
      | step1 ].
  Qed.
End Stays.
