(* Broker/FuelProofsFrame.v — frame theorems for C11: what a step made for connection [c] (or the
   removal of connections other than the owners) leaves untouched.  Code traversals in the style of
   InvProofsKeep.v; the owners' connections are protected by [stays] (InvProofsAlive.v): a live
   receiver that is not queued for removal is never removed by the work loop. *)
From stdpp Require Import gmap list.
From RecordUpdate Require Import RecordSet.
Import RecordSetNotations.
From Aldrin Require Import gen.BrokerConsts Broker.Model Broker.Run Broker.Wp Broker.Inv Broker.InvProofsBase
  Broker.InvProofsAlive Broker.FuelProofs.
Local Open Scope N_scope.

(* ================================================================ channels *)
(* a channel both of whose ends are claimed by connections other than the one being served or
   removed stays exactly as it is *)
Section ChanFrame.
  Context (k : uuid) (ch : chan) (o1 o2 : conn) (n1 n2 : N).
  Context (Hs : ch_s ch = Claimed o1 n1) (Hr : ch_r ch = Claimed o2 n2).
  Definition keeps_chan (m : M) : Prop := chans (ms m) !! k = Some ch.
  Local Notation P := keeps_chan.

  Lemma send_kc m c' x from : P m → opr P (send m c' x from).
  Proof. intros H. unfold send. destruct (conns (ms m) !! c'); [|done]. destruct (cs_alive _); exact H. Qed.
  Lemma send_or_remove_kc m c' x from : P m → opr P (send_or_remove m c' x from).
  Proof.
    intros H. unfold send_or_remove, send. destruct (conns (ms m) !! c'); [|done]. destruct (cs_alive _); exact H.
  Qed.
  Lemma send_ignore_kc m c' x from : P m → opr P (send_ignore m c' x from).
  Proof. intros H. unfold send_ignore, send. destruct (conns (ms m) !! c'); [|done]. destruct (cs_alive _); exact H. Qed.

  Ltac leaf :=
    first
      [ assumption
      | match goal with H : keeps_chan ?m |- keeps_chan _ => exact H end
      | match goal with H : keeps_chan ?m |- keeps_chan _ =>
          unfold keeps_chan in *; cbn; rewrite ?lookup_delete_ne, ?lookup_insert_ne by congruence; exact H
        end ].

  Ltac step1 :=
    match goal with
    | |- opr _ (Panic _) => exact I
    | |- opr _ (Done _) => cbn [opr]
    | |- opr _ (Fail _) => cbn [opr]
    | |- opr _ (_ >>> _) => apply opr_bind; [|intros ? ?]
    | |- opr _ (foldO _ _ _) => apply opr_foldO; [intros ? ? ?; cbv beta|]
    | |- opr _ (send_or_remove _ _ _ _) => apply send_or_remove_kc
    | |- opr _ (send_ignore _ _ _ _) => apply send_ignore_kc
    | |- opr _ (send _ _ _ _) => apply send_kc
    | |- opr _ (let _ := _ in _) => cbv zeta
    | |- opr _ (match ?x with _ => _ end) => destruct x eqn:?
    | |- opr _ (if ?x then _ else _) => destruct x eqn:?
    | |- ?Q (foldl ?f ?m ?l) => apply (pr_foldl Q f l m); [intros ? ? ?; cbv beta|]
    | |- ?Q (foldr ?f ?m ?l) => apply (pr_foldr Q f l m); [intros ? ? ?; cbv beta|]
    | |- keeps_chan (match ?x with _ => _ end) => destruct x eqn:?
    | |- keeps_chan (if ?x then _ else _) => destruct x eqn:?
    | |- keeps_chan (let _ := _ in _) => cbv zeta
    | |- keeps_chan (set _ _ ?x) => first [ change (keeps_chan x) | leaf ]
    | |- _ => leaf
    end.

  Lemma remove_listener_kc m k' : P m → P (remove_listener m k').
  Proof. intros H. unfold remove_listener. destruct (listeners (ms m) !! k'); exact H. Qed.
  Lemma remove_service_kc m k' : P m → opr P (remove_service m k').
  Proof. intros H. unfold remove_service. repeat step1. Qed.
  Lemma remove_object_kc m k' : P m → opr P (remove_object m k').
  Proof.
    intros H. unfold remove_object.
    repeat first [ match goal with |- opr _ (remove_service _ _) => apply remove_service_kc end | step1 ].
  Qed.
  Lemma bus_kc m ev : P m → opr P (bus m ev).
  Proof. intros H. unfold bus. repeat step1. Qed.
  Lemma abort_call_kc m b callee : P m → opr P (abort_call m b callee).
  Proof. intros H. unfold abort_call. repeat step1. Qed.

  (* closing an end of ANOTHER channel *)
  Lemma remove_end_kc m k' e : k' ≠ k → P m → opr P (remove_end m k' e).
  Proof. intros Hne H. unfold remove_end. repeat step1. Qed.

  (* the ends of [c']'s channels, for a connection that owns neither end of this one *)
  Lemma sc_end_kc c' e m k' : c' ≠ o1 → c' ≠ o2 → P m → opr P (sc_end c' e m k').
  Proof.
    intros H1 H2 H. unfold sc_end. destruct (decide (k' = k)) as [->|Hne].
    - rewrite H. destruct e; rewrite ?Hs, ?Hr; rewrite bool_decide_eq_false_2 by congruence; exact H.
    - destruct (chans (ms m) !! k'); [|exact H].
      destruct (match e with ESender => _ | EReceiver => _ end); try exact H.
      destruct (bool_decide _); [by apply remove_end_kc|exact H].
  Qed.

  Lemma sc_ev_kc c' m k' : P m → opr P (sc_ev c' m k').
  Proof. intros H. unfold sc_ev, sc_ev_inner. repeat step1. Qed.
  Lemma sc_all_kc c' m k' : P m → opr P (sc_all c' m k').
  Proof. intros H. unfold sc_all. repeat step1. Qed.

  Lemma shutdown_conn_kc m c' sd : c' ≠ o1 → c' ≠ o2 → P m → opr P (shutdown_conn m c' sd).
  Proof.
    intros H1 H2 H. rewrite shutdown_conn_eq. destruct (conns (ms m) !! c') as [cs|]; [|exact H].
    cbv zeta.
    match goal with |- opr _ (foldO _ _ (foldl _ ?a _) >>> _) => assert (P a) as Ha end.
    { destruct (sd && cs_alive cs); exact H. }
    match goal with |- opr _ (foldO _ _ (foldl _ ?a _) >>> _) => generalize dependent a; intros m1 Ha end.
    apply opr_bind.
    { apply opr_foldO; [intros; by apply remove_object_kc|].
      apply pr_foldl; [intros; by apply remove_listener_kc|exact Ha]. }
    intros m3 H3. apply opr_bind; [apply opr_foldO; [intros; by apply sc_ev_kc|exact H3]|].
    intros m4 H4. apply opr_bind; [apply opr_foldO; [intros; by apply sc_all_kc|exact H4]|].
    intros m5 H5. apply opr_bind; [apply opr_foldO; [intros; by apply sc_end_kc|exact H5]|].
    intros m7 H7. apply opr_bind; [apply opr_foldO; [intros; by apply sc_end_kc|exact H7]|].
    intros m8 H8. cbn [opr]. unfold keeps_chan in *. cbn. rewrite sc_aborts_ms. exact H8.
  Qed.

  (* the work loop, while both owners stay *)
  Definition kc_inv (m : M) : Prop := stays o1 m ∧ stays o2 m ∧ P m.

  Lemma settle_one_kc m r : kc_inv m → settle_one m = Some r → opr kc_inv r.
  Proof.
    intros (S1 & S2 & H) E.
    pose proof (settle_one_stays o1 m r S1 E) as R1. pose proof (settle_one_stays o2 m r S2 E) as R2.
    assert (opr P r) as R3.
    { revert E. unfold settle_one. destruct (w_remove_conns (mw m)) as [|[c' sd] q] eqn:Eq.
      - repeat match goal with
               | |- match ?l with [] => _ | _ :: _ => _ end = Some _ → _ => destruct l as [|? ?]
               | |- (let '(_, _) := ?p in _) = Some _ → _ => destruct p
               end; try discriminate; intros [= <-];
          repeat first
            [ match goal with
              | |- opr _ (abort_call _ _ _) => apply abort_call_kc
              | |- opr _ (bus _ _) => apply bus_kc
              end
            | step1 ].
      - intros [= <-]. apply shutdown_conn_kc; [| |exact H].
        + intros ->. destruct S1 as [_ Hq]. apply (Hq sd). rewrite Eq. left.
        + intros ->. destruct S2 as [_ Hq]. apply (Hq sd). rewrite Eq. left. }
    unfold kc_inv. destruct r; cbn in *; [split_and!; assumption..|done].
  Qed.

  Lemma settle_kc fuel : ∀ m, kc_inv m → opr kc_inv (settle fuel m).
  Proof.
    induction fuel as [|fuel IH]; intros m H; rewrite settle_unfold;
      (destruct (settle_one m) as [r|] eqn:E; [|exact H]);
      pose proof (settle_one_kc m r H E) as Hres; destruct r as [m'|m'|]; cbn in Hres |- *; trivial;
      apply IH; assumption.
  Qed.

  (* the handlers of a connection that owns neither end; [fresh] is not this channel's cookie *)
  Lemma create_service_impl_kc m c' serial oc u i fresh : P m → opr P (create_service_impl m c' serial oc u i fresh).
  Proof. intros H. unfold create_service_impl. repeat step1. Qed.
  Lemma call_impl_kc m c' serial sc fn ver v bserial : P m → opr P (call_impl m c' serial sc fn ver v bserial).
  Proof. intros H. unfold call_impl. repeat step1. Qed.
  Lemma gate_kc m c' minv f : P m → (∀ m, P m → opr P (f m)) → opr P (gate m c' minv f).
  Proof. intros H Hk. unfold gate. destruct (ver_of m c'); [|exact H]. destruct (_ <? _); [exact H|by apply Hk]. Qed.

  Lemma claim_tail_kc m1 c' reply other msg :
    P m1 →
    opr P (match send m1 c' reply None with
           | Panic s => Panic s
           | Done m2 => send_or_remove m2 other msg None
           | Fail m2 =>
               match send_or_remove m2 other msg None with
               | Done m3 => Fail m3
               | x => x
               end
           end).
  Proof.
    intros H. pose proof (send_kc m1 c' reply None H) as Hs1.
    destruct (send m1 c' reply None) as [m2|m2|]; cbn in Hs1; [by apply send_or_remove_kc| |done].
    pose proof (send_or_remove_kc m2 other msg None Hs1) as Hs2.
    destruct (send_or_remove m2 other msg None); done.
  Qed.

  Lemma handle_kc m c x fresh bserial : P m → c ≠ o1 → c ≠ o2 → fresh ≠ k → opr P (handle m c x fresh bserial).
  Proof.
    intros H H1 H2 Hf. unfold handle. destruct (conns (ms m) !! c) as [cs|] eqn:Hc; [|exact H].
    cbv zeta. destruct x;
    try (repeat first
      [ match goal with
        | |- opr _ (match send _ _ _ _ with _ => _ end) => apply claim_tail_kc
        | |- opr _ (gate _ _ _ _) => apply gate_kc; [|intros ? ?]
        | |- opr _ (create_service_impl _ _ _ _ _ _ _) => apply create_service_impl_kc
        | |- opr _ (call_impl _ _ _ _ _ _ _ _) => apply call_impl_kc
        | |- opr _ (remove_service _ _) => apply remove_service_kc
        | |- opr _ (remove_object _ _) => apply remove_object_kc
        | |- keeps_chan (remove_listener _ _) => apply remove_listener_kc
        end
      | step1 ]; fail).
    - (* CloseChannelEnd *)
      destruct (decide (c0 = k)) as [->|Hne].
      + rewrite H. unfold chan_close_result. destruct e; rewrite ?Hs, ?Hr;
          rewrite bool_decide_eq_false_2 by congruence; repeat step1.
      + repeat first [ match goal with |- opr _ (remove_end _ _ _) => apply remove_end_kc; [exact Hne|] end | step1 ].
    - (* ClaimChannelEnd *)
      destruct (decide (c0 = k)) as [->|Hne].
      + rewrite H. unfold chan_claim. destruct e; rewrite ?Hs, ?Hr; by apply send_kc.
      + repeat first [ match goal with |- opr _ (match send _ _ _ _ with _ => _ end) => apply claim_tail_kc end | step1 ].
    - (* AddChannelCapacity *)
      destruct (decide (c0 = k)) as [->|Hne].
      + rewrite H. unfold chan_add_capacity. destruct (cap =? 0); [exact H|]. rewrite Hr.
        rewrite bool_decide_eq_false_2 by congruence. exact H.
      + repeat first [ match goal with |- opr _ (remove_end _ _ _) => apply remove_end_kc; [exact Hne|] end | step1 ].
    - (* SendItem *)
      destruct (decide (c0 = k)) as [->|Hne].
      + rewrite H. unfold chan_send_item. rewrite Hs. rewrite bool_decide_eq_false_2 by congruence. exact H.
      + repeat first [ match goal with |- opr _ (remove_end _ _ _) => apply remove_end_kc; [exact Hne|] end | step1 ].
  Qed.
End ChanFrame.

(* ================================================================ services *)
(* a service of an object owned by another, healthy connection stays registered under the same
   key with the same cookie, object cookie and info (subscriptions and pending calls of the
   served connection may change: that is the protocol) *)
Section SvcFrame.
  Context (k : uuid * uuid) (o : obj) (ck ock : uuid) (inf : info).
  Definition sid (sv : svc) : Prop := s_cookie sv = ck ∧ s_obj_cookie sv = ock ∧ s_info sv = inf.
  (* on the two maps; the last two clauses say that the object's and the service's cookie name
     nothing else (they hold in reachable states and are kept because new cookies are fresh) *)
  Definition sf' (O : gmap uuid obj) (S : gmap (uuid * uuid) svc) : Prop :=
    O !! k.1 = Some o ∧ (∃ sv, S !! k = Some sv ∧ sid sv) ∧
    (∀ u' o', O !! u' = Some o' → o_cookie o' = o_cookie o → u' = k.1) ∧
    (∀ k' sv', S !! k' = Some sv' → s_cookie sv' = ck → k' = k).
  Definition sf (s : state) : Prop := sf' (objs s) (svcs s).

  Lemma sf_svc_insert O S k0 v' :
    sf' O S → (k0 = k → sid v') → (s_cookie v' = ck → k0 = k) → sf' O (<[k0 := v']> S).
  Proof.
    intros (H1 & (sv & H2 & H2') & H3 & H4) Ha Hb. split; [done|]. split; [|split; [done|]].
    - destruct (decide (k0 = k)) as [->|Hne]; [exists v'; rewrite lookup_insert; auto|].
      exists sv. by rewrite lookup_insert_ne.
    - intros k' sv'. rewrite lookup_insert_Some. intros [[<- <-]|[_ Hk']]; eauto.
  Qed.
  Lemma sf_svc_delete O S k0 : sf' O S → k0 ≠ k → sf' O (delete k0 S).
  Proof.
    intros (H1 & (sv & H2 & H2') & H3 & H4) Hne. split; [done|]. split; [|split; [done|]].
    - exists sv. by rewrite lookup_delete_ne.
    - intros k' sv'. rewrite lookup_delete_Some. intros [_ Hk']; eauto.
  Qed.
  Lemma sf_obj_insert O S u o' : sf' O S → u ≠ k.1 → o_cookie o' ≠ o_cookie o → sf' (<[u := o']> O) S.
  Proof.
    intros (H1 & H2 & H3 & H4) Hne Hc. split; [by rewrite lookup_insert_ne|]. split; [done|]. split; [|done].
    intros u' o''. rewrite lookup_insert_Some. intros [[<- <-]|[_ Hu']]; [done|eauto].
  Qed.
  Lemma sf_obj_delete O S u : sf' O S → u ≠ k.1 → sf' (delete u O) S.
  Proof.
    intros (H1 & H2 & H3 & H4) Hne. split; [by rewrite lookup_delete_ne|]. split; [done|]. split; [|done].
    intros u' o''. rewrite lookup_delete_Some. intros [_ Hu']; eauto.
  Qed.
  (* an update of a stored service that keeps its identity *)
  Lemma sf_svc_update O S k0 v v' :
    sf' O S → S !! k0 = Some v → s_cookie v' = s_cookie v → s_obj_cookie v' = s_obj_cookie v →
    s_info v' = s_info v → sf' O (<[k0 := v']> S).
  Proof.
    intros H Hk0 E1 E2 E3. pose proof H as (H1 & (sv & H2 & H2') & H3 & H4). apply sf_svc_insert; [exact H|..].
    - intros ->. rewrite H2 in Hk0. inversion Hk0; subst v. unfold sid in *. rewrite E1, E2, E3. exact H2'.
    - rewrite E1. eauto.
  Qed.
  Lemma sf_svc_cookie O S k0 v : sf' O S → S !! k0 = Some v → s_cookie v = ck → k0 = k.
  Proof. intros (_ & _ & _ & H4). eauto. Qed.
  Lemma sf_svc_cookie_ne O S k0 v : sf' O S → S !! k0 = Some v → k0 ≠ k → s_cookie v ≠ ck.
  Proof. intros (_ & _ & _ & H4) Hk0 Hne Hc. eauto. Qed.
  Lemma sf_obj_cookie O S u o' : sf' O S → O !! u = Some o' → o_cookie o' = o_cookie o → o' = o.
  Proof. intros (H1 & _ & H3 & _) Hu Hc. rewrite (H3 _ _ Hu Hc) in Hu. congruence. Qed.

  Lemma sf_subs c s : sf s → sf (sc_subs c s).
  Proof.
    intros (H1 & (sv & H2 & H2') & H3 & H4). unfold sf, sc_subs. cbn. split; [done|]. split; [|split; [done|]].
    - eexists. rewrite lookup_fmap, H2. cbn. split; [reflexivity|]. exact H2'.
    - intros k' sv'. rewrite lookup_fmap. destruct (svcs s !! k') as [v|] eqn:E; [|done]. cbn.
      intros [= <-]. cbn. eauto.
  Qed.

  (* leaves: the state after record updates; [objs] and [svcs] reduce to maps *)
  Ltac sf_leaf :=
    first
      [ assumption
      | match goal with H : sf (ms ?m) |- _ => unfold sf in *; cbn in *; exact H end
      | idtac ].

  Lemma remove_listener_sf m k' : sf (ms m) → sf (ms (remove_listener m k')).
  Proof. intros H. unfold remove_listener. destruct (listeners (ms m) !! k'); exact H. Qed.
  Lemma remove_end_sf m k' e : sf (ms m) → res (SP sf) never (remove_end m k' e).
  Proof.
    intros H. unfold remove_end. destruct (chans (ms m) !! k'); [|exact H]. cbv zeta.
    destruct (chan_close _ e); [exact H| |exact I].
    destruct (has _ _); [|exact H]. apply send_or_remove_sp. exact H.
  Qed.

  (* removing a service with another cookie *)
  Lemma remove_service_sf m cookie : sf (ms m) → cookie ≠ ck → res (SP sf) never (remove_service m cookie).
  Proof.
    intros H Hne. unfold remove_service. destruct (svc_by_cookie (ms m) cookie) as [[k0 v]|] eqn:E; [|exact H].
    apply svc_by_cookie_Some in E as [E Ec]. cbv zeta.
    assert (k0 ≠ k) as Hk0.
    { intros ->. destruct H as (_ & (sv & H2 & H2' & _) & _). rewrite H2 in E. inversion E; subst. congruence. }
    eapply res_bind with (QD := SP sf).
    - apply foldO_res.
      + intros m' b _ Hm'. destruct (calls (ms m') !! b) as [cl|]; [|exact I]. cbn [res].
        destruct (c_aborted cl); exact Hm'.
      + unfold SP, sf. cbn. by apply sf_svc_delete.
    - intros m2 H2. cbn [res].
      match goal with |- context [foldr _ m2 ?l] => destruct (push_svcd_spec cookie l m2) as (P1 & _) end.
      cbv zeta in P1. unfold SP, sf in *. cbn. rewrite P1. exact H2.
  Qed.

  (* removing an object with another cookie: its services have other cookies *)
  Lemma remove_object_sf m cookie : sf (ms m) → cookie ≠ o_cookie o → res (SP sf) never (remove_object m cookie).
  Proof.
    intros H Hne. unfold remove_object. destruct (obj_by_cookie (ms m) cookie) as [[u o']|] eqn:E; [|exact H].
    apply obj_by_cookie_Some in E as [E Ec]. cbv zeta.
    assert (u ≠ k.1) as Hu.
    { intros ->. destruct H as (H1 & _). rewrite H1 in E. inversion E; subst. congruence. }
    eapply res_bind with (QD := SP sf).
    - apply foldO_res.
      + intros m' sc Hin Hm'. apply remove_service_sf; [exact Hm'|].
        apply elem_of_list_fmap in Hin as ([k0 v] & -> & Hin). cbn.
        apply elem_of_List_filter in Hin as [Hin Hp]. apply elem_of_map_to_list in Hin.
        apply bool_decide_eq_true in Hp. cbn in Hp, Hin.
        eapply (sf_svc_cookie_ne _ _ k0 v); [exact H|exact Hin|]. intros ->. congruence.
      + unfold SP, sf. cbn. by apply sf_obj_delete.
    - intros m2 H2. exact H2.
  Qed.

  Lemma sc_ev_sf c' m k' : sf (ms m) → res (SP sf) never (sc_ev c' m k').
  Proof.
    intros H. unfold sc_ev. destruct (svcs (ms m) !! k'); [|exact H].
    destruct (owner_of_svc _ _); [|exact I]. cbn [res]. apply (foldl_inv (SP sf)); [|exact H].
    intros m' e _ Hm'. unfold sc_ev_inner. destruct (svcs (ms m') !! k') as [v|] eqn:E; [|exact Hm'].
    cbv zeta. destruct (bool_decide _); unfold SP, sf in *; cbn; eapply sf_svc_update; eauto.
  Qed.

  Lemma sc_all_sf c' m k' : sf (ms m) → res (SP sf) never (sc_all c' m k').
  Proof.
    intros H. unfold sc_all. destruct (svcs (ms m) !! k') as [v|] eqn:E; [|exact H].
    destruct (owner_of_svc _ _); [|exact I]. destruct (bool_decide (c' ∈ _)); [|exact H].
    cbn [res]. cbv zeta. destruct (bool_decide _); unfold SP, sf in *; cbn; eapply sf_svc_update; eauto.
  Qed.

  Lemma sc_end_sf c' e m k' : sf (ms m) → res (SP sf) never (sc_end c' e m k').
  Proof.
    intros H. unfold sc_end. destruct (chans (ms m) !! k'); [|exact H].
    destruct (match e with ESender => _ | EReceiver => _ end); try exact H.
    destruct (bool_decide _); [by apply remove_end_sf|exact H].
  Qed.

  Lemma shutdown_conn_sf m c' sd : c' ≠ o_owner o → sf (ms m) → res (SP sf) never (shutdown_conn m c' sd).
  Proof.
    intros Hne H. rewrite shutdown_conn_eq. destruct (conns (ms m) !! c') as [cs|]; [|exact H].
    cbv zeta.
    match goal with |- res _ _ (foldO _ _ (foldl _ ?x _) >>> _) => set (m1 := x) end.
    assert (sf (ms m1)) as H1 by (subst m1; destruct (sd && cs_alive cs); exact H). clearbody m1.
    match goal with |- res _ _ (foldO _ _ ?x >>> _) => set (m2 := x) end.
    assert (sf (ms m2)) as H2.
    { subst m2. apply (foldl_inv (SP sf)); [intros; by apply remove_listener_sf|exact H1]. }
    clearbody m2.
    assert (∀ x, x ∈ sc_owned c' (ms m2) → x ≠ o_cookie o) as Hown.
    { intros x Hx. unfold sc_owned in Hx. apply elem_of_list_fmap in Hx as ([u' o'] & -> & Hx). cbn.
      apply elem_of_List_filter in Hx as [Hx Hp]. apply elem_of_map_to_list in Hx.
      apply bool_decide_eq_true in Hp. cbn in Hp. intros Hc.
      pose proof (sf_obj_cookie _ _ _ _ H2 Hx Hc). congruence. }
    eapply res_bind with (QD := SP sf);
      [apply foldO_res; [intros m' x Hx Hm'; apply remove_object_sf; [exact Hm'|by apply Hown]|exact H2]|].
    intros m3 H3. eapply res_bind with (QD := SP sf); [apply foldO_res; [intros; by apply sc_ev_sf|exact H3]|].
    intros m4 H4. eapply res_bind with (QD := SP sf); [apply foldO_res; [intros; by apply sc_all_sf|exact H4]|].
    intros m5 H5. eapply res_bind with (QD := SP sf);
      [apply foldO_res; [intros; by apply sc_end_sf|by apply sf_subs]|].
    intros m7 H7. eapply res_bind with (QD := SP sf); [apply foldO_res; [intros; by apply sc_end_sf|exact H7]|].
    intros m8 H8. cbn [res]. unfold SP, sf in *. cbn. rewrite sc_aborts_ms. exact H8.
  Qed.

  (* the work loop, while the owner stays *)
  Definition sf_inv (m : M) : Prop := stays (o_owner o) m ∧ sf (ms m).

  Lemma settle_one_sf m r : sf_inv m → settle_one m = Some r → opr sf_inv r.
  Proof.
    intros (S1 & H) E. pose proof (settle_one_stays (o_owner o) m r S1 E) as R1.
    assert (res (SP sf) never r) as R2.
    { revert E. apply (settle_one_cases (fun x => x = Some r → res (SP sf) never r)).
      - intros c sd q Eq [= <-]. apply shutdown_conn_sf; [|exact H].
        intros ->. destruct S1 as [_ Hq]. apply (Hq sd). rewrite Eq. left.
      - intros c s e q _ _ [= <-]. by apply notify_item_sp.
      - intros c s q _ _ [= <-]. by apply notify_item_sp.
      - intros c s q _ _ [= <-]. by apply notify_item_sp.
      - intros serial c result q _ _ [= <-]. apply rm_call_item_sp; [|exact H]. intros; assumption.
      - intros ev m' _ Hm' _ _ [= <-]. apply bus_sp. by rewrite Hm'.
      - intros b callee q _ _ [= <-]. apply abort_call_sp; [| |exact H]; intros; assumption.
      - discriminate. }
    unfold sf_inv. destruct r; cbn in *; [by split|done..].
  Qed.

  Lemma settle_sf fuel : ∀ m, sf_inv m → opr sf_inv (settle fuel m).
  Proof.
    induction fuel as [|fuel IH]; intros m H; rewrite settle_unfold;
      (destruct (settle_one m) as [r|] eqn:E; [|exact H]);
      pose proof (settle_one_sf m r H E) as Hres; destruct r as [m'|m'|]; cbn in Hres |- *; trivial;
      apply IH; assumption.
  Qed.

  (* ---------------------------------------------------------------- the handlers of another connection *)
  Ltac sf_call :=
    first [ apply res_never, remove_end_sf; cbn; sf_leaf ].

  Lemma create_service_impl_sf m c serial oc u i fresh :
    sf (ms m) → fresh ≠ ck → res (SP sf) (SP sf) (create_service_impl m c serial oc u i fresh).
  Proof.
    intros H Hf. unfold create_service_impl. wp sf_leaf idtac. prep.
    unfold sf in *. cbn. apply sf_svc_insert; [exact H| |cbn; congruence].
    intros Hk. destruct H as (_ & (sv & H2 & _) & _). rewrite <- Hk in H2. congruence.
  Qed.

  Lemma call_impl_sf m c serial sc fn ver v bserial :
    sf (ms m) → res (SP sf) (SP sf) (call_impl m c serial sc fn ver v bserial).
  Proof.
    intros H. unfold call_impl. wp sf_leaf idtac; prep; unfold sf in *; cbn in *; eapply sf_svc_update; eauto.
  Qed.

  Lemma handle_sf m c x fresh bserial :
    sf (ms m) → c ≠ o_owner o → fresh ≠ ck → fresh ≠ o_cookie o →
    res (SP sf) (SP sf) (handle m c x fresh bserial).
  Proof.
    intros H Hc Hf1 Hf2. unfold handle. destruct (conns (ms m) !! c) as [cs|] eqn:Ecn; [|exact H].
    destruct x; try exact H;
      wp sf_leaf ltac:(first [ apply create_service_impl_sf; [cbn; sf_leaf|assumption]
                             | apply call_impl_sf; cbn; sf_leaf | sf_call ]).
    all: prep.
    all: try (unfold sf in *; cbn in *; eapply sf_svc_update; eauto; fail).
    all: try (apply remove_listener_sf; exact H).
    - (* CreateObject *)
      unfold sf in *. cbn. apply sf_obj_insert; [exact H| |cbn; congruence].
      intros ->. destruct H as (H1 & _). congruence.
    - (* DestroyObject: the sender owns the object it destroys *)
      apply res_never, remove_object_sf; [exact H|]. intros Hco.
      assert (o0 = o) by (eapply (sf_obj_cookie _ _ u); [exact H|exact Heqo0|congruence]). congruence.
    - (* DestroyService: the sender owns the object of the service it destroys *)
      apply res_never, remove_service_sf; [exact H|]. intros Hco.
      assert (p0 = k) as -> by (eapply sf_svc_cookie; [exact H|exact Heqo0|congruence]).
      unfold owner_of_svc in Heqo1. destruct H as (H1 & _). rewrite H1 in Heqo1. cbn in Heqo1. congruence.
  Qed.
End SvcFrame.
