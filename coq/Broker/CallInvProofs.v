(* Broker/CallInvProofs.v — C02 for reachable states: the invariant facts that CallProofs.v takes
   as hypotheses are discharged from [Inv] (Broker/Inv.v, InvProofsStep.v: [reachable_inv],
   [inv_step]), and the resolving events without an exact equation (destruction of the service or
   its object, removal of the owner) are connected to the counting theorems: a pending call whose
   record the broker has dropped in a step was answered exactly once in that step. *)
From stdpp Require Import gmap list.
From RecordUpdate Require Import RecordSet.
Import RecordSetNotations.
From Aldrin Require Import gen.BrokerConsts Broker.Model Broker.Run Broker.OutKinds Broker.EventProofs
  Broker.CallProofs Broker.Inv Broker.InvProofsStep.
From Coq Require Import Lia.
Local Open Scope N_scope.

Lemma Inv_calls_consistent s : Inv s -> calls_consistent s.
Proof.
  intros H c cs serial b callee Hc Hser.
  destruct (iv_ec _ _ _ _ _ H c cs serial b callee Hc Hser) as [Hl|(_ & r & Hr)]; [exact Hl|].
  apply elem_of_nil in Hr. contradiction.
Qed.

Lemma Inv_calls_backlinked s : Inv s -> calls_backlinked s.
Proof.
  intros H b cl Hcl. split.
  - exact (iv_cs _ _ _ _ _ H b cl Hcl).
  - intros Hab ccs Hcc. exact (iv_ce _ _ _ _ _ H b cl ccs Hcl Hab Hcc).
Qed.

(* ---------------------------------------------------------------- generic lifting to the work loop *)
Lemma settle_lift (P : M -> Prop) :
  (forall m r, P m -> settle_one m = Some r -> oprop P r) -> forall fuel m, P m -> oprop P (settle fuel m).
Proof.
  intros Hone. induction fuel as [|fuel IH]; intros m H; cbn [settle];
    destruct (settle_one m) as [r|] eqn:E; try exact H;
    pose proof (Hone m r H E) as Hr; destruct r; cbn in Hr |- *; trivial; apply IH; assumption.
Qed.

(* ---------------------------------------------------------------- a pending entry never changes *)
(* outside the step that handles c0's own call with serial s0, the entry of s0 in c0's pending
   map can only disappear: if it is there afterwards it is the one that was there before *)
Definition ES (c0 : conn) (s0 : N) (p0 : N * conn) (m : M) : Prop :=
  forall cs p, conns (ms m) !! c0 = Some cs -> cs_calls cs !! s0 = Some p -> p = p0.

Lemma ES_delete c0 s0 p0 m c m' : conns (ms m') = delete c (conns (ms m)) -> ES c0 s0 p0 m -> ES c0 s0 p0 m'.
Proof.
  unfold ES. intros Hs H cs p. rewrite Hs. destruct (decide (c0 = c)) as [->|Hne].
  - rewrite lookup_delete. discriminate.
  - rewrite lookup_delete_ne by congruence. apply H.
Qed.

Lemma ES_reply c0 s0 p0 m c cs serial m' :
  conns (ms m) !! c = Some cs ->
  conns (ms m') = <[c := cs <| cs_calls ::= delete serial |>]> (conns (ms m)) -> ES c0 s0 p0 m -> ES c0 s0 p0 m'.
Proof.
  unfold ES. intros Hc Hs H cs' p. rewrite Hs. destruct (decide (c = c0)) as [->|Hne].
  - rewrite lookup_insert. intros [= <-]. cbn. intros Hp. apply lookup_delete_Some in Hp as [_ Hp]. eapply H; eassumption.
  - rewrite lookup_insert_ne by congruence. apply H.
Qed.

Lemma ES_call_insert c0 s0 p0 m c cs serial p1 m' :
  conns (ms m) !! c = Some cs -> ~ (c = c0 /\ serial = s0) ->
  conns (ms m') = <[c := cs <| cs_calls ::= <[serial := p1]> |>]> (conns (ms m)) -> ES c0 s0 p0 m -> ES c0 s0 p0 m'.
Proof.
  unfold ES. intros Hc Hne Hs H cs' p. rewrite Hs. destruct (decide (c = c0)) as [->|Hnc].
  - rewrite lookup_insert. intros [= <-]. cbn. rewrite lookup_insert_ne; [apply H; exact Hc|].
    intros ->. apply Hne. auto.
  - rewrite lookup_insert_ne by congruence. apply H.
Qed.

Ltac leaf_es :=
  idtac;
  first
    [ match goal with H : ES ?c ?s ?p ?m |- ES ?c ?s ?p _ => exact H end
    | match goal with |- ES ?c ?s ?p (set mo _ ?x) => change (ES c s p x); leaf_es end
    | match goal with |- ES ?c ?s ?p (push_remove ?x _ _) => change (ES c s p x); leaf_es end
    | match goal with |- ES ?c ?s ?p (set _ _ ?x) => eapply (ES_reply c s p x); [eassumption|reflexivity|leaf_es] end
    | match goal with |- ?P (set _ _ ?x) => change (P x) end ].

Section ESTraversal.
  Context (c0 : conn) (s0 : N) (p0 : N * conn).
  Local Notation P := (ES c0 s0 p0).

  Lemma remove_end_es m k e : P m -> oprop P (remove_end m k e).
  Proof. intros H. unfold remove_end. repeat prop_step leaf_es. Qed.
  Lemma remove_service_es m k : P m -> oprop P (remove_service m k).
  Proof. intros H. unfold remove_service. repeat prop_step leaf_es. Qed.
  Lemma remove_object_es m k : P m -> oprop P (remove_object m k).
  Proof.
    intros H. unfold remove_object.
    repeat first [ match goal with |- oprop _ (remove_service _ _) => apply remove_service_es end
                 | prop_step leaf_es ]; assumption.
  Qed.
  Lemma remove_listener_es m k : P m -> P (remove_listener m k).
  Proof. intros H. unfold remove_listener. destruct (listeners (ms m) !! k); exact H. Qed.
  Lemma bus_es m ev : P m -> oprop P (bus m ev).
  Proof. intros H. unfold bus. repeat prop_step leaf_es. Qed.
  Lemma abort_call_es m b callee : P m -> oprop P (abort_call m b callee).
  Proof. intros H. unfold abort_call. repeat prop_step leaf_es. Qed.

  Lemma shutdown_conn_es m c sd : P m -> oprop P (shutdown_conn m c sd).
  Proof.
    intros H. unfold shutdown_conn. destruct (conns (ms m) !! c) as [cs|] eqn:Hc; [|exact H].
    set (m1 := if sd && cs_alive cs then _ else _).
    assert (H1 : P m1).
    { assert (H0 : P (m <| ms; conns ::= delete c |>)) by (eapply ES_delete; [|exact H]; reflexivity).
      subst m1. destruct (sd && cs_alive cs); exact H0. }
    clearbody m1.
    repeat first
      [ match goal with
        | |- oprop _ (remove_object _ _) => apply remove_object_es
        | |- oprop _ (remove_end _ _ _) => apply remove_end_es
        | |- ES _ _ _ (remove_listener _ _) => apply remove_listener_es
        end
      | prop_step leaf_es ]; assumption.
  Qed.

  Lemma settle_one_es m r : P m -> settle_one m = Some r -> oprop P r.
  Proof.
    intros H. unfold settle_one.
    repeat match goal with
           | |- match ?l with [] => _ | _ :: _ => _ end = Some _ -> _ => destruct l as [|? ?]
           | |- (let '(_, _) := ?p in _) = Some _ -> _ => destruct p
           end; try discriminate; intros [= <-];
      repeat first
        [ match goal with
          | |- oprop _ (shutdown_conn _ _ _) => apply shutdown_conn_es
          | |- oprop _ (abort_call _ _ _) => apply abort_call_es
          | |- oprop _ (bus _ _) => apply bus_es
          end
        | prop_step leaf_es ]; try exact H.
  Qed.
End ESTraversal.

Ltac he_step :=
  first
    [ match goal with
      | |- oprop _ (remove_object _ _) => apply remove_object_es
      | |- oprop _ (remove_service _ _) => apply remove_service_es
      | |- oprop _ (remove_end _ _ _) => apply remove_end_es
      | |- ES _ _ _ (remove_listener _ _) => apply remove_listener_es
      end
    | prop_step leaf_es ].

Lemma handle_es c0 s0 p0 m c x f b :
  (match x with CallFunction _ _ _ _ | CallFunction2 _ _ _ _ _ => False | _ => True end) ->
  ES c0 s0 p0 m -> oprop (ES c0 s0 p0) (handle m c x f b).
Proof.
  intros Hx H. unfold handle. destruct (conns (ms m) !! c) as [cs|] eqn:Hc; [|exact H].
  destruct x; try contradiction; clear Hx;
    unfold gate, ver_of, create_service_impl; cbv zeta beta; try (rewrite Hc; cbn [fmap option_fmap option_map]);
    try (solve [repeat he_step; try assumption]).
  match goal with |- context [chans (ms m) !! ?k] => destruct (chans (ms m) !! k) as [ch|] end;
    [|repeat he_step; assumption].
  match goal with |- context [chan_claim ch c ?e] => destruct (chan_claim ch c e) as [r|ch' other r|site] end;
    [repeat he_step; assumption| |exact I].
  match goal with |- context [send ?mm c ?x None] => destruct (send mm c x None) as [m2|m2|] eqn:Es end; [| |exact I].
  - apply send_Done in Es as [-> _]. repeat he_step; assumption.
  - apply send_Fail in Es as [-> _]. apply oprop_refail. repeat he_step; assumption.
Qed.

Lemma call_impl_es c0 s0 p0 m c serial sc fn fver v bs :
  ~ (c = c0 /\ serial = s0) -> ES c0 s0 p0 m -> oprop (ES c0 s0 p0) (call_impl m c serial sc fn fver v bs).
Proof.
  intros Hne H. unfold call_impl.
  destruct (svc_by_cookie (ms m) sc) as [[k sv]|].
  - destruct (owner_of_svc (ms m) k) as [callee|]; [|exact I].
    destruct (conns (ms m) !! c) as [cs|] eqn:Hc; [|exact H].
    destruct (pick_serial (ms m) bs) as [[b nxt]|]; [|exact I].
    destruct (bool_decide (is_Some (cs_calls cs !! serial))); [exact H|].
    cbn [ms set]. destruct (svcs _ !! k) as [sv'|]; [|exact I].
    destruct (conns _ !! callee) as [ccs|]; [|exact I].
    match goal with |- context [send_or_remove ?mm _ _ _] => assert (H1 : ES c0 s0 p0 mm) end.
    { eapply (ES_call_insert c0 s0 p0 m c cs serial); [exact Hc|exact Hne|reflexivity|exact H]. }
    destruct (MIN_CALL_FUNCTION2_OUT <=? cs_ver ccs); apply oprop_send_or_remove; exact H1.
  - apply oprop_send; exact H.
Qed.

Lemma handle_es_all c0 s0 p0 m c x f bs :
  ~ is_own_call (Message c x) c0 s0 -> ES c0 s0 p0 m -> oprop (ES c0 s0 p0) (handle m c x f bs).
Proof.
  intros Hne H.
  assert (Hcase : (match x with CallFunction _ _ _ _ | CallFunction2 _ _ _ _ _ => True | _ => False end) \/
                  (match x with CallFunction _ _ _ _ | CallFunction2 _ _ _ _ _ => False | _ => True end))
    by (destruct x; auto).
  destruct Hcase as [Hcall|Hother]; [|apply handle_es; assumption].
  unfold handle. destruct (conns (ms m) !! c) as [cs|] eqn:Hc; [|exact H].
  destruct x; try contradiction; cbn [is_own_call] in Hne.
  - apply call_impl_es; assumption.
  - unfold gate, ver_of. rewrite Hc. cbn [fmap option_fmap option_map].
    destruct (cs_ver cs <? MIN_CALL_FUNCTION2); [exact H|]. apply call_impl_es; assumption.
Qed.

Theorem entry_stable s e f bs s' o c0 s0 cs0 p0 cs' p :
  step s e f bs = Done (s', o) -> ~ is_own_call e c0 s0 ->
  conns s !! c0 = Some cs0 -> cs_calls cs0 !! s0 = Some p0 ->
  conns s' !! c0 = Some cs' -> cs_calls cs' !! s0 = Some p -> p = p0.
Proof.
  intros Hstep Hne Hc0 Hp0 Hc' Hp'. apply step_Done in Hstep as (m & m' & Hh & Hs & -> & _).
  assert (Hinit : ES c0 s0 p0 (m_init s)).
  { intros cs p1 H1 H2. cbn in H1. congruence. }
  assert (Hpost : ES c0 s0 p0 m).
  { destruct e; cbn [step_handler] in Hh; fold (m_init s) in Hh.
    - destruct (conns s !! c) eqn:Hc; [discriminate|]. injection Hh as <-.
      intros cs p1. cbn. destruct (decide (c0 = c)) as [->|Hnc]; [congruence|].
      rewrite lookup_insert_ne by congruence. intros H1 H2. congruence.
    - injection Hh as <-. exact Hinit.
    - pose proof (handle_es_all c0 s0 p0 (m_init s) c m0 f bs Hne Hinit) as Hp.
      destruct (handle (m_init s) c m0 f bs) as [m1|m1|]; try discriminate; injection Hh as <-; exact Hp.
    - injection Hh as <-.
      change (ES c0 s0 p0 (foldr (fun (p : conn * cstate) (m : M) => push_remove m p.1 true) (m_init s) (map_to_list (conns s)))).
      apply (prop_foldr (ES c0 s0 p0)); [|exact Hinit]. intros x a Hx. exact Hx.
    - injection Hh as <-. exact Hinit.
    - injection Hh as <-. exact Hinit.
    - injection Hh as <-. destruct (conns s !! c) as [cs|] eqn:Hc; [|exact Hinit].
      intros cs1 p1. cbn. destruct (decide (c0 = c)) as [->|Hnc].
      + rewrite lookup_insert. intros [= <-]. cbn. congruence.
      + rewrite lookup_insert_ne by congruence. intros H1 H2. congruence. }
  pose proof (settle_lift (ES c0 s0 p0) (settle_one_es c0 s0 p0) (fuel_for m) m Hpost) as Hsp.
  destruct Hs as [Hs|Hs]; rewrite Hs in Hsp; exact (Hsp cs' p Hc' Hp').
Qed.

(* ---------------------------------------------------------------- dropped record => answered once *)
(* reachable states, legal input: a call of c0 that is pending before the step and whose record
   the broker no longer has after it — because the owner answered, the caller aborted... no:
   an abort keeps the record; because the owner answered, or the service, its object or its owner
   went away — was answered exactly once in this step, provided c0 is still connected with a
   working receiver *)
Theorem forgotten_exactly_once s i s' o c0 s0 cs0 b callee :
  Inv s -> legal s i -> step s (i_ev i) (i_fresh i) (i_bserial i) = Done (s', o) ->
  ~ is_own_call (i_ev i) c0 s0 ->
  conns s !! c0 = Some cs0 -> cs_calls cs0 !! s0 = Some (b, callee) ->
  alive s' c0 = true -> calls s' !! b = None ->
  nrep c0 s0 o = 1%nat.
Proof.
  intros Hinv Hleg Hstep Hne Hc0 Hp0 Halive Hgone.
  pose proof (reply_conservation _ _ _ _ _ _ c0 s0 Hstep Hne Halive) as Hcons.
  assert (H1 : pend c0 s0 s = 1%nat).
  { unfold pend. rewrite Hc0. rewrite bool_decide_eq_true_2; [reflexivity|]. rewrite Hp0. eauto. }
  assert (H0 : pend c0 s0 s' = 0%nat).
  { unfold pend. destruct (conns s' !! c0) as [cs'|] eqn:Hc'; [|reflexivity].
    destruct (cs_calls cs' !! s0) as [p|] eqn:Hp'.
    - exfalso. pose proof (entry_stable _ _ _ _ _ _ c0 s0 cs0 (b, callee) cs' p Hstep Hne Hc0 Hp0 Hc' Hp') as ->.
      pose proof (Inv_calls_consistent s' (inv_step s i s' o Hinv Hleg Hstep)) as Hcc.
      destruct (Hcc c0 cs' s0 b callee Hc' Hp') as (cl & Hcl & _). congruence.
    - rewrite bool_decide_eq_false_2; [reflexivity|]. intros [? ?]. discriminate. }
  lia.
Qed.

(* ---------------------------------------------------------------- a call record keeps its service *)
Definition CS (b : N) (k : uuid * uuid) (m : M) : Prop :=
  forall cl, calls (ms m) !! b = Some cl -> c_svc cl = k.

Lemma CS_delete b k m b1 m' : calls (ms m') = delete b1 (calls (ms m)) -> CS b k m -> CS b k m'.
Proof.
  unfold CS. intros Hs H cl. rewrite Hs. destruct (decide (b = b1)) as [->|Hne].
  - rewrite lookup_delete. discriminate.
  - rewrite lookup_delete_ne by congruence. apply H.
Qed.

Lemma CS_abort b k m b1 cl1 m' :
  calls (ms m) !! b1 = Some cl1 -> calls (ms m') = <[b1 := cl1 <| c_aborted := true |>]> (calls (ms m)) ->
  CS b k m -> CS b k m'.
Proof.
  unfold CS. intros Hc Hs H cl. rewrite Hs. destruct (decide (b1 = b)) as [->|Hne].
  - rewrite lookup_insert. intros [= <-]. cbn. apply H. exact Hc.
  - rewrite lookup_insert_ne by congruence. apply H.
Qed.

Lemma CS_insert_other b k m b1 cl1 m' :
  b1 <> b -> calls (ms m') = <[b1 := cl1]> (calls (ms m)) -> CS b k m -> CS b k m'.
Proof. unfold CS. intros Hne Hs H cl. rewrite Hs, lookup_insert_ne by exact Hne. apply H. Qed.

Ltac leaf_cs :=
  idtac;
  first
    [ match goal with H : CS ?b ?k ?m |- CS ?b ?k _ => exact H end
    | match goal with |- CS ?b ?k (set mo _ ?x) => change (CS b k x); leaf_cs end
    | match goal with |- CS ?b ?k (push_remove ?x _ _) => change (CS b k x); leaf_cs end
    | match goal with |- CS ?b ?k (set _ _ ?x) => eapply (CS_abort b k x); [eassumption|reflexivity|leaf_cs] end
    | match goal with |- CS ?b ?k (set _ _ ?x) => eapply (CS_delete b k x); [reflexivity|leaf_cs] end
    | match goal with |- ?P (set _ _ ?x) => change (P x) end ].

Section CSTraversal.
  Context (b : N) (k : uuid * uuid).
  Local Notation P := (CS b k).

  Lemma remove_end_cs m c e : P m -> oprop P (remove_end m c e).
  Proof. intros H. unfold remove_end. repeat prop_step leaf_cs. Qed.
  Lemma remove_service_cs m c : P m -> oprop P (remove_service m c).
  Proof. intros H. unfold remove_service. repeat prop_step leaf_cs. Qed.
  Lemma remove_object_cs m c : P m -> oprop P (remove_object m c).
  Proof.
    intros H. unfold remove_object.
    repeat first [ match goal with |- oprop _ (remove_service _ _) => apply remove_service_cs end
                 | prop_step leaf_cs ]; assumption.
  Qed.
  Lemma remove_listener_cs m c : P m -> P (remove_listener m c).
  Proof. intros H. unfold remove_listener. destruct (listeners (ms m) !! c); exact H. Qed.
  Lemma bus_cs m ev : P m -> oprop P (bus m ev).
  Proof. intros H. unfold bus. repeat prop_step leaf_cs. Qed.
  Lemma abort_call_cs m b1 callee : P m -> oprop P (abort_call m b1 callee).
  Proof. intros H. unfold abort_call. repeat prop_step leaf_cs. Qed.

  Lemma shutdown_conn_cs m c sd : P m -> oprop P (shutdown_conn m c sd).
  Proof.
    intros H. unfold shutdown_conn. destruct (conns (ms m) !! c) as [cs|] eqn:Hc; [|exact H].
    set (m1 := if sd && cs_alive cs then _ else _).
    assert (H1 : P m1) by (subst m1; destruct (sd && cs_alive cs); exact H).
    clearbody m1.
    repeat first
      [ match goal with
        | |- oprop _ (remove_object _ _) => apply remove_object_cs
        | |- oprop _ (remove_end _ _ _) => apply remove_end_cs
        | |- CS _ _ (remove_listener _ _) => apply remove_listener_cs
        end
      | prop_step leaf_cs ]; assumption.
  Qed.

  Lemma settle_one_cs m r : P m -> settle_one m = Some r -> oprop P r.
  Proof.
    intros H. unfold settle_one.
    repeat match goal with
           | |- match ?l with [] => _ | _ :: _ => _ end = Some _ -> _ => destruct l as [|? ?]
           | |- (let '(_, _) := ?p in _) = Some _ -> _ => destruct p
           end; try discriminate; intros [= <-];
      repeat first
        [ match goal with
          | |- oprop _ (shutdown_conn _ _ _) => apply shutdown_conn_cs
          | |- oprop _ (abort_call _ _ _) => apply abort_call_cs
          | |- oprop _ (bus _ _) => apply bus_cs
          end
        | prop_step leaf_cs ]; try exact H.
  Qed.
End CSTraversal.

Ltac hs_step :=
  first
    [ match goal with
      | |- oprop _ (remove_object _ _) => apply remove_object_cs
      | |- oprop _ (remove_service _ _) => apply remove_service_cs
      | |- oprop _ (remove_end _ _ _) => apply remove_end_cs
      | |- CS _ _ (remove_listener _ _) => apply remove_listener_cs
      end
    | prop_step leaf_cs ].

Lemma handle_cs b k m c x f bs :
  (match x with CallFunction _ _ _ _ | CallFunction2 _ _ _ _ _ => False | _ => True end) ->
  CS b k m -> oprop (CS b k) (handle m c x f bs).
Proof.
  intros Hx H. unfold handle. destruct (conns (ms m) !! c) as [cs|] eqn:Hc; [|exact H].
  destruct x; try contradiction; clear Hx;
    unfold gate, ver_of, create_service_impl; cbv zeta beta; try (rewrite Hc; cbn [fmap option_fmap option_map]);
    try (solve [repeat hs_step; try assumption]).
  match goal with |- context [chans (ms m) !! ?k] => destruct (chans (ms m) !! k) as [ch|] end;
    [|repeat hs_step; assumption].
  match goal with |- context [chan_claim ch c ?e] => destruct (chan_claim ch c e) as [r|ch' other r|site] end;
    [repeat hs_step; assumption| |exact I].
  match goal with |- context [send ?mm c ?x None] => destruct (send mm c x None) as [m2|m2|] eqn:Es end; [| |exact I].
  - apply send_Done in Es as [-> _]. repeat hs_step; assumption.
  - apply send_Fail in Es as [-> _]. apply oprop_refail. repeat hs_step; assumption.
Qed.

(* a new call gets a broker serial different from b, when b is in use *)
Lemma call_impl_cs b k m c serial sc fn fver v bs :
  (forall b1 nxt, pick_serial (ms m) bs = Some (b1, nxt) -> b1 <> b) ->
  CS b k m -> oprop (CS b k) (call_impl m c serial sc fn fver v bs).
Proof.
  intros Hpick H. unfold call_impl.
  destruct (svc_by_cookie (ms m) sc) as [[k1 sv]|].
  - destruct (owner_of_svc (ms m) k1) as [callee|]; [|exact I].
    destruct (conns (ms m) !! c) as [cs|] eqn:Hc; [|exact H].
    destruct (pick_serial (ms m) bs) as [[b1 nxt]|] eqn:Hp; [|exact I].
    destruct (bool_decide (is_Some (cs_calls cs !! serial))); [exact H|].
    cbn [ms set]. destruct (svcs _ !! k1) as [sv'|]; [|exact I].
    destruct (conns _ !! callee) as [ccs|]; [|exact I].
    match goal with |- context [send_or_remove ?mm _ _ _] => assert (H1 : CS b k mm) end.
    { eapply (CS_insert_other b k m b1); [exact (Hpick b1 nxt eq_refl)|reflexivity|exact H]. }
    destruct (MIN_CALL_FUNCTION2_OUT <=? cs_ver ccs); apply oprop_send_or_remove; exact H1.
  - apply oprop_send; exact H.
Qed.

Lemma handle_cs_all b k m c x f bs :
  (forall b1 nxt, pick_serial (ms m) bs = Some (b1, nxt) -> b1 <> b) ->
  CS b k m -> oprop (CS b k) (handle m c x f bs).
Proof.
  intros Hpick H.
  assert (Hcase : (match x with CallFunction _ _ _ _ | CallFunction2 _ _ _ _ _ => True | _ => False end) \/
                  (match x with CallFunction _ _ _ _ | CallFunction2 _ _ _ _ _ => False | _ => True end))
    by (destruct x; auto).
  destruct Hcase as [Hcall|Hother]; [|apply handle_cs; assumption].
  unfold handle. destruct (conns (ms m) !! c) as [cs|] eqn:Hc; [|exact H].
  destruct x; try contradiction.
  - apply call_impl_cs; assumption.
  - unfold gate, ver_of. rewrite Hc. cbn [fmap option_fmap option_map].
    destruct (cs_ver cs <? MIN_CALL_FUNCTION2); [exact H|]. apply call_impl_cs; assumption.
Qed.

Theorem call_record_stable s i s' o b cl cl' :
  Inv s -> legal s i -> step s (i_ev i) (i_fresh i) (i_bserial i) = Done (s', o) ->
  calls s !! b = Some cl -> calls s' !! b = Some cl' -> c_svc cl' = c_svc cl.
Proof.
  intros Hinv Hleg Hstep Hcl Hcl'. apply step_Done in Hstep as (m & m' & Hh & Hs & -> & _).
  assert (Hinit : CS b (c_svc cl) (m_init s)) by (intros cl1 H1; cbn in H1; congruence).
  assert (Hpick : forall b1 nxt, pick_serial s (i_bserial i) = Some (b1, nxt) -> b1 <> b).
  { intros b1 nxt Hp ->.
    destruct (pick_serial_legal s i (proj1 (iv_cb _ _ _ _ _ Hinv)) Hleg) as (b0 & nxt0 & Hp0 & _ & Hv & _).
    rewrite Hp0 in Hp. injection Hp as -> _. congruence. }
  assert (Hpost : CS b (c_svc cl) m).
  { destruct (i_ev i) as [c ver|c|c x| | |c|c]; cbn [step_handler] in Hh; fold (m_init s) in Hh.
    - destruct (conns s !! c); [discriminate|]. injection Hh as <-. exact Hinit.
    - injection Hh as <-. exact Hinit.
    - pose proof (handle_cs_all b (c_svc cl) (m_init s) c x (i_fresh i) (i_bserial i) Hpick Hinit) as Hp.
      destruct (handle (m_init s) c x (i_fresh i) (i_bserial i)) as [m1|m1|]; try discriminate; injection Hh as <-; exact Hp.
    - injection Hh as <-.
      change (CS b (c_svc cl) (foldr (fun (p : conn * cstate) (m : M) => push_remove m p.1 true) (m_init s) (map_to_list (conns s)))).
      apply (prop_foldr (CS b (c_svc cl))); [|exact Hinit]. intros x a Hx. exact Hx.
    - injection Hh as <-. exact Hinit.
    - injection Hh as <-. exact Hinit.
    - injection Hh as <-. destruct (conns s !! c); exact Hinit. }
  pose proof (settle_lift (CS b (c_svc cl)) (settle_one_cs b (c_svc cl)) (fuel_for m) m Hpost) as Hsp.
  destruct Hs as [Hs|Hs]; rewrite Hs in Hsp; exact (Hsp cl' Hcl').
Qed.

(* if the called service does not exist after the step, neither does the call's record *)
Theorem service_gone_call_gone s i s' o b cl :
  Inv s -> legal s i -> step s (i_ev i) (i_fresh i) (i_bserial i) = Done (s', o) ->
  calls s !! b = Some cl -> svcs s' !! c_svc cl = None -> calls s' !! b = None.
Proof.
  intros Hinv Hleg Hstep Hcl Hgone. destruct (calls s' !! b) as [cl'|] eqn:Hcl'; [|reflexivity]. exfalso.
  pose proof (call_record_stable s i s' o b cl cl' Hinv Hleg Hstep Hcl Hcl') as Hk.
  pose proof (inv_step s i s' o Hinv Hleg Hstep) as Hinv'.
  destruct (iv_cs _ _ _ _ _ Hinv' b cl' Hcl') as (sv & Hsv & _). congruence.
Qed.

(* C02_resolved, destruction: the called service (hence also: its object, or the owner's
   connection) is gone after the step => the caller got exactly one reply with its serial *)
Theorem destroyed_exactly_once s i s' o c0 s0 cs0 b callee cl :
  Inv s -> legal s i -> step s (i_ev i) (i_fresh i) (i_bserial i) = Done (s', o) ->
  ~ is_own_call (i_ev i) c0 s0 ->
  conns s !! c0 = Some cs0 -> cs_calls cs0 !! s0 = Some (b, callee) -> calls s !! b = Some cl ->
  alive s' c0 = true -> svcs s' !! c_svc cl = None ->
  nrep c0 s0 o = 1%nat.
Proof.
  intros Hinv Hleg Hstep Hne Hc0 Hp0 Hcl Halive Hgone.
  eapply forgotten_exactly_once; try eassumption.
  eapply service_gone_call_gone; eassumption.
Qed.

(* the invariant facts of CallProofs.v hold in every reachable state *)
Theorem reachable_calls_facts s : reachable s -> calls_consistent s /\ calls_backlinked s.
Proof.
  intros H. apply reachable_inv in H. split; [apply Inv_calls_consistent|apply Inv_calls_backlinked]; exact H.
Qed.

(* ---------------------------------------------------------------- the same for reachable states *)
Theorem destroyed_exactly_once_reach s i s' o c0 s0 cs0 b callee cl :
  reachable s -> legal s i -> step s (i_ev i) (i_fresh i) (i_bserial i) = Done (s', o) ->
  ~ is_own_call (i_ev i) c0 s0 ->
  conns s !! c0 = Some cs0 -> cs_calls cs0 !! s0 = Some (b, callee) -> calls s !! b = Some cl ->
  alive s' c0 = true -> svcs s' !! c_svc cl = None ->
  nrep c0 s0 o = 1%nat.
Proof. intros H. apply destroyed_exactly_once. apply reachable_inv. exact H. Qed.

Theorem forgotten_exactly_once_reach s i s' o c0 s0 cs0 b callee :
  reachable s -> legal s i -> step s (i_ev i) (i_fresh i) (i_bserial i) = Done (s', o) ->
  ~ is_own_call (i_ev i) c0 s0 ->
  conns s !! c0 = Some cs0 -> cs_calls cs0 !! s0 = Some (b, callee) ->
  alive s' c0 = true -> calls s' !! b = None ->
  nrep c0 s0 o = 1%nat.
Proof. intros H. apply forgotten_exactly_once. apply reachable_inv. exact H. Qed.

(* a pending entry of a reachable state has its call record *)
Theorem pending_has_record s c cs serial b callee :
  reachable s -> conns s !! c = Some cs -> cs_calls cs !! serial = Some (b, callee) ->
  exists cl, calls s !! b = Some cl /\ c_caller cl = c /\ c_serial cl = serial /\ c_aborted cl = false.
Proof. intros H. apply (proj1 (reachable_calls_facts s H)). Qed.

Theorem reply_routed_reach s o ocs b r cl ccs f bs :
  reachable s ->
  conns s !! o = Some ocs -> calls s !! b = Some cl -> owner_of_svc s (c_svc cl) = Some o ->
  c_aborted cl = false -> conns s !! c_caller cl = Some ccs -> cs_alive ccs = true ->
  exists sv, step s (Message o (CallFunctionReply b r)) f bs =
    Done (reply_state s b cl sv ccs, [(c_caller cl, CallFunctionReply (c_serial cl) r, Some (cs_ver ocs))]).
Proof. intros H. apply reply_routed_backlinked. apply (proj2 (reachable_calls_facts s H)). Qed.

Theorem abort_reach s c cs serial b callee f bs :
  reachable s ->
  conns s !! c = Some cs -> cs_alive cs = true -> 16 <= cs_ver cs ->
  cs_calls cs !! serial = Some (b, callee) ->
  (forall ccs, conns s !! callee = Some ccs -> 16 <= cs_ver ccs -> cs_alive ccs = true) ->
  exists cl, calls s !! b = Some cl /\
    step s (Message c (AbortFunctionCall serial)) f bs =
      Done (s <| calls ::= <[b := cl <| c_aborted := true |>]> |>
              <| conns ::= <[c := cs <| cs_calls ::= delete serial |>]> |>,
            abort_notice s callee b ++ [(c, CallFunctionReply serial CRAborted, None)]).
Proof. intros H. apply abort_step_consistent. apply (proj1 (reachable_calls_facts s H)). Qed.
